void main() {
    ins_11(EclSubName.foo);
}
void foo() {
}
