"""C19 -- output is a deterministic function of the inputs (partial).

Static part: gen/hashiter.py inventories every iteration over a HashMap/HashSet/IdMap in /repo/src into
Gen/HashIter.v; Model/OrderSites.v is the audited classification site -> consumer shape; Props/C19.v proves
that the order-safe shapes are invariant under permutation of the iteration, that the others are not, and
(vm_compute) that every site of the current source is classified and order-safe unless it is a recorded defect.
Dynamic part (implementation-level oracle = the property text): every input x N fresh process launches of
harness/target/debug/truth-cli; exit codes, stdout, stderr and output files compared byte for byte."""
import os, sys, json, re, base64
from vlib import *

PROP = 'C19'
IMPORTS = 'Model.Order Corr.C19'
CORPUS_DIRS = [os.path.join(VERIF, 'corpus'), os.path.join(VERIF, 'findings', 'repro'),
               os.path.join(REPO, 'tests', 'integration', 'bits-2-bits'), os.path.join(REPO, 'tests', 'integration', 'resources')]


def parse_sites():
    """the site list of Gen/HashIter.v, in order"""
    p = os.path.join(COQ, 'theories', 'Gen', 'HashIter.v')
    try:
        txt = open(p).read()
    except OSError:
        return []
    out = []
    for m in re.finditer(r'\(\* line (\d+); names: (.*?) \*\)\s*\n\s*mk_site "((?:[^"]|"")*)" "((?:[^"]|"")*)" "((?:[^"]|"")*)" "((?:[^"]|"")*)" (\d+) "(\w*)" "(\w*)" "(\w*)"', txt):
        out.append({'line': int(m.group(1)), 'names': m.group(2), 'file': m.group(3), 'fn': m.group(4), 'kind': m.group(5),
                    'header': m.group(6).replace('""', '"'), 'ord': int(m.group(7)), 'decl': m.group(8), 'stmt': m.group(9), 'fnd': m.group(10)})
    return out


def classify_in_coq():
    """[(shape, tag)] for Gen.HashIter.sites, computed by vm_compute from the audited table"""
    os.makedirs(os.path.join(WORK, 'C19'), exist_ok=True)
    path = os.path.join(WORK, 'C19', 'classify.v')
    with open(path, 'w') as f:
        f.write('From Coq Require Import String List.\nFrom TV Require Import Model.Order Model.OrderSites Gen.HashIter.\n')
        f.write('Goal True. let r := eval vm_compute in (map (fun s => (classification s, tag_of s)) sites) in idtac "@@CLASS" r. exact I. Qed.\n')
    rc, o = sh(['coqc', '-noglob', '-Q', os.path.join(COQ, 'theories'), 'TV', path], timeout=300, cwd=os.path.join(WORK, 'C19'))
    if rc != 0 or '@@CLASS' not in o:
        return None, o[-600:]
    body = o.split('@@CLASS', 1)[1]
    return [(m.group(1), m.group(2)) for m in re.finditer(r'\(\s*(\w+)\s*,\s*"((?:[^"]|"")*)"\s*\)', body)], ''


def input_blob(d):
    """the files of an input directory, for a replay file"""
    files = {}
    try:
        for n in sorted(os.listdir(d)):
            p = os.path.join(d, n)
            if not os.path.isfile(p) or n.startswith('launch_') or n.startswith('out') or n in ('dbg.json', 'dec.spec'):
                continue
            b = open(p, 'rb').read()
            if len(b) > 300000: continue
            try:
                files[n] = {'text': b.decode('utf-8')}
            except UnicodeDecodeError:
                files[n] = {'base64': base64.b64encode(b).decode()}
    except OSError:
        pass
    return files


def read_text(p, limit=6000):
    try:
        return open(p, 'rb').read().decode('utf-8', 'replace')[:limit]
    except OSError:
        return ''


def run_harness(v, args, seed, timeout, work=None):
    env = {'VERIF_SEED': str(seed)}
    if work: env['VERIF_WORK'] = work
    rc, out = sh([harness_bin('c19')] + [str(a) for a in args], timeout=timeout, env=env)
    if rc != 0:
        v.obligation('harness c19 %s ran' % args[0], False, out[-800:])
    return [l for l in out.splitlines() if '\t' in l]


def main(argv):
    tier, seed, replay = tier_and_seed(argv)
    v = Verdict(PROP, tier, seed)
    proofs_ok, h_ok, unrec = standard_proof_steps(
        v, PROP, ['hashiter'], ['theories/Props/C19.vo'], ['c19', 'truth-cli'],
        corr_targets=['theories/Corr/C19.vo', 'theories/Model/OrderSites.vo', 'theories/Gen/HashIter.vo'])

    # ---- static: the classification of the current sites
    sites = parse_sites()
    classes, cerr = (None, 'model files do not build') if not v.corr_ok else classify_in_coq()
    unclassified, unsafe = [], []
    if classes is None or len(classes) != len(sites):
        v.obligation('site classification evaluated inside Coq', False, cerr or 'site count mismatch: %d parsed, %d classified' % (len(sites), len(classes or [])))
        classes = None
    else:
        for s, (shape, tag) in zip(sites, classes):
            s['shape'], s['tag'] = shape, tag
        unclassified = [s for s in sites if s['shape'] == 'Unclassified']
        unsafe = [s for s in sites if s['shape'] in ('EmitInIterationOrder', 'FirstErrorWins', 'MinByKeyFirstWins')]
        v.obligation('tie1: every hash-iteration site of the current source (%d sites) has an audited classification whose pinned digests still match' % len(sites),
                     not unclassified, '; '.join('%s:%d %s `%s`' % (s['file'], s['line'], s['fn'], s['header']) for s in unclassified)[:1500])
        v.obligation('C19_full (strict side condition): no site has an order-dependent consumer shape', not unsafe,
                     '; '.join('%s:%d %s `%s` = %s' % (s['file'], s['line'], s['fn'], s['header'], s['shape']) for s in unsafe)[:1500])
    unsafe_tags = set(s['tag'] for s in unsafe if s['tag'])

    # ---- dynamic: repeated launches
    lines, stats = [], ''
    if h_ok:
        if replay:
            r = json.load(open(replay))
            d = os.path.join(WORK, 'C19', 'replay')
            shutil.rmtree(d, ignore_errors=True)
            os.makedirs(d)
            for n, c in (r.get('input_files') or {}).items():
                with open(os.path.join(d, os.path.basename(n)), 'wb') as f:
                    f.write(c['text'].encode() if 'text' in c else base64.b64decode(c['base64']))
            if os.path.exists(os.path.join(d, 'steps.txt')):
                lines = run_harness(v, ['replay', d, 8 if tier == 'quick' else 64], seed, 900)
        else:
            n, per_family, budget = (8, 4, 75) if tier == 'quick' else (64, 24, 900)
            lines = run_harness(v, ['run', n, per_family, budget] + [d for d in CORPUS_DIRS if os.path.isdir(d)], seed, budget + 600)
    # a broken side condition (new / edited iteration site, proof that no longer checks): extended repetition search over the
    # generated shapes only (several definitions of one intrinsic family / opcode / name, blocks of locals, clashes, enums ...),
    # 16 launches x 8 inputs per family, other seed -- a two-way hash order then goes unseen with probability < 2^-15 per input
    site_alarm = classes is not None and any(c[0] == 'Unclassified' for c in classes)
    extended = ''
    if h_ok and not replay and (site_alarm or not proofs_ok) and not any(l.startswith('ORACLE-FAIL') for l in lines):
        n2, per2, budget2 = (16, 8, 100) if tier == 'quick' else (64, 24, 600)
        xl = run_harness(v, ['run', n2, per2, budget2], seed + 7919, budget2 + 600, work=os.path.join(WORK, 'C19x'))
        extended = ' | extended search: ' + ' '.join(l.split('\t', 1)[1] for l in xl if l.startswith('STATS'))[:600]
        lines += [l for l in xl if not l.startswith('STATS')]
    cases, kinds, meta, fails = [], [], [], []
    for l in lines:
        p = l.split('\t')
        if p[0] in ('RUN', 'PERM'):
            kinds.append(p[0]); cases.append(p[1]); meta.append((p[2], p[3]))
        elif p[0] == 'ORACLE-FAIL':
            fails.append({'what': p[1], 'tag': p[2], 'family': p[3], 'dir': p[4], 'a': p[5], 'b': p[6]})
        elif p[0] == 'STATS':
            stats = '\t'.join(p[1:])
    tag_of_dir = {}
    for d in set(m[1] for m in meta):
        try:
            for sl in open(os.path.join(d, 'steps.txt')):
                if sl.startswith('tag\t'): tag_of_dir[d] = sl.rstrip('\n').split('\t')[1] if len(sl.rstrip('\n').split('\t')) > 1 else ''
        except OSError:
            tag_of_dir[d] = ''

    def replay_of(f):
        return {'input_dir': f['dir'], 'family': f['family'], 'directed_at_site': f['tag'], 'difference': f['what'],
                'input_files': input_blob(f['dir']), 'launch_a': read_text(f['a']), 'launch_b': read_text(f['b'])}

    # (O) differences between launches
    fails_by_tag = {}
    for f in fails:
        fails_by_tag.setdefault(f['tag'], []).append(f)
    unexpected = [f for f in fails if not (f['tag'] and f['tag'] in unsafe_tags)]
    v.obligation('oracle: %d inputs x repeated fresh launches are byte-identical (inputs directed at a site that is currently classified order-dependent excepted)' % len(set(m[1] for m in meta)),
                 not unexpected, '; '.join('%s: %s' % (f['family'], f['what']) for f in unexpected)[:1000])

    # unsafe sites: each is a violation of C19 (a recorded one prints KNOWN-FINDING); the failing input is a directed input whose launches differ
    for s in unsafe:
        fs = fails_by_tag.get(s['tag'], []) if s['tag'] else []
        rp = {'class': 'c19-site:' + (s['tag'] or '%s:%s' % (s['file'], s['fn'])),
              'site': {k: s[k] for k in ('file', 'line', 'fn', 'kind', 'header', 'shape')},
              'broken': 'Props/C19.v C19_full: order_safe (classification site) = false'}
        if fs: rp.update(replay_of(fs[0]))
        v.violation('hash-map iteration with an order-dependent consumer (%s) at %s:%d %s' % (s['shape'], s['file'], s['line'], s['fn']),
                    rp, no_failing_input=not fs)
    for f in unexpected[:5]:
        rp = replay_of(f)
        rp['class'] = 'c19-diff:' + f['family']
        if unclassified:
            # the broken side condition that made the check look: sites without a (still valid) audited classification
            rp['unclassified_sites'] = ['%s:%d %s `%s`' % (s['file'], s['line'], s['fn'], s['header']) for s in unclassified[:10]]
            rp['broken'] = 'Proofs/OrderSitesOk.v all_sites_ok_bool (vm_compute over Gen.HashIter.sites)'
        v.violation('two launches of the same command on the same input differ: ' + f['what'], rp)

    # (X) correspondence, evaluated inside Coq
    if v.corr_ok and cases:
        # one evaluation returns both lists (the case list is far below one shard of 1000000)
        both, errs = coq_eval_cases(PROP, IMPORTS, 'c19case', cases, check_fn='mismatches_and_order_only', shard=1000000)
        mism = [i for i in both if i < 1000000]
        oo, oerrs = [i - 1000000 for i in both if i >= 1000000], []
        expected = [i for i in mism if kinds[i] == 'RUN' and tag_of_dir.get(meta[i][1], '') in unsafe_tags and tag_of_dir.get(meta[i][1], '')]
        bad = [i for i in mism if i not in expected]
        v.obligation('correspondence: model (all launches agree; directed inputs print a permutation of the same diagnostics) = implementation on %d cases; '
                     '%d cases differ only in the order of their diagnostics, %d differing cases belong to recorded order-dependent sites'
                     % (len(cases), len(oo), len(expected)), not bad and not errs and not oerrs,
                     ('%d mismatches; ' % len(bad)) + '; '.join(errs + oerrs)[:600] if (bad or errs or oerrs) else '')
        for i in bad[:3]:
            if kinds[i] == 'PERM':
                v.violation('launches print different SETS of diagnostics where the model of the site predicts a permutation',
                            {'class': 'c19-corr:perm', 'kind': 'PERM', 'case': cases[i][:2000], 'input_dir': meta[i][1], 'input_files': input_blob(meta[i][1]),
                             'broken': 'correspondence Corr.C19.model_of (KPerm)'}, no_failing_input=False)
            elif not any(f['dir'] == meta[i][1] for f in unexpected):
                v.violation('model/implementation disagreement on a RUN case', {'class': 'c19-corr:run', 'kind': 'RUN', 'case': cases[i][:2000],
                            'input_dir': meta[i][1], 'input_files': input_blob(meta[i][1])})

    # broken ties / proofs
    if unclassified and not v.violations:
        for s in unclassified[:5]:
            v.violation('new or changed hash-map iteration site without an audited classification: %s:%d %s `%s`' % (s['file'], s['line'], s['fn'], s['header']),
                        {'class': 'c19-unclassified:%s:%s' % (s['file'], s['fn']), 'site': {k: s[k] for k in ('file', 'line', 'fn', 'kind', 'header', 'decl', 'stmt', 'fnd', 'names')},
                         'broken': 'Proofs/OrderSitesOk.v all_sites_ok_bool (vm_compute over Gen.HashIter.sites)'}, no_failing_input=True)
    if (not proofs_ok or not v.corr_ok) and not v.violations:
        v.violation('proof obligation does not check: %s' % json.dumps(v.coq_error)[:400],
                    {'class': 'c19-proof', 'broken': v.coq_error}, no_failing_input=True)
    elif unrec and not v.violations:
        v.violation('translator failed: %s' % unrec[:3], {'class': 'c19-tie1', 'broken': unrec}, no_failing_input=True)
    elif any(not o[1] and not o[0].startswith('C19_full') for o in v.obligations) and not v.violations:
        # (a failed C19_full obligation is accounted for by the per-site violations / known findings above)
        bad = [o for o in v.obligations if not o[1] and not o[0].startswith('C19_full')]
        v.violation('obligation failed: %s' % bad[0][0], {'class': 'c19-obligation', 'broken': [list(b) for b in bad]}, no_failing_input=True)

    hist = {}
    for k in kinds: hist[k] = hist.get(k, 0) + 1
    shapes = {}
    for s in sites: shapes[s.get('shape', '?')] = shapes.get(s.get('shape', '?'), 0) + 1
    v.coverage.update({
        'evaluations': sum(int(x) for x in re.findall(r'launches=(\d+)', stats + extended)),
        'distinct_nontrivial': distinct_count([c for c, k in zip(cases, kinds) if k == 'RUN']),
        'rule': 'evaluations = process launches of truth-cli (steps x launches x inputs); an input is a directory of files and a list of command lines '
                '(compile with --output-debug-info, decompile with/without mapfiles, recompile) for truanm/trustd/trumsg/truecl; generated families with >= 2 '
                'competing entries in some hash map (register clashes, exhausted scratch registers, several mapfile enums / bad enum signatures / similar enum '
                'names, several consts, scripts, opcodes, mapfiles, errors; both forms of the decrement-jump intrinsic and duplicated intrinsics in one language with `times` loops; the same opcode / name in the ECL and timeline sections of one mapfile, with and without signature errors; blocks of two or more same-typed locals followed by further locals and temporaries) plus every input of corpus/, findings/repro and the repository test binaries; '
                'distinct = distinct digest vectors of the RUN cases',
        'traces_validated_against_impl': len(cases),
        'case_kinds': hist,
        'generator_stats': stats + extended,
        'sites': len(sites), 'site_shapes': shapes,
        'unsafe_sites': ['%s:%d %s' % (s['file'], s['line'], s['tag']) for s in unsafe],
        'samples': [{'kind': k, 'case': c[:300], 'input': mm[1]} for k, c, mm in list(zip(kinds, cases, meta))[:2] + list(zip(kinds, cases, meta))[-2:]],
        'exhaustive': False,
    })
    return v.finish(
        level='proof',
        checker_cmd='gen/hashiter.py ; cd coq && make theories/Corr/C19.vo theories/Props/C19.vo ; coqc work/audit_C19.v (Print Assumptions) ; coqc work/C19/classify.v ; '
                    'harness/target/debug/c19 run <launches> <per-family> <budget> <corpus dirs> ; coqc work/cases_C19/*.v',
        trusted_base=['gen/hashiter.py: a textual, name-based over-approximation of "iterates a hash container" (struct fields, parameters, lets, fn returns, nested '
                      'containers, iterator-returning fns, extend/chain/zip/from_iter arguments, Debug formatting); a hash container reached through a type it cannot '
                      'see (generic parameter, `let x = Default::default()` never passed to a typed parameter, a dependency) is missed',
                      'audited, not verified: Model/OrderSites.v (which consumer shape each site has) -- pinned to the source by statement/fn/declaration digests',
                      'hash seeding, the operating system and the dependencies (codespan-reporting lays out labels by position) are outside the model'],
        assumptions=['the only source of run-to-run variation is the iteration order of randomly seeded std hash containers (the tool is single-threaded)',
                     'the entries of one hash map have pairwise distinct keys; SortedByRenderer sites: the labels of one diagnostic are single-line, in one file, with pairwise distinct ranges',
                     'BugPanicMessage sites: a hash container that is Debug-printed only in the message of an internal-bug panic! is not counted (panics are C04\'s subject)',
                     'Rust panic messages are compared modulo the OS thread id they print'])
