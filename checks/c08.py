"""C08 -- printed scripts parse back to the same script at every line width."""
import os, sys, json, subprocess, time
from vlib import *

PROP = 'C08'
IMPORTS = 'Model.Fmt Model.FmtLex Model.FmtParse Spec.Fmt Corr.C08'
KINDS = ('INT', 'STR', 'EXPR', 'PARSE', 'STMT', 'META', 'FILE', 'LEX')

def run_many(v, jobs, seed):
    """run several harness invocations concurrently; returns their tab-separated lines"""
    procs = []
    env = dict(os.environ); env.update({'RUST_BACKTRACE': '0', 'VERIF_REPO': REPO, 'VERIF_WORK': WORK})
    for k, args in enumerate(jobs):
        e = dict(env); e['VERIF_SEED'] = str(seed * 1000 + k)
        procs.append((args, subprocess.Popen([harness_bin('c08')] + [str(a) for a in args], env=e, stdout=subprocess.PIPE, stderr=subprocess.STDOUT, text=True, errors='replace')))
    lines = []
    for args, p in procs:
        try:
            out, _ = p.communicate(timeout=1500)
        except subprocess.TimeoutExpired:
            p.kill(); out = '[timeout]'
        if p.returncode != 0:
            v.obligation('harness c08 %s ran' % args[0], False, out[-800:])
        lines += [(args[0], l) for l in out.splitlines() if '\t' in l]
    return lines

def sample_binaries():
    d = os.path.join(REPO, 'tests', 'integration', 'bits-2-bits')
    return sorted(f for ext in ('anm', 'std', 'msg') for f in glob.glob(os.path.join(d, '*.' + ext)))

def main(argv):
    tier, seed, replay = tier_and_seed(argv)
    v = Verdict(PROP, tier, seed)
    proofs_ok, h_ok, unrec = standard_proof_steps(
        v, PROP, ['fmttables'] if 'fmttables' in gen_registry() else [], ['theories/Props/C08.vo'], ['c08'],
        corr_targets=['theories/Corr/C08.vo'])

    cases, texts, kinds, inputs = [], [], [], []
    oracle_fail, stats, rejected = [], [], []
    if h_ok:
        os.makedirs(os.path.join(WORK, 'C08'), exist_ok=True)
        corpus = sorted(glob.glob(os.path.join(VERIF, 'corpus', 'C08', '*')))
        text_corpus = [f for f in corpus if f.endswith(('.expr', '.stmt', '.meta', '.script'))]
        spec_corpus = [f for f in corpus if f.endswith('.spec')]
        if replay:
            r = json.load(open(replay))
            p = os.path.join(WORK, 'C08', 'replay.term')
            open(p, 'w').write(r.get('input', ''))
            jobs = [['input', p]] if r.get('input') else []
        else:
            jobs = [['text', f] for f in text_corpus]
            jobs.append(['decomp'] + sample_binaries() + spec_corpus)
            jobs.append(['defects'])
            if tier == 'quick':
                jobs += [['lits', 3], ['floats', 6000, 150], ['exprs', 3000, 2, 200], ['stmts', 2000, 2, 140], ['soup', 500], ['mutate', 400], ['chains', 300]]
            else:
                jobs += [['lits', 60], ['floats', 4200000, 2500], ['soup', 8000], ['mutate', 6000], ['chains', 4000]]
                jobs += [['exprs', 5000, 3, 700 if k == 0 else 0, 'allwidths'] for k in range(4)]
                jobs += [['stmts', 2500, 3, 550 if k == 0 else 0, 'allwidths'] for k in range(4)]
                jobs += [['exprs', 30000, 2, 3000], ['stmts', 20000, 2, 1500]]
        for mode, l in run_many(v, jobs, seed):
            parts = l.split('\t')
            if parts[0] == 'ORACLE-FAIL': oracle_fail.append(parts[1:])
            elif parts[0] == 'STATS': stats.append(mode + ': ' + ' '.join(parts[1:]))
            elif parts[0] in ('REJECTED', 'HARNESS-ERROR'): rejected.append(mode + ': ' + ' '.join(parts[1:])[:300])
            elif parts[0] in KINDS:
                kinds.append(parts[0]); cases.append(parts[1]); texts.append(parts[2] if len(parts) > 2 else ''); inputs.append(parts[3] if len(parts) > 3 else '')
        if any(r.startswith(('input', 'defects')) or 'HARNESS-ERROR' in r for r in rejected):
            v.obligation('harness inputs accepted', False, '; '.join(rejected)[:800])
    hist = {}
    for k in kinds: hist[k] = hist.get(k, 0) + 1
    v.notes.append('phase: proofs+harness build and generation done at %.0fs' % (time.time() - v.t0))

    # (O) implementation-level oracle: violations with the concrete AST (as a term the harness can re-run)
    per_class = {}
    for f in oracle_fail:
        cls = f[0]
        per_class.setdefault(cls, []).append(f)
    for cls, fs in sorted(per_class.items()):
        fs.sort(key=lambda f: len(f[2]) if len(f) > 2 else 0)       # smallest input first
        f = fs[0]
        v.violation('implementation-level oracle: %s (%d occurrences this run)' % (f[1], len(fs)),
                    {'class': cls, 'input': f[2] if len(f) > 2 else '', 'printed_text': f[3] if len(f) > 3 else '', 'what_oracle': f[1]})

    t_h = time.time()
    shard = max(150, (len(cases) + 9) // 10) if tier == 'quick' else 1200
    if v.corr_ok and cases:
        mism, errs = coq_eval_cases(PROP, IMPORTS, 'c08case', cases, shard=shard, imports='Open Scope string_scope.')
        v.obligation('correspondence: model = implementation on %d cases (printer text at the given width, lexing certificate, logos tokens, LALRPOP parse result; vm_compute inside Coq)' % len(cases),
                     not mism and not errs, ('%d mismatches; ' % len(mism)) + '; '.join(errs)[:600] if (mism or errs) else '')
        seen_kinds = {}
        for i in mism:
            if seen_kinds.get(kinds[i], 0) >= 2: continue
            seen_kinds[kinds[i]] = seen_kinds.get(kinds[i], 0) + 1
            # the input of the case is the candidate failing input; it already went through the oracle.
            v.violation('model/implementation disagreement on a %s case' % kinds[i],
                        {'class': 'c08-corr:' + kinds[i], 'kind': kinds[i], 'input': inputs[i], 'case': cases[i][:20000], 'printed_text': texts[i][:2000],
                         'broken': 'correspondence Corr.C08.model_of'},
                        no_failing_input=not any(f[0] not in [k['class'] for k in v.known_findings] for f in oracle_fail))
    v.notes.append('phase: correspondence evaluation took %.0fs' % (time.time() - t_h))
    if (not proofs_ok or not v.corr_ok) and not v.violations:
        v.violation('proof obligation does not check: %s' % json.dumps(v.coq_error)[:400],
                    {'class': 'c08-proof', 'broken': v.coq_error}, no_failing_input=True)
    elif unrec and not v.violations:
        v.violation('translator no longer recognises the lexer/operator tables: %s' % unrec[:3],
                    {'class': 'c08-tie1', 'broken': unrec}, no_failing_input=True)
    elif any(not o[1] for o in v.obligations) and not v.violations:
        bad = [o for o in v.obligations if not o[1]]
        v.violation('obligation failed: %s' % bad[0][0], {'class': 'c08-obligation', 'broken': [list(b) for b in bad]}, no_failing_input=True)

    v.coverage.update({
        'evaluations': len(cases),
        'distinct_nontrivial': distinct_count([c for c in cases if 'IOk' in c or c.startswith(('KInt', 'KStr'))]),
        'rule': 'seeded grammar generator over the full expression/statement/item/meta grammar (extreme int literals x 8 IntFormats, f32 bit-pattern classes, escapes and multi-byte strings, nested unary minus, difficulty switches with holes, pseudo-args) x widths {1,2,3,5,8,13,20,40,80,100,200} (thorough: 1..200) -> truth::fmt::Formatter -> parser -> compare after sign folding (+ text idempotence for parser-form scripts); decompiled sample binaries and compiled corpus scripts; random token soups vs logos; mutated expression texts vs LALRPOP. distinct = distinct case terms; non-trivial = the implementation produced a text/tokens/tree (not an error)',
        'traces_validated_against_impl': len(cases),
        'case_kinds': hist,
        'oracle_failures_by_class': {k: len(x) for k, x in per_class.items()},
        'generator_stats': stats,
        'rejected_inputs': rejected[:10],
        'samples': [{'kind': k, 'case': c[:500], 'text': t[:200]} for k, c, t in list(zip(kinds, cases, texts))[:1] + list(zip(kinds, cases, texts))[-3:]],
        'exhaustive': False,
    })
    return v.finish(
        level='proof',
        checker_cmd='cd coq && make theories/Corr/C08.vo theories/Props/C08.vo ; coqc work/audit_C08.v (Print Assumptions) ; harness/target/debug/c08 lits|floats|exprs|stmts|soup|mutate|chains|decomp|defects|text ; coqc work/cases_C08/*.v',
        trusted_base=['modelled, not verified: Model/Fmt.v (fmt.rs), Model/FmtLex.v (lexer.rs token classes as a maximal-munch specification, incl. the observed non-backtracking of `rad(<digits>`), Model/FmtParse.v (the Expr grammar of lalrparser.lalrpop as precedence climbing; parse_u32_literal; parse_string_literal); the logos automaton and the LALRPOP tables are tied by correspondence only (token soups, printed/mutated texts, operator chains)',
                      'gen/fmttables.py (regular-expression extraction of the token list, regexes, operator spellings, precedence tiers, keyword/escape tables and the prefix-operator guard from lexer.rs, ast/mod.rs, lalrparser.lalrpop, fmt.rs, lalrparser_util.rs); Proofs/FmtTables.v proves them equal to the tables the models use',
                      "Rust's f32 Display (shortest round-trip, no exponent) and str::parse::<f32> are a Section hypothesis of float_bits_roundtrip; the harness sweeps the hypothesis over structured bit patterns (thorough: 2^22)",
                      'statement/item/meta parsing is not modelled: their round trip is checked by the implementation-level oracle; the model covers their printing at every width and the lexing of the printed text'],
        assumptions=['expr_roundtrip (C08_expr_roundtrip) is proved for the expression grammar; statements/items/meta/files are covered by the width theorem, the lexing certificate and the implementation-level oracle',
                     'the same script = equal after folding literal signs, erasing the IntFormat printing hint, reading INF/NAN/true/false as their values, dropping NoInstruction statements and time-label comments',
                     'text idempotence is claimed for scripts in parser form (what the parser itself produces, non-negative literals); a decompiled script reaches that form after one print/parse round',
                     '--max-columns 0 underflows `width - 1` (Panic in the model) and is outside the range 1..200',
                     'ASCII whitespace only outside string literals; offset comments (--show-instr-offsets) are layout-only and not modelled'])
