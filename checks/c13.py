"""C13 -- every instruction gets exactly the time its labels say."""
import os, sys, json
from vlib import *

PROP = 'C13'
IMPORTS = 'Model.Time Corr.C13'
KINDS = ('PASS', 'COMPILE', 'DECOMP')

def eval_robust(tag, imports, ty, cases, shard):
    """coq_eval_cases; shards that die (per-shard timeout on a loaded machine) are re-run once in smaller shards"""
    mism, errs = coq_eval_cases(tag, imports, ty, cases, shard=shard)
    if errs and not mism:
        mism, errs = coq_eval_cases(tag + 'r', imports, ty, cases, shard=max(5, shard // 6))
    return mism, errs

def run_harness(v, args, seed):
    rc, out = sh([harness_bin('c13')] + [str(a) for a in args], timeout=1500, env={'VERIF_SEED': str(seed)})
    lines = [l for l in out.splitlines() if '\t' in l]
    if rc != 0:
        v.obligation('harness c13 %s ran' % args[0], False, out[-800:])
    return lines

def main(argv):
    tier, seed, replay = tier_and_seed(argv)
    v = Verdict(PROP, tier, seed)
    proofs_ok, h_ok, unrec = standard_proof_steps(
        v, PROP, ['timelabels'], ['theories/Props/C13.vo'], ['c13'], corr_targets=['theories/Corr/C13.vo'])

    cases, texts, kinds = [], [], []
    oracle_fail = []
    stats = []
    wd = os.path.join(WORK, 'c13'); os.makedirs(wd, exist_ok=True)
    if h_ok:
        lines = []
        corpus_src = sorted(glob.glob(os.path.join(VERIF, 'corpus', 'C13', '*.ecl')))
        corpus_times = sorted(glob.glob(os.path.join(VERIF, 'corpus', 'C13', '*.times')))
        if replay:
            r = json.load(open(replay))
            corpus_src, corpus_times = [], []
            if r.get('source_text'):
                p = os.path.join(wd, 'replay.ecl'); open(p, 'w').write(r['source_text']); corpus_src = [p]
            if r.get('times_text'):
                p = os.path.join(wd, 'replay.times'); open(p, 'w').write(r['times_text']); corpus_times = [p]
            if r.get('case') and not (r.get('source_text') or r.get('times_text')):
                lines.append('%s\t%s\t%s' % (r.get('kind', 'PASS'), r['case'], r.get('source', '')))
        for f in corpus_src: lines += run_harness(v, ['text', f], seed)
        for f in corpus_times: lines += run_harness(v, ['times', f], seed)
        if not replay:
            n = {'quick': (800, 800, 1400, 10), 'thorough': (10000, 10000, 20000, 150)}[tier if tier in ('quick', 'thorough') else 'quick']
            lines += run_harness(v, ['pass', n[0]], seed) + run_harness(v, ['compile', n[1]], seed) + run_harness(v, ['decomp', n[2]], seed) + run_harness(v, ['formats', n[3]], seed)
        for l in lines:
            parts = l.split('\t')
            if parts[0] == 'ORACLE-FAIL': oracle_fail.append(parts[1:])
            elif parts[0] == 'STATS': stats.append('\t'.join(parts[1:]))
            elif parts[0] in KINDS:
                kinds.append(parts[0]); cases.append(parts[1]); texts.append(parts[2] if len(parts) > 2 else '')
    hist = {}
    for k in kinds: hist[k] = hist.get(k, 0) + 1

    def replay_fields(kind, text):
        if kind == 'DECOMP' or text.startswith('times='):
            # times=[..] jumps=[None, Some((tgt, t)), ..]  ->  the `times` replay file format of the harness
            import re
            m = re.match(r'times=\[([^\]]*)\] jumps=\[(.*?)\](?: masks=\[([^\]]*)\])?(?: fmt=(\w+))?$', text.split('\t')[0].strip())
            if not m: return {}
            ts = [x.strip() for x in m.group(1).split(',') if x.strip()]
            ent = []
            for i, mm in enumerate(re.finditer(r'None|Some\(\((\d+), (-?\d+)\)\)', m.group(2))):
                if mm.group(1) is not None: ent.append('%d:%s@%s' % (i, mm.group(1), mm.group(2)))
            extra = ''
            if m.group(3) is not None: extra += 'masks: ' + ' '.join(x.strip() for x in m.group(3).split(',') if x.strip()) + '\n'
            if m.group(4) is not None: extra += 'fmt: ' + m.group(4) + '\n'
            return {'times_text': ' '.join(ts) + '\n' + ' '.join(ent) + '\n' + extra}
        return {'source_text': text.replace(';  ', ';\n').replace(': ', ':\n').replace('{ ', '{\n').replace('} ', '}\n')}

    # (O) implementation-level oracle failures: violations with a concrete input
    seen = set()
    for f in oracle_fail:
        what = f[0]
        src = f[1] if len(f) > 1 else ''
        cls = 'c13-oracle:' + what.split(':')[0].split(' (')[0]
        if cls in seen: continue
        seen.add(cls)
        if len(seen) > 5: break
        rp = {'class': cls, 'detail': f}
        rp.update(replay_fields('DECOMP' if src.startswith('times=') else 'COMPILE', src))
        v.violation('implementation-level oracle: ' + what, rp)

    shard = 300 if tier == 'quick' else 400
    if v.corr_ok and cases:
        mism, errs = eval_robust(PROP, IMPORTS, 'c13case', cases, shard)
        v.obligation('correspondence: model = implementation on %d cases (vm_compute inside Coq)' % len(cases), not mism and not errs,
                     ('%d mismatches; ' % len(mism)) + '; '.join(errs)[:600] if (mism or errs) else '')
        shown = set()
        for i in mism:
            if kinds[i] in shown: continue
            shown.add(kinds[i])
            rp = {'class': 'c13-corr:' + kinds[i], 'kind': kinds[i], 'case': cases[i], 'source': texts[i],
                  'broken': 'correspondence Corr.C13.model_of'}
            rp.update(replay_fields(kinds[i], texts[i]))
            v.violation('model/implementation disagreement on a %s case' % kinds[i], rp, no_failing_input=not oracle_fail)
    if (not proofs_ok or not v.corr_ok) and not v.violations:
        v.violation('proof obligation does not check: %s' % json.dumps(v.coq_error)[:400],
                    {'class': 'c13-proof', 'broken': v.coq_error}, no_failing_input=True)
    elif unrec and not v.violations:
        v.violation('translator no longer recognises the time label rules: %s' % unrec[:3],
                    {'class': 'c13-tie1', 'broken': unrec}, no_failing_input=True)
    elif any(not o[1] for o in v.obligations) and not v.violations:
        bad = [o for o in v.obligations if not o[1]]
        v.violation('obligation failed: %s' % bad[0][0], {'class': 'c13-obligation', 'broken': [list(b) for b in bad]}, no_failing_input=True)

    v.coverage.update({
        'evaluations': len(cases),
        'distinct_nontrivial': distinct_count([c for c in cases if 'IOk' in c]),
        'rule': 'PASS: seeded random nested programs (difficulty-labelled statements and blocks, blocks, loop, while, do-while, times, if/else chains, inner function items; absolute, relative, zero, negative, hex, 2^31..2^32 literal, constant-expression, const-variable, wrapping and non-constant labels, labels at block starts and ends) parsed and run through passes::semantics::time_and_difficulty::run, the time of every statement compared with Model.Time.time_pass; COMPILE: such programs through compile_olde_ecl (TH06 ECL, 32-bit time field), marker instructions and runs of other instructions with their times compared with Model.Time.compile_items; FORMATS (counted as DECOMP cases): the same kind of stored time sequences, cut to the time field of each format, through EVERY instruction format (ANM TH06/07/10/12, ECL TH06/08 subs and timelines, stack ECL TH10, STD TH06/08/12, MSG TH06/09/12) as blob instructions: source -> compile -> write -> read -> decompile -> format -> parse -> compile -> write, the statement sequence compared with the model; DECOMP: random stored i32 time sequences (monotone, around zero, boundary grid, uniform i32) with random jumps (time argument = next/previous/other time, jumps to the end) and runs of adjacent per-difficulty variants (masks splitting the low 4 / all 8 bits, the time changing inside the run or not) injected into a compiled script, decompile_olde_ecl without block recognition, the emitted label/time-label/instruction statement sequence and the printed `@ t` compared with Model.Time.decompile_labels / label_at_offset / raise_goto_time. distinct = distinct case terms with an IOk result',
        'traces_validated_against_impl': len(cases),
        'case_kinds': hist,
        'generator_stats': stats,
        'oracle': 'compile: generator-side running sum of the labels it wrote vs read-back instruction times; decompile: decompile (difficulty-switch recognition on, with and without block recognition) -> format -> parse -> compile must give identical times, opcodes, difficulty masks and argument blobs; formats: the times read back from the written file are the intended ones and the recompiled binary is byte-identical, for every instruction format',
        'samples': [{'kind': k, 'case': c[:600], 'source': t[:300]} for k, c, t in list(zip(kinds, cases, texts))[:1] + list(zip(kinds, cases, texts))[-2:]],
        'exhaustive': False,
    })
    return v.finish(
        level='proof',
        checker_cmd='gen/timelabels.py ; cd coq && make theories/Corr/C13.vo theories/Props/C13.vo ; coqc work/audit_C13.v (Print Assumptions) ; harness/target/debug/c13 pass|compile|decomp|text|times ; coqc work/cases_C13/*.v',
        trusted_base=['modelled, not verified: Model/Time.v is a hand-written restatement of time_and_difficulty.rs (Visitor, TimeAndDifficultyHelper), of the statement-insertion positions of desugar_blocks.rs, and of raise/early.rs generate_label_at_offset + raise/late.rs LabelEmitter; tied to the code by gen/timelabels.py (the shape of the rules in the four source locations is re-read on every run; C13_source_shape_is_modelled compares it with the hard-coded model) and by differential execution'],
        assumptions=['every instruction a statement lowers to carries the statement\'s time: checked by the correspondence (runs of non-marker instructions), not proved (lowering itself is not modelled)',
                     'time fields narrower than 32 bits in some file formats are property C03',
                     'decompiler passes that merge instructions (diff switches, two-part jumps) are outside the label-emission model; the decompile oracle covers them only as far as the generated scripts trigger them'])
