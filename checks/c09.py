"""C09 -- the type checker accepts exactly the well-typed scripts and predicts value types."""
import os, sys, json, re
from vlib import *

PROP = 'C09'
IMPORTS = 'Base.F32 Model.Ops Model.Expr Model.TypeCheck Corr.C09'
KINDS = ('PROG', 'CTY', 'DYN', 'CV', 'FOLD')

ENTRY = 'entry { path: "a.png", has_data: false, img_width: 16, img_height: 16, img_format: 1, sprites: {} }\n'
SKIND = {1: 'Item', 2: 'Jump', 3: 'CondJump', 4: 'Return', 5: 'CondChain', 6: 'Loop', 7: 'While', 8: 'Times', 9: 'Expr',
         10: 'Block', 11: 'Assignment', 12: 'Declaration', 13: 'CallSub', 14: 'InterruptLabel', 15: 'AbsTimeLabel',
         16: 'RelTimeLabel', 17: 'Label', 18: 'ScopeEnd', 19: 'NoInstruction',
         21: 'Func', 22: 'Script', 23: 'Meta', 24: 'ConstVar'}
CODE_ENUM, CODE_ZIP = 30, 31

def code_class(c):
    if c == CODE_ENUM: return 'c09-compute-ty-enum'
    if c == CODE_ZIP: return 'c09-call-padding'
    return 'c09-dispatch:' + SKIND.get(c, str(c))

# for each row of Visitor::visit_stmt / visit_item: a program whose only type error sits inside that kind
# (accepted if the row does not check it) and a well-typed program using the kind (rejected if the row over-checks)
def script(body): return ENTRY + 'script s0 {\nlbl0:\n' + body + '\n}\n'
WITNESS = {
    'Item': (script('    const int c = "a" + 1;'), script('    const int c = 1 + 2;')),
    'Jump': (None, script('    goto lbl0;')),
    'CondJump': (script('    if (1.5) goto lbl0;'), script('    if (I0 == 1) goto lbl0;')),
    'Return': (ENTRY + 'inline int f() {\n    return 1.5;\n}\n', ENTRY + 'inline int f() {\n    return 1;\n}\n'),
    'CondChain': (script('    if (I0) {\n        int x = 1.5;\n    }'), script('    if (I0) {\n        int x = 1;\n    } else {\n        F0 = 1.5;\n    }')),
    'Loop': (script('    loop {\n        int x = 1.5;\n    }'), script('    loop {\n        int x = 1;\n    }')),
    'While': (script('    while (1.5) {\n    }'), script('    while (I0 < 3) {\n        I0 += 1;\n    }')),
    'Times': (script('    times(3) {\n        int x = 1.5;\n    }'), script('    times(I1 = 3) {\n        I0 += 1;\n    }')),
    'Expr': (script('    1 + 2;'), script('    ins_900(1 + 2);')),
    'Block': (script('    {\n        int x = 1.5;\n        float y = x + 2;\n    }'), script('    {\n        int x = 1;\n    }')),
    'Assignment': (script('    I0 = 1.5;'), script('    I0 = $F0 + 1;')),
    'Declaration': (script('    int x = 1.5;'), script('    int x = 1, y;')),
    'CallSub': (None, None),
    'InterruptLabel': (script('    interrupt["a" + 1]:'), script('    interrupt[1 + 1]:')),
    'AbsTimeLabel': (None, script('    10:')),
    'RelTimeLabel': (script('    +(1.5 + 2):'), script('    +(2 + 3):')),
    'Label': (None, script('    lbl1:')),
    'ScopeEnd': (None, None), 'NoInstruction': (None, script('')),
    'Func': (ENTRY + 'inline void f() {\n    int x = 1.5;\n}\n', ENTRY + 'inline void f() {\n    int x = 1;\n}\n'),
    'Script': (script('    int x = 1.5;'), script('    int x = 1;')),
    'Meta': (ENTRY + 'meta { a: "a" + 1 }\n', ENTRY + 'meta { a: 1 + 1 }\n'),
    'ConstVar': (ENTRY + 'const int c = 1.5;\n' + script('    I0 = c;'), ENTRY + 'const int c = 1;\n' + script('    I0 = c;')),
}
# more single-error programs, tried when a table other than the dispatch rows is off (walk_stmt, operator tables, translator)
EXTRA_WITNESS = [
    script('    do {\n        I0 -= 1;\n    } while (F0);'), script('    do {\n        I0 -= 1;\n    } while (I0 > 0);'),
    script('    unless (1.5) {\n    }'), script('    if (I0) {\n    } else if (2.5) {\n    }'),
    script('    times(I0 = 1.5) {\n    }'), script('    times(F0 = 3) {\n    }'),
    script('    I0 = 1 + 2.0;'), script('    F0 = sin(1);'), script('    I0 = ~1.5;'), script('    I0 = 1.5 < 2;'), script('    F0 = -"a";'),
    script('    I0 = I1 ? 1 : 2.0;'), script('    I0 = (1:2.0);'), script('    ins_900(1, 2);'), script('    ins_900();'), script('    ins_902(1.5, 2.5);'),
    script('    ins_900(@mask=1.5, 1);'), script('    ins_900(@blob=3);'), script('    I0 = ins_900(1);'), script('    int x = 1, y = 2.5;'),
    script('    I0 += 1.5;'), script('    F0 <<= 1.0;'), script('    I0 = $F0 + %I1;'), script('    I0 = REG[20000];'), script('    F0 = int(1.5);'),
    ENTRY + 'inline void f() {\n}\n' + script('    f(F0);'), ENTRY + 'inline int g(int a) {\n    return a;\n}\n' + script('    I0 = g(1.5);'),
]
PAD_WITNESS = (script('    ins_907(1, 2);'), script('    ins_907(1, 2.0);'))   # S_f: ill-typed but accepted / well-typed but rejected
ECL10_WITNESS = 'void main() {\n    ins_11(EclSubName.foo);\n}\nvoid foo() {\n}\n'

def run_harness(v, args, seed, timeout=2400):
    rc, out = sh([harness_bin('c09')] + [str(a) for a in args], timeout=timeout, env={'VERIF_SEED': str(seed)})
    lines = [l for l in out.splitlines() if '\t' in l]
    if rc != 0:
        v.obligation('harness c09 %s ran' % args[0], False, out[-800:])
    return lines

def run_text(v, text, seed, name, mode='text'):
    d = os.path.join(WORK, 'c09'); os.makedirs(d, exist_ok=True)
    p = os.path.join(d, name)
    open(p, 'w').write(text)
    return run_harness(v, [mode, p], seed, timeout=300)

def table_status(v):
    """vm_compute of the side conditions on the generated tables"""
    path = os.path.join(WORK, 'c09', 'status.v'); os.makedirs(os.path.dirname(path), exist_ok=True)
    open(path, 'w').write('From TV Require Import Base.I32 Model.TypeCheck Spec.TypingRules Corr.C09.\n'
                          'Goal True. let r := eval vm_compute in table_status in idtac "@@STATUS" r. exact I. Qed.\n')
    rc, o = sh(['coqc', '-noglob', '-Q', os.path.join(COQ, 'theories'), 'TV', path], timeout=900, cwd=os.path.dirname(path))
    m = re.search(r'@@STATUS\s*\((.*)\)\s*$', o.strip(), re.S)
    if rc != 0 or not m:
        return None
    body = re.sub(r'\s+', ' ', m.group(1))
    mm = re.match(r'\(?(true|false), (true|false), (\[[^\]]*\]), (\[[^\]]*\]), (\w+), (\w+)\)?', body.replace('(', '').replace(')', ''))
    if not mm: return None
    nums = lambda s: [int(x) for x in re.findall(r'(\d+)%N', s)]
    return {'optypes_ok': mm.group(1) == 'true', 'walk_ok': mm.group(2) == 'true', 'bad_srows': nums(mm.group(3)),
            'bad_irows': nums(mm.group(4)), 'ct_enum': mm.group(5), 'call_zip': mm.group(6)}

def eval_verdicts(cases, shard):
    """vm_compute of Corr.C09.verdicts on the cases, sharded over up to 16 coqc processes; returns (list of N per case, errors)"""
    import subprocess, shutil, time
    d = os.path.join(WORK, 'cases_C09'); shutil.rmtree(d, ignore_errors=True); os.makedirs(d)
    shards = [cases[i:i + shard] for i in range(0, len(cases), shard)]
    results, errors = [None] * len(shards), []
    def launch(k):
        path = os.path.join(d, 's%d.v' % k)
        with open(path, 'w') as f:
            f.write('From TV Require Import Base.I32 %s.\nOpen Scope Z_scope.\nDefinition cases : list c09case := [\n' % IMPORTS)
            f.write(';\n'.join(shards[k]))
            f.write('\n].\nGoal True. let r := eval vm_compute in (verdicts 0%N cases) in idtac "@@RESULT" r. exact I. Qed.\n')
        return subprocess.Popen(['timeout', '3600', 'coqc', '-noglob', '-Q', os.path.join(COQ, 'theories'), 'TV', path],
                                cwd=d, stdout=subprocess.PIPE, stderr=subprocess.STDOUT, text=True)
    pending, running = list(range(len(shards))), {}
    while pending or running:
        while pending and len(running) < 16:
            k = pending.pop(0); running[k] = launch(k)
        for k, p in list(running.items()):
            if p.poll() is not None:
                out = p.stdout.read(); del running[k]
                m = re.search(r'@@RESULT\s*(.*)', out, re.S)
                nums = [int(x) for x in re.findall(r'(\d+)%N', m.group(1))] if m else []
                if p.returncode != 0 or not m or len(nums) != len(shards[k]):
                    errors.append('shard %d: coqc failed: %s' % (k, out.strip()[-600:])); nums = [None] * len(shards[k])
                results[k] = nums
        time.sleep(0.05)
    return [x for r in results for x in r], errors

def decode_codes(n):
    return [k for k in range(0, 40) if (n >> k) & 1]

def main(argv):
    tier, seed, replay = tier_and_seed(argv)
    v = Verdict(PROP, tier, seed)
    import time
    T0 = time.time()
    def lap(what): v.notes.append('t+%.0fs %s' % (time.time() - T0, what))
    proofs_ok, h_ok, unrec = standard_proof_steps(
        v, PROP, ['optable', 'opclass', 'tcdispatch'], ['theories/Props/C09.vo'], ['c09', 'truth-cli'],
        corr_targets=['theories/Corr/C09.vo'])
    unrec = [u for u in unrec if u.startswith(('opclass', 'tcdispatch'))]

    lines = []
    classes = {}          # class -> (what, replay dict): failing inputs found, one per class
    def found(cls, what, rep):
        if cls not in classes: classes[cls] = (what, dict(rep, **{'class': cls}))

    lap('proof steps done')
    status = table_status(v) if v.corr_ok else None
    side = []             # (name, ok, detail)
    if status:
        side.append(('side condition optypes_ok Gen.OpClass.gen_optypes (operator classes, operand requirements, result types, pseudo-args, assign-ops as documented)', status['optypes_ok'], ''))
        side.append(('side condition walk_ok Gen.TcDispatch.gen_tctable (ast::walk_stmt / walk_item are what the model transcribes)', status['walk_ok'], ''))
        bad = [SKIND[c] for c in status['bad_srows'] + status['bad_irows']]
        side.append(('side condition dispatch_complete Gen.TcDispatch.gen_tctable (every row of Visitor::visit_stmt / visit_item as specified)', not bad, 'rows not as specified: %s' % bad))
        side.append(('side condition compute_ty handles enum consts by their enum type (gen_ct_enum = CT_enum_ty)', status['ct_enum'] == 'CT_enum_ty', status['ct_enum']))
        side.append(('side condition arguments are zipped with the non-defaulted parameters (gen_call_zip = CZ_nondefault)', status['call_zip'] == 'CZ_nondefault', status['call_zip']))
    elif v.corr_ok:
        side.append(('side conditions on the generated tables evaluated', False, 'coqc failed on work/c09/status.v'))

    wit_lines = []
    if h_ok and not replay:
        # counter-example programs for every side condition that fails
        if status:
            for k in [SKIND[c] for c in status['bad_srows'] + status['bad_irows']]:
                bad_w, good_w = WITNESS.get(k, (None, None))
                for tag, w in (('bad', bad_w), ('good', good_w)):
                    if w is not None:
                        for l in run_text(v, w, seed, 'wit_%s_%s.spec' % (k, tag)):
                            wit_lines.append(l + '\twitness=%s' % k)
            if not status['walk_ok'] or not status['optypes_ok'] or unrec:
                ws = [w for pair in WITNESS.values() for w in pair if w is not None] + EXTRA_WITNESS
                for i, w in enumerate(ws):
                    for l in run_text(v, w, seed, 'wit_all_%d.spec' % i): wit_lines.append(l + '\twitness=all')
            if status['call_zip'] != 'CZ_nondefault':
                for i, w in enumerate(PAD_WITNESS):
                    for l in run_text(v, w, seed, 'wit_pad_%d.spec' % i): wit_lines.append(l + '\twitness=call-padding')
            if status['ct_enum'] != 'CT_enum_ty':
                for l in run_text(v, ECL10_WITNESS, seed, 'wit_enum.ecl', mode='ecl10'): wit_lines.append(l + '\twitness=compute-ty-enum')
        # corpus: earlier minimised failures and the seed reproductions
        for f in sorted(glob.glob(os.path.join(VERIF, 'corpus', 'C09', '*.spec'))):
            lines += run_harness(v, ['text', f], seed, timeout=300)
        for f in sorted(glob.glob(os.path.join(VERIF, 'corpus', 'C09', '*.ecl'))):
            lines += run_harness(v, ['ecl10', f], seed, timeout=300)
        nprog, maxmut, cli = (50, 8, 20) if tier == 'quick' else (250, 0, 200)
        if os.environ.get('C09_GEN'): nprog, maxmut, cli = [int(x) for x in os.environ['C09_GEN'].split(',')]
        lines += run_harness(v, ['gen', nprog, maxmut, cli], seed)
    if h_ok and replay:
        r = json.load(open(replay))
        if r.get('source_text'):
            lines += run_text(v, r['source_text'], seed, 'replay.ecl' if r.get('mode') == 'ecl10' else 'replay.spec', mode=r.get('mode', 'text'))
        if r.get('case'):
            lines.append('%s\t%s\t%s\treplay' % (r.get('kind', 'PROG'), r['case'], r.get('source', '')))
    lines = wit_lines + lines
    lap('harness done')

    cases, texts, kinds, tags = [], [], [], []
    oracle_fail, notes, stats = [], [], ''
    for l in lines:
        parts = l.split('\t')
        if parts[0] == 'ORACLE-FAIL': oracle_fail.append(parts[1:])
        elif parts[0] == 'STATS': stats = '\t'.join(parts[1:])
        elif parts[0] == 'NOTE': notes.append(parts[1:])
        elif parts[0] in KINDS:
            kinds.append(parts[0]); cases.append(parts[1]); texts.append(parts[2] if len(parts) > 2 else ''); tags.append('\t'.join(parts[3:]))
    hist = {}
    for k in kinds: hist[k] = hist.get(k, 0) + 1
    base_rejected = [n for n in notes if n and n[0] == 'base program rejected']

    shard = 100 if tier == 'quick' else 200
    mism, smism, explained = [], [], {}
    if v.corr_ok and cases:
        # one pass inside Coq: (X) model (with the tables read from the source) vs implementation; (O) reference
        # typer (the declarative relation, decided) vs implementation; the explanation of every (O) difference
        verd, errs = eval_verdicts(cases, shard)
        mism = [i for i, x in enumerate(verd) if x is not None and x & 1]
        smism = [i for i, x in enumerate(verd) if x is not None and x & 2]
        explained = {i: decode_codes(verd[i] >> 2) for i in smism}
        v.obligation('correspondence: model = implementation on %d cases (vm_compute inside Coq)' % len(cases), not mism and not errs,
                     ('%d mismatches; ' % len(mism)) + '; '.join(errs)[:600] if (mism or errs) else '')
        unexplained = [i for i in smism if not explained[i]]
        v.obligation('oracle: type_check = reference typer (wt decided by the specified tables) on %d cases, or the difference lies in a table row that is not as specified' % len(cases),
                     not unexplained and not errs, '%d unexplained' % len(unexplained) if unexplained else '')
        # panics of later passes on accepted programs, keyed by source text
        later = {}
        for f in oracle_fail:
            if f[0].startswith('accepted by type_check'): later.setdefault(f[2], f[1])
        # every spec mismatch explained by table rows: one violation per class, smallest program first
        for i in sorted(explained, key=lambda i: (len(explained[i]), len(cases[i]))):
            for c in explained[i]:
                acc = 'IOk' in cases[i][-12:]
                what = ('type_check disagrees with the typing rules (%s by type_check, %s by the reference typer); the program depends on the %s'
                        % ('accepted' if acc else 'rejected', 'rejected' if acc else 'accepted', code_class(c)))
                rep = {'kind': kinds[i], 'source_text': texts[i].replace('\\n', '\n'), 'case': cases[i], 'tag': tags[i]}
                if texts[i] in later: rep['later_pass_panic'] = later[texts[i]]
                found(code_class(c), what, rep)
        for i in sorted(unexplained, key=lambda i: len(cases[i]))[:3]:
            v.violation(('type_check disagrees with the typing rules and every table row the program uses is as specified (%s case)' if kinds[i] in ('PROG', 'CTY')
                         else 'the type the checker assigns to an accepted expression/const differs from the type of the value the implementation evaluates it to (%s case)') % kinds[i],
                        {'class': 'c09-spec:' + kinds[i], 'kind': kinds[i], 'case': cases[i], 'source': texts[i], 'tag': tags[i],
                         'source_text': texts[i].replace('\\n', '\n')})
        for i in sorted(mism, key=lambda i: len(cases[i]))[:3]:
            v.violation('model/implementation disagreement on a %s case' % kinds[i],
                        {'class': 'c09-corr:' + kinds[i], 'kind': kinds[i], 'case': cases[i], 'source': texts[i], 'tag': tags[i],
                         'source_text': texts[i].replace('\\n', '\n'), 'broken': 'correspondence Corr.C09.model_of'},
                        no_failing_input=(i not in smism and not oracle_fail))
    lap('coq evaluation done')
    # (O) oracle failures that are not attached to a case: the ECL10 enum probe, harness problems
    later_on_well_typed = 0
    for f in oracle_fail:
        if f[0].startswith('panic while compiling a string-typed enum const'):
            found('c09-compute-ty-enum', 'compute_ty disagrees with check_expr on an accepted expression: `EclSubName.x` is a string for check_expr and an int for compute_ty (debug_assert panics; release builds hand later passes the wrong type)',
                  {'mode': 'ecl10', 'source_text': ECL10_WITNESS, 'detail': f[1]})
        elif f[0].startswith('accepted by type_check'):
            idx = [i for i, t in enumerate(texts) if t == f[2] and kinds[i] == 'PROG']
            if not (idx and idx[0] in smism):
                later_on_well_typed += 1
                # accepted by type_check (and well-typed for the reference typer), yet a later pass dies on a type error
                if re.search(r'already type-checked|type_check should fail|shoulda been type-checked|type error|uncaught_type_error', f[1]):
                    found('c09-later-type-panic', 'accepted by type_check, then a later pass panics on a type error: ' + f[1][:200],
                          {'kind': 'PROG', 'source_text': f[2].replace('\\n', '\n'), 'detail': f[1], 'tag': f[3] if len(f) > 3 else ''})
        else:
            v.violation('implementation-level oracle: ' + f[0], {'class': 'c09-oracle', 'detail': f})

    # side conditions: a failing one must come with its failing input (found above), else no-failing-input
    for name, ok, detail in side:
        v.obligation(name, ok, detail)
    if status:
        want = [code_class(c) for c in status['bad_srows'] + status['bad_irows']]
        if status['ct_enum'] != 'CT_enum_ty': want.append('c09-compute-ty-enum')
        if status['call_zip'] != 'CZ_nondefault': want.append('c09-call-padding')
        for cls in want:
            if cls not in classes and not replay:
                v.violation('table side condition fails (%s) and no program exhibiting it was found' % cls,
                            {'class': cls, 'broken': 'side condition on Gen tables', 'status': status}, no_failing_input=True)
        if not status['optypes_ok'] and not v.violations and not classes:
            v.violation('the operator typing tables read from the source differ from the documented rules', {'class': 'c09-optypes', 'broken': status}, no_failing_input=True)
        if not status['walk_ok'] and not v.violations and not classes:
            v.violation('ast::walk_stmt / walk_item differ from what the model transcribes', {'class': 'c09-walk', 'broken': status}, no_failing_input=True)
    for cls, (what, rep) in classes.items():
        v.violation(what, rep)

    if (not proofs_ok or not v.corr_ok) and not v.violations:
        v.violation('proof obligation does not check: %s' % json.dumps(v.coq_error)[:400],
                    {'class': 'c09-proof', 'broken': v.coq_error}, no_failing_input=not classes)
    elif unrec and not v.violations:
        v.violation('translator no longer recognises the type checker: %s' % unrec[:3],
                    {'class': 'c09-tie1', 'broken': unrec}, no_failing_input=not classes)
    else:
        bad = [o for o in v.obligations if not o[1] and not o[0].startswith('side condition') and not o[0].startswith('oracle: type_check = reference')]
        if bad and not v.violations:
            v.violation('obligation failed: %s' % bad[0][0], {'class': 'c09-obligation', 'broken': [list(b) for b in bad]}, no_failing_input=True)

    prog_cases = [c for c, k in zip(cases, kinds) if k == 'PROG']
    v.coverage.update({
        'evaluations': len(cases),
        'distinct_nontrivial': distinct_count([c for c, k in zip(cases, kinds) if k == 'PROG' or 'IOk' in c[-30:]]),
        'rule': 'gen: type-directed generator of well-typed ANM programs over all statement kinds (items, functions, consts, declarations, assignments with every assign-op, calls with pseudo-args/blobs/aliases/user functions, conditional chains, loops, while/do-while, times with and without clobber, free blocks, labels, time labels, interrupt labels, jumps, returns; nesting depth <= 6), each followed by its single-point mutants (operand, variable, literal, sigil, cast, argument, arity, declared type, void/value) at every mutation point (quick: a seeded sample of 10 per program) -> parse/assign_languages/resolve_names, then passes::type_check::run under catch_unwind (Ok/Err/panic only) vs Model.TypeCheck.check_file on the resolved AST; accepted statement-level expressions through Expr::compute_ty and AstVm::eval(..).ty() vs compute_ty / eval of the model; accepted programs through passes::evaluate_const_vars + const_simplify: the type of the cached value of every const (consts declared in any order, read plainly and through both sigils from other consts and from statements) vs its declared type and Model.Expr.ceval, the type of every folded literal vs compute_ty; a panic of those passes or of the CLI pipeline with a type-error message on an accepted program is a violation. distinct = distinct case terms; non-trivial = a whole program, or an expression for which the implementation produced a type',
        'traces_validated_against_impl': len(cases),
        'case_kinds': hist,
        'spec_disagreements_explained_by_table_rows': {code_class(c): sum(1 for i in explained if c in explained[i]) for c in sorted(set(x for i in explained for x in explained[i]))},
        'later_pass_panics_on_programs_the_reference_typer_accepts': later_on_well_typed,
        'table_status': status,
        'base_programs_rejected_by_type_check': len(base_rejected),
        'generator_stats': stats,
        'samples': [{'kind': k, 'case': c[:600], 'source': t[:300]} for k, c, t in list(zip(kinds, cases, texts))[:1] + list(zip(kinds, cases, texts))[-3:]],
        'exhaustive': False,
    })
    return v.finish(
        level='proof',
        checker_cmd='gen/opclass.py gen/tcdispatch.py gen/optable.py ; cd coq && make theories/Corr/C09.vo theories/Props/C09.vo ; coqc work/audit_C09.v (Print Assumptions) ; coqc work/c09/status.v (side conditions by vm_compute) ; harness/target/debug/c09 gen|text|ecl10 ; coqc work/cases_C09*/*.v',
        trusted_base=['modelled, not verified: Model/TypeCheck.v is a hand-written restatement of passes/type_check.rs (check_expr, compute_ty, check_stmt_*, the Visitor) and of ast::walk_stmt/walk_item; its operator and dispatch tables are read from the source on every run',
                      'Spec/TypingRules.v (the declarative typing relation) is the meaning of "well-typed"',
                      'Flocq binary32 and the C11 operator table Gen/OpTable.v for static_is_dynamic (AstVm evaluation)'],
        assumptions=['names are resolved (DefIds); the typing environment is the flat map DefId/register/function -> type that resolve_names and the mapfiles build',
                     'check_expr is modelled without its debug_assert against compute_ty; compute_ty_agrees is the theorem that the assertion cannot fire (inside the guard)',
                     'C09_check_iff_wt_gen holds on programs inside file_guard; outside it the refutation theorems and the known findings apply: ' + ', '.join(sorted(classes)) if classes else 'all table side conditions hold: C09_check_iff_wt_gen_unguarded applies to every program',
                     'CallSub (`@f(..)`, `f(..) async`) is outside wt (reserved syntax; unimplemented!() in type_check)'])
