"""C07 -- recovering loops and conditionals while decompiling preserves behaviour."""
import os, sys, json, re, time
from vlib import *

PROP = 'C07'
IMPORTS = 'Model.Structure Corr.C07'
KNOWN_CNT = 'c07-count-jump-negation'
FAIL_NAMES = {1: 'decompile_loop', 2: 'decompile_if_else', 3: 'decompile_break', 4: 'unused_labels',
              5: 'postprocess_decompiled (pass order / composition)', 6: 'raise output is not a flat bookended stream',
              7: 'malformed case', 8: 'canonical stream of the flat program: model vs time pass + label resolution of the implementation',
              9: 'canonical stream of the reconstructed program: model vs desugar_blocks + time pass of the implementation'}

def unesc(s):
    return s.replace('\\n', '\n').replace('\\\\', '\\')

def run_harness(v, args, seed):
    rc, out = sh([harness_bin('c07')] + [str(a) for a in args], timeout=2400, env={'VERIF_SEED': str(seed)})
    lines = [l for l in out.splitlines() if '\t' in l]
    if rc != 0:
        v.obligation('harness c07 %s ran' % args[0], False, out[-800:])
    return lines

def run_harness_parallel(v, n, seed, procs):
    """`gen` split over several processes with derived seeds (deterministic in (seed, procs))"""
    import subprocess
    env = dict(os.environ); env.update({'RUST_BACKTRACE': '0', 'VERIF_REPO': REPO, 'VERIF_WORK': WORK})
    ps = []
    for k in range(procs):
        e = dict(env); e['VERIF_SEED'] = str(seed * 1000 + k)
        cnt = n // procs + (1 if k < n % procs else 0)
        ps.append(subprocess.Popen([harness_bin('c07'), 'gen', str(cnt)], env=e, stdout=subprocess.PIPE, stderr=subprocess.STDOUT, text=True, errors='replace'))
    lines = []
    for k, p in enumerate(ps):
        try:
            out, _ = p.communicate(timeout=3000)
        except subprocess.TimeoutExpired:
            p.kill(); out, _ = p.communicate()
            v.obligation('harness c07 gen (process %d) finished in time' % k, False, out[-400:])
        if p.returncode != 0:
            v.obligation('harness c07 gen (process %d) ran' % k, False, out[-800:])
        lines += [l for l in out.splitlines() if '\t' in l]
    return lines

def merge_stats(stats):
    tot = {}
    for line in stats:
        for f in line.split('\t'):
            k, _, val = f.partition('=')
            try:
                if val.startswith('{'):
                    d = json.loads(val); t = tot.setdefault(k, {})
                    for kk, vv in d.items(): t[kk] = t.get(kk, 0) + vv
                elif val.startswith('['):
                    tot.setdefault(k, [])
                    if len(tot[k]) < 3: tot[k] += json.loads(val)[:1]
                else:
                    tot[k] = tot.get(k, 0) + int(val)
            except (ValueError, TypeError):
                pass
    return tot

def split_src(src):
    host, _, body = src.partition('|')
    return host, unesc(body)

def oracle_class(what, detail):
    """the one recorded defect: the if/else pass negates a `--x > 0` count jump into `--x <= 0`, which no format can compile"""
    if 'does not recompile' in what and 'not supported by format' in detail and re.search(r'\(--\S+ <= 0\)', detail):
        return KNOWN_CNT
    return 'c07-oracle:' + re.sub(r'[^a-z0-9]+', '-', what.lower())[:60]

ANM_HEAD = '''
entry {
    path: "subdir/file.png", has_data: false, img_width: 512, img_height: 512, img_format: 3,
    offset_x: 0, offset_y: 0, colorkey: 0, memory_priority: 0, low_res_scale: false,
    sprites: {sprite0: {id: 0, x: 0.0, y: 0.0, w: 512.0, h: 480.0}},
}
'''

def cli_roundtrip(host, body, tag):
    """oracle (b) through the command line tool built from the working tree (core mapfiles included):
    compile, decompile with and without --no-blocks, recompile both, compare bytes.
    returns None if fine / not applicable, else (what, detail)"""
    d = os.path.join(WORK, 'c07'); os.makedirs(d, exist_ok=True)
    cli = harness_bin('truth-cli')
    if host == 'Anm':
        cmd, g, ext, mapf = 'truanm', '12', 'anm', os.path.join(d, 'cli.anmm')
        open(mapf, 'w').write('!anmmap\n!ins_signatures\n900 S\n901 ot\n')
        text = '#pragma mapfile "%s"\n%s\nscript script0 {\n%s}\n' % (mapf, ANM_HEAD, body)
    else:
        cmd, g, ext, mapf = 'truecl', '7', 'ecl', os.path.join(d, 'cli.eclm')
        open(mapf, 'w').write('!eclmap\n!ins_signatures\n900 S\n901 to\n')
        text = '#pragma mapfile "%s"\nscript timeline0 {}\n\nvoid sub0() {\n%s}\n' % (mapf, body)
    src = os.path.join(d, '%s.spec' % tag); open(src, 'w').write(text)
    b0 = os.path.join(d, '%s.0.%s' % (tag, ext))
    rc, o = sh([cli, cmd, 'compile', '-g', g, src, '-o', b0], timeout=60)
    if rc != 0: return None          # the input itself is not a program
    outs = {}
    for name, extra in (('blocks', []), ('noblocks', ['--no-blocks'])):
        rc, o = sh([cli, cmd, 'decompile', '-g', g, '-m', mapf, b0] + extra, timeout=60)
        if rc != 0: return ('CLI: decompile %s fails' % ' '.join(extra), o[-400:])
        sp = os.path.join(d, '%s.%s.spec' % (tag, name)); open(sp, 'w').write(o)
        bo = os.path.join(d, '%s.%s.%s' % (tag, name, ext))
        rc, o2 = sh([cli, cmd, 'compile', '-g', g, sp, '-o', bo], timeout=60)
        if rc != 0:
            outs[name] = ('error', o2[-500:] + ' ;; decompiled: ' + o[-1500:])
        else:
            outs[name] = ('ok', open(bo, 'rb').read())
    orig = open(b0, 'rb').read()
    if outs['noblocks'][0] != 'ok' or outs['noblocks'][1] != orig:
        return ('CLI: the --no-blocks decompilation does not reproduce the file (harness assumption broken)', str(outs['noblocks'][1])[:300])
    if outs['blocks'][0] != 'ok':
        return ('CLI: the decompilation with reconstructed blocks does not recompile', outs['blocks'][1])
    if outs['blocks'][1] != orig:
        return ('CLI: the decompilation with reconstructed blocks compiles to different bytes than the one with plain labels and gotos', '')
    return None

def main(argv):
    tier, seed, replay = tier_and_seed(argv)
    v = Verdict(PROP, tier, seed)
    t_ph = [time.time()]
    def phase(name):
        v.notes.append('phase %s: %.1fs' % (name, time.time() - t_ph[0])); t_ph[0] = time.time()
    proofs_ok, h_ok, unrec = standard_proof_steps(
        v, PROP, ['structtable'], ['theories/Props/C07.vo'], ['c07', 'truth-cli'],
        corr_targets=['theories/Corr/C07.vo'])
    guard_notes = [n for n in v.notes if 'guard absent' in n]
    phase('tables+coq build+audit+cargo build')

    cases, srcs, shapes = [], [], []
    notes = []
    oracle_fail = []
    stats = []
    if h_ok:
        lines = []
        corpus = sorted(glob.glob(os.path.join(VERIF, 'corpus', 'C07', '*.body')))
        if replay:
            r = json.load(open(replay))
            os.makedirs(os.path.join(WORK, 'c07'), exist_ok=True)
            corpus = []
            if r.get('source_text') is not None:
                p = os.path.join(WORK, 'c07', 'replay.%s.body' % r.get('host', 'Anm')); open(p, 'w').write(r['source_text']); corpus = [p]
        for f in corpus:
            host = 'Ecl' if '.Ecl.' in os.path.basename(f) else 'Anm'
            lines += run_harness(v, ['text', host, f], seed)
        if not replay:
            n = 320 if tier == 'quick' else 8000
            lines += run_harness_parallel(v, n, seed, 4 if tier == 'quick' else 12)
        for l in lines:
            parts = l.split('\t')
            if parts[0] == 'ORACLE-FAIL': oracle_fail.append(parts[1:])
            elif parts[0] == 'STATS': stats.append('\t'.join(parts[1:]))
            elif parts[0] == 'NOTE': notes.append(parts[1:])
            elif parts[0] == 'STRUCT':
                cases.append(parts[1]); srcs.append(parts[2] if len(parts) > 2 else '')
                m = re.match(r'shape:(\d+)/(\d+)/(\d+)/(\d+)', parts[3]) if len(parts) > 3 else None
                shapes.append(tuple(int(x) for x in m.groups()) if m else (parts[3].count('SLoop'), parts[3].count('SChain'), 0, 0) if len(parts) > 3 else (0, 0, 0, 0))

    phase('harness')
    # (O) implementation-level oracle failures
    seen = {}
    for f in oracle_fail:
        what, detail, src = f[0], f[1] if len(f) > 1 else '', f[-1]
        cls = oracle_class(what, detail)
        seen[cls] = seen.get(cls, 0) + 1
        if seen[cls] > 3: continue
        host, body = split_src(src)
        v.violation('implementation-level oracle: ' + what, {'class': cls, 'host': host, 'source_text': body, 'detail': unesc(detail)[:3000]})
    oracle_classes = dict(seen)

    # (O') the same oracle through the command line tool, on the corpus and a sample of the generated programs
    n_cli = 0
    if h_ok and cases:
        sample = list(range(min(len(cases), 10))) + list(range(10, len(cases), max(1, len(cases) // (4 if tier == 'quick' else 150))))
        for i in sample:
            host, body = split_src(srcs[i])
            r = cli_roundtrip(host, body, 'cli')
            n_cli += 1
            if r:
                cls = oracle_class(r[0].replace('CLI: ', ''), r[1])
                if cls not in oracle_classes or cls == KNOWN_CNT:
                    oracle_classes[cls] = oracle_classes.get(cls, 0) + 1
                    v.violation('implementation-level oracle (command line): ' + r[0], {'class': cls, 'host': host, 'source_text': body, 'detail': r[1][:3000]})
        v.obligation('oracle through the command line tool on %d programs: decompile / decompile --no-blocks recompile to the same bytes' % n_cli,
                     not [c for c in oracle_classes if c != KNOWN_CNT and c.startswith('c07-oracle:cli')], '')

    phase('cli roundtrips')
    mism, cmism = [], []
    if v.corr_ok and cases:
        shard = max(40, (len(cases) + 15) // 16) if tier == 'quick' else 400
        res, errs = coq_eval_cases(PROP, IMPORTS, 'c07case', cases, check_fn='both_mismatches', shard=shard)
        # decode: within a shard, i = model/implementation disagreement, 1000000 + i = canonical streams differ
        imism = []
        for g in res:
            if g >= 2000000: imism.append(g - 2000000)
            elif g >= 1000000: cmism.append(g - 1000000)
            else: mism.append(g)
        v.obligation('correspondence: model passes = decompile_loop / decompile_if_else / decompile_break / unused_labels / default decompile, and model canonical stream = desugar_blocks + time pass of the implementation, on %d programs (8 comparisons each, vm_compute inside Coq)' % len(cases),
                     not mism and not errs, ('%d mismatches; ' % len(mism)) + '; '.join(errs)[:600] if (mism or errs) else '')
        # the recorded class: the streams differ for truth's compiler but agree for one that could lower `unless (--x <= 0)`
        known_c = [i for i in cmism if i not in imism]
        other_c = [i for i in cmism if i not in known_c]
        v.obligation('model-level oracle: canonical stream of the implementation\'s reconstructed program = canonical stream of the flat program, on %d programs' % len(cases),
                     not other_c, '%d differ' % len(other_c) if other_c else ('%d differ, all in the recorded class %s' % (len(known_c), KNOWN_CNT) if known_c else ''))
        for i in known_c[:1]:
            host, body = split_src(srcs[i])
            v.violation('canonical stream of the reconstructed program differs (negated count jump)', {'class': KNOWN_CNT, 'host': host, 'source_text': body})
        for i in other_c[:3]:
            host, body = split_src(srcs[i])
            v.violation('the reconstructed program does not flatten back to the input stream (model-level evaluation of the property on the implementation\'s output)',
                        {'class': 'c07-canon', 'host': host, 'source_text': body, 'case': cases[i][:6000]})
        for i in mism[:4]:
            host, body = split_src(srcs[i])
            which, full = diagnose(v, host, body, seed, cases[i])
            found = bool(oracle_fail) or bool(other_c)
            v.violation('model/implementation disagreement: %s' % (which or '?'),
                        {'class': 'c07-corr', 'host': host, 'source_text': body, 'case': (full or cases[i])[:8000], 'failing': which,
                         'broken': 'correspondence Corr.C07.model_of'}, no_failing_input=not found)
    phase('coq evaluation')
    if (not proofs_ok or not v.corr_ok) and not [x for x in v.violations]:
        v.violation('proof obligation does not check: %s' % json.dumps(v.coq_error)[:400],
                    {'class': 'c07-proof', 'broken': v.coq_error, 'guards': guard_notes}, no_failing_input=True)
    elif unrec and not v.violations:
        v.violation('translator no longer recognises the source: %s' % unrec[:3],
                    {'class': 'c07-tie1', 'broken': unrec}, no_failing_input=True)
    elif any(not o[1] for o in v.obligations) and not v.violations:
        bad = [o for o in v.obligations if not o[1]]
        v.violation('obligation failed: %s' % bad[0][0], {'class': 'c07-obligation', 'broken': [list(b) for b in bad]}, no_failing_input=True)

    nontriv = [c for c, sh_ in zip(cases, shapes) if sh_[0] + sh_[1] > 0]
    v.coverage.update({
        'evaluations': len(cases),
        'distinct_nontrivial': distinct_count(nontriv),
        'rule': 'jump graphs as source text (ANM th12 / ECL th07): hand-flattened structured programs (loops, do-while, if/else-if/else chains, breaks, shared end labels, several end labels, time labels between loop and end label), the same with perturbations (retargeted jumps, extra jumps into/out of bodies, explicit `@ time`, offsetof/timeof references, interrupt labels, difficulty-tagged jumps and instructions, deleted statements), and random forward/backward jumps; <= 60 statements. Each is compiled, decompiled with blocks:false (the flat stream), the four passes are run one by one in-process, and the default decompilation is taken; non-trivial = the reconstruction produced at least one loop or cond chain; distinct = distinct case terms',
        'traces_validated_against_impl': len(cases),
        'generator_stats': merge_stats(stats),
        'oracle_failures_by_class': oracle_classes,
        'cli_roundtrips': n_cli,
        'astvm_notes': len(notes),
        'samples': [{'case': c[:700], 'source': s[:300]} for c, s in list(zip(cases, srcs))[:1] + list(zip(cases, srcs))[-2:]],
        'exhaustive': False,
    })
    return v.finish(
        level='proof',
        checker_cmd='gen/structtable.py ; cd coq && make theories/Corr/C07.vo theories/Props/C07.vo ; coqc work/audit_C07.v (Print Assumptions) ; harness/target/debug/c07 gen|text ; coqc work/cases_C07/*.v ; truth-cli truanm|truecl compile/decompile[--no-blocks]',
        trusted_base=['modelled, not verified: Model/Structure.v is a hand-written restatement of decompile_loop.rs, unused_labels.rs and of the layout desugar_blocks.rs + the time pass give to loops and cond chains (canon_of); tied on every run by the correspondence: AST equality after each pass and for the default decompilation, and equality of canon_of with the canonical stream the harness computes from the implementation\'s own desugar_blocks::run + time_and_difficulty::run, for the flat and for the reconstructed program',
                      'instruction payloads, jump conditions\' operands and difficulty masks are opaque identifiers (interned text)'],
        assumptions=['the meaning of a partially structured program is its flattening (positions counted in instructions, times as assigned by the time pass in text order); equality of canonical streams = same instructions, times, difficulty masks, jump targets (position, time) and explicit time arguments',
                     'labels of a function body are pairwise distinct (well_labelled); loop ids are unique and lexical (checked on the implementation\'s output by the harness)',
                     'instruction payloads are opaque: "executes identically from every initial state" is obtained through identical canonical streams (which compile to identical bytes), not through a register-level semantics; AstVm is run on both programs as an additional oracle',
                     'the finding c07-count-jump-negation (fixed in truth 9533770) is tracked by the generated flag g_if_cnt: with the guard absent the unconditional theorem does not build and C07_count_jump_negation_refuted applies'])

def diagnose(v, host, body, seed, hashed=None):
    """re-run one program with all six programs as terms and ask the model which comparisons fail"""
    d = os.path.join(WORK, 'c07'); os.makedirs(d, exist_ok=True)
    p = os.path.join(d, 'diag.body'); open(p, 'w').write(body)
    full = None
    for l in run_harness(v, ['text', host, p], seed):
        parts = l.split('\t')
        if parts[0] == 'STRUCT' and len(parts) > 3: full = parts[3]
    codes = set()
    for term in (full, hashed):
        if not term: continue
        rc, o = sh(['coqc', '-noglob', '-Q', os.path.join(COQ, 'theories'), 'TV', write_failing(term)], timeout=300, cwd=d)
        m = re.search(r'=\s*\[([^\]]*)\]', o)
        if m: codes |= set(int(x) for x in re.findall(r'\d+', m.group(1)))
    which = ', '.join(FAIL_NAMES.get(x, str(x)) for x in sorted(codes))
    return which, full

def write_failing(case):
    d = os.path.join(WORK, 'c07'); os.makedirs(d, exist_ok=True)
    p = os.path.join(d, 'failing.v')
    open(p, 'w').write('From TV Require Import Base.I32 Model.Structure Gen.StructTable Corr.C07.\nOpen Scope Z_scope.\nDefinition c := %s.\nEval vm_compute in (failing c).\n' % case)
    return p
