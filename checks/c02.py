"""C02 -- compiling expressions and statements preserves what the script does."""
import os, sys, json
from vlib import *

PROP = 'C02'
IMPORTS = 'Base.F32 Model.Ops Model.Expr Model.Lower Corr.C02'

def main(argv):
    tier, seed, replay = tier_and_seed(argv)
    v = Verdict(PROP, tier, seed)
    props = ['theories/Props/C02.vo'] if os.path.exists(os.path.join(COQ, 'theories/Props/C02.v')) else []
    proofs_ok, h_ok, unrec = standard_proof_steps(v, PROP, [], props or ['theories/Model/Lower.vo'], ['c02'],
                                                  corr_targets=['theories/Corr/C02.vo'])
    cases, texts, oracle_fail, stats = [], [], [], ''
    runcases, runtexts = [], []
    if h_ok:
        lines = []
        os.makedirs(os.path.join(WORK, 'C02'), exist_ok=True)
        corpus = sorted(glob.glob(os.path.join(VERIF, 'corpus', 'C02', '*.txt')))
        if replay:
            r = json.load(open(replay))
            p = os.path.join(WORK, 'C02', 'replay.txt'); open(p, 'w').write(r['source_text'])
            corpus = [(p, r.get('cfgbits', 4095))]
        else:
            corpus = [(f, int(open(f).readline().split('cfgbits=')[1].split()[0]) if 'cfgbits=' in open(f).readline() else 4095) for f in corpus]
        for f, bits in corpus:
            rc, out = sh([harness_bin('c02'), 'text', f, str(bits)], timeout=120, env={'VERIF_SEED': str(seed)})
            lines += out.splitlines()
        if not replay:
            n = 400 if tier == 'quick' else 20000
            rc, out = sh([harness_bin('c02'), 'gen', str(n)], timeout=3000, env={'VERIF_SEED': str(seed)})
            if rc != 0: v.obligation('harness c02 gen ran', False, out[-800:])
            lines += out.splitlines()
        for l in lines:
            parts = l.split('\t')
            if parts[0] == 'ORACLE-FAIL': oracle_fail.append(parts[1:])
            elif parts[0] == 'STATS': stats = '\t'.join(parts[1:])
            elif parts[0] == 'LOWER': cases.append(parts[1]); texts.append(parts[2] if len(parts) > 2 else '')
            elif parts[0] == 'RUN': runcases.append(parts[1]); runtexts.append(parts[2] if len(parts) > 2 else '')
    def src_of(t):
        bits = int(t.split('cfgbits=')[1].split()[0]) if 'cfgbits=' in t else 4095
        body = t.split(' ', 1)[1] if 'cfgbits=' in t else t
        return bits, body.replace('; ', ';\n').replace(': ', ':\n')
    seen = set()
    for f in oracle_fail:
        what = f[0]; bits, body = src_of(f[-2] + ' ' + f[-1]) if len(f) >= 3 else (4095, f[-1])
        key = what.split(':')[0]
        if (key, body) in seen: continue
        seen.add((key, body))
        if len(seen) > 5: break
        v.violation('implementation-level oracle (AstVm source vs compiled): ' + what[:300],
                    {'class': 'c02-oracle:' + key, 'source_text': body, 'cfgbits': bits, 'detail': what})
    unknown_fail = [f for f in oracle_fail if not v.is_known('c02-oracle:' + f[0].split(':')[0])]
    v.obligation('oracle: AstVm(source) = AstVm(raise(lower(source))) on every generated body x 4 valuations', not unknown_fail,
                 '%d failures' % len(unknown_fail) if unknown_fail else '(%d runs fall under recorded known findings)' % len(oracle_fail))
    if v.corr_ok and cases:
        mism, errs = coq_eval_cases(PROP, IMPORTS, 'c02case', cases, shard=(60 if tier == 'quick' else 300))
        v.obligation('correspondence: model lowering = implementation lowering (emitted instruction lists) on %d bodies' % len(cases),
                     not mism and not errs, ('%d mismatches; ' % len(mism)) + '; '.join(errs)[:600] if (mism or errs) else '')
        # search: the mismatching bodies through the AstVm oracle on many more valuations
        probe_found = False
        probe_runs = []
        for i in mism[:12]:
            bits, body = src_of(texts[i])
            pp = os.path.join(WORK, 'C02', 'probe%d.txt' % i)
            open(pp, 'w').write(body)
            rc, out = sh([harness_bin('c02'), 'text', pp, str(bits)], timeout=600, env={'VERIF_SEED': str(seed), 'VERIF_NVALS': '300'})
            for l in out.splitlines():
                if l.startswith('RUN\t'): probe_runs.append((l.split('\t')[1], body, bits))
                if l.startswith('ORACLE-FAIL'):
                    parts = l.split('\t')
                    key = parts[1].split(':')[0]
                    if v.is_known('c02-oracle:' + key): continue
                    probe_found = True
                    v.violation('implementation-level oracle (probe of a body on which model and implementation lower differently): ' + parts[1][:300],
                                {'class': 'c02-oracle:' + key, 'source_text': body, 'cfgbits': bits, 'detail': parts[1]})
                    break
            if probe_found: break
        if probe_runs and not probe_found:
            # the probed bodies' runs (first valuations + those with a timing-only difference) against the model's machines
            pm, pe = coq_eval_cases(PROP, IMPORTS, 'c02case', [r[0] for r in probe_runs], shard=4, tag='proberun')
            for i in pm[:2]:
                probe_found = True
                v.violation('a body on which model and implementation lower differently runs differently from the model (time, real time, instruction log or registers)',
                            {'class': 'c02-corr-run', 'case': probe_runs[i][0][-3000:], 'source_text': probe_runs[i][1], 'cfgbits': probe_runs[i][2],
                             'broken': 'correspondence Corr.C02.model_run'})
        for i in mism[:4]:
            bits, body = src_of(texts[i])
            v.violation('model/implementation disagreement on the lowered instruction list',
                        {'class': 'c02-corr', 'case': cases[i], 'source_text': body, 'cfgbits': bits, 'broken': 'correspondence Corr.C02.model_of'},
                        no_failing_input=(not unknown_fail and not probe_found))
    if v.corr_ok and runcases:
        rmism, rerrs = coq_eval_cases(PROP, IMPORTS, 'c02case', runcases, shard=(30 if tier == 'quick' else 150), tag='run')
        v.obligation('correspondence: Model.LowerProg.sprog = AstVm on the source body and Model.LowerProg.wprog (on the model-lowered stream) = AstVm on the raised compiled code: time, real time, instruction log, registers, on %d bodies x 2 valuations' % len(runcases),
                     not rmism and not rerrs, ('%d mismatches; ' % len(rmism)) + '; '.join(rerrs)[:600] if (rmism or rerrs) else '')
        for i in rmism[:3]:
            bits, body = src_of(runtexts[i])
            v.violation('model/implementation disagreement on a run (semantics of the source body or of the lowered stream)',
                        {'class': 'c02-corr-run', 'case': runcases[i][-3000:], 'source_text': body, 'cfgbits': bits, 'broken': 'correspondence Corr.C02.model_run'},
                        no_failing_input=not unknown_fail)
    if (not proofs_ok or not v.corr_ok) and not v.violations:
        v.violation('proof obligation does not check: %s' % json.dumps(v.coq_error)[:400], {'class': 'c02-proof', 'broken': v.coq_error}, no_failing_input=True)
    elif any(not o[1] for o in v.obligations) and not v.violations:
        bad = [o for o in v.obligations if not o[1]]
        v.violation('obligation failed: %s' % bad[0][0], {'class': 'c02-obligation', 'broken': [list(b) for b in bad]}, no_failing_input=True)
    v.coverage.update({
        'evaluations': len(cases), 'distinct_nontrivial': distinct_count([c for c in cases if 'LOk' in c]),
        'rule': 'seeded random flat bodies (assignments incl. compound, declarations, conditional/counting/unconditional forward jumps, calls with complex arguments, time labels; expressions with arithmetic, casts through both sigils, negation, ~, ternaries, logical conditions) x intrinsic tables (12 config bits: count-jump flavours, compound-assign intrinsics, comparison binops, native negation/bitnot, one- vs two-part conditional jumps, integer-only ops, scratch pool sizes 1..4 per type); each body is lowered by llir::Lowerer and compared instruction by instruction with the model, and executed by AstVm before/after from 4 valuations; distinct = distinct case terms that lowered successfully',
        'traces_validated_against_impl': len(cases) + 2 * len(runcases), 'run_cases': len(runcases), 'generator_stats': stats,
        'samples': [{'case': c[-700:], 'source': t[:300]} for c, t in list(zip(cases, texts))[:2]],
    })
    return v.finish(level='proof',
                    checker_cmd='cd coq && make theories/Corr/C02.vo theories/Props/C02.vo ; harness/target/debug/c02 gen ; coqc work/cases_C02/*.v',
                    trusted_base=['Model/Lower.v restates stackless.rs / lower/intrinsic.rs / intrinsic.rs::alternatives by hand (modelled, not verified)',
                                  'the intrinsic instructions are given the semantics of the corresponding operator of AstVm (Model/Ops.v)'],
                    assumptions=['difficulty switches inside expressions, sub calls and Counter/TypeVolatile test variables are outside the model'])
