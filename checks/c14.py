"""C14 -- difficulty labels and switches select exactly the stated difficulties."""
import os, sys, json, re
from vlib import *

PROP = 'C14'
IMPORTS = 'Model.Diff Corr.C14'
KINDS = ('LABELS', 'PARSE', 'ELAB')
import time as _time

def eval_robust(tag, imports, ty, cases, shard):
    """coq_eval_cases; shards that die (per-shard timeout on a loaded machine) are re-run once in smaller shards"""
    mism, errs = coq_eval_cases(tag, imports, ty, cases, shard=shard)
    if errs and not mism:
        mism, errs = coq_eval_cases(tag + 'r', imports, ty, cases, shard=max(5, shard // 6))
    return mism, errs

def run_harness(v, args, seed):
    rc, out = sh([harness_bin('c14')] + [str(a) for a in args], timeout=1500, env={'VERIF_SEED': str(seed)})
    lines = [l for l in out.splitlines() if '\t' in l]
    if rc != 0:
        v.obligation('harness c14 %s ran' % args[0], False, out[-800:])
    return lines

def replay_fields(text):
    """flags=[0 E-, 4 E-] <source>  ->  replay files of the harness"""
    m = re.match(r'flags=\[([^\]]*)\]\s*(.*)$', text.strip())
    if not m: return {}
    flags = [x.strip() for x in m.group(1).split(',') if x.strip()]
    rest = m.group(2)
    out = {'flags_text': '\n'.join(flags) + '\n'}
    mm = re.search(r'(?:\{"([^"]*)"\}:\s*)?ins_\d+\((.*)\);', rest)
    if mm:
        out['text_text'] = '# flags: %s\n%s%s\n' % (', '.join(flags), ('# label: %s\n' % mm.group(1)) if mm.group(1) is not None else '', mm.group(2))
    return out

def main(argv):
    tier, seed, replay = tier_and_seed(argv)
    v = Verdict(PROP, tier, seed)
    t_start = _time.time()
    proofs_ok, h_ok, unrec = standard_proof_steps(
        v, PROP, ['diffflags'], ['theories/Props/C14.vo'], ['c14'], corr_targets=['theories/Corr/C14.vo'])
    t_built = _time.time()
    # when tie 1 or a proof is broken the remaining job is to find a failing input: half the volume is enough
    degraded = (not proofs_ok) or bool(unrec)

    cases, texts, kinds = [], [], []
    oracle_fail = []
    stats = []
    wd = os.path.join(WORK, 'c14'); os.makedirs(wd, exist_ok=True)
    if h_ok:
        lines = []
        corpus_flags = sorted(glob.glob(os.path.join(VERIF, 'corpus', 'C14', '*.flags')))
        corpus_text = sorted(glob.glob(os.path.join(VERIF, 'corpus', 'C14', '*.txt')))
        corpus_run = sorted(glob.glob(os.path.join(VERIF, 'corpus', 'C14', '*.run')))
        if replay:
            r = json.load(open(replay))
            corpus_flags, corpus_text, corpus_run = [], [], []
            if r.get('run_text'):
                p = os.path.join(wd, 'replay.run'); open(p, 'w').write(r['run_text']); corpus_run = [p]
            elif r.get('text_text'):
                p = os.path.join(wd, 'replay.txt'); open(p, 'w').write(r['text_text']); corpus_text = [p]
            elif r.get('flags_text') is not None:
                p = os.path.join(wd, 'replay.flags'); open(p, 'w').write(r['flags_text']); corpus_flags = [p]
            elif r.get('case'):
                lines.append('%s\t%s\t%s' % (r.get('kind', 'PARSE'), r['case'], r.get('source', '')))
        for f in corpus_flags: lines += run_harness(v, ['flags', f], seed)
        for f in corpus_text: lines += run_harness(v, ['text', f], seed)
        for f in corpus_run: lines += run_harness(v, ['run', f], seed)
        if not replay:
            n = {'quick': (24, 500, 700, 400), 'thorough': (600, 15000, 20000, 20000)}[tier if tier in ('quick', 'thorough') else 'quick']
            if degraded: n = tuple(max(8, x // 2) for x in n)
            lines += run_harness(v, ['labels', n[0]], seed) + run_harness(v, ['parse', n[1]], seed) + run_harness(v, ['elab', n[2]], seed) + run_harness(v, ['runs', n[3]], seed)
        for l in lines:
            parts = l.split('\t')
            if parts[0] == 'ORACLE-FAIL': oracle_fail.append(parts[1:])
            elif parts[0] == 'STATS': stats.append('\t'.join(parts[1:]))
            elif parts[0] in KINDS:
                kinds.append(parts[0]); cases.append(parts[1]); texts.append(parts[2] if len(parts) > 2 else '')
    hist = {}
    for k in kinds: hist[k] = hist.get(k, 0) + 1
    t_harness = _time.time()

    # (O) implementation-level oracle failures: violations with a concrete input
    seen = set()
    for f in oracle_fail:
        what = f[0]
        src = f[1] if len(f) > 1 else ''
        head = what.split(': ')[0] if (what.startswith('nested difficulty switch') or what.startswith('label round trip') or what.startswith('decompile+recompile')) else re.sub(r'\d+', 'N', what.split(':')[0])
        cls = 'c14-oracle:' + head
        if cls in seen: continue
        seen.add(cls)
        if len(seen) > 6: break
        rp = {'class': cls, 'detail': f}
        rp.update(replay_fields(src))
        mrun = re.match(r'flags=\[([^\]]*)\] run=\[([^\]]*)\]', src.strip())
        if mrun: rp = {'class': cls, 'detail': f, 'run_text': '# flags: %s\n%s\n' % (mrun.group(1), mrun.group(2))}
        if not what.startswith('nested') and 'text_text' in rp and ('label round trip' in what or 'decompile+recompile' in what): rp.pop('text_text')
        v.violation('implementation-level oracle: ' + what, rp)

    shard = 40 if tier == 'quick' else 200
    if v.corr_ok and cases:
        # LABELS cases are large (256 entries each): shard by weight
        order = sorted(range(len(cases)), key=lambda i: kinds[i] != 'LABELS')
        big = [i for i in order if kinds[i] == 'LABELS']; small = [i for i in order if kinds[i] != 'LABELS']
        mism_all, errs_all = [], []
        for name, idxs, sh_ in (('labels', big, 6 if tier == 'quick' else 12), ('small', small, 300 if tier == 'quick' else 600)):
            if not idxs: continue
            mism, errs = eval_robust(PROP + name, IMPORTS, 'c14case', [cases[i] for i in idxs], sh_)
            mism_all += [idxs[i] for i in mism]; errs_all += errs
        v.obligation('correspondence: model = implementation on %d cases (vm_compute inside Coq)' % len(cases), not mism_all and not errs_all,
                     ('%d mismatches; ' % len(mism_all)) + '; '.join(errs_all)[:600] if (mism_all or errs_all) else '')
        shown = set()
        for i in mism_all:
            if kinds[i] in shown: continue
            shown.add(kinds[i])
            rp = {'class': 'c14-corr:' + kinds[i], 'kind': kinds[i], 'case': cases[i][:20000], 'source': texts[i],
                  'broken': 'correspondence Corr.C14.model_of'}
            rp.update(replay_fields(texts[i]))
            if kinds[i] != 'ELAB': rp.pop('text_text', None)
            v.violation('model/implementation disagreement on a %s case' % kinds[i], rp, no_failing_input=not oracle_fail)
    if (not proofs_ok or not v.corr_ok) and not v.violations:
        v.violation('proof obligation does not check: %s' % json.dumps(v.coq_error)[:400],
                    {'class': 'c14-proof', 'broken': v.coq_error}, no_failing_input=True)
    elif unrec and not v.violations:
        v.violation('translator no longer recognises DiffFlagDefs: %s' % unrec[:3],
                    {'class': 'c14-tie1', 'broken': unrec}, no_failing_input=True)
    elif any(not o[1] for o in v.obligations) and not v.violations:
        bad = [o for o in v.obligations if not o[1]]
        v.violation('obligation failed: %s' % bad[0][0], {'class': 'c14-obligation', 'broken': [list(b) for b in bad]}, no_failing_input=True)

    t_eval = _time.time()
    v.notes.append('timing: proofs+translators+coq build+audit+cargo build %.0fs, harness %.0fs, model evaluation in coq %.0fs%s' % (
        t_built - t_start, t_harness - t_built, t_eval - t_harness, ' (volume halved: tie 1 / proofs broken)' if degraded else ''))
    nruns = 0
    for st in stats:
        mr = re.search(r'"runs": (\d+)', st)
        if mr: nruns += int(mr.group(1))
    nlab = hist.get('LABELS', 0)
    v.coverage.update({
        'evaluations': len(cases) + 255 * nlab,
        'distinct_nontrivial': distinct_count([c for c in cases if 'IOk' in c]),
        'rule': 'LABELS: seeded random `!difficulty_flags` sections (0-10 definitions, names from a 24-character pool incl. all digits; one set in five moves digit names onto other bits without re-pointing, default-on and default-off, repeated bits, every 4th set allowed to re-point names, occasional invalid lines) applied with Truth::apply_mapfile_str; then ALL 256 masks through mask_to_diff_label and parse_diff_string (exhaustive in the mask), compared with Model.Diff; PARSE: random label strings (names, digits, + - *, unknown and invalid characters) through parse_diff_string; ELAB: `{"label"}: ins(args);` with 1-3 arguments, switches of 2-8 cases with random holes, every 5th statement with nested switches, random labels (names, digits, *, -names) under random consistent flag sets, through compile_olde_ecl; the emitted copies (mask, values) compared with Model.Diff.elaborate; RUNS (oracle only, not counted in evaluations): stored runs of 2-8 same-opcode instructions with arbitrary masks (contiguous partitions, holes, gaps, overlaps, shuffled single bits, random; default-on flag bits equal/varying/absent; TH08-style and random flag sets) -> decompile_olde_ecl with switch recognition -> recompile. evaluations counts every (flag set, mask) pair; distinct = distinct case terms with an IOk result',
        'traces_validated_against_impl': len(cases),
        'case_kinds': hist,
        'oracle_only_runs': nruns,
        'generator_stats': stats,
        'oracle': 'labels: every mask\'s label parses back to the mask, and a script carrying all 256 masks survives decompile_olde_ecl + format + parse + compile_olde_ecl; switches: on every difficulty d < number of cases with bit d in (label mask & difficulty bits) exactly one emitted instruction has bit d and it carries the values of the generator\'s own switch semantics at d; every copy keeps the label\'s default-on bits; runs: after decompile (switch recognition on) + recompile, on every difficulty 0..7 the sequence of (time, opcode, arguments) of the instructions whose mask has that bit is unchanged',
        'samples': [{'kind': k, 'case': c[:500], 'source': t[:300]} for k, c, t in list(zip(kinds, cases, texts))[:1] + list(zip(kinds, cases, texts))[-2:]],
        'exhaustive': False,
        'exhaustive_in': 'the 256 masks, for each sampled flag-definition set; the range structure of explicit_case_bitmasks is checked for all 256 masks x all explicit-position patterns of 2..8 cases inside Coq (Proofs/Diff.v check_all_ok)',
    })
    return v.finish(
        level='proof',
        checker_cmd='gen/diffflags.py ; cd coq && make theories/Corr/C14.vo theories/Props/C14.vo ; coqc work/audit_C14.v (Print Assumptions) ; harness/target/debug/c14 labels|parse|elab|flags|text ; coqc work/cases_C14*/*.v',
        trusted_base=['modelled, not verified: Model/Diff.v is a hand-written restatement of context/diff_flags.rs, bitset.rs (8-bit use), diff_switch_utils.rs and llir/lower.rs elaborate_diff_switches, parameterised by the constants gen/diffflags.py reads from diff_flags.rs, llir/lower.rs and diff_switch_utils.rs (NUM_BITS, flag-name character ranges, built-in names, the characters - + *, the shape of define_flag, whether define_flag_from_mapfile rejects re-pointed names, the text of elaborate_diff_switches / select_diff_switch_case / explicit_case_bitmasks, whether nested switches contribute explicit positions)'],
        assumptions=['C14_label_roundtrip holds under the invariant Consistent (every bit prints as a name that parses back to it); a mapfile that re-points a printed name breaks it (known finding, fixes/c14-flag-name-repoint.diff)',
                     'C14_elaborate_exactly_one is for flat switches; a switch nested inside a switch case is mis-elaborated (known finding, fixes/c14-nested-diff-switch.diff)',
                     'the assignment path for non-simple switch cases (stackless.rs lower_assign_diff_switch) and the inverse recognize_diff_switch are not modelled; recognize_diff_switch is covered by oracle only (256-mask carrier script; stored instruction runs with arbitrary masks compared per difficulty after decompile + recompile)'])
