"""C01 -- decompile then recompile reproduces the binary bit-for-bit."""
import os, sys, json, random, itertools, hashlib, shutil
from concurrent.futures import ThreadPoolExecutor
from vlib import *
import c01_corpus

PROP = 'C01'
OPTS = ['--no-blocks', '--no-intrinsics', '--no-arguments', '--no-diff-switches', '--no-calls']
ALL_SUBSETS = [list(c) for n in range(len(OPTS) + 1) for c in itertools.combinations(OPTS, n)]
DEFAULT_MAPS = {'truanm': 'map/any.anmm', 'trustd': 'map/any.stdm', 'trumsg': 'map/any.msgm', 'truecl': 'map/any.eclm'}

CLI_TIMEOUT = [30]

GEN_ANM_MAP = """!anmmap
!ins_signatures
900 S
901 ot
4 ot
5 Sot
28 SSot
30 SSot
32 SSot
34 SSot
36 SSot
38 SSot
64 S(imm)
!ins_intrinsics
4 Jmp()
5 CountJmp()
28 CondJmp(op="=="; type="int")
30 CondJmp(op="!="; type="int")
32 CondJmp(op="<"; type="int")
34 CondJmp(op="<="; type="int")
36 CondJmp(op=">"; type="int")
38 CondJmp(op=">="; type="int")
64 Interrupt()
"""
GEN_ECL_MAP = """!eclmap
!ins_signatures
900 S
901 to
2 to
3 toS
28 SSto
30 SSto
32 SSto
34 SSto
36 SSto
38 SSto
!ins_intrinsics
2 Jmp()
3 CountJmp(op=">")
28 CondJmp(op="=="; type="int")
30 CondJmp(op="!="; type="int")
32 CondJmp(op="<"; type="int")
34 CondJmp(op="<="; type="int")
36 CondJmp(op=">"; type="int")
38 CondJmp(op=">="; type="int")
"""
GEN_ANM_HEAD = """
entry {
    path: "subdir/file.png",
    has_data: false,
    img_width: 512,
    img_height: 512,
    img_format: 3,
    offset_x: 0,
    offset_y: 0,
    colorkey: 0,
    memory_priority: 0,
    low_res_scale: false,
    sprites: {
        sprite0: {id: 0, x: 0.0, y: 0.0, w: 512.0, h: 480.0},
    },
}
"""

def cli(args, cwd, timeout=None):
    return sh([harness_bin('truth-cli')] + args, cwd=cwd, timeout=timeout or CLI_TIMEOUT[0])

def game_of(fname):
    g = os.path.basename(fname).split('-')[0]
    return g.replace('th', '')

def tool_of(fname):
    ext = fname.rsplit('.', 1)[-1]
    return {'anm': 'truanm', 'std': 'trustd', 'msg': 'trumsg', 'ecl': 'truecl'}[ext]

def loss_warning(stderr):
    return 'warning' in stderr.lower()

def roundtrip(job):
    """job: dict(tool, game, binary, mapfiles, opts, width, dir, tag). Returns dict(status, ...)"""
    d = job['dir']
    os.makedirs(d, exist_ok=True)
    txt = os.path.join(d, 'dec.spec')
    out = os.path.join(d, 'rec.bin')
    margs = []
    for m in job['mapfiles']: margs += ['-m', m]
    rc, err = cli([job['tool'], 'decompile', '-g', job['game'], job['binary'], '-o', txt, '--max-columns', str(job['width'])] + margs + job['opts'], cwd=REPO)
    res = {'job': {k: job[k] for k in ('tool', 'game', 'binary', 'mapfiles', 'opts', 'width', 'tag')}}
    if rc == 124:
        res.update(status='decompile-timeout', stderr=err[-500:]); return res
    if 'panicked at' in err:
        res.update(status='decompile-panic', stderr=err[-800:]); return res
    if rc != 0:
        res.update(status='decompile-error', stderr=err[-800:]); return res
    if loss_warning(err):
        res.update(status='skipped-warning', stderr=err[-300:]); return res
    cargs = [job['tool'], 'compile', '-g', job['game'], txt, '-o', out] + margs
    if job['tool'] == 'truanm': cargs += ['-i', job['binary']]
    rc, err2 = cli(cargs, cwd=REPO)
    if rc == 124:
        res.update(status='recompile-timeout', stderr=err2[-500:]); return res
    if rc != 0:
        res.update(status='recompile-failed', stderr=err2[-800:], text=open(txt, errors='replace').read()[:4000]); return res
    a, b = open(job['binary'], 'rb').read(), open(out, 'rb').read()
    if a != b:
        first = next((i for i in range(min(len(a), len(b))) if a[i] != b[i]), min(len(a), len(b)))
        res.update(status='differs', first_diff=first, len_a=len(a), len_b=len(b), text=open(txt, errors='replace').read()[:4000]); return res
    res['status'] = 'ok'
    return res

def main(argv):
    tier, seed, replay = tier_and_seed(argv)
    v = Verdict(PROP, tier, seed)
    rng = random.Random(seed)
    props_v = os.path.join(COQ, 'theories', 'Props', 'C01.v')
    proofs_ok = True
    if os.path.exists(props_v):
        proofs_ok, h_ok, unrec = standard_proof_steps(v, PROP, ['argcodec', 'abiletters', 'diffflags', 'timelabels'], ['theories/Props/C01.vo'], ['truth-cli', 'c07'])
        if unrec and not v.violations:
            v.violation('translators no longer recognise a table used by the C01 composition: %s' % unrec[:3], {'class': 'c01-tie1', 'broken': unrec}, no_failing_input=True)
    else:
        h_ok, hout = cargo_build(['truth-cli', 'c07'])
        if not h_ok: v.obligation('harness build against /repo working tree', False, hout[-1500:])
    work = os.path.join(WORK, 'C01')
    shutil.rmtree(work, ignore_errors=True)
    os.makedirs(work)

    jobs = []
    stats = {'sources': 0, 'compiled': 0, 'bundled': 0, 'generated': 0, 'generated_compiled': 0, 'pcb_calls': 0, 'pcb_calls_compiled': 0}
    if h_ok and not replay:
        # (a) bundled binaries
        bundled = sorted(glob.glob(os.path.join(REPO, 'tests/integration/bits-2-bits/*')))
        bundled += sorted(glob.glob(os.path.join(REPO, 'tests/integration/resources/*.anm')))
        for f in bundled:
            tool = tool_of(f)
            stats['bundled'] += 1
            subsets = ALL_SUBSETS if tier == 'thorough' else [[]] + rng.sample(ALL_SUBSETS[1:], 3)
            widths = [20, 60, 100, 200] if tier == 'thorough' else [rng.choice([1, 20, 40, 60, 100, 200])]
            for s in subsets:
                for w in widths:
                    jobs.append({'tool': tool, 'game': game_of(f), 'binary': f, 'mapfiles': [DEFAULT_MAPS[tool]], 'opts': s, 'width': w,
                                 'tag': 'bundled:' + os.path.basename(f)})
        # (b) sources harvested from the repository's own tests, compiled first
        corpus = [c for c in c01_corpus.harvest(REPO) if c['fmt'] != 'ECL_10']
        stats['sources'] = len(corpus)
        def compile_one(ic):
            i, c = ic
            d = os.path.join(work, 'src%d' % i)
            os.makedirs(d, exist_ok=True)
            src = os.path.join(d, 'in.spec'); open(src, 'w').write(c['text'])
            maps = []
            for k in ('mapfile', 'compile_mapfile'):
                if c.get(k):
                    p = os.path.join(d, k + '.map'); open(p, 'w').write(c[k]); maps.append(p)
            margs = []
            for m in maps: margs += ['-m', m]
            out = os.path.join(d, 'in.bin')
            rc, err = cli([c['cmd'], 'compile', '-g', c['game'], src, '-o', out] + margs + c['compile_args'], cwd=REPO)
            if rc != 0 or not os.path.exists(out): return None
            dm = [DEFAULT_MAPS[c['cmd']]] if c['fmt'] != 'ECL_06_NO_DEFAULT_MAP' else []
            return (c, out, dm + ([maps[0]] if c.get('mapfile') else []))
        with ThreadPoolExecutor(16) as ex:
            compiled = [r for r in ex.map(compile_one, enumerate(corpus)) if r]
        stats['compiled'] = len(compiled)
        for c, binary, maps in compiled:
            subsets = ([[]] + rng.sample(ALL_SUBSETS[1:], 2)) if tier == 'quick' else ([[]] + rng.sample(ALL_SUBSETS[1:], 10))
            for s in subsets:
                w = rng.choice([1, 8, 20, 40, 80, 100, 200]) if tier == 'quick' else rng.randint(1, 200)
                jobs.append({'tool': c['cmd'], 'game': c['game'], 'binary': binary, 'mapfiles': maps, 'opts': s, 'width': w, 'tag': 'test-source:' + c['name']})
        # (c) generated control-flow programs: the structured-program generator of the C07 harness (loops, if/else
        #     chains, breaks, near-miss shapes, time labels, interrupts) for ANM th12 and ECL th07, compiled through
        #     the CLI with the small mapfiles below (the entries of the core mapfiles those programs use)
        ngen = 60 if tier == 'quick' else 1500
        rc, gout = sh([harness_bin('c07'), 'gen', str(ngen)], timeout=1200, env={'VERIF_SEED': str(seed)})
        gen_src = []
        seen_src = set()
        for l in gout.splitlines():
            parts = l.split('\t')
            if len(parts) >= 3 and '|' in parts[2] and parts[0] != 'STATS':
                host, body = parts[2].split('|', 1)
                if host in ('Anm', 'Ecl') and body not in seen_src:
                    seen_src.add(body); gen_src.append((host, body.replace('\\n', '\n')))
        stats['generated'] = len(gen_src)
        def compile_gen(ih):
            i, (host, body) = ih
            d = os.path.join(work, 'gen%d' % i)
            os.makedirs(d, exist_ok=True)
            mp = os.path.join(d, 'm.map'); open(mp, 'w').write(GEN_ANM_MAP if host == 'Anm' else GEN_ECL_MAP)
            src = os.path.join(d, 'in.spec')
            open(src, 'w').write((GEN_ANM_HEAD + '\nscript script0 {\n' + body + '}\n') if host == 'Anm' else ('script timeline0 {}\n\nvoid sub0() {\n' + body + '}\n'))
            tool, game = ('truanm', '12') if host == 'Anm' else ('truecl', '07')
            out = os.path.join(d, 'in.bin')
            rc, err = cli([tool, 'compile', '-g', game, src, '-o', out, '-m', mp], cwd=REPO)
            if rc != 0 or not os.path.exists(out): return None
            return (tool, game, out, mp, i)
        with ThreadPoolExecutor(16) as ex:
            gen_bins = [r for r in ex.map(compile_gen, enumerate(gen_src)) if r]
        stats['generated_compiled'] = len(gen_bins)
        for tool, game, binary, mp, i in gen_bins:
            for s_ in [[]] + rng.sample(ALL_SUBSETS[1:], 1 if tier == 'quick' else 4):
                w = rng.choice([1, 20, 40, 80, 100, 200]) if tier == 'quick' else rng.randint(1, 200)
                jobs.append({'tool': tool, 'game': game, 'binary': binary, 'mapfiles': [DEFAULT_MAPS[tool], mp], 'opts': s_, 'width': w, 'tag': 'generated:%s%d' % (tool, i)})
        # (d) generated PCB-style call sites (TH07/TH08 ECL): argument registers assigned in canonical, shuffled or partial
        #     order before `call(sub)`, several call sites per sub (the decompiler infers each sub's signature from them)
        npcb = 24 if tier == 'quick' else 600
        PCB_UMAP = '!eclmap\n!gvar_names\n10900 MY_COUNTER\n10901 MY_SPEED\n10902 my_other\n'
        def pcb_source(r2, game='07', umap=False):
            ints = ['ARG_A', 'ARG_B', 'ARG_C', 'ARG_D']; floats = ['ARG_R', 'ARG_S', 'ARG_M', 'ARG_N']
            nsub = r2.randint(1, 3)
            sigs = [(r2.randint(0, 2), r2.randint(0, 2)) for _ in range(nsub)]
            out = ['script timeline0 {}', '']
            for k in range(nsub): out.append(('void testSub%d() {}' if game != '06' else 'void testSub%d(int a, float b) {}') % k); out.append('')
            out.append('void sub%d() {' % nsub)
            for _ in range(r2.randint(2, 5)):
                k = r2.randrange(nsub); ni, nf = sigs[k] if game != '06' else (0, 0)
                regs = [(x, True) for x in ints[:ni]] + [(x, False) for x in floats[:nf]]
                mode = r2.random()
                if mode < 0.45: r2.shuffle(regs)
                elif mode < 0.6 and regs: regs.pop(r2.randrange(len(regs)))
                for (x, is_int) in regs:
                    out.append('    %s = %s;' % (x, str(r2.randint(-5, 9)) if is_int else r2.choice(['%d.0' % r2.randint(0, 9), '0.00001', '30000000000000000.0', '0.000000001', '(-123456789012345678901234567890.0)', '0.1', '16777217.0'])))
                    if r2.random() < 0.15: out.append('    I0 = %d;' % r2.randint(0, 3))
                if game != '06': out.append('    call(testSub%d);' % k)
                else: out.append('    testSub%d(%d, %d.5);' % (k, r2.randint(-3, 9), r2.randint(0, 9)))   # EoSD: one call instruction with (int, float)
                if r2.random() < (0.5 if game != '06' else 0.95):
                    # a run of adjacent same-opcode instructions with split difficulty masks (two-part compares, assignments)
                    labels = r2.choice([['EN', 'HL'], ['E', 'N', 'H', 'L'], ['EN', 'H', 'L'], ['E', 'NHL'], ['EH', 'L'], ['ENH', 'L']])
                    kind = r2.randrange(3) if game == '06' else 2   # the two-part compares exist in EoSD only
                    for lb in labels:
                        v_ = r2.randint(0, 9)
                        out.append('    {"%s"}: %s' % (lb, ['ins_27(I0, %d);' % v_, 'ins_28(F0, %d.0);' % v_, 'I1 = %d;' % v_][kind]))
            if umap:
                # registers that only the USER mapfile names (and gives no type): every use needs its sigil
                out.insert(len(out), '    $REG[10900] = %d;' % r2.randint(0, 9))
                out.append('    %%REG[10901] = %d.0;' % r2.randint(0, 9))
                out.append('    I0 = $REG[10900] + 1;')
                out.append('    F0 = %REG[10901] + %REG[10902];')
            out.append('}'); out.append('')
            return '\n'.join(out)
        def compile_pcb(i):
            r2 = random.Random(seed * 7919 + i)
            game = r2.choice(['06', '07', '08'])
            d = os.path.join(work, 'pcb%d' % i); os.makedirs(d, exist_ok=True)
            umap = game != '06' and r2.random() < 0.5   # (EoSD recognises registers by value: an unknown id is just a number)
            src = os.path.join(d, 'in.spec'); open(src, 'w').write(pcb_source(r2, game, umap))
            out = os.path.join(d, 'in.bin')
            maps = ['map/any.eclm']
            if umap:
                mp = os.path.join(d, 'user.eclm'); open(mp, 'w').write(PCB_UMAP); maps.append(mp)
            rc, err = cli(['truecl', 'compile', '-g', game, src, '-o', out, '-m', 'map/any.eclm'], cwd=REPO)
            if rc != 0 or not os.path.exists(out): return None
            return (game, out, i, maps)
        with ThreadPoolExecutor(16) as ex:
            pcb_bins = [r for r in ex.map(compile_pcb, range(npcb)) if r]
        stats['pcb_calls'] = npcb; stats['pcb_calls_compiled'] = len(pcb_bins)
        for game, binary, i, pmaps in pcb_bins:
            for s_ in [[]] + rng.sample(ALL_SUBSETS[1:], 1 if tier == 'quick' else 3):
                w = rng.choice([20, 80, 100]) if tier == 'quick' else rng.randint(1, 200)
                jobs.append({'tool': 'truecl', 'game': game, 'binary': binary, 'mapfiles': pmaps, 'opts': s_, 'width': w, 'tag': 'generated:pcbcalls%d' % i})
    if replay:
        r = json.load(open(replay))
        j = r['job']
        if r.get('binary_hex'):
            p = os.path.join(work, 'replay.bin'); open(p, 'wb').write(bytes.fromhex(r['binary_hex'])); j['binary'] = p
        jobs.append(j)
    for i, j in enumerate(jobs): j['dir'] = os.path.join(work, 'rt%d' % i)

    with ThreadPoolExecutor(16) as ex:
        results = list(ex.map(roundtrip, jobs))
    # a timeout under parallel load is not a verdict: re-run those round trips alone with a generous limit
    retried = 0
    CLI_TIMEOUT[0] = 300
    for i, r in enumerate(results):
        if r['status'].endswith('-timeout'):
            retried += 1
            results[i] = roundtrip(jobs[i])
    hist = {'retried-after-timeout': retried}
    for r in results: hist[r['status']] = hist.get(r['status'], 0) + 1
    bad = [r for r in results if r['status'] not in ('ok', 'skipped-warning')]
    unknown = [r for r in bad if not v.is_known('c01:%s:%s' % (r['status'], r['job']['tag']))]
    hist['known-finding'] = len(bad) - len(unknown)
    v.obligation('oracle: decompile(opts,width) ; recompile = original bytes on %d round trips' % len(results), not unknown,
                 '%d failures: %s' % (len(unknown), hist) if unknown else '(%d round trips fall under recorded known findings)' % (len(bad) - len(unknown)))
    seen = set()
    for r in bad:
        key = (r['status'], r['job']['tag'])
        if key in seen: continue
        seen.add(key)
        if len(seen) > 6: break
        rep = dict(r)
        try:
            rep['binary_hex'] = open(r['job']['binary'], 'rb').read().hex()
        except OSError:
            pass
        rep['class'] = 'c01:%s:%s' % (r['status'], r['job']['tag'])
        v.violation('round trip %s for %s with options %s width %d' % (r['status'], r['job']['tag'], r['job']['opts'], r['job']['width']), rep)
    if not proofs_ok and not v.violations:
        v.violation('proof obligation does not check: %s' % json.dumps(v.coq_error)[:400], {'class': 'c01-proof', 'broken': v.coq_error}, no_failing_input=True)

    distinct = len(set((r['job']['binary'], tuple(r['job']['opts']), r['job']['width']) for r in results if r['status'] == 'ok'))
    v.coverage.update({
        'evaluations': len(results),
        'distinct_nontrivial': distinct,
        'rule': 'one evaluation = decompile (option subset, line width) + recompile (original as image source for ANM) + byte comparison through the CLI built from the working tree; inputs: bundled binaries, every compilable source harvested from the repository tests (tests/integration/*.rs source_test! bodies x Format templates), and generated control-flow programs (the C07 harness generator: loops, if/else chains, breaks, near-miss shapes, time labels; ANM th12 and ECL th07), and generated TH07/TH08 ECL call sites with argument registers in canonical / shuffled / partial order; distinct = distinct (binary, options, width) that round-tripped; runs where decompile printed a warning are excluded as the property allows',
        'status_histogram': hist, 'corpus': stats,
        'traces_validated_against_impl': len(results),
        'samples': [r['job'] for r in results[:1] + results[-2:]],
    })
    return v.finish(level='proof',
                    checker_cmd='cd coq && make theories/Props/C01.vo ; truth-cli decompile/compile round trips (checks/c01.py)',
                    trusted_base=['the CLI round-trip oracle compares bytes only; the composition theorem (Props/C01.v) is about the instruction-stream models of C12/C13/C14 and the label/offset model'],
                    assumptions=['container layouts other than the modelled instruction streams are covered by the round-trip oracle only'])
