"""C20 -- a name used in a script compiles to the id its target has in the output file."""
import os, sys, json, subprocess
from vlib import *

PROP = 'C20'
IMPORTS = 'Base.F32 Model.Ops Model.Expr Model.Ids Model.IdsExpr Corr.C20'
KINDS = ('ANM', 'ECL', 'STD', 'MSG', 'SPARSE')

def run_parallel(v, jobs, seed, timeout=1800):
    env = dict(os.environ)
    env.update({'VERIF_SEED': str(seed), 'RUST_BACKTRACE': '0', 'VERIF_REPO': REPO, 'VERIF_WORK': WORK})
    procs = [(a, subprocess.Popen([harness_bin('c20')] + [str(x) for x in a], env=env, stdout=subprocess.PIPE,
                                  stderr=subprocess.STDOUT, text=True, errors='replace')) for a in jobs]
    lines = []
    for a, p in procs:
        timed_out = False
        try:
            out, _ = p.communicate(timeout=timeout)
        except subprocess.TimeoutExpired:
            # a harness that did not finish in time (loaded machine) says nothing about the property:
            # its complete lines are used, the evidence records the shortfall, and it is not an obligation failure
            p.kill(); out, _ = p.communicate(); timed_out = True
            out = out[:out.rfind('\n') + 1]
            v.notes.append('harness %s timed out after %ds; partial results used' % (' '.join(str(x) for x in a), timeout))
        if p.returncode != 0 and not timed_out:
            v.obligation('harness c20 %s ran' % ' '.join(str(x) for x in a), False, out[-800:])
        lines += [l for l in out.splitlines() if '\t' in l]
    return lines

def eval_with_retry(prop, imports, ctype, cases, shard):
    """coq_eval_cases, re-running (in smaller shards, twice at most) the shards whose coqc did not finish: on a loaded
    machine the per-process timeout can expire, and an evaluation that did not run says nothing about the property"""
    mism, errs = coq_eval_cases(prop, imports, ctype, cases, shard=shard)
    cur = list(range(len(cases)))
    for attempt in range(2):
        failed = sorted(set(int(m.group(1)) for m in (re.match(r'shard (\d+):', e) for e in errs) if m))
        if not errs or not failed: break
        cur = [cur[i] for k in failed for i in range(k * shard, min(len(cur), (k + 1) * shard))]
        shard = max(5, shard // 4)
        m2, errs = coq_eval_cases(prop + 'r', imports, ctype, [cases[i] for i in cur], shard=shard)
        mism = sorted(set(mism) | set(cur[j] for j in m2))
    return mism, errs

def main(argv):
    tier, seed, replay = tier_and_seed(argv)
    v = Verdict(PROP, tier, seed)
    proofs_ok, h_ok, unrec = standard_proof_steps(
        v, PROP, ['ids', 'optable'], ['theories/Props/C20.vo'], ['c20', 'truth-cli'],
        corr_targets=['theories/Corr/C20.vo'])

    cases, texts, kinds = [], [], []
    oracle_fail = []
    stats = []
    if h_ok:
        if replay:
            r = json.load(open(replay))
            lines = []
            if r.get('replay_args') and r['replay_args'] != 'none':
                lines += run_parallel(v, [r['replay_args'].split()], seed)
            elif r.get('case'):
                lines.append('%s\t%s\t%s' % (r.get('kind', 'ANM'), r['case'], r.get('source', '')))
        else:
            n = 400 if tier == "quick" else 6000
            par = 8 if tier == 'quick' else 12
            per = n // par
            lines = run_parallel(v, [['run', per, k * per] for k in range(par)], seed, timeout=1800 if tier == 'quick' else 6 * 3600)
        for l in lines:
            parts = l.split('\t')
            if parts[0] == 'ORACLE-FAIL': oracle_fail.append(parts[1:])
            elif parts[0] == 'STATS': stats.append('\t'.join(parts[1:]))
            elif parts[0] in KINDS:
                kinds.append(parts[0]); cases.append(parts[1]); texts.append(parts[2] if len(parts) > 2 else '')
    hist = {}
    for k in kinds: hist[k] = hist.get(k, 0) + 1

    # (O) implementation-level oracle: argument value vs the table the harness read out of the written file
    seen = set()
    for f in oracle_fail:
        what, rargs, text = f[0], (f[1] if len(f) > 1 else 'none'), f[-1]
        cls = 'c20-oracle:' + what.split(':')[0][:60]
        if cls in seen: continue
        seen.add(cls)
        if len(seen) > 6: break
        v.violation('implementation-level oracle: ' + what, {'class': cls, 'replay_args': rargs, 'source_text': text[:6000].replace('; ', ';\n'), 'detail': [x[:2000] for x in f]})

    if v.corr_ok and cases:
        shard = 150 if tier == 'quick' else 1500
        mism, errs = eval_with_retry(PROP, IMPORTS, 'c20case', cases, shard)
        v.obligation('correspondence: model = implementation on %d cases (vm_compute inside Coq)' % len(cases), not mism and not errs,
                     ('%d mismatches; ' % len(mism)) + '; '.join(errs)[:600] if (mism or errs) else '')
        shown = set()
        for i in mism:
            if kinds[i] in shown: continue
            shown.add(kinds[i])
            m = re.search(r'(one \d+ \d+)', texts[i])
            v.violation('model/implementation disagreement on a %s case' % kinds[i],
                        {'class': 'c20-corr:' + kinds[i], 'kind': kinds[i], 'case': cases[i][:20000], 'source': texts[i][:3000],
                         'replay_args': m.group(1) if m else 'none', 'broken': 'correspondence Corr.C20.model_of'},
                        no_failing_input=not oracle_fail)
        if errs and not mism and not v.violations:
            v.violation('correspondence evaluation failed: %s' % errs[0][:300], {'class': 'c20-corr-eval', 'broken': errs[:3]}, no_failing_input=True)
    if (not proofs_ok or not v.corr_ok) and not v.violations:
        v.violation('proof obligation does not check: %s' % json.dumps(v.coq_error)[:400],
                    {'class': 'c20-proof', 'broken': v.coq_error}, no_failing_input=True)
    elif unrec and not v.violations:
        v.violation('translator no longer recognises the numbering rules: %s' % unrec[:3],
                    {'class': 'c20-tie1', 'broken': unrec}, no_failing_input=True)
    elif any(not o[1] for o in v.obligations) and not v.violations:
        bad = [o for o in v.obligations if not o[1]]
        v.violation('obligation failed: %s' % bad[0][0], {'class': 'c20-obligation', 'broken': [list(b) for b in bad]}, no_failing_input=True)

    v.coverage.update({
        'evaluations': len(cases),
        'distinct_nontrivial': distinct_count([c for c in cases if 'IOk' in c or c.startswith('KSparse')]),
        'rule': 'seeded layouts compiled with truth-cli and read back by the harness\'s own byte walkers: ANM (TH12): `const` items (forward references, sigils), 1..4 entries, 0..4 sprites each over 8 names (duplicates across entries), explicit ids that are literals (repeating/decreasing/i32 and u32 boundaries) or generated constant expressions (arithmetic, comparisons, bitwise, shifts, logical, unary, ternaries with negative/zero/positive conditions, int()/float() casts, $/% sigils), modes normal / clash (one name defined 2..4 times with every agree-differ pattern) / shared (one name that is a sprite in 0..3 entries and a script 0..2 times, used in sprite-typed, script-typed and untyped positions: `ins_102(0, name)`, `const int WH_name = name;`) / dupscript (a script name twice, within or across entries, with references to later scripts) / chaos (undefined and clashing names), 1..5 scripts with explicit numbers incl. i32::MAX, uses `ins_3(sprite)`, `ins_102(sprite, n)`, `ins_88/ins_95(script)`, `ins_96(script, f, f)` before and after the definitions; MSG (TH06/TH10): sparse tables with default, table_len, shared/unused/undefined scripts, flags, plus decompile+compile and the decompiler\'s printed sparse table; old ECL (TH07): 1..5 subs, `ins_41(sub)` and timeline arg0 uses, timelines with explicit/automatic/mixed/invalid indices; STD (TH12): objects and instances. distinct = distinct case terms; non-trivial = the compile produced a file (or a sparsify case)',
        'traces_validated_against_impl': len(cases),
        'case_kinds': hist,
        'generator_stats': stats,
        'samples': [{'kind': k, 'case': c[:500], 'source': t[:200]} for k, c, t in
                    [x for x in zip(kinds, cases, texts) if x[0] == 'ANM' and 'IOk' in x[1]][:1] + [x for x in zip(kinds, cases, texts) if x[0] == 'MSG'][:1] + [x for x in zip(kinds, cases, texts) if x[0] == 'ECL' and 'IOk' in x[1]][:1]],
        'exhaustive': False,
    })
    return v.finish(
        level='proof',
        checker_cmd='python3 gen/ids.py ; cd coq && make theories/Corr/C20.vo theories/Props/C20.vo ; coqc work/audit_C20.v (Print Assumptions) ; harness/target/debug/c20 run ; coqc work/cases_C20/*.v',
        trusted_base=['id expressions are evaluated by the C11 models (Model/Expr.v simplify = const_simplify for the id written, ceval = the DFS const evaluator for the value of the name) over the regenerated operator table; their agreement is C20_id_expr_evaluators_agree (from the C11 theorems)', 'modelled, not verified: Model/Ids.v, Model/IdsExpr.v restate gather_sprite_id_exprs / sequential_int_exprs / write_entry (anm), densify / sparsify_script_table / write_msg (msg), get_and_validate_timeline_indices (ecl_06), write_instance (std) by hand; gen/ids.py reads the start values and steps out of the source and matches the statement shapes',
                      'the constant evaluation of `<id expr> + i` is the wrapping i32 addition proved for C11',
                      'the harness\'s own walkers over ANM v7, MSG, TH07 ECL/timeline and TH12 STD files'],
        assumptions=['sprite ids: the theorem is conditional on the writer succeeding; with the wrapping writer of the current tree (fix b32efe8) it always does (C20_sprite_writer_is_total); for a non-wrapping writer C20_sprite_ids_below_bound_no_overflow gives the guard',
                     'stack-ECL sub names (strings) are outside this check',
                     'MSG offsets below 2^32; explicit ANM script numbers are not names and are not modelled'])
