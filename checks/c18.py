"""C18 -- debug info describes the file that was actually written."""
import os, sys, json, re, struct
from vlib import *

PROP = 'C18'
IMPORTS = 'Model.DebugInfo Corr.C18'

def run_harness(v, args, seed, timeout=3000):
    rc, out = sh([harness_bin('c18')] + [str(a) for a in args], timeout=timeout, env={'VERIF_SEED': str(seed)})
    lines = [l for l in out.splitlines() if '\t' in l]
    if rc != 0:
        v.obligation('harness c18 %s ran' % args[0], False, out[-800:])
    return lines

def zc(i):
    return '(%d)' % i if i < 0 else '%d' % i

def f32(x):
    return struct.unpack('<f', struct.pack('<f', x))[0]

def parse_dump(dump):
    scripts = {}
    if not dump: return scripts
    for part in dump.split('|'):
        name, _, body = part.partition('=')
        instrs = []
        if body:
            for ins in body.split(','):
                op, size, time, mask, args = ins.split(':')
                instrs.append({'opcode': int(op), 'size': int(size), 'time': int(time), 'mask': int(mask), 'args': bytes.fromhex(args)})
        scripts[name] = instrs
    return scripts

def dwords(b):
    return [struct.unpack_from('<I', b, k)[0] for k in range(0, len(b) - 3, 4)]

def script_key(s, order):
    t = s['exported-as']['type']
    if t == 'anm-script': return 'script%d' % s['exported-as']['index']
    if t == 'msg-script': return 'script%d' % order['msg']
    if t == 'std-script': return 'script0'
    if t == 'olde-ecl-sub': return 'sub%d' % s['exported-as']['index']
    if t == 'scl-script': return 'timeline%d' % s['exported-as']['index']
    if t == 'named-ecl-sub': return 'named:%s' % s['exported-as']['name']
    return None

def const_values(src):
    """values of the `const int|float Ck = ...;` lines of a generated source, evaluated from the source text in
    dependency order (the declarations may come in any order, refer to each other, use sigils and casts)"""
    decls = {}
    for m in re.finditer(r'const\s+(int|float)\s+(\w+)\s*=\s*([^;]+);', src):
        ty, name, expr = m.groups()
        decls[name] = (ty, expr)
    out = {}
    progress = True
    while progress and len(out) < len(decls):
        progress = False
        for name, (ty, expr) in decls.items():
            if name in out: continue
            refs = set(re.findall(r'[$%]?([A-Za-z_]\w*)', expr)) - {'int', 'float'}
            if not refs <= set(out): continue
            e = re.sub(r'[$%]?([A-Za-z_]\w*)', lambda m: m.group(0) if m.group(1) in ('int', 'float') else repr(out[m.group(1)][1]), expr)
            try:
                val = eval(e, {'__builtins__': {}}, {'int': int, 'float': float})
            except Exception:
                continue
            if ty == 'int': val = ((int(val) + 2**31) % 2**32) - 2**31
            else: val = f32(float(val))
            out[name] = (ty, val); progress = True
    return out

def check_program(fam, game, src_path, json_path, dump):
    """returns (failures [(class, what)], coq cases [(term, desc)], counters)"""
    fails, cases = [], []
    cnt = {'scripts': 0, 'instrs': 0, 'labels': 0, 'jumps': 0, 'local_uses': 0, 'const_uses': 0}
    try:
        dbg = json.load(open(json_path))
    except Exception as e:
        return [('c18 no-json', 'exit 0 but the debug info is missing or not JSON: %s' % e)], [], cnt
    src = open(src_path, 'rb').read()
    src_name = os.path.basename(src_path)
    fid = [f['id'] for f in dbg['source-files'] if os.path.basename(f['name']) == src_name]
    fid = fid[0] if fid else None
    def text(span):
        if not span or span[0] != fid: return ''
        return src[span[1]:span[2]].decode('utf-8', 'replace')
    scripts = parse_dump(dump)
    order = {'msg': 0}
    consts = const_values(src.decode('utf-8', 'replace'))
    # (f) consts
    by_name = {c['name']: c['value'] for c in dbg.get('consts', [])}
    for name, (ty, val) in consts.items():
        got = by_name.get(name)
        if got is None:
            fails.append(('c18 const-missing', 'const %s is not in the debug info' % name)); continue
        if ty == 'int':
            want = ((val + 2**31) % 2**32) - 2**31
            if got.get('int') != want: fails.append(('c18 const-value', 'const %s: debug info says %s, the source says %d' % (name, got, want)))
        else:
            if got.get('float') is None or f32(got['float']) != f32(val): fails.append(('c18 const-value', 'const %s: debug info says %s, the source says %r' % (name, got, val)))
    for s in dbg['exported-scripts']:
        key = script_key(s, order)
        if s['exported-as']['type'] == 'msg-script': order['msg'] += 1
        instrs = scripts.get(key)
        if instrs is None:
            fails.append(('c18 script-missing', 'debug info describes script %s (%s) that is not in the written file' % (s.get('name'), key))); continue
        cnt['scripts'] += 1
        J = s['instrs']
        # (a) one entry per emitted instruction
        if len(J) != len(instrs):
            fails.append(('c18 instr-count', 'script %s: debug info lists %d instructions, the written script has %d' % (s['name'], len(J), len(instrs)))); continue
        cnt['instrs'] += len(J)
        # (b) offsets are prefix sums of the sizes in the file
        off = 0; offs = []; bad_off = False
        for k, (j, i) in enumerate(zip(J, instrs)):
            offs.append(off)
            if j['offset'] != off and not bad_off:
                bad_off = True
                fails.append(('c18 instr-offset', 'script %s instr %d (%s): debug info offset %d, the instruction starts at %d in the file' % (s['name'], k, text(j['span'])[:40], j['offset'], off)))
            off += i['size']
        total = sum(i['size'] for i in instrs)
        if s['end-offset'] != total:
            fails.append(('c18 end-offset', 'script %s: end-offset %d, the script is %d bytes long' % (s['name'], s['end-offset'], total)))
        # (c) the entry points at the right instruction
        for k, (j, i) in enumerate(zip(J, instrs)):
            m = re.match(r'ins_(\d+)\(', text(j['span']))
            if m and int(m.group(1)) != i['opcode']:
                fails.append(('c18 instr-span', 'script %s instr %d: span reads %r but the instruction in the file has opcode %d' % (s['name'], k, text(j['span'])[:40], i['opcode']))); break
        # (d) labels
        bounds = set(offs) | {total}
        labels = {}
        for l in s['labels']:
            cnt['labels'] += 1
            labels[l['name']] = l
            if l['offset'] not in bounds:
                fails.append(('c18 label-offset', 'script %s label %s: offset %d is not an instruction boundary' % (s['name'], l['name'], l['offset'])))
        for k, (j, i) in enumerate(zip(J, instrs)):
            m = re.match(r'goto\s+(\w+)(?:\s*@\s*(-?\d+))?', text(j['span']))
            if not m or m.group(1) not in labels: continue
            cnt['jumps'] += 1
            l = labels[m.group(1)]
            dest = l['offset']
            if fam == 'ecl06': enc = (dest - offs[k]) % 2**32
            elif fam == 'ecl10': enc = (dest - offs[k]) % 2**32
            elif fam == 'std' and game in ('06', '07', '08', '09'): enc = dest // 20
            else: enc = dest
            tm = (int(m.group(2)) if m.group(2) is not None else l['time']) % 2**32
            dw = dwords(i['args'])
            if enc not in dw:
                fails.append(('c18 label-jump-offset', 'script %s: `%s` is encoded with arguments %s, the debug info puts %s at offset %d (expected %d)' % (s['name'], text(j['span']), dw, l['name'], dest, enc)))
            elif tm not in dw:
                fails.append(('c18 label-time', 'script %s: `%s` is encoded with arguments %s, the debug info gives %s time %d' % (s['name'], text(j['span']), dw, l['name'], l['time'])))
        # (e) locals: the register in the emitted instruction is the recorded one
        locs = s['locals']
        def lookup_local(name, pos):
            c = [x for x in locs if x['name'] == name and x['name-span'] and x['name-span'][1] <= pos]
            return c[-1] if c else None
        for k, (j, i) in enumerate(zip(J, instrs)):
            t = text(j['span'])
            dw = dwords(i['args'])
            m = re.match(r'ins_(?:900|901|100|101)\(([^()]*)\)$', t)
            uses = []
            if m:
                for p, a in enumerate(x.strip() for x in m.group(1).split(',')):
                    if re.fullmatch(r'[a-z]\w*', a): uses.append((p, a))
            m2 = re.match(r'(\w+)\s*=[^=]', t)
            if m2 and lookup_local(m2.group(1), j['span'][1]) and not re.search(r'[-+*/]', t): uses.append((0, m2.group(1)))
            m3 = re.match(r'[$%]REG\[-?\d+\]\s*=\s*([A-Za-z_]\w*)$', t)
            if m3 and lookup_local(m3.group(1), j['span'][1]): uses.append((1, m3.group(1)))      # `$REG[n] = local;`
            for p, a in uses:
                loc = lookup_local(a, j['span'][1])
                if loc is None or p >= len(dw): continue
                cnt['local_uses'] += 1
                r = loc['bound-to']['reg']
                got = dw[p]
                ok = (got == r % 2**32) or (struct.unpack('<f', struct.pack('<I', got))[0] == float(r))
                if fam != 'ecl06' or game != '06':
                    ok = ok and ((i['mask'] >> p) & 1 == 1)
                if not ok:
                    fails.append(('c18 local-register', 'script %s: `%s` uses local %s; the instruction holds %d (mask %d) in argument %d, the debug info binds %s to register %d' % (s['name'], t, a, got, i['mask'], p, a, r)))
            if re.match(r'ins_(?:900|901|100|101)\(', t):
                for p, a in enumerate(x.strip() for x in re.sub(r'^ins_\d+\(|\)$', '', t).split(',')):
                    if a in consts and p < len(dw):
                        cnt['const_uses'] += 1
                        ty, val = consts[a]
                        want = val % 2**32 if ty == 'int' else struct.unpack('<I', struct.pack('<f', val))[0]
                        if dw[p] != want:
                            fails.append(('c18 const-use', 'script %s: `%s` uses const %s = %r, the instruction holds %d' % (s['name'], t, a, val, dw[p])))
        # Coq case: sizes from the file with the user's depth-0 labels placed by source order
        user = [l for l in s['labels'] if not l['name'].startswith('@') and l['span'] and l['span'][0] == fid]
        pos = []
        for l in user:
            ks = [k for k, j in enumerate(J) if j['span'] and j['span'][0] == fid and j['span'][1] >= l['span'][2]]
            pos.append(min(ks) if ks else len(J))
        stm = []
        for k in range(len(instrs) + 1):
            for l, p in zip(user, pos):
                if p == k: stm.append('DL %s' % zc(l['time']))
            if k < len(instrs): stm.append('DI %d' % instrs[k]['size'])
        term = '(KDbg [%s] [%s] [%s] %d)' % ('; '.join(stm), '; '.join(str(j['offset']) for j in J),
                                             '; '.join('(%s, %d)' % (zc(l['time']), l['offset']) for l in user), s['end-offset'])
        cases.append((term, '%s %s %s' % (fam, src_name, s['name'])))
    return fails, cases, cnt

def main(argv):
    tier, seed, replay = tier_and_seed(argv)
    v = Verdict(PROP, tier, seed)
    proofs_ok, h_ok, unrec = standard_proof_steps(
        v, PROP, [], ['theories/Props/C18.vo'], ['c18', 'truth-cli'],
        corr_targets=['theories/Corr/C18.vo'])
    # tie 1: the functions the model restates are the ones the model was written against
    notes = lowering_text_notes()
    for n in notes: v.notes.append('translator: ' + n)
    v.obligation('tie1: gather_label_info / substitute_dummy_args / encode_labels / the final encoding pass have the text the model was written against', not notes, '; '.join(notes)[:800])

    cases, descs = [], []
    fails = []
    stats = []
    total = {'programs': 0, 'compiled': 0, 'scripts': 0, 'instrs': 0, 'labels': 0, 'jumps': 0, 'local_uses': 0, 'const_uses': 0}
    if h_ok:
        lines = []
        if replay:
            r = json.load(open(replay))
            if r.get('source_text') and r.get('family'):
                os.makedirs(os.path.join(WORK, 'c18'), exist_ok=True)
                p = os.path.join(WORK, 'c18', 'replay_in.spec'); open(p, 'w').write(r['source_text'])
                lines += run_harness(v, ['text', r['family'], r.get('game', '12'), p], seed)
        else:
            for f in sorted(glob.glob(os.path.join(VERIF, 'corpus', 'C18', '*.spec'))):
                parts = os.path.basename(f).split('.')     # <name>.<family>.<game>.spec
                if len(parts) >= 4: lines += run_harness(v, ['text', parts[-3], parts[-2], f], seed)
            lines += run_harness(v, ['gen', 24 if tier == 'quick' else 400], seed)
        for l in lines:
            p = l.split('\t')
            if p[0] == 'ORACLE-FAIL': fails.append((p[1], p[2], p[-1], None, None))
            elif p[0] == 'STATS': stats.append(p[1])
            elif p[0] == 'PROG':
                total['programs'] += 1
                fam, game, src_path, json_path, code = p[1], p[2], p[3], p[4], p[5]
                if code != '0':
                    if 'panicked' in p[6]: fails.append(('c18 panic', p[6], open(src_path).read(), fam, game))
                    continue
                total['compiled'] += 1
                try:
                    fl, cs, cnt = check_program(fam, game, src_path, json_path, p[6] if len(p) > 6 else '')
                except Exception as e:       # a debug-info document the comparison cannot even walk is a failure, not a crash
                    fl, cs, cnt = [('c18 malformed', 'the debug info cannot be compared with the file: %r' % e)], [], {}
                for k in cnt: total[k] += cnt[k]
                for cls, what in fl: fails.append((cls, what, open(src_path).read(), fam, game))
                for t, d in cs: cases.append(t); descs.append(d)

    seen = set()
    for cls, what, text, fam, game in fails:
        if cls in seen: continue
        seen.add(cls)
        v.violation('debug info disagrees with the written file: %s' % what, {'class': cls, 'source_text': text, 'family': fam, 'game': game})

    if v.corr_ok and cases:
        mism, errs = coq_eval_cases(PROP, IMPORTS, 'c18case', cases, shard=max(150, (len(cases) + 1) // 2) if tier == 'quick' else 600)
        v.obligation('correspondence: Model.DebugInfo.gather on the instruction sizes found in the written file = offsets, label offsets and end offset of the debug info, on %d scripts (vm_compute inside Coq)' % len(cases),
                     not mism and not errs, ('%d mismatches; ' % len(mism)) + '; '.join(errs)[:600] if (mism or errs) else '')
        for i in mism[:3]:
            v.violation('model/implementation disagreement on the offsets of %s' % descs[i],
                        {'class': 'c18-corr', 'case': cases[i][:20000], 'source': descs[i], 'broken': 'correspondence Corr.C18.model_of'},
                        no_failing_input=not fails)
    if (not proofs_ok or not v.corr_ok) and not v.violations:
        v.violation('proof obligation does not check: %s' % json.dumps(v.coq_error)[:400], {'class': 'c18-proof', 'broken': v.coq_error}, no_failing_input=True)
    elif notes and not v.violations:
        v.violation('the lowering code the model restates has changed: %s' % notes[:3], {'class': 'c18-tie1', 'broken': notes}, no_failing_input=True)
    elif any(not o[1] for o in v.obligations) and not v.violations:
        bad = [o for o in v.obligations if not o[1]]
        v.violation('obligation failed: %s' % bad[0][0], {'class': 'c18-obligation', 'broken': [list(b) for b in bad]}, no_failing_input=True)

    v.coverage.update({
        'evaluations': len(cases),
        'distinct_nontrivial': distinct_count(cases),
        'rule': 'generated programs in ANM (TH08/12/17), MSG (TH08/12/17, strings with and without furigana prefix), STD (TH095/12), old ECL (TH06/07/08: subs with locals, block-scoped locals, subs with named and unnamed int/float parameters in any order, difficulty switches, if/loop blocks, jumps; timelines) and stack ECL (TH10) -> truth-cli compile --output-debug-info -> the binary is re-read in-process; per script: number of entries = number of instructions in the file, every offset = sum of the sizes of the preceding instructions in the file, end-offset = script length, span text ins_N = opcode in the file, every label offset is a boundary, every goto is encoded with the label offset/time of the debug info, every use of a local holds the register the debug info binds it to, consts (chains declared in an order unrelated to their dependencies: forward references, sigils, int()/float() casts) have the value evaluated from the source text. An evaluation is one compiled script.',
        'traces_validated_against_impl': len(cases),
        'checked_items': total,
        'generator_stats': stats,
        'samples': [{'case': c[:400], 'source': t} for c, t in list(zip(cases, descs))[:1] + list(zip(cases, descs))[-2:]],
        'exhaustive': False,
    })
    return v.finish(
        level='proof',
        checker_cmd='cd coq && make theories/Corr/C18.vo theories/Props/C18.vo ; coqc work/audit_C18.v (Print Assumptions) ; harness/target/debug/c18 gen|text ; checks/c18.py compares JSON with the re-read binary ; coqc work/cases_C18/*.v',
        trusted_base=['modelled, not verified: Model/DebugInfo.v restates gather_label_info and the final encoding pass over an abstract instruction size function',
                      'the JSON/binary comparison is done by checks/c18.py (Python) on the instruction dump printed by the harness'],
        assumptions=['premises of the theorems (explicit, Section hypotheses): substituting values for labels, label times and locals changes neither the encoded size of an instruction nor the encoding state passed to the next one',
                     'local-variable and const claims of the property are checked by the differential oracle only (no theorem)'])

# ---------------------------------------------------------------------------------------------
# tie 1 for C18: text comparison of the functions the model restates

EXPECT_GATHER = 'useindexmap::map::Entry;letinstr_format=hooks.instr_format();letmutoffset=initial_offset;letmutlabels=IndexMap::new();letmutstmt_offsets=vec![];letmutdebug_info_instrs=do_debug_info.then(||vec![]);letmutdebug_info_labels=do_debug_info.then(||vec![]);letmutencoding_state=ArgEncodingState::new();code.iter().enumerate().map(|(index,stmt)|{stmt_offsets.push(offset);matchstmt.value{LowerStmt::Instr(refinstr)=>{emitter.chain_with(|f|write!(f,"ininstruction{index}"),|emitter|{ifletSome(debug_info_instrs)=&mutdebug_info_instrs{debug_info_instrs.push(debug_info::Instr{offset,span:stmt.span.into()});}letsame_size_instr=substitute_dummy_args(instr);letraw_instr=encode_args(&mutencoding_state,hooks,&same_size_instr,defs,emitter)?;offset+=instr_format.instr_size(&raw_instr)asu64;Ok(())})?;},LowerStmt::Label{time,reflabel}=>{matchlabels.entry(label.clone()){Entry::Vacant(e)=>{ifletSome(debug_info_labels)=&mutdebug_info_labels{debug_info_labels.push(debug_info::Label{offset,time,name:label.to_string(),span:label.span.into(),})}e.insert(RawLabelInfo{time,offset});},Entry::Occupied(e)=>{returnErr(emitter.emit(error!{message("duplicatelabel\'{label}\'"),secondary(e.key(),"originallydefinedhere"),primary(label,"redefinedhere"),}));},}},_=>{},}Ok(())}).collect_with_recovery::<()>()?;letdebug_info=do_debug_info.then(||debug_info::ScriptOffsetInfo{instrs:debug_info_instrs.unwrap(),labels:debug_info_labels.unwrap(),end_offset:offset,});letoutput=LabelInfoverse{labels,stmt_offsets};Ok((output,debug_info))'
EXPECT_DUMMY = 'let&LowerInstr{refargs,..}=instr;letnew_args=matchargs{LowerArgs::Unknown(blob)=>LowerArgs::Unknown(blob.clone()),LowerArgs::Known(args)=>LowerArgs::Known(args.iter().map(|arg|matcharg.value{|LowerArg::Label(_)|LowerArg::TimeOf(_)=>sp!(arg.span=>LowerArg::Raw(SimpleArg{value:ScalarValue::Int(0),is_reg:false})),|LowerArg::Local{..}=>sp!(arg.span=>LowerArg::Raw(SimpleArg{value:ScalarValue::Int(0),is_reg:true})),|LowerArg::DiffSwitch(_)=>panic!("shouldbehandledearler,elseoffsetswillbewrong..."),|LowerArg::Raw(_)=>arg.clone(),}).collect())};LowerInstr{args:new_args,..*instr}'
EXPECT_FINAL = 'let(label_info,debug_info_labels)=gather_label_info(hooks,0,&out,&ctx.defs,&ctx.emitter,do_debug_info)?;encode_labels(&mutout,hooks,&label_info,&ctx.emitter)?;letmutencoding_state=ArgEncodingState::new();letinstrs=out.into_iter().filter_map(|x|matchx.value{LowerStmt::Instr(instr)=>Some({letnull_emitter=ctx.emitter.with_writer(crate::diagnostic::dev_null());encode_args(&mutencoding_state,hooks,&instr,&ctx.defs,&null_emitter).expect("weencodedthissuccessfullybefore!")}),LowerStmt::Label{..}=>None,LowerStmt::RegAlloc{..}=>None,LowerStmt::RegFree{..}=>None,}).collect();'
# the same pass after fix 737a4a1: an argument that stops fitting its encoding once labels are resolved is an error
# (the sub is not written) instead of a panic; on success the emitted instructions are the same
EXPECT_FINAL2 = 'let(label_info,debug_info_labels)=gather_label_info(hooks,0,&out,&ctx.defs,&ctx.emitter,do_debug_info)?;encode_labels(&mutout,hooks,&label_info,&ctx.emitter)?;letmutencoding_state=ArgEncodingState::new();letinstrs=out.into_iter().filter_map(|x|matchx.value{LowerStmt::Instr(instr)=>Some({letnull_emitter=ctx.emitter.with_writer(crate::diagnostic::dev_null());encode_args(&mutencoding_state,hooks,&instr,&ctx.defs,&null_emitter).or_else(|_|{encode_args(&mutArgEncodingState::new(),hooks,&instr,&ctx.defs,&ctx.emitter).and_then(|_|Err(ctx.emitter.emit(error!("failedtoencodeaninstructionafterresolvinglabels"))))})}),LowerStmt::Label{..}=>None,LowerStmt::RegAlloc{..}=>None,LowerStmt::RegFree{..}=>None,}).collect::<Result<Vec<_>,ErrorReported>>()?;'

def lowering_text_notes():
    sys.path.insert(0, os.path.join(VERIF, 'gen'))
    import rsparse
    notes = []
    try:
        src = rsparse.strip_comments(open(os.path.join(REPO, 'src', 'llir', 'lower.rs')).read())
    except OSError as e:
        return ['unrecognised: cannot read src/llir/lower.rs: %s' % e]
    b, _ = rsparse.block_after(src, r'fn\s+gather_label_info\s*\([^{]*?\)\s*->\s*Result<\(LabelInfoverse,\s*Option<debug_info::ScriptOffsetInfo>\),\s*ErrorReported>\s*')
    if b is None or rsparse.nows(b) != EXPECT_GATHER: notes.append('unrecognised: gather_label_info differs from the text the model was written against')
    b, _ = rsparse.block_after(src, r'fn\s+substitute_dummy_args\s*\(instr:\s*&LowerInstr\)\s*->\s*LowerInstr\s*')
    if b is None or rsparse.nows(b) != EXPECT_DUMMY: notes.append('unrecognised: substitute_dummy_args differs from the text the model was written against')
    if EXPECT_FINAL not in rsparse.nows(src) and EXPECT_FINAL2 not in rsparse.nows(src): notes.append('unrecognised: the final encoding pass of lower_sub_ast_to_instrs differs from the text the model was written against')
    return notes
