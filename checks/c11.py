"""C11 -- compile-time evaluation agrees with run-time evaluation."""
import os, sys, json
from vlib import *

PROP = 'C11'
IMPORTS = 'Base.F32 Model.Ops Model.Expr Corr.C11'

def run_harness(v, args, seed):
    rc, out = sh([harness_bin('c11')] + [str(a) for a in args], timeout=1200, env={'VERIF_SEED': str(seed)})
    lines = [l for l in out.splitlines() if '\t' in l]
    if rc != 0:
        v.obligation('harness c11 %s ran' % args[0], False, out[-800:])
    return lines

def main(argv):
    tier, seed, replay = tier_and_seed(argv)
    v = Verdict(PROP, tier, seed)
    proofs_ok, h_ok, unrec = standard_proof_steps(
        v, PROP, ['optable'], ['theories/Props/C11.vo'], ['c11', 'truth-cli'],
        corr_targets=['theories/Corr/C11.vo'])

    cases, texts, kinds = [], [], []
    oracle_fail = []
    stats = ''
    if h_ok:
        lines = []
        # corpus first: earlier minimised failures and the seed reproductions
        corpus = sorted(glob.glob(os.path.join(VERIF, 'corpus', 'C11', '*.spec')))
        if replay:
            r = json.load(open(replay))
            os.makedirs(os.path.join(WORK, 'C11'), exist_ok=True)
            if r.get('source_text'):
                p = os.path.join(WORK, 'C11', 'replay.spec'); open(p, 'w').write(r['source_text']); corpus = [p]
            if r.get('case'):
                lines.append('%s\t%s\t%s' % (r.get('kind', 'BIN'), r['case'], r.get('source', '')))
        for f in corpus:
            lines += run_harness(v, ['text', f], seed)
        if not replay:
            ntrees = 400 if tier == 'quick' else 12000
            extra = 4 if tier == 'quick' else 40
            lines += run_harness(v, ['grid', extra] + (['quick'] if tier == 'quick' else []), seed) + run_harness(v, ['trees', ntrees], seed)
        for l in lines:
            parts = l.split('\t')
            if parts[0] == 'ORACLE-FAIL': oracle_fail.append(parts[1:])
            elif parts[0] == 'STATS': stats = '\t'.join(parts[1:])
            elif parts[0] in ('BIN', 'UN', 'SIMP', 'EVAL'):
                kinds.append(parts[0]); cases.append(parts[1]); texts.append(parts[2] if len(parts) > 2 else '')
    hist = {}
    for k in kinds: hist[k] = hist.get(k, 0) + 1

    # (O) implementation-level oracle failures: violations with a concrete input
    seen = set()
    for f in oracle_fail:
        what, text = f[0], f[-1]
        cls = 'c11-oracle:' + what.split(':')[0]
        if (cls, text) in seen: continue
        seen.add((cls, text))
        if len(seen) > 5: break
        v.violation('implementation-level oracle: ' + what, {'class': cls, 'source_text': text.replace('; ', ';\n'), 'detail': f})

    shard = 700 if tier == 'quick' else 1500
    if v.corr_ok and cases:
        # (X) model vs implementation
        mism, errs = coq_eval_cases(PROP, IMPORTS, 'c11case', cases, shard=shard)
        v.obligation('correspondence: model = implementation on %d cases (vm_compute inside Coq)' % len(cases), not mism and not errs,
                     ('%d mismatches; ' % len(mism)) + '; '.join(errs)[:600] if (mism or errs) else '')
        # (O') implementation vs the independent operator specification: yields the operand pair when the table theorem breaks
        smism, serrs = coq_eval_cases(PROP + 's', IMPORTS, 'c11case', [c for c, k in zip(cases, kinds) if k in ('BIN', 'UN')],
                                      check_fn='spec_mismatches', shard=shard * 2)
        opcases = [c for c, k in zip(cases, kinds) if k in ('BIN', 'UN')]
        v.obligation('oracle: implementation operators = Spec.MachineOps on %d operand tuples' % len(opcases), not smism and not serrs,
                     ('%d mismatches; ' % len(smism)) + '; '.join(serrs)[:600] if (smism or serrs) else '')
        for i in smism[:3]:
            v.violation('compile-time operator result differs from the documented machine semantics',
                        {'class': 'c11-spec', 'kind': 'BIN', 'case': opcases[i]})
        probe_found = False
        # (trees with float arithmetic first: foldings that are harmless on ints are typically wrong on -0.0/inf/NaN)
        cand = [i for i in mism if kinds[i] in ('SIMP', 'EVAL') and texts[i]]
        cand.sort(key=lambda i: 0 if ('.' in texts[i] or '%' in texts[i]) else 1)
        for i in cand[:40]:
            if probe_found: break
            if True:
                # search: the mismatching program on 200 boundary register valuations through AstVm before/after
                os.makedirs(os.path.join(WORK, 'C11'), exist_ok=True)
                pp = os.path.join(WORK, 'C11', 'probe%d.spec' % i)
                open(pp, 'w').write(texts[i].replace('; ', ';\n'))
                rc, out = sh([harness_bin('c11'), 'probe', pp], timeout=300, env={'VERIF_SEED': str(seed)})
                for l in out.splitlines():
                    if l.startswith('ORACLE-FAIL'):
                        parts = l.split('\t')
                        probe_found = True
                        v.violation('implementation-level oracle (probe): ' + parts[1][:300],
                                    {'class': 'c11-oracle:probe', 'source_text': texts[i].replace('; ', ';\n'), 'detail': parts[1:]})
                        break
        for i in mism[:5]:
            # the case is the candidate failing input; SIMP/EVAL cases were already through the AstVm oracle,
            # operator cases through the spec oracle. If neither fired, the model no longer describes the code.
            v.violation('model/implementation disagreement on a %s case' % kinds[i],
                        {'class': 'c11-corr:' + kinds[i], 'kind': kinds[i], 'case': cases[i], 'source': texts[i],
                         'source_text': texts[i].replace('; ', ';\n') if kinds[i] in ('SIMP', 'EVAL') else None,
                         'broken': 'correspondence Corr.C11.model_of'},
                        no_failing_input=(not oracle_fail and not smism and not probe_found))
    if (not proofs_ok or not v.corr_ok) and not v.violations:
        v.violation('proof obligation does not check: %s' % json.dumps(v.coq_error)[:400],
                    {'class': 'c11-proof', 'broken': v.coq_error}, no_failing_input=True)
    elif unrec and not v.violations:
        v.violation('translator no longer recognises the operator table: %s' % unrec[:3],
                    {'class': 'c11-tie1', 'broken': unrec}, no_failing_input=True)
    elif any(not o[1] for o in v.obligations) and not v.violations:
        bad = [o for o in v.obligations if not o[1]]
        v.violation('obligation failed: %s' % bad[0][0], {'class': 'c11-obligation', 'broken': [list(b) for b in bad]}, no_failing_input=True)

    v.coverage.update({
        'evaluations': len(cases),
        'distinct_nontrivial': distinct_count([c for c, k in zip(cases, kinds) if k in ('SIMP', 'EVAL') or 'IOk' in c]),
        'rule': 'grid: every binary/unary operator x boundary+random int and float operand pairs through BinOpKind::const_eval/UnOpKind::const_eval (catch_unwind); trees: seeded random typed expression programs (consts in random order with forward/self references, registers with both sigils, casts, ternaries) through resolve/type_check/evaluate_const_vars/const_simplify and through AstVm::eval. distinct = distinct case terms; non-trivial = the implementation produced a value (not a panic/error), or the case is a whole program',
        'traces_validated_against_impl': len(cases),
        'case_kinds': hist,
        'generator_stats': stats,
        'samples': [{'kind': k, 'case': c[:600], 'source': t[:300]} for k, c, t in list(zip(kinds, cases, texts))[:1] + list(zip(kinds, cases, texts))[-3:]],
        'exhaustive': False,
    })
    return v.finish(
        level='proof',
        checker_cmd='cd coq && make theories/Corr/C11.vo theories/Props/C11.vo ; coqc work/audit_C11.v (Print Assumptions) ; harness/target/debug/c11 grid|trees|text ; coqc work/cases_C11/*.v',
        trusted_base=['Flocq 4.1.0 binary32 (the model of f32 arithmetic); sin/cos/tan/asin/acos/atan are an uninterpreted Section variable',
                      'modelled, not verified: Model/Ops.v, Model/Expr.v are hand-written restatements of const_simplify.rs, consts.rs (DFS evaluator, without its cache), vm.rs (AstVm::eval)'],
        assumptions=['NaN payloads are identified (one NaN class)', 'call expressions, offsetof/timeof and ++/-- are opaque to the expression model'])
