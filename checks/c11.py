"""C11 -- compile-time evaluation agrees with run-time evaluation."""
import os, sys, json
from vlib import *

PROP = 'C11'

def run_harness(v, mode, n, seed):
    rc, out = sh([harness_bin('c11'), mode, str(n)], timeout=1200, env={'VERIF_SEED': str(seed)})
    lines = [l for l in out.splitlines() if '\t' in l]
    if rc != 0:
        v.obligation('harness c11 %s ran' % mode, False, out[-800:])
    return lines

def main(argv):
    tier, seed, replay = tier_and_seed(argv)
    v = Verdict(PROP, tier, seed)
    coq_ok, h_ok, unrec = standard_proof_steps(
        v, PROP, ['optable'],
        ['theories/Props/C11.vo', 'theories/Corr/C11.vo'], ['c11', 'truth-cli'])

    cases, texts, kinds = [], [], []
    oracle_fail = []
    stats = ''
    if h_ok:
        ntrees = 400 if tier == 'quick' else 12000
        extra = 8 if tier == 'quick' else 40
        lines = run_harness(v, 'grid', extra, seed) + run_harness(v, 'trees', ntrees, seed)
        # corpus of earlier minimised failures runs first
        for l in lines:
            parts = l.split('\t')
            if parts[0] == 'ORACLE-FAIL': oracle_fail.append(parts[1:])
            elif parts[0] == 'STATS': stats = '\t'.join(parts[1:])
            elif parts[0] in ('BIN', 'UN', 'SIMP', 'EVAL'):
                kinds.append(parts[0]); cases.append(parts[1]); texts.append(parts[2] if len(parts) > 2 else '')
    hist = {}
    for k in kinds: hist[k] = hist.get(k, 0) + 1

    # impl-level oracle failures are violations with a concrete input
    seen = set()
    for f in oracle_fail:
        what = f[0]
        text = f[-1]
        cls = 'c11-oracle:' + what.split(':')[0]
        key = (cls, text)
        if key in seen: continue
        seen.add(key)
        if len(seen) > 5: break
        v.violation('implementation-level oracle: ' + what, {'class': cls, 'source': text, 'detail': f})

    mism, errs = ([], [])
    if coq_ok and cases:
        mism, errs = coq_eval_cases(PROP, 'Base.F32 Model.Ops Model.Expr Corr.C11', 'c11case', cases, shard=(700 if tier == 'quick' else 1500))
        v.obligation('correspondence: model = implementation on %d cases (vm_compute inside Coq)' % len(cases), not mism and not errs,
                     ('%d mismatches; ' % len(mism)) + '; '.join(errs)[:600] if (mism or errs) else '')
        for i in mism[:5]:
            # a correspondence mismatch: the case itself is the candidate failing input. For SIMP/EVAL
            # cases the impl-level oracle has already run on it (above); for operator cases compare with
            # the independent spec is part of the theorem, so the mismatch means the code's operator
            # differs from the proved table semantics.
            v.violation('model/implementation disagreement on a %s case' % kinds[i],
                        {'class': 'c11-corr:' + kinds[i], 'case': cases[i], 'source': texts[i],
                         'broken': 'correspondence Corr.C11.model_of'},
                        no_failing_input=(kinds[i] in ('SIMP',) and not oracle_fail))
    if not coq_ok:
        # a proof obligation no longer checks: search for a failing input with the oracle (already run above)
        if not v.violations:
            v.violation('proof obligation does not check: %s' % json.dumps(v.coq_error)[:400],
                        {'class': 'c11-proof', 'broken': v.coq_error}, no_failing_input=(not oracle_fail))
    elif unrec:
        if not v.violations:
            v.violation('translator no longer recognises the operator table: %s' % unrec[:3],
                        {'class': 'c11-tie1', 'broken': unrec}, no_failing_input=True)
    elif any(not o[1] for o in v.obligations) and not v.violations:
        bad = [o for o in v.obligations if not o[1]]
        v.violation('obligation failed: %s' % bad[0][0], {'class': 'c11-obligation', 'broken': [list(b) for b in bad]}, no_failing_input=True)

    v.coverage.update({
        'evaluations': len(cases),
        'distinct_nontrivial': distinct_count([c for c, k in zip(cases, kinds) if k in ('SIMP', 'EVAL') or 'IOk' in c]),
        'rule': 'grid: every binary/unary operator x boundary+random int and float operand pairs through BinOpKind::const_eval/UnOpKind::const_eval (catch_unwind); trees: seeded random typed expression programs (consts in random order with forward/self references, registers with both sigils, casts, ternaries) through resolve/type_check/evaluate_const_vars/const_simplify and through AstVm::eval. distinct = distinct case terms; non-trivial = the implementation produced a value (not a panic/error), or the case is a whole program',
        'traces_validated_against_impl': len(cases),
        'case_kinds': hist,
        'generator_stats': stats,
        'samples': [{'kind': k, 'case': c[:600], 'source': t[:300]} for k, c, t in list(zip(kinds, cases, texts))[:1] + list(zip(kinds, cases, texts))[-3:]],
        'exhaustive': False,
    })
    return v.finish(
        level='proof',
        checker_cmd='cd coq && make theories/Props/C11.vo theories/Corr/C11.vo && coqc audit (Print Assumptions) ; harness/target/debug/c11 grid|trees ; coqc work/cases_C11/*.v',
        trusted_base=['Flocq 4.1.0 binary32 (the model of f32 arithmetic); sin/cos/tan/asin/acos/atan are an uninterpreted Section variable',
                      'modelled, not verified: Model/Ops.v, Model/Expr.v are hand-written restatements of const_simplify.rs, consts.rs (DFS evaluator, without its cache), vm.rs (AstVm::eval)'],
        assumptions=['NaN payloads are identified (one NaN class)', 'call expressions, offsetof/timeof and ++/-- are opaque to the expression model'])
