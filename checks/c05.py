"""C05 -- scratch registers never collide with registers the script uses."""
import os, sys, json, subprocess
from vlib import *

PROP = 'C05'
IMPORTS = 'Model.RegAlloc Gen.Regs Corr.C05'
KNOWN_CLASS = 'c05-diffswitch-explicit-regs'   # defect #3, fixed in /repo 4000fd0 (known_findings.d/C05.json: status fixed)

def run_harness(v, args, seed, timeout=2400):
    rc, out = sh([harness_bin('c05')] + [str(a) for a in args], timeout=timeout, env={'VERIF_SEED': str(seed)})
    lines = [l for l in out.splitlines() if '\t' in l]
    if rc != 0:
        v.obligation('harness c05 %s ran' % ' '.join(str(a) for a in args), False, out[-800:])
    return lines

def run_harness_parallel(v, n, every, seed, procs):
    """split the index range over several harness processes"""
    chunk = (n + procs - 1) // procs
    chunk = ((chunk + every - 1) // every) * every      # keep `index % every` aligned
    e = dict(os.environ); e.update({'VERIF_SEED': str(seed), 'RUST_BACKTRACE': '0', 'VERIF_REPO': REPO, 'VERIF_WORK': WORK})
    ps = []
    start = 0
    while start < n:
        cnt = min(chunk, n - start)
        ps.append(subprocess.Popen([harness_bin('c05'), 'gen', str(cnt), str(every), str(start)], env=e,
                                   stdout=subprocess.PIPE, stderr=subprocess.STDOUT, text=True, errors='replace'))
        start += cnt
    lines = []
    for p in ps:
        out, _ = p.communicate(timeout=3000)
        if p.returncode != 0:
            v.obligation('harness c05 gen ran', False, out[-800:])
        lines += [l for l in out.splitlines() if '\t' in l]
    return lines

def gen_flag_deep():
    try:
        return 'gen_explicit_deep : bool := true' in open(os.path.join(COQ, 'theories', 'Gen', 'Regs.v')).read()
    except OSError:
        return False

def main(argv):
    tier, seed, replay = tier_and_seed(argv)
    v = Verdict(PROP, tier, seed)
    proofs_ok, h_ok, unrec = standard_proof_steps(
        v, PROP, ['regs'], ['theories/Props/C05.vo'], ['c05'],
        corr_targets=['theories/Corr/C05.vo'])
    deep = gen_flag_deep()

    cases, meta = [], []          # meta: (lang, tag, source)
    oracle_fail, unexpected = [], []
    stats = {}
    n_files = 0
    if h_ok:
        lines = []
        if replay:
            r = json.load(open(replay))
            tag = r.get('tag', '')
            if tag:
                lines += run_harness(v, ['one', tag], seed)
        else:
            lines += run_harness(v, ['fixed'], seed)
            n, every, procs = (2400, 5, 4) if tier == 'quick' else (100000, 5, 8)
            lines += run_harness_parallel(v, n, every, seed, procs)
        for l in lines:
            parts = l.split('\t')
            if parts[0] == 'ORACLE-FAIL': oracle_fail.append(parts[1:])
            elif parts[0] == 'UNEXPECTED': unexpected.append(parts[1:])
            elif parts[0] == 'STATS':
                for kv in parts[1].split():
                    k, _, val = kv.partition('=')
                    try: stats[k] = stats.get(k, 0) + int(val)
                    except ValueError: pass
            elif parts[0] == 'CASE' and len(parts) >= 5:
                cases.append(parts[1]); meta.append((parts[2], parts[3], parts[4]))
        n_files = sum(stats.get(k, 0) for k in ('impl_ok', 'impl_panic')) + sum(1 for _ in [0]) * 0
    src_of = lambda s: s.replace('\\n', '\n')

    # (O) implementation-level oracle: a compiler-chosen register that the source names, that is a
    #     parameter register, that is outside the pool, or that two live locals share
    seen = {}
    failing_tags = set()
    for f in oracle_fail:
        what, where, tag, text = f[0], f[1], f[2], f[3]
        failing_tags.add(tag)
        kind = what.split(':')[0]
        # a register named only inside a difficulty switch and handed out anyway is defect #3 come back
        cls = KNOWN_CLASS if kind == 'mentioned-in-switch-only' else 'c05-oracle:' + kind
        seen.setdefault(cls, [])
        if len(seen[cls]) < 3:
            seen[cls].append(tag)
            v.violation('implementation-level oracle: ' + what + ' [' + where + ']',
                        {'class': cls, 'tag': tag, 'source_text': src_of(text), 'detail': what, 'where': where})
    v.obligation('oracle: no compiler-chosen register is named by the source / a parameter register / outside its pool / shared by two live locals (%d generated files)' % (stats.get('impl_ok', 0) + stats.get('impl_err_too_complex', 0)),
                 not seen,
                 '; '.join('%s x%d' % (c, len(t)) for c, t in seen.items()))
    # programs the compiler rejected for another reason would silently shrink the coverage
    others = [u for u in unexpected if 'panicked' not in u[1]]
    v.obligation('every generated program reaches register allocation', not unexpected, '%d rejected; first: %s' % (len(unexpected), unexpected[0][:2] if unexpected else ''))

    mism = []
    if v.corr_ok and cases:
        shard = max(40, (len(cases) + 7) // 8) if tier == 'quick' else 300
        mism, errs = coq_eval_cases(PROP, IMPORTS, 'c05case', cases, shard=shard)
        v.obligation('correspondence: model = implementation on %d compiled files (registers chosen per local in order, registers/immediates of every emitted instruction, diagnostics; vm_compute inside Coq)' % len(cases),
                     not mism and not errs, ('%d mismatches; ' % len(mism)) + '; '.join(errs)[:600] if (mism or errs) else '')
        for i in mism[:5]:
            lang, tag, text = meta[i]
            v.violation('model/implementation disagreement on %s (%s)' % (tag, lang),
                        {'class': 'c05-corr', 'tag': tag, 'lang': lang, 'case': cases[i][:20000], 'source_text': src_of(text),
                         'broken': 'correspondence Corr.C05.model_of'},
                        no_failing_input=(tag not in failing_tags and not any(u[2] == tag for u in unexpected)))
    if unexpected and not v.violations:
        u = unexpected[0]
        v.violation('a generated program is rejected before/while allocating registers: %s' % u[1][:300],
                    {'class': 'c05-rejected', 'tag': u[2], 'lang': u[0], 'source_text': src_of(u[3]), 'diagnostics': u[1]})
    if (not proofs_ok or not v.corr_ok) and not v.violations:
        v.violation('proof obligation does not check: %s' % json.dumps(v.coq_error)[:400],
                    {'class': 'c05-proof', 'broken': v.coq_error}, no_failing_input=True)
    elif unrec and not v.violations:
        v.violation('translator no longer recognises the register tables: %s' % unrec[:3],
                    {'class': 'c05-tie1', 'broken': unrec}, no_failing_input=True)
    elif any(not o[1] for o in v.obligations) and not v.violations:
        bad = [o for o in v.obligations if not o[1]]
        v.violation('obligation failed: %s' % bad[0][0], {'class': 'c05-obligation', 'broken': [list(b) for b in bad]}, no_failing_input=True)

    gen_keys = ['ins_pseudo_args', 'ins_blob', 'sub_with_reserved_reg', 'reserved_reg_pseudo_call', 'anti_scratch_blob_or_mask', 'decl', 'assign', 'compound_assign', 'ins', 'block', 'if', 'while', 'times', 'times_clobber', 'cond_goto', 'call',
                'anti_scratch_ins', 'binop', 'cast', 'switch', 'reg_raw', 'reg_alias', 'reg_other_sigil', 'reg_in_switch',
                'local_read', 'local_in_switch', 'imm', 'assign_local', 'assign_reg']
    v.coverage.update({
        'evaluations': sum(stats.get(k, 0) for k in ('impl_ok', 'impl_panic')) + stats.get('impl_err_too_complex', 0) + stats.get('impl_err_anti_script', 0) + stats.get('impl_err_anti_file', 0),
        'distinct_nontrivial': distinct_count([c for c in cases if 'RegAlloc' in c and ' FOk' in c[-8:]]),
        'rule': 'evaluations = generated source files compiled in-process and put through the implementation-level oracle; distinct_nontrivial = distinct Coq cases (a subsample of those files plus the hand-built scenarios) with at least one RegAlloc that compiled successfully and were compared with the model (picked register per local in order + every emitted register/immediate)',
        'files_compared_with_model': len(cases),
        'regalloc_statements': stats.get('regalloc_stmts', 0),
        'subs_allocated': stats.get('subs_allocated', 0),
        'languages': {k: stats.get(k, 0) for k in ('lang_test', 'lang_anm', 'lang_ecl06', 'lang_ecl07+')},
        'implementation_outcomes': {k: stats.get(k, 0) for k in ('impl_ok', 'impl_err_too_complex', 'impl_err_anti_script', 'impl_err_anti_file', 'impl_err_other', 'impl_panic')},
        'free_int_pool_histogram': {k[len('free_int_pool_'):]: val for k, val in sorted(stats.items()) if k.startswith('free_int_pool_')},
        'generator_histogram': {k: stats.get(k, 0) for k in gen_keys},
        'explicit_scan_enters_switches': deep,
        'samples': [{'lang': m[0], 'tag': m[1], 'source': src_of(m[2])[:400]} for m in (meta[:1] + meta[-2:])],
        'exhaustive': False,
    })
    return v.finish(
        level='proof',
        checker_cmd='python3 gen/regs.py ; cd coq && make theories/Corr/C05.vo theories/Props/C05.vo ; coqc work/audit_C05.v (Print Assumptions) ; harness/target/debug/c05 fixed|gen ; coqc work/cases_C05/*.v',
        trusted_base=['modelled, not verified: Model/RegAlloc.v is a hand-written restatement of assign_registers / get_explicitly_used_regs / each_lower_arg / PersistentState::finish (stackless.rs) and param_registers (ecl_06.rs)',
                      'the statement stream is private to truth: the harness predicts it from its own program AST (a re-statement of the stackless lowerer for the generated statement shapes) and the prediction is validated on every case by comparing every emitted instruction',
                      'built-in (core) mapfiles cannot be loaded through the public API: the generated sources load an equivalent user mapfile (signatures + intrinsics of the opcodes used); pools, parameter registers and scratch-forbidding opcodes are the real hooks'],
        assumptions=['register ids are exactly representable in f32 (|id| < 2^24; checked for the generated pools)',
                     'C05_explicit_regs_complete / C05_no_collision are stated for the scan gen/regs.py reads off the source (gen_explicit_deep); they only check while get_explicitly_used_regs enters difficulty switches (defect #3 was fixed in 4000fd0), a regression breaks the proof and the oracle supplies the failing input',
                     'source_mentions_survive (every register written in the source occurs in the stream) is checked per case by the oracle (source mentions vs compiler-chosen registers), not proved: it belongs to the lowering model of C02'])

if __name__ == '__main__':
    sys.exit(main(sys.argv[1:]))
