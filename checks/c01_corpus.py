"""Harvest compilable script sources from /repo's own integration tests (the `source_test!` macro
invocations and the Format templates in tests/integration_impl/formats.rs) as a seed corpus."""
import re, os, glob

def _raw_strings(text):
    """replace r#"..."# / r##"..."## / "..." strings by placeholders; return (text, table)"""
    table = []
    def repl(m):
        table.append(m.group(2) if m.group(2) is not None else bytes(m.group(3), 'utf-8').decode('unicode_escape', 'replace'))
        return '\x00%d\x00' % (len(table) - 1)
    text = re.sub(r'r(#+)"(.*?)"\1|"((?:[^"\\]|\\.)*)"', repl, text, flags=re.S)
    return text, table

def parse_formats(repo):
    src = open(os.path.join(repo, 'tests/integration_impl/formats.rs')).read()
    src, tab = _raw_strings(src)
    fmts = {}
    for m in re.finditer(r'pub const (\w+): Format = Format \{(.*?)\n\};', src, re.S):
        name, body = m.group(1), m.group(2)
        f = {}
        inh = re.search(r'\.\.(\w+)', body)
        if inh and inh.group(1) in fmts: f.update(fmts[inh.group(1)])
        c = re.search(r'cmd:\s*\x00(\d+)\x00', body)
        if c: f['cmd'] = tab[int(c.group(1))]
        g = re.search(r'game:\s*Game::(\w+)', body)
        if g: f['game'] = g.group(1).lower().replace('th', '') if g.group(1) != 'Alcostg' else 'alcostg'
        h = re.search(r'script_head:\s*(?:\x00(\d+)\x00|(\w+)\.script_head)', body)
        if h: f['head'] = tab[int(h.group(1))] if h.group(1) else fmts[h.group(2)]['head']
        mm = re.search(r'make_main:\s*(?:\|body\|\s*format!\(\x00(\d+)\x00\)|(\w+)\.make_main)', body)
        if mm: f['main'] = tab[int(mm.group(1))] if mm.group(1) else fmts[mm.group(2)]['main']
        if all(k in f for k in ('cmd', 'game', 'head', 'main')):
            fmts[name] = f
    return fmts

def make_main(tmpl, body):
    return tmpl.replace('{{', '\x01').replace('}}', '\x02').replace('{body}', body).replace('\x01', '{').replace('\x02', '}')

def harvest(repo):
    fmts = parse_formats(repo)
    out = []
    for path in sorted(glob.glob(os.path.join(repo, 'tests/integration/*.rs'))):
        src = open(path).read()
        src, tab = _raw_strings(src)
        for m in re.finditer(r'source_test!\(\s*(?:#\[[^\]]*\]\s*)*(\w+),\s*(\w+)\s*,(.*?)\n\s*\);', src, re.S):
            fmt, name, body = m.group(1), m.group(2), m.group(3)
            if fmt not in fmts: continue
            def field(k):
                x = re.search(r'\b%s:\s*\x00(\d+)\x00' % k, body)
                return tab[int(x.group(1))] if x else None
            full = field('full_source')
            main_body, items, mapfile = field('main_body'), field('items'), field('mapfile')
            cmap = field('compile_mapfile')
            if 'expect_error' in body or 'expect_nospan_error' in body or 'expect_fail' in body:
                continue
            if full is None and main_body is None and items is None:
                continue
            f = fmts[fmt]
            text = full if full is not None else '%s\n%s\n%s' % (f['head'], items or '', make_main(f['main'], main_body or ''))
            extra = re.search(r'compile_args:\s*&\[(.*?)\]', body, re.S)
            cargs = [tab[int(i)] for i in re.findall(r'\x00(\d+)\x00', extra.group(1))] if extra else []
            out.append({'name': os.path.basename(path)[:-3] + '::' + name, 'fmt': fmt, 'cmd': f['cmd'], 'game': f['game'],
                        'text': text, 'mapfile': mapfile, 'compile_mapfile': cmap, 'compile_args': cargs})
    return out

if __name__ == '__main__':
    import sys, collections
    c = harvest(sys.argv[1] if len(sys.argv) > 1 else '/repo')
    print(len(c), collections.Counter(x['fmt'] for x in c))
