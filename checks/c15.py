"""C15 -- text in string arguments and metadata survives compile and decompile unchanged."""
import os, sys, json, re
from vlib import *

PROP = 'C15'
IMPORTS = 'Model.Abi Model.Intrinsic Corr.C12 Corr.C15'
ARG_KINDS = ('COMP', 'DECOMP')
OWN_KINDS = ('PATH', 'NAME', 'LIT')
# defects of the argument codec that also show up with string arguments are recorded under C12
ORACLE_CLASS = {'bs-zero': 'c15-bs-zero', 'nulless-furibug': 'c15-nulless-furibug'}

def eval_with_retry(prop, imports, case_type, cases, shard):
    """coq_eval_cases, and a shard whose coqc died without a result (time limit on a loaded machine) is re-run alone in small pieces
    before it counts (DESIGN section 7)"""
    mism, errs = coq_eval_cases(prop, imports, case_type, cases, shard=shard)
    failed = sorted(set(int(m.group(1)) for e in errs for m in [re.match(r'shard (\d+):', e)] if m))
    if not failed:
        return mism, errs
    errs2 = [e for e in errs if not re.match(r'shard (\d+):', e)]
    for k in failed:
        idx = list(range(k * shard, min(len(cases), (k + 1) * shard)))
        m2, e2 = coq_eval_cases(prop + 'retry', imports, case_type, [cases[i] for i in idx], shard=max(20, shard // 8))
        mism += [idx[j] for j in m2]
        errs2 += ['retry of shard %d: %s' % (k, x) for x in e2]
    return sorted(set(mism)), errs2

def run_harness(v, args, seed):
    rc, out = sh([harness_bin('c15')] + [str(a) for a in args], timeout=2400, env={'VERIF_SEED': str(seed)})
    lines = [l for l in out.splitlines() if '\t' in l]
    if rc != 0:
        v.obligation('harness c15 %s ran' % args[0], False, out[-800:])
    return lines

def main(argv):
    tier, seed, replay = tier_and_seed(argv)
    v = Verdict(PROP, tier, seed)
    proofs_ok, h_ok, unrec = standard_proof_steps(
        v, PROP, ['argcodec', 'strescape'], ['theories/Props/C15.vo'], ['c15'],
        corr_targets=['theories/Corr/C15.vo'])

    cases, texts, kinds = [], [], []
    oracle_fail = []
    stats = []
    sjis_line = None
    if h_ok:
        lines = []
        if replay:
            r = json.load(open(replay))
            if r.get('case'):
                lines.append('%s\t%s\t%s' % (r.get('kind', 'LIT'), r['case'], r.get('input', '')))
        else:
            # the two Shift-JIS premises of the theorems against encoding_rs, over all of Unicode (also writes the repertoire)
            lines += run_harness(v, ['sjis'], seed)
            if tier == 'quick':
                lines += run_harness(v, ['args', 220], seed) + run_harness(v, ['meta', 270], seed) + run_harness(v, ['lit', 200], seed)
            else:
                lines += run_harness(v, ['args', 2000, 'all'], seed) + run_harness(v, ['meta', 2250], seed) + run_harness(v, ['lit', 3000], seed)
        for l in lines:
            parts = l.split('\t')
            if parts[0] == 'ORACLE-FAIL': oracle_fail.append(parts[1:])
            elif parts[0] == 'STATS': stats.append('\t'.join(parts[1:]))
            elif parts[0] == 'SJIS': sjis_line = '\t'.join(parts[1:])
            elif parts[0] in ARG_KINDS:
                kinds.append(parts[0]); texts.append(parts[2] if len(parts) > 2 else '')
                cases.append(parts[1] if replay and parts[1].startswith('KArg') else 'KArg (%s)' % parts[1])
            elif parts[0] in OWN_KINDS:
                kinds.append(parts[0]); cases.append(parts[1]); texts.append(parts[2] if len(parts) > 2 else '')
    hist = {}
    for k in kinds: hist[k] = hist.get(k, 0) + 1
    if not replay:
        v.obligation('Shift-JIS premises (decode o encode = id on the repertoire; no NUL byte without U+0000) swept against encoding_rs: %s' % sjis_line,
                     sjis_line is not None and not any(f[0].startswith('sjis-') for f in oracle_fail))

    seen = {}
    for f in oracle_fail:
        token = f[0].split(':')[0]
        seen.setdefault(ORACLE_CLASS.get(token, 'c15-oracle:' + token), []).append(f)
    for cls, fs in seen.items():
        f = fs[0]
        v.violation('implementation-level oracle: ' + f[0], {'class': cls, 'input': f[-1], 'detail': f[1][:1500], 'occurrences': len(fs)})
    unknown_oracle = [c for c in seen if c not in ORACLE_CLASS.values()]

    if v.corr_ok and cases:
        mism, errs = eval_with_retry(PROP, IMPORTS, 'c15case', cases, 200 if tier == 'quick' else 300)
        v.obligation('correspondence: model = implementation on %d cases (vm_compute inside Coq)' % len(cases), not mism and not errs,
                     ('%d mismatches; ' % len(mism)) + '; '.join(errs)[:600] if (mism or errs) else '')
        for i in mism[:5]:
            v.violation('model/implementation disagreement on a %s case' % kinds[i],
                        {'class': 'c15-corr:' + kinds[i], 'kind': kinds[i], 'case': cases[i], 'input': texts[i].split(' >> ')[0],
                         'broken': 'correspondence Corr.C15.model_of15'}, no_failing_input=not unknown_oracle)
        if errs and not mism:
            v.violation('correspondence evaluation failed: %s' % errs[0][:300], {'class': 'c15-corr-eval', 'broken': errs[:2]}, no_failing_input=True)
    if (not proofs_ok or not v.corr_ok) and not v.violations:
        v.violation('proof obligation does not check: %s' % json.dumps(v.coq_error)[:400],
                    {'class': 'c15-proof', 'broken': v.coq_error}, no_failing_input=True)
    elif unrec and not v.violations:
        v.violation('translator no longer recognises the string code: %s' % unrec[:3], {'class': 'c15-tie1', 'broken': unrec}, no_failing_input=True)
    elif any(not o[1] for o in v.obligations) and not v.violations:
        bad = [o for o in v.obligations if not o[1]]
        v.violation('obligation failed: %s' % bad[0][0], {'class': 'c15-obligation', 'broken': [list(b) for b in bad]}, no_failing_input=True)

    v.coverage.update({
        'evaluations': len(cases),
        'distinct_nontrivial': distinct_count([c for c in cases if 'IOk' in c or c.startswith('KLit')]),
        'rule': 'sjis: every Unicode scalar value through encoding_rs SHIFT_JIS encode/decode (repertoire = code points that come back), every '
                'repertoire character next to ASCII / two-byte / half-width neighbours, 30000 random strings; args: a single string parameter under '
                'every size spec (bs, len, len+nulless, Pascal) x mask (none / random / equal to a byte of the text) x furibug, strings drawn from the '
                'measured repertoire in order (thorough: until every character was used) and from trail-byte-0x5C/0x7C specials, lengths 0..300 around '
                'block and buffer boundaries, scripts of 2-4 consecutive furigana strings, compiled and decompiled in-process (ANM th12, MSG th12) and '
                'compared with Model string_field/decode_string through Corr.C12; meta: every string slot of the file formats -- ANM path (th12) and path_2 (th06 header), STD stage name / 4 BGM names / 4 BGM '
                'paths (th08) and anm_path (th12), mission.msg text lines under their cipher (th095), stack-ECL anim and ecli lists (th10) -- with '
                'lengths around every block / buffer boundary, written to and read from real files; lit: strings through fmt.rs Format for LitString and the parser. distinct = distinct case terms',
        'traces_validated_against_impl': len(cases),
        'case_kinds': hist, 'generator_stats': stats, 'sjis_sweep': sjis_line,
        'oracle_failures_by_class': {c: len(fs) for c, fs in seen.items()},
        'samples': [{'kind': k, 'case': c[:500], 'source': t[:200]} for k, c, t in list(zip(kinds, cases, texts))[:1] + list(zip(kinds, cases, texts))[-2:]],
        'exhaustive': False,
    })
    return v.finish(
        level='proof',
        checker_cmd='cd coq && make theories/Corr/C15.vo theories/Props/C15.vo ; coqc work/audit_C15.v (Print Assumptions) ; '
                    'harness/target/debug/c15 sjis|args|meta|lit ; coqc work/cases_C15/*.v',
        trusted_base=['Shift-JIS as implemented by encoding_rs: premises sjis_inverse and sjis_no_nul of every C15 theorem (not axioms); swept on every run '
                      'over all Unicode scalar values and 30000+ strings by harness c15 sjis',
                      'modelled, not verified: Model/Abi.v (string_field, decode_string, write/read_path, write/read_name) and Model/StrLit.v are hand-written '
                      'restatements of the Rust code, interpreting Gen/ArgCodec.v and Gen/StrEscape.v'],
        assumptions=['strings of non-NUL characters from the measured repertoire (7518 of the 7521 code points encoding_rs can encode; U+00A5, U+203E, U+2212 '
                     'encode to bytes that decode to a different character)',
                     'mission MSG lines (64-byte buffers under an additive cipher) and stack-ECL sub names are covered by the same lemmas (name_roundtrip / '
                     'path_roundtrip with block 1) but are not exercised by the correspondence'])
