"""C06 -- turning blocks into labels and jumps preserves behaviour."""
import os, sys, json, re
from vlib import *

PROP = 'C06'
IMPORTS = 'Model.Blocks Model.BlocksInst Corr.C06'
GUARD_CLASS = {61: 'c06-astvm-negative-times-count', 62: 'c06-astvm-negative-times-counter', 63: 'c06-astvm-time-reset'}
DIAG = {1: 'the resolved program violates an invariant the theorem assumes (block bookends / loop ids of break)',
        2: 'flat statement list produced by desugar_blocks::run differs from the model\'s desugar',
        3: 'AstVm on the nested program differs from the model\'s run_struct',
        4: 'AstVm on the flat program differs from the model\'s run_flat'}

def run_harness(v, args, seed):
    rc, out = sh([harness_bin('c06')] + [str(a) for a in args], timeout=1500, env={'VERIF_SEED': str(seed)})
    if rc != 0:
        v.obligation('harness c06 %s ran' % args[0], False, out[-800:])
    return [l for l in out.splitlines() if '\t' in l]

def coq_eval_multi(tag, cases, fns, shard):
    """like vlib.coq_eval_cases, but evaluates several index-returning functions per shard in one coqc
    (the case terms are large: parsing them dominates). Returns ({fn: [global indices]}, errors)"""
    import subprocess, shutil, time
    d = os.path.join(WORK, 'cases_%s' % tag)
    shutil.rmtree(d, ignore_errors=True)
    os.makedirs(d)
    shards = [cases[i:i + shard] for i in range(0, len(cases), shard)]
    res = {f: [] for f in fns}
    errors = []
    def launch(k):
        path = os.path.join(d, 's%d.v' % k)
        with open(path, 'w') as f:
            f.write('From TV Require Import Base.I32 %s.\nOpen Scope Z_scope.\n' % IMPORTS)
            f.write('Definition cases : list c06case := [\n' + ';\n'.join(shards[k]) + '\n].\n')
            for fn in fns:
                f.write('Goal True. let r := eval vm_compute in (%s 0%%N cases) in idtac "@@RESULT %s" r "@@END". exact I. Qed.\n' % (fn, fn))
        return subprocess.Popen(['timeout', '1200', 'coqc', '-noglob', '-Q', os.path.join(COQ, 'theories'), 'TV', path],
                                cwd=d, stdout=subprocess.PIPE, stderr=subprocess.STDOUT, text=True)
    pending = list(range(len(shards))); running = {}; tries = {}
    while pending or running:
        while pending and len(running) < 16:
            k = pending.pop(0); tries[k] = tries.get(k, 0) + 1; running[k] = launch(k)
        for k, p in list(running.items()):
            if p.poll() is not None:
                out = p.stdout.read(); del running[k]
                got = dict(re.findall(r'@@RESULT (\w+)\s*(.*?)@@END', out, re.S))
                if set(got) == set(fns):
                    # all results were printed (a non-zero status after that can only be the time limit at exit)
                    for fn in fns:
                        res[fn] += [k * shard + int(x) for x in re.findall(r'(\d+)%N', got[fn])]
                elif p.returncode in (124, 137) and tries[k] < 3:
                    pending.append(k)      # killed by the time limit on a loaded machine: run it again
                else:
                    errors.append('shard %d: coqc failed (status %s): %s' % (k, p.returncode, out.strip()[-600:]))
        time.sleep(0.05)
    return res, errors

def cfg_of(path):
    m = re.search(r'\.cfg(\d)\.', os.path.basename(path))
    return int(m.group(1)) if m else 0

def main(argv):
    tier, seed, replay = tier_and_seed(argv)
    v = Verdict(PROP, tier, seed)
    import time as _t
    t0 = _t.time(); phases = {}
    proofs_ok, h_ok, unrec = standard_proof_steps(
        v, PROP, ['desugar_rules'], ['theories/Props/C06.vo'], ['c06'],
        corr_targets=['theories/Corr/C06.vo'])

    phases['build+audit'] = round(_t.time() - t0, 1); t0 = _t.time()
    cases, texts, cfgs = [], [], []
    oracle = []          # (case index, valuation, description, source, cfg)
    other_fail = []      # desugar failed etc.
    stats = []
    rejected = 0
    if h_ok:
        runs = []
        if replay:
            r = json.load(open(replay))
            os.makedirs(os.path.join(WORK, 'c06'), exist_ok=True)
            if r.get('source_text'):
                p = os.path.join(WORK, 'c06', 'replay.cfg%d.txt' % int(r.get('cfg', 0)))
                open(p, 'w').write(r['source_text'] + '\n')
                runs.append(['text', p, int(r.get('cfg', 0))])
        else:
            for f in sorted(glob.glob(os.path.join(VERIF, 'corpus', 'C06', '*.txt'))):
                runs.append(['text', f, cfg_of(f)])
            runs.append(['gen', 240 if tier == 'quick' else 6000])
        for args in runs:
            base = len(cases)
            for l in run_harness(v, args, seed):
                parts = l.split('\t')
                if parts[0] == 'PROG':
                    cases.append(parts[1]); texts.append(parts[2] if len(parts) > 2 else ''); cfgs.append(int(parts[3]) if len(parts) > 3 else 0)
                elif parts[0] == 'ORACLE-FAIL':
                    if parts[1].startswith('astvm before/after') and len(parts) >= 7:
                        oracle.append((base + int(parts[2]), int(parts[3]), parts[4], parts[5], int(parts[6])))
                    else:
                        other_fail.append(parts[1:])
                elif parts[0] == 'REJECTED':
                    rejected += 1
                elif parts[0] == 'STATS' and args[0] == 'gen':
                    stats.append('\t'.join(parts[1:]))
    if h_ok and not replay:
        v.obligation('generator: at least 90%% of the generated programs pass parsing/resolution and conversion (%d rejected, %d emitted)' % (rejected, len(cases)),
                     len(cases) > 0 and rejected * 10 <= len(cases), '')

    # (O) the pass itself failed or panicked: a violation with the program as input
    for f in other_fail[:3]:
        v.violation('implementation-level oracle: ' + f[0] + ': ' + (f[1] if len(f) > 1 else ''),
                    {'class': 'c06-oracle:desugar-failed', 'source_text': f[-2] if len(f) >= 3 else '', 'cfg': int(f[-1]) if f[-1].isdigit() else 0, 'detail': f})

    phases['harness'] = round(_t.time() - t0, 1); t0 = _t.time()
    shard = 30 if tier == 'quick' else 100
    mism = []
    if v.corr_ok and cases:
        # (O) AstVm before vs after, found by the harness. Every difference must be accounted for by one of the three
        #     guards of C06_desugar_correct (evaluated by the model's instrumented run); those are recorded findings
        #     about AstVm. Anything else is a violation with the program and valuation as input.
        ofail = sorted(set(i for i, *_ in oracle))
        sub = [cases[i] for i in ofail]
        tagged = {}
        if sub:
            res, errs = coq_eval_multi(PROP + 't', sub, ['tag%d_cases' % t for t in (1, 61, 62, 63)], 40)
            if errs: v.obligation('classification of AstVm before/after differences', False, '; '.join(errs)[:600])
            for tag in (1, 61, 62, 63):
                for k in res['tag%d_cases' % tag]: tagged.setdefault(ofail[k], set()).add(tag)
        n_unexpl = 0
        for i in ofail:
            tags = tagged.get(i, set())
            descr = [o for o in oracle if o[0] == i][0]
            if 1 in tags or not tags:
                n_unexpl += 1
                if n_unexpl <= 3:
                    v.violation('AstVm before and after desugar_blocks::run differ (valuation %d: %s) and no guard of C06_desugar_correct accounts for it' % (descr[1], descr[2]),
                                {'class': 'c06-oracle:before-after', 'source_text': texts[i], 'cfg': cfgs[i], 'case': cases[i], 'valuation': descr[1]})
            # one recorded guard class that applies is an explanation: a co-occurring tag of a class that is not (or no
            # longer) a recorded finding -- e.g. the time guard, unnecessary since fix 1470ef7 -- is then not reported separately
            ktags = [t for t in sorted(tags - {1}) if v.is_known(GUARD_CLASS[t])]
            for t in (ktags or sorted(tags - {1})):
                v.violation('AstVm before and after desugar_blocks::run differ (valuation %d: %s); guard %d of C06_desugar_correct' % (descr[1], descr[2], t),
                            {'class': GUARD_CLASS[t], 'source_text': texts[i], 'cfg': cfgs[i], 'case': cases[i], 'valuation': descr[1]})
        v.obligation('oracle: AstVm before = AstVm after on %d programs x 6 valuations, except %d programs inside the recorded guard classes' % (len(cases), len(ofail) - n_unexpl),
                     n_unexpl == 0, '%d programs with an unexplained difference' % n_unexpl if n_unexpl else '')

        phases['classification'] = round(_t.time() - t0, 1); t0 = _t.time()
        # (X) model vs implementation: invariants, flat statement list, both interpreters
        res, errs = coq_eval_multi(PROP, cases, ['mismatches'], shard)
        mism = sorted(res['mismatches'])
        v.obligation('correspondence: model = implementation on %d programs (wf invariant, flat list, AstVm nested = run_struct, AstVm flat = run_flat; vm_compute inside Coq)' % len(cases),
                     not mism and not errs, ('%d mismatches; ' % len(mism)) + '; '.join(errs)[:600] if (mism or errs) else '')
        if mism:
            sub = [cases[i] for i in mism[:40]]
            why = {}
            res, _ = coq_eval_multi(PROP + 'd', sub, ['diag%d_cases' % d for d in (1, 2, 3, 4)], 20)
            for d in (1, 2, 3, 4):
                for k in res['diag%d_cases' % d]: why[mism[k]] = d
            for i in mism[:4]:
                d = why.get(i, 0)
                v.violation('model/implementation disagreement: ' + DIAG.get(d, 'unknown component'),
                            {'class': 'c06-corr:%d' % d, 'source_text': texts[i], 'cfg': cfgs[i], 'case': cases[i],
                             'broken': 'correspondence Corr.C06.model_of, component %d' % d},
                            no_failing_input=(n_unexpl == 0 and not other_fail))
    if (not proofs_ok or not v.corr_ok) and not v.violations:
        v.violation('proof obligation does not check: %s' % json.dumps(v.coq_error)[:400],
                    {'class': 'c06-proof', 'broken': v.coq_error}, no_failing_input=True)
    elif unrec and not v.violations:
        v.violation('translator no longer recognises the desugaring rules: %s' % unrec[:3],
                    {'class': 'c06-tie1', 'broken': unrec}, no_failing_input=True)
    elif any(not o[1] for o in v.obligations) and not v.violations:
        bad = [o for o in v.obligations if not o[1]]
        v.violation('obligation failed: %s' % bad[0][0], {'class': 'c06-obligation', 'broken': [list(b) for b in bad]}, no_failing_input=True)

    phases['correspondence'] = round(_t.time() - t0, 1)
    v.notes.append('phase seconds: %s' % phases)
    ok_idx = set(range(len(cases))) - set(mism)
    v.coverage.update({
        'evaluations': len(cases) * 6,
        'programs': len(cases),
        'distinct_nontrivial': distinct_count([cases[i] for i in ok_idx if 'IOk' in cases[i]]),
        'rule': 'seeded random nestings (depth <= 5) of if/unless/else-if/else chains, while, do-while, loop, times with constant / register / named counter, break and conditional break at any depth, free blocks, local declarations, time labels (+n: / n:) at block starts, ends and between statements; 4 format configurations (no counting jump, `--c`, `--c > 0`, both) through truth::parse + resolution + passes::desugar_blocks::run in-process; AstVm before and after on 6 register valuations each. distinct = distinct case terms; non-trivial = at least one valuation ran to completion',
        'traces_validated_against_impl': len(cases) * 12,
        'generator_stats': stats,
        'rejected_programs': rejected,
        'astvm_before_after_differences': {'programs': len(set(i for i, *_ in oracle)), 'runs': len(oracle)},
        'samples': [{'source': t[:400], 'cfg': c} for t, c in list(zip(texts, cfgs))[:2] + list(zip(texts, cfgs))[-2:]],
        'exhaustive': False,
    })
    return v.finish(
        level='proof',
        checker_cmd='gen/desugar_rules.py ; cd coq && make theories/Corr/C06.vo theories/Props/C06.vo ; coqc work/audit_C06.v (Print Assumptions) ; harness/target/debug/c06 gen|text ; coqc work/cases_C06*/*.v',
        trusted_base=['modelled, not verified: Model/Blocks.v is a hand-written restatement of desugar_blocks.rs (three passes fused), of the time pass and of AstVm::_run (src/vm.rs) for nested and for flat code; Model/BlocksInst.v of AstVm::eval on integers',
                      'the flat interpreter is given as a suffix semantics (position = remaining statement list, goto = first label of that name with the time recorded for it); statement times are threaded through the program in document order instead of being looked up by NodeId'],
        assumptions=['forward direction only: every terminating, non-panicking guarded run of the nested program is reproduced; preservation of divergence is stated (C06_preserves_divergence) but not proved',
                     'guards (each shown necessary by a kernel-checked counterexample, each reproduced on AstVm by the correspondence): no `times` count < 0 without a named counter; under the `--c > 0` flavour the named counter never drops below 0 at the decrement; and, for vm.rs as found, AstVm never assigns `time` a value different from the current one when entering the first block of a chain / leaving the last one / starting the first iteration of `times` -- proved to hold whenever time labels do not decrease and the run starts at time <= 0 (C06_monotone_no_time_reset), and not needed at all for vm.rs with fixes/c06-astvm-time-reset.diff (C06_desugar_correct with tg = false; the translator reads out of vm.rs which variant it is)',
                     'user-written goto into or out of blocks, `return`, difficulty labels, sub calls and float/string values are outside the model (AstVm cannot execute the first; the others do not interact with block structure)',
                     'the expression language and the simple statements are a parameter of the theorem (three laws); the correspondence instantiates it with integer expressions incl. pre-decrement'])
