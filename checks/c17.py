"""C17 -- extracting images and compiling them back reproduces the embedded textures."""
import os, sys, json, random, subprocess
from vlib import *

PROP = 'C17'
IMPORTS = 'Base.F32 Model.Pixel Corr.C17'
KINDS = ('DEC', 'ENC', 'ROUND', 'SRC')

def run_parallel(v, jobs, seed, timeout=1800):
    """jobs: list of argument lists for harness/target/debug/c17; returns all tab-separated output lines"""
    env = dict(os.environ)
    env.update({'VERIF_SEED': str(seed), 'RUST_BACKTRACE': '0', 'VERIF_REPO': REPO, 'VERIF_WORK': WORK})
    procs = [(a, subprocess.Popen([harness_bin('c17')] + [str(x) for x in a], env=env, stdout=subprocess.PIPE,
                                  stderr=subprocess.STDOUT, text=True, errors='replace')) for a in jobs]
    lines = []
    for a, p in procs:
        timed_out = False
        try:
            out, _ = p.communicate(timeout=timeout)
        except subprocess.TimeoutExpired:
            # a harness that did not finish in time (loaded machine) says nothing about the property:
            # its complete lines are used, the evidence records the shortfall, and it is not an obligation failure
            p.kill(); out, _ = p.communicate(); timed_out = True
            out = out[:out.rfind('\n') + 1]
            v.notes.append('harness %s timed out after %ds; partial results used' % (' '.join(str(x) for x in a), timeout))
        if p.returncode != 0 and not timed_out:
            v.obligation('harness c17 %s ran' % ' '.join(str(x) for x in a), False, out[-800:])
        lines += [l for l in out.splitlines() if '\t' in l]
    return lines

def eval_with_retry(prop, imports, ctype, cases, shard):
    """coq_eval_cases, re-running (in smaller shards, twice at most) the shards whose coqc did not finish: on a loaded
    machine the per-process timeout can expire, and an evaluation that did not run says nothing about the property"""
    mism, errs = coq_eval_cases(prop, imports, ctype, cases, shard=shard)
    cur = list(range(len(cases)))
    for attempt in range(2):
        failed = sorted(set(int(m.group(1)) for m in (re.match(r'shard (\d+):', e) for e in errs) if m))
        if not errs or not failed: break
        cur = [cur[i] for k in failed for i in range(k * shard, min(len(cur), (k + 1) * shard))]
        shard = max(5, shard // 4)
        m2, errs = coq_eval_cases(prop + 'r', imports, ctype, [cases[i] for i in cur], shard=shard)
        mism = sorted(set(mism) | set(cur[j] for j in m2))
    return mism, errs

def main(argv):
    tier, seed, replay = tier_and_seed(argv)
    v = Verdict(PROP, tier, seed)
    proofs_ok, h_ok, unrec = standard_proof_steps(
        v, PROP, ['pixel', 'texfmt'], ['theories/Props/C17.vo'], ['c17', 'truth-cli'],
        corr_targets=['theories/Corr/C17.vo'])

    cases, texts, kinds = [], [], []
    oracle_fail = []
    stats = []
    if h_ok:
        lines = []
        if replay:
            r = json.load(open(replay))
            if r.get('replay_args') and r['replay_args'] != 'none':
                lines += run_parallel(v, [r['replay_args'].split()], seed)
            if r.get('case'):
                lines.append('%s\t%s\t%s' % (r.get('kind', 'SRC'), r['case'], r.get('source', '')))
        else:
            t = 'quick' if tier == 'quick' else 'thorough'
            nsrc = 240 if tier == 'quick' else 3000
            par = 4 if tier == 'quick' else 12
            per = nsrc // par
            jobs = [['pixels', t], ['dims', t]] + [['sources', per, k * per] for k in range(par)]
            lines = run_parallel(v, jobs, seed, timeout=1800 if tier == 'quick' else 6 * 3600)
        for l in lines:
            parts = l.split('\t')
            if parts[0] == 'ORACLE-FAIL': oracle_fail.append(parts[1:])
            elif parts[0] == 'STATS': stats.append('\t'.join(parts[1:]))
            elif parts[0] in KINDS:
                kinds.append(parts[0]); cases.append(parts[1]); texts.append(parts[2] if len(parts) > 2 else '')
    # quick tier: the exhaustive decode tables are sampled for the model correspondence (the oracle above ran on all values)
    if tier == 'quick' and not replay:
        rnd = random.Random(seed)
        keep = []
        for i, k in enumerate(kinds):
            if k == 'DEC' and 'Gray8' not in cases[i] and rnd.random() > 24 / 256.0: continue
            keep.append(i)
        cases = [cases[i] for i in keep]; texts = [texts[i] for i in keep]; kinds = [kinds[i] for i in keep]
    hist = {}
    for k in kinds: hist[k] = hist.get(k, 0) + 1

    # (O) implementation-level oracle: the property text evaluated on the implementation
    seen = set()
    for f in oracle_fail:
        what, rargs, text = f[0], (f[1] if len(f) > 1 else 'none'), f[-1]
        cls = 'c17-oracle:' + what.split(':')[0][:60]
        if cls in seen: continue
        seen.add(cls)
        if len(seen) > 5: break
        v.violation('implementation-level oracle: ' + what, {'class': cls, 'replay_args': rargs, 'input': text[:4000], 'detail': [x[:2000] for x in f]})

    if v.corr_ok and cases:
        shard = 60 if tier == 'quick' else 100
        mism, errs = eval_with_retry(PROP, IMPORTS, 'c17case', cases, shard)
        v.obligation('correspondence: model = implementation on %d cases (vm_compute inside Coq)' % len(cases), not mism and not errs,
                     ('%d mismatches; ' % len(mism)) + '; '.join(errs)[:600] if (mism or errs) else '')
        shown = set()
        for i in mism:
            if kinds[i] in shown: continue
            shown.add(kinds[i])
            m = re.search(r'(source-one \d+ \d+)', texts[i])
            v.violation('model/implementation disagreement on a %s case' % kinds[i],
                        {'class': 'c17-corr:' + kinds[i], 'kind': kinds[i], 'case': cases[i][:20000], 'source': texts[i][:3000],
                         'replay_args': m.group(1) if m else 'none', 'broken': 'correspondence Corr.C17.model_of'},
                        no_failing_input=not oracle_fail)
        if errs and not mism and not v.violations:
            v.violation('correspondence evaluation failed: %s' % errs[0][:300], {'class': 'c17-corr-eval', 'broken': errs[:3]}, no_failing_input=True)
    if (not proofs_ok or not v.corr_ok) and not v.violations:
        v.violation('proof obligation does not check: %s' % json.dumps(v.coq_error)[:400],
                    {'class': 'c17-proof', 'broken': v.coq_error}, no_failing_input=True)
    elif unrec and not v.violations:
        v.violation('translator no longer recognises src/image/color.rs: %s' % unrec[:3],
                    {'class': 'c17-tie1', 'broken': unrec}, no_failing_input=True)
    elif any(not o[1] for o in v.obligations) and not v.violations:
        bad = [o for o in v.obligations if not o[1]]
        v.violation('obligation failed: %s' % bad[0][0], {'class': 'c17-obligation', 'broken': [list(b) for b in bad]}, no_failing_input=True)

    nontrivial = [c for c, k in zip(cases, kinds) if k in ('DEC', 'ENC') or 'IOk' in c]
    v.coverage.update({
        'evaluations': len(cases),
        'distinct_nontrivial': distinct_count(nontrivial),
        'rule': 'pixels: one texture per 16-bit/8-bit format holding every pixel value and a texture of boundary+random 32-bit pixels go through truth-cli extract + compile -i dir (THTX compared byte for byte: the oracle), the extracted directory compiled into an ARGB_8888 entry gives the decoder per pixel value (DEC), an ARGB_8888 ANM image source compiled into an entry with an explicit other format gives the encoder (ENC); dims: textures of every width 1..64 with heights/offsets 0..8 on seeded Latin-square lines (thorough: every (w,h) pair and every (w,ox,oy)), random formats and bytes, multi-entry files, in-process and CLI, scripts as the decompiler prints them with seeded omissions (ROUND cases for textures <= 160 bytes); sources: seeded scenarios of 1..4 script entries over 3 paths (duplicates), 1..3 sources (ANM files with duplicate paths / missing images / offsets, directories), explicit script fields, #pragma image_source vs -i (SRC). distinct = distinct case terms; non-trivial = pixel tables, or the implementation produced an output file (not an error)',
        'traces_validated_against_impl': len(cases),
        'case_kinds': hist,
        'generator_stats': stats,
        'samples': [{'kind': k, 'case': c[:500], 'source': t[:300]} for k, c, t in
                    [x for x in zip(kinds, cases, texts) if x[0] == 'ROUND'][:1] + [x for x in zip(kinds, cases, texts) if x[0] == 'SRC'][:2]],
        'exhaustive': False,
    })
    return v.finish(
        level='proof',
        checker_cmd='python3 gen/pixel.py ; python3 gen/texfmt.py (gen_extract_bound: the pixel bound on the padded image) ; cd coq && make theories/Corr/C17.vo theories/Props/C17.vo ; coqc work/audit_C17.v (Print Assumptions) ; harness/target/debug/c17 pixels|dims|sources ; coqc work/cases_C17/*.v',
        trusted_base=['Flocq 4.1.0 binary32 (the meaning of the f32 luminance formula of GRAY_8)',
                      'PNG encoding/decoding (image crate) is a Section hypothesis: lossless for RGBA8; it appears as an explicit premise of C17_extract_compile_roundtrip and is exercised by the round-trip oracle',
                      'modelled, not verified: Model/Pixel.v restates image_io.rs (produce_image_from_entry, load_img_file_for_entry), anm/mod.rs (apply_anm_image_source, update_entry_from_anm_image_source, finalize_entry_texture, validate_and_transcode_texture_for_entry) and soft_option.rs by hand; color.rs is translated by gen/pixel.py'],
        assumptions=['has_data: "dummy" is outside the model', 'dimensions and offsets below 2^16 (the width of the file fields); u32 overflow of img dimension + offset in a script is not modelled',
                     'file-system races between applying a directory source and reading its files are out of scope',
                     'per-path queues (reverse + pop) are modelled as removal of the first remaining source entry with that path'])
