"""C03 -- a successful compile never writes a file that differs from what was asked."""
import os, sys, json, re
from vlib import *

PROP = 'C03'
IMPORTS = 'Model.Container Gen.InstrHeader Corr.C03'
FORMAT_NAMES = ['anm-v0', 'anm-v2', 'msg', 'std06', 'std10', 'ecl06-th06', 'ecl06', 'tl06', 'tl08', 'ecl10']
FIELD_CODES = {1: 'time', 2: 'opcode', 3: 'mask', 4: 'diff', 5: 'pop', 6: 'extra', 7: 'argc', 8: 'size', 9: 'const', 10: 'end-marker',
               11: 'time-forced', 12: 'opcode-forced', 13: 'mask-unstored', 14: 'diff-forced', 15: 'pop-forced', 16: 'extra-forced',
               17: 'argc-forced', 18: 'size-forced', 19: 'const'}

def run_harness(v, args, seed, timeout=1500):
    rc, out = sh([harness_bin('c03')] + [str(a) for a in args], timeout=timeout, env={'VERIF_SEED': str(seed)})
    lines = [l for l in out.splitlines() if '\t' in l]
    if rc != 0:
        v.obligation('harness c03 %s ran' % args[0], False, out[-800:])
    return lines

def table_report(v):
    """evaluate the generated tables inside Coq: per format fmt_ok, status, unchecked fields"""
    path = os.path.join(WORK, 'report_C03.v')
    with open(path, 'w') as f:
        f.write('From TV Require Import Base.I32 Model.Container Gen.InstrHeader Corr.C03.\n')
        f.write('Goal True. let r := eval vm_compute in unchecked_report in idtac "@@UNCHECKED" r. '
                'let r := eval vm_compute in status_report in idtac "@@STATUS" r. '
                'let r := eval vm_compute in fmt_ok_report in idtac "@@FMTOK" r. exact I. Qed.\n')
    rc, o = sh(['coqc', '-noglob', '-Q', os.path.join(COQ, 'theories'), 'TV', path], timeout=600, cwd=WORK)
    if rc != 0:
        return None
    o = o.replace('\n', ' ')
    def grab(tag):
        m = re.search(r'@@%s\s*(\[.*?\])\s*(@@|$)' % tag, o)
        return m.group(1) if m else None
    un, st, ok = grab('UNCHECKED'), grab('STATUS'), grab('FMTOK')
    if un is None or st is None or ok is None:
        return None
    unl = [[int(x) for x in re.findall(r'-?\d+', part)] for part in re.findall(r'\[([^\[\]]*)\]', un)]
    stl = re.findall(r'true|false', st)
    okl = re.findall(r'true|false', ok)
    if not (len(unl) == len(stl) == len(okl) == len(FORMAT_NAMES)):
        return None
    return {n: {'unchecked': [FIELD_CODES.get(c, 'f%d' % c) for c in u], 'status': s == 'true', 'fmt_ok': k == 'true'}
            for n, u, s, k in zip(FORMAT_NAMES, unl, stl, okl)}

def main(argv):
    tier, seed, replay = tier_and_seed(argv)
    v = Verdict(PROP, tier, seed)
    proofs_ok, h_ok, unrec = standard_proof_steps(
        v, PROP, ['instrheader'], ['theories/Props/C03.vo'], ['c03', 'truth-cli'],
        corr_targets=['theories/Corr/C03.vo'])

    cases, descs = [], []
    oracle_fail = []
    stats = []
    if h_ok:
        lines = []
        corpus = sorted(glob.glob(os.path.join(VERIF, 'corpus', 'C03', '*.spec')))
        if replay:
            r = json.load(open(replay))
            corpus = []
            if r.get('source_text') and r.get('format'):
                os.makedirs(os.path.join(WORK, 'c03'), exist_ok=True)
                p = os.path.join(WORK, 'c03', 'replay_in.%s.spec' % r['format'])
                open(p, 'w').write(r['source_text']); corpus = [p]
            if r.get('case') and not r['case'].endswith('...'):
                lines.append('SCRIPT\t%s\t%s' % (r['case'], r.get('source', '')))
            if r.get('raw_instrs'):
                # "raw <fmt> <game> <layout> <spec>"
                p = r['raw_instrs'].split(' ', 4)
                if len(p) == 5: lines += run_harness(v, ['rawtext'] + p[1:], seed)
        for f in corpus:
            # corpus file names are <anything>.<format>[.<game>].spec
            parts = os.path.basename(f).split('.')
            fmtname = parts[-2] if parts[-2] in FORMAT_NAMES else (parts[-3] if len(parts) > 3 and parts[-3] in FORMAT_NAMES else None)
            if fmtname is None: continue
            game = parts[-2] if parts[-2] not in FORMAT_NAMES else None
            lines += run_harness(v, ['text', fmtname, f] + ([game] if game else []), seed)
        if not replay:
            nraw = 2 if tier == 'quick' else 60
            nsrc = 5 if tier == 'quick' else 150
            lines += run_harness(v, ['raw', nraw] + (['quick'] if tier == 'quick' else []), seed)
            lines += run_harness(v, ['src', nsrc], seed, timeout=3000)
        for l in lines:
            parts = l.split('\t')
            if parts[0] == 'ORACLE-FAIL': oracle_fail.append(parts[1:])
            elif parts[0] == 'STATS': stats.append('\t'.join(parts[1:]))
            elif parts[0] == 'SCRIPT':
                cases.append(parts[1]); descs.append(parts[2] if len(parts) > 2 else '')

    # (O) implementation-level oracle: exit 0 / written without diagnostic, but the file differs from what was asked
    oracle_classes = {}
    for f in oracle_fail:
        cls, what, text = f[0], f[1] if len(f) > 1 else '', f[-1]
        oracle_classes.setdefault(cls, []).append((what, text))
    for cls in sorted(oracle_classes):
        what, text = oracle_classes[cls][0]
        m = re.search(r'format=([\w-]+)', cls)
        rep = {'class': cls, 'detail': what, 'count': len(oracle_classes[cls])}
        if text.startswith('raw '):
            rep['raw_instrs'] = text
        else:
            rep['source_text'] = text.replace(' ; ', '\n'); rep['format'] = m.group(1) if m else None
        v.violation('implementation-level oracle: %s: %s' % (cls, what), rep)

    # (T) the generated tables: which fields can change a value silently
    report = table_report(v) if v.corr_ok else None
    v.obligation('generated format tables evaluate inside Coq (fmt_ok, status, unchecked fields)', report is not None)
    if report:
        for name, r in report.items():
            v.obligation('table %s: fmt_ok' % name, r['fmt_ok'])
            v.obligation('table %s: every header field is checked (all_checked)' % name, r['status'])
            for fld in r['unchecked']:
                cls = 'c03 format=%s field=%s' % (name, fld)
                v.violation('format %s stores header field %s without a range check (generated table, Model.Container.pair_checked)' % (name, fld),
                            {'class': cls, 'broken': 'all_checked gen_%s' % name.replace('-', '_'),
                             'witness': (oracle_classes.get(cls) or [('', '')])[0][1]},
                            no_failing_input=cls not in oracle_classes)

    if v.corr_ok and cases:
        # (X) model vs implementation: bytes written and instructions read back
        mism, errs = coq_eval_cases(PROP, IMPORTS, 'c03case', cases, shard=max(100, (len(cases) + 4) // 5) if tier == 'quick' else 400)   # starting a coqc costs more than evaluating 100 cases
        v.obligation('correspondence: model = implementation on %d scripts (bytes written, instructions/diagnostic/panic on reading back; vm_compute inside Coq)' % len(cases),
                     not mism and not errs, ('%d mismatches; ' % len(mism)) + '; '.join(errs)[:600] if (mism or errs) else '')
        for i in mism[:5]:
            v.violation('model/implementation disagreement on a script: %s' % descs[i][:200],
                        {'class': 'c03-corr', 'case': cases[i] if len(cases[i]) < 20000 else cases[i][:20000] + '...', 'source': descs[i],
                         'broken': 'correspondence Corr.C03.model_of'},
                        no_failing_input=not oracle_fail)
    if (not proofs_ok or not v.corr_ok) and not v.violations:
        v.violation('proof obligation does not check: %s' % json.dumps(v.coq_error)[:400],
                    {'class': 'c03-proof', 'broken': v.coq_error}, no_failing_input=True)
    elif unrec and not v.violations:
        v.violation('translator no longer recognises the instruction formats: %s' % unrec[:3],
                    {'class': 'c03-tie1', 'broken': unrec}, no_failing_input=True)
    elif any(not o[1] for o in v.obligations) and not v.violations:
        bad = [o for o in v.obligations if not o[1]]
        v.violation('obligation failed: %s' % bad[0][0], {'class': 'c03-obligation', 'broken': [list(b) for b in bad]}, no_failing_input=True)

    hist = {}
    for d in descs:
        k = d.split(' ')[0] if not d.startswith('src') else 'src:' + d.split(' ')[1]
        hist[k] = hist.get(k, 0) + 1
    v.coverage.update({
        'evaluations': len(cases),
        'distinct_nontrivial': distinct_count([c for c in cases if 'IOk' in c]),
        'rule': 'raw: for each of the ten instruction formats (several games, script last / followed by another script) RawInstr lists with one field at a boundary (time +-2^15.., opcode 2^7/2^8/2^15/2^16-1, masks, argument blobs of 252/256/32756/65520..65540 bytes, difficulty, pop, arg count, extra arg, end-marker lookalikes, all-zero instructions) and random lists are put into a compiled template file, written with write_to_stream and re-read with read_from_stream; src: generated sources with the same boundary values through time labels, ins_N, @mask/@pop/@arg0/@nargs/@blob ANM entry metadata, header strings (ANM entry path, STD stage/bgm/anm names, stack-ECL ANIM/ECLI include lists) built from ASCII, 2-byte-UTF-8 and 3-byte-UTF-8 characters whose Shift-JIS encodings are 1 or 2 bytes, and (old ECL subs, stack ECL) signature instructions that carry @mask/@pop/@nargs together with a difficulty switch a:b:c:d and/or a difficulty label, every per-difficulty copy being compared with the source values -> truth-cli compile -> re-read in-process, compared with the in-process compile and with the values in the source. distinct = distinct case terms; non-trivial = the implementation wrote a file',
        'traces_validated_against_impl': len(cases),
        'case_kinds': hist,
        'generator_stats': stats,
        'oracle_classes': {k: len(x) for k, x in oracle_classes.items()},
        'table_report': report,
        'samples': [{'case': c[:500], 'source': t[:300]} for c, t in list(zip(cases, descs))[:1] + list(zip(cases, descs))[-2:]],
        'exhaustive': False,
    })
    return v.finish(
        level='proof',
        checker_cmd='python3 gen/instrheader.py ; cd coq && make theories/Corr/C03.vo theories/Props/C03.vo ; coqc work/audit_C03.v (Print Assumptions) ; coqc work/report_C03.v ; harness/target/debug/c03 raw|src|text ; coqc work/cases_C03/*.v',
        trusted_base=['modelled, not verified: Model/Container.v is a hand-written restatement of InstrFormat::{write_instr,read_instr,write_terminal_instr}, llir::{read_instrs,write_instrs} and the BinRead/BinWrite integer primitives, parameterised by the field tables in Gen/InstrHeader.v',
                      'gen/instrheader.py compares llir::read_instrs/write_instrs/instr_size and the io.rs little-endian primitives with the text the model was written against (any edit there is reported as unrecognised)'],
        assumptions=['RawInstr.extra_arg None is identified with Some(0) (the writers store unwrap_or(0))',
                     'no_silent_change is stated for instructions that leave the fields a format has no room for at their defaults (unstored pseudo-arguments are checked by the source-level oracle only)',
                     'file headers, tables and offsets outside the instruction streams (ANM entries, MSG table, STD/ECL headers) are covered by the differential re-read only, not by a theorem',
                     'a Vec is at most isize::MAX long'])
