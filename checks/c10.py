"""C10 -- names resolve by lexical scope, independent of how they are spelled."""
import os, sys, json, re
from vlib import *

PROP = 'C10'
IMPORTS = 'Model.ResolveSyntax Model.Resolve Model.ResolveRename Corr.C10'

def run_harness(v, args, seed, timeout=3000):
    rc, out = sh([harness_bin('c10')] + [str(a) for a in args], timeout=timeout, env={'VERIF_SEED': str(seed)})
    lines = [l for l in out.splitlines() if '\t' in l]
    if rc != 0:
        v.obligation('harness c10 %s ran' % args[0], False, out[-800:])
    return lines

def unresolved_class():
    """an occurrence left unresolved after Ok is the recorded finding that matches what the source does
    now (read from the generated table); if the source claims to visit every argument it is a new defect"""
    try:
        t = open(os.path.join(COQ, 'theories', 'Gen', 'RibTable.v')).read()
    except OSError:
        return 'c10-oracle:unresolved-after-ok'
    mode = re.search(r'gen_excess_mode : excess_mode := (\w+)', t)
    skips = re.search(r'gen_zip_skips_padding : bool := (\w+)', t)
    mode = mode.group(1) if mode else '?'
    if mode == 'ExNone': return 'c10-excess-args'
    if mode == 'ExAfterParams' and skips and skips.group(1) == 'true': return 'c10-padding-gap'
    return 'c10-oracle:unresolved-after-ok'

def oracle_class(what):
    if what.startswith('unresolved-after-ok'): return unresolved_class()
    if what.startswith('rename:'): return 'c10-oracle:rename'
    if what.startswith('make_idents_unique'): return 'c10-oracle:make_idents_unique'
    return 'c10-oracle:' + what.split(':')[0].split(' ')[0]

def main(argv):
    tier, seed, replay = tier_and_seed(argv)
    v = Verdict(PROP, tier, seed)
    proofs_ok, h_ok, unrec = standard_proof_steps(
        v, PROP, ['ribtable'], ['theories/Props/C10.vo'], ['c10', 'truth-cli'],
        corr_targets=['theories/Corr/C10.vo'])

    genv, cases, texts = {}, [], []
    oracle_fail, stats, notes = [], [], []
    if h_ok:
        lines = []
        os.makedirs(os.path.join(WORK, 'c10'), exist_ok=True)
        corpus = sorted(glob.glob(os.path.join(VERIF, 'corpus', 'C10', '*.spec')))
        if replay:
            r = json.load(open(replay))
            corpus = []
            if r.get('source_text'):
                p = os.path.join(WORK, 'c10', 'replay.spec'); open(p, 'w').write(r['source_text'])
                if r.get('mode') == 'rename':
                    lines += run_harness(v, ['rename-text', p], seed)
                else:
                    lines += run_harness(v, ['text', p] + (['block'] if r.get('shape') == 'block' else ['file']) + (['tests-env'] if r.get('env') == 'genv_tests' else []), seed)
        for f in corpus:
            lines += run_harness(v, ['text', f, 'block' if f.endswith('.block.spec') else 'file'], seed)
        if not replay:
            ntrees = 1200 if tier == 'quick' else 20000
            nren = 150 if tier == 'quick' else 2500
            lines += run_harness(v, ['tests'], seed)
            lines += run_harness(v, ['trees', ntrees], seed)
            lines += run_harness(v, ['rename', nren], seed)
        for l in lines:
            parts = l.split('\t')
            if parts[0] == 'ORACLE-FAIL': oracle_fail.append(parts[1:])
            elif parts[0] == 'STATS': stats.append('\t'.join(parts[1:]))
            elif parts[0] == 'NOTE': notes.append('\t'.join(parts[1:])[:300])
            elif parts[0] == 'GENV': genv[parts[1]] = parts[2]
            elif parts[0] == 'RES':
                cases.append(parts[1]); texts.append(parts[2] if len(parts) > 2 else '')
    for n in notes[:8]: v.notes.append('harness: ' + n)
    subset_bad = [n for n in notes if 'differs from the CLI' in n]
    if h_ok:
        v.obligation('oracle (c): in-process compile with the TH07 subset map = CLI compile on the sampled programs', not subset_bad, '; '.join(subset_bad)[:600])

    # (O) implementation-level oracle failures: violations with a concrete input
    seen = set()
    for f in oracle_fail:
        what, text = f[0], f[-1]
        cls = oracle_class(what)
        if cls in seen: continue
        if len(seen) >= 6: break
        seen.add(cls)
        rep = {'class': cls, 'source_text': text.replace(';     ', ';\n    ').replace('{     ', '{\n    '), 'detail': f[:-1]}
        if cls == 'c10-oracle:rename': rep['mode'] = 'rename'
        v.violation('implementation-level oracle: ' + what[:300], rep)

    shard = 150 if tier == 'quick' else 250
    mism = []
    if v.corr_ok and cases:
        imports = 'Open Scope Z_scope.\n' + ''.join('Definition %s : genv := %s.\n' % kv for kv in sorted(genv.items()))
        mism, errs = coq_eval_cases(PROP, IMPORTS, 'c10case', cases, shard=shard, imports=imports)
        # a shard that produced no output at all was killed by its time limit (overloaded machine):
        # evaluate its cases again in smaller pieces before calling it a failure
        killed = [int(m.group(1)) for m in (re.match(r'shard (\d+): coqc failed:\s*$', e) for e in errs) if m]
        if errs and len(killed) == len(errs):
            errs = []
            for k in killed:
                lo = k * shard
                m2, e2 = coq_eval_cases(PROP + 'r', IMPORTS, 'c10case', cases[lo:lo + shard], shard=max(25, shard // 8), imports=imports)
                mism += [lo + i for i in m2]
                errs += ['shard %d (retried): %s' % (k, x) for x in e2]
            mism.sort()
        v.obligation('correspondence: model = implementation on %d scope trees (every identifier occurrence, diagnostics per class; vm_compute inside Coq)' % len(cases),
                     not mism and not errs, ('%d mismatches; ' % len(mism)) + '; '.join(errs)[:600] if (mism or errs) else '')
        for i in mism[:5]:
            # the case is the candidate failing input: the resolution the implementation recorded for it
            # differs from the documented scoping rules (model = specification is a theorem)
            env = cases[i].split(' ')[1]
            v.violation('the implementation resolves a name differently from the scoping rules (or reports different diagnostics)',
                        {'class': 'c10-corr', 'case': cases[i], 'env': env, 'source': texts[i],
                         'shape': 'block' if '(PBlock ' in cases[i][:60] else 'file',
                         'source_text': texts[i].replace(';     ', ';\n    ').replace('{     ', '{\n    '),
                         'broken': 'correspondence Corr.C10.model_of'})
    if (not proofs_ok or not v.corr_ok) and not v.violations:
        v.violation('proof obligation does not check: %s' % json.dumps(v.coq_error)[:400],
                    {'class': 'c10-proof', 'broken': v.coq_error}, no_failing_input=True)
    elif unrec and not v.violations:
        v.violation('translator no longer recognises the rib tables: %s' % unrec[:3],
                    {'class': 'c10-tie1', 'broken': unrec}, no_failing_input=True)
    elif any(not o[1] for o in v.obligations) and not v.violations:
        bad = [o for o in v.obligations if not o[1]]
        v.violation('obligation failed: %s' % bad[0][0], {'class': 'c10-obligation', 'broken': [list(b) for b in bad]}, no_failing_input=True)

    v.coverage.update({
        'evaluations': len(cases),
        'distinct_nontrivial': distinct_count([c for c in cases if c.count('(Occ ') >= 4]),
        'rule': 'seeded random scope trees (file items: consts, [const|inline] functions with parameters, scripts; blocks with declarations, assignments, calls incl. raw ins_N and excess arguments, if/else, while/do/loop/times, bare blocks, nested const and function items) over the identifier pool {a,b,c,d} (+ PI,true,e,col) with a mapfile whose register aliases, instruction aliases (ECL and timeline) and enum consts collide with the pool; parsed, assign_languages(ECL, timeline) + resolve_names in-process; every ResIdent of the AST is indexed and looked up in ctx.resolutions. distinct = distinct case terms; non-trivial = at least 4 identifier occurrences',
        'traces_validated_against_impl': len(cases),
        'generator_stats': stats,
        'samples': [{'case': c[:700], 'source': t[:300]} for c, t in list(zip(cases, texts))[:1] + list(zip(cases, texts))[-2:]],
        'exhaustive': False,
    })
    return v.finish(
        level='proof',
        checker_cmd='python3 gen/ribtable.py ; cd coq && make theories/Corr/C10.vo theories/Props/C10.vo ; coqc work/audit_C10.v (Print Assumptions) ; harness/target/debug/c10 tests|trees|rename|text ; coqc work/cases_C10/*.v',
        trusted_base=['modelled, not verified: Model/Resolve.v is a hand-written restatement of resolve/mod.rs (Visitor, RibStacks::resolve) and of assign_languages; the harness reduces every expression to its list of identifier uses with the chain of enclosing call arguments',
                      'the global environment of the model (aliases, signatures, enums) is read back from the mapfile text and from ctx.func_signature_from_ast',
                      'byte-level renaming invariance (second sentence of the property) is the implementation-level oracle (c), not a theorem: generated old-format ECL programs, 3 injective renamings each, compiled in-process (TH07 subset map) and with the CLI on a sample'],
        assumptions=['expressions are opaque except for the identifier uses in them; labels, difficulty strings and meta keys are not names',
                     'enum colours come only from instruction signatures of the mapfile (user functions have none)',
                     'findings c10-excess-args (fixed 65d2ea8) / c10-padding-gap (open): call arguments that are not matched with a parameter are visited only as far as the source says (generated gen_excess_mode, gen_zip_skips_padding; Model/Resolve.v follows them; Props C10_every_use_bound_refuted / C10_uses_never_skipped_after_fix)'])
