"""C04 -- any text input ends in success or a rendered diagnostic, never a crash (partial proof).

Proved (Coq, Props/C04.v): on well-typed expressions const simplification / const evaluation never panic
(the contract "type_check reports every type error, so later passes may panic on them"); a run built from
disciplined emit sites fails iff it printed an error-severity diagnostic; every signature letter has a decoder
arm and the blob decoder is total on validated signatures.  Covered by the harness only (named as such in
the evidence): lexer/parser automata, the remaining passes, diagnostic rendering, recursion depth,
allocation, time, CLI argument handling -- a malformed-source stream through the command line (fork server
running truth::cli_def::truth_main in a child with 10 s CPU and a 2 GiB address space, confirmed through
the exec'd truth-cli binary)."""
import os, sys, json, re, glob, shutil, binascii
from vlib import *

PROP = 'C04'
IMPORTS = 'Base.F32 Model.Ops Model.Expr Model.Typing Corr.C04'
W = os.path.join(WORK, 'c04', 'run-%d' % os.getpid())   # per invocation: two checks of the same property may run at once

def abs_pragmas(text, base):
    """mapfile / image source pragmas with relative paths -> absolute (inputs are run from a scratch directory)"""
    def repl(m):
        p = m.group(2)
        if not os.path.isabs(p):
            for b in (base, REPO):
                if os.path.exists(os.path.join(b, p)): p = os.path.join(b, p); break
        return '%s"%s"' % (m.group(1), p)
    return re.sub(r'(#pragma\s+(?:mapfile|image_source)\s+)"([^"]*)"', repl, text)

def parse_formats():
    """tests/integration_impl/formats.rs: NAME -> (cmd, game, script_head, make_main template with {body})"""
    try: src = open(os.path.join(REPO, 'tests', 'integration_impl', 'formats.rs')).read()
    except OSError: return {}
    fm = {}
    for m in re.finditer(r'pub const (\w+): Format = Format \{(.*?)\n\};', src, re.S):
        name, body = m.group(1), m.group(2)
        d = {}
        base = re.search(r'\.\.(\w+)\s*$', body.strip())
        if base and base.group(1) in fm: d = dict(fm[base.group(1)])
        x = re.search(r'cmd:\s*"(\w+)"', body)
        if x: d['cmd'] = x.group(1)
        x = re.search(r'game:\s*Game::(\w+)', body)
        if x: d['game'] = x.group(1)
        x = re.search(r'script_head:\s*r#"(.*?)"#', body, re.S)
        if x: d['head'] = x.group(1)
        else:
            x = re.search(r'script_head:\s*(\w+)\.script_head', body)
            if x and x.group(1) in fm: d['head'] = fm[x.group(1)].get('head', '')
        x = re.search(r'make_main:\s*\|body\|\s*format!\(r#"(.*?)"#', body, re.S)
        if x: d['main'] = x.group(1).replace('{{', '\x00').replace('}}', '\x01').replace('{body}', '\x02').replace('\x00', '{').replace('\x01', '}')
        else:
            x = re.search(r'make_main:\s*(\w+)\.make_main', body)
            if x and x.group(1) in fm: d['main'] = fm[x.group(1)].get('main', '\x02')
        if 'cmd' in d and 'game' in d: fm[name] = d
    return fm

def game_arg(g):
    g = g.lower().replace('th', '')
    return {'alcostg': '103'}.get(g, g)

def build_seeds(v):
    sd = os.path.join(W, 'seeds'); shutil.rmtree(sd, ignore_errors=True); os.makedirs(sd)
    lines = []; n = [0]
    def add(text, tool, game, flags, kind, tag):
        n[0] += 1
        p = os.path.join(sd, '%04d_%s' % (n[0], re.sub(r'[^\w.-]', '_', tag)[:60]))
        open(p, 'w', encoding='utf-8', errors='surrogateescape').write(text)
        lines.append('%s\t%s\t%s\t%s\t%s' % (p, tool, game, flags, kind))
    # (1) *.spec files: bundled resources, reproductions, the C16 seed sources
    for f in sorted(glob.glob(os.path.join(REPO, 'tests', 'integration', 'resources', '*.spec'))):
        m = re.match(r'th(\d+)-', os.path.basename(f))
        add(abs_pragmas(open(f, errors='replace').read(), os.path.dirname(f)), 'truanm', m.group(1) if m else '12', '', 'src', os.path.basename(f))
    for f in sorted(glob.glob(os.path.join(VERIF, 'findings', 'repro', '*.spec'))):
        b = os.path.basename(f)
        tool = 'truecl' if '.ecl' in b else 'truanm'
        g = re.search(r'\.ecl(\d+)\.', b)
        add(abs_pragmas(open(f, errors='replace').read(), os.path.dirname(f)), tool, g.group(1).lstrip('0') if g else '12', '', 'src', b)
    for f in sorted(glob.glob(os.path.join(VERIF, 'corpus', 'C16', 'src', '*.spec')) + glob.glob(os.path.join(VERIF, 'corpus', 'C04', 'src', '*.spec'))):
        nme = os.path.basename(f)[:-5]; parts = nme.split('.')
        flags = '--mission' if nme.startswith('mission') else ('--ending' if nme.startswith('end') else '')
        add(open(f, errors='replace').read().replace('/repo/', REPO.rstrip('/') + '/'), parts[-1], parts[-2][1:], flags, 'src', nme)
    # (2) the inline sources of the integration tests
    fm = parse_formats(); ntests = 0
    for f in sorted(glob.glob(os.path.join(REPO, 'tests', 'integration', '*.rs'))):
        src = open(f, errors='replace').read()
        for m in re.finditer(r'source_test!\(\s*(\w+),\s*(\w+),(.*?)\n\);', src, re.S):
            fmt, tname, body = m.group(1), m.group(2), m.group(3)
            if fmt not in fm: continue
            F = fm[fmt]
            full = re.search(r'full_source:\s*r#"(.*?)"#', body, re.S)
            if full: text = full.group(1)
            else:
                items = re.search(r'\bitems:\s*r#"(.*?)"#', body, re.S); main = re.search(r'main_body:\s*r#"(.*?)"#', body, re.S)
                text = F.get('head', '') + (items.group(1) if items else '') + F.get('main', '\x02').replace('\x02', main.group(1) if main else '')
            mp = re.search(r'\bmapfile:\s*r#"(.*?)"#', body, re.S)
            text = re.sub(r'\s*//~.*', '', text)
            if mp:
                n[0] += 1; mpath = os.path.join(sd, '%04d_%s.map' % (n[0], tname)); open(mpath, 'w').write(mp.group(1))
                text = '#pragma mapfile "%s"\n' % mpath + text
            flags = '--ending' if fmt.startswith('END') else ''
            add(abs_pragmas(text, REPO), F['cmd'], game_arg(F['game']), flags, 'src', os.path.basename(f)[:-3] + '.' + tname)
            ntests += 1
    # (3) mapfiles
    for f in sorted(glob.glob(os.path.join(REPO, 'map', '*.*m')) + glob.glob(os.path.join(VERIF, 'findings', 'repro', '*_m.*m')) +
                    glob.glob(os.path.join(REPO, 'tests', 'integration', 'resources', '*.anmm'))):
        ext = f.rsplit('.', 1)[-1]
        tool = {'anmm': 'truanm', 'eclm': 'truecl', 'msgm': 'trumsg', 'stdm': 'trustd'}.get(ext)
        if not tool: continue
        g = re.search(r'th(\d+)', os.path.basename(f))
        game = g.group(1).lstrip('0') if g else {'truanm': '12', 'truecl': '8', 'trumsg': '12', 'trustd': '12'}[tool]
        if os.path.basename(f).startswith('v0'): game = '6'
        add(open(f, errors='replace').read(), tool, game, '', 'map', os.path.basename(f))
    mf = os.path.join(W, 'manifest.tsv'); open(mf, 'w').write('\n'.join(lines) + '\n')
    v.notes.append('seed texts: %d (%d inline integration-test sources, formats recognised: %d)' % (len(lines), ntests, len(fm)))
    return mf, len(lines)

def parse(lines):
    fails, stats, diffs, herr, cases, oracle = [], {}, [], [], [], []
    for l in lines:
        f = l.rstrip('\n').split('\t')
        if f[0] == 'FAIL' and len(f) >= 11:
            fails.append({'mode': f[1], 'class': f[2], 'detail': f[3], 'tool': f[4], 'game': f[5], 'flags': f[6], 'kind': f[7], 'desc': f[8], 'hex': f[9], 'maphex': f[10]})
        elif f[0] == 'STATS': stats[f[1]] = '\t'.join(f[2:])
        elif f[0] == 'EXEC-DIFF': diffs.append(f[1:])
        elif f[0] == 'HARNESS-ERROR': herr.append(f[1:])
        elif f[0] == 'TC': cases.append(f)
        elif f[0] == 'ORACLE-FAIL': oracle.append(f[1:])
    return fails, stats, diffs, herr, cases, oracle

def run(v, bin_, args, seed, what, timeout=6000):
    rc, out = sh([bin_] + [str(a) for a in args], timeout=timeout, env={'VERIF_SEED': str(seed)})
    if rc != 0: v.obligation('harness %s ran' % what, False, out[-800:])
    return out.splitlines()

def replay_cmd(r):
    os.makedirs(W, exist_ok=True)
    hx = os.path.join(W, 'replay_src.hex'); open(hx, 'w').write(r['hex'])
    mh = '-'
    if r.get('maphex') and r['maphex'] != '-':
        mh = os.path.join(W, 'replay_map.hex'); open(mh, 'w').write(r['maphex'])
    return ['replay', r['tool'], str(r['game']), r.get('flags', ''), hx, mh]

def emit_status():
    """indices of undisciplined emit sites (computed inside Coq) and their locations (comments of Gen/EmitSites.v)"""
    p = os.path.join(W, 'status.v'); os.makedirs(W, exist_ok=True)
    open(p, 'w').write('From TV Require Import Base.I32 Model.Diag Gen.EmitSites Corr.C04.\n'
                       'Goal True. let r := eval vm_compute in undisciplined_sites in idtac "@@STATUS" r. exact I. Qed.\n')
    rc, o = sh(['coqc', '-noglob', '-Q', os.path.join(COQ, 'theories'), 'TV', p], timeout=600, cwd=W)
    m = re.search(r'@@STATUS\s*\[(.*?)\]', o, re.S)
    if rc != 0 or not m: return None
    idx = [int(re.sub(r'%nat', '', x).strip()) for x in m.group(1).split(';') if x.strip()]
    locs = re.findall(r'\(\* site (\S+?):(\d+) (\S+) \*\)', open(os.path.join(COQ, 'theories', 'Gen', 'EmitSites.v')).read())
    return [(locs[i] if i < len(locs) else ('?', '0', '?')) for i in idx], len(locs)

def main(argv):
    tier, seed, replay = tier_and_seed(argv)
    v = Verdict(PROP, tier, seed)
    os.makedirs(W, exist_ok=True)
    proofs_ok, h_ok, unrec = standard_proof_steps(
        v, PROP, ['optable', 'emitsites', 'abiletters'], ['theories/Props/C04.vo'], ['c04', 'truth-cli'],
        corr_targets=['theories/Corr/C04.vo'])
    c04 = harness_bin('c04')
    fails, stats, diffs, herr, cases, oracle = [], {}, [], [], [], []
    nseeds = 0
    if h_ok and replay:
        r = json.load(open(replay))
        if r.get('hex') is not None:
            f, s, _, _, _, _ = parse(run(v, c04, replay_cmd(r), seed, 'replay')); fails += f; stats.update(s)
        if r.get('case'): cases.append(['TC', r['case'], r.get('source', ''), r.get('source_text', '')])
    elif h_ok:
        mf, nseeds = build_seeds(v)
        for kf in sorted(glob.glob(os.path.join(VERIF, 'corpus', 'C04', 'known', '*.json'))):
            r = json.load(open(kf))
            f, s, _, _, _, _ = parse(run(v, c04, replay_cmd(r), seed, 'corpus replay'))
            for x in f: x['desc'] = 'corpus/C04/known/%s' % os.path.basename(kf)
            fails += f
        budget, nexec, ncorr = (1100, 20, 600) if tier == 'quick' else (8000, 100, 30000)
        sc = float(os.environ.get('VERIF_BUDGET_SCALE', '1'))   # for trying out a tier quickly; 1 in normal use
        budget, nexec, ncorr = [max(10, int(x * sc)) for x in (budget, nexec, ncorr)]
        f, s, d, he, _, _ = parse(run(v, c04, ['fuzz', mf, budget, tier, nexec], seed, 'fuzz'))
        fails += f; stats.update(s); diffs += d; herr += he
        _, s, _, _, cases, oracle = parse(run(v, c04, ['corr', ncorr], seed, 'corr'))
        stats.update(s)
        v.obligation('harness workers completed every input', not herr, json.dumps(herr)[:600])
        v.obligation('fork-server outcome = outcome of the exec\'d truth-cli binary on the confirmation sample (%s)' % stats.get('cli-exec', ''), not diffs, json.dumps(diffs)[:800])

    reported = set()
    # a recorded finding may be limited to the kinds of input it was recorded for ("input_kinds"): the same panic site
    # reached by another kind of input gets the kind appended to its class and is therefore reported, not suppressed
    limited = {e['class']: e['input_kinds'] for e in v.known_findings if e.get('status') == 'open' and e.get('input_kinds')}
    for x in fails:
        if x['class'] in limited and x['kind'] not in limited[x['class']]: x['class'] = '%s@%s' % (x['class'], x['kind'])
        if x['class'] in reported: continue
        reported.add(x['class'])
        try: text = binascii.unhexlify(x['hex']).decode('utf-8', 'replace')
        except Exception: text = ''
        v.violation('%s compile -g%s %s [%s] %s: %s' % (x['tool'], x['game'], x['flags'], x['kind'], x['desc'], x['detail']),
                    {'class': x['class'], 'tool': x['tool'], 'game': x['game'], 'flags': x['flags'], 'hex': x['hex'], 'maphex': x['maphex'],
                     'source_text': text[:4000], 'mode': x['mode'], 'detail': x['detail'], 'input': x['desc']})
    for o in oracle[:3]:
        v.violation('library: ' + o[0], {'class': 'c04-lib-panic:' + norm_class(o[0]), 'source_text': o[-1].replace('; ', ';\n'), 'detail': o})

    # emit-site discipline (side condition of C04_failure_iff_error_diagnostic), computed from the generated table
    es = emit_status() if v.corr_ok else None
    if v.corr_ok: v.obligation('emit-site table classified in Coq (undisciplined_sites)', es is not None, '')
    if es:
        bad, nsites = es
        v.notes.append('emit sites: %d scanned, %d outside the discipline: %s' % (nsites, len(bad), bad))
        for (fpath, line, fn) in bad:
            cls = 'c04-emit-discipline:%s:%s' % (fpath, fn)
            if cls in reported: continue
            reported.add(cls)
            # the concrete input, when this run produced one: a failure without an error diagnostic
            ex = [x for x in fails if 'silent-failure' in x['class']]
            v.violation('emit site %s:%s (%s) breaks "fails iff an error diagnostic was printed": a warning/note whose token is returned as Err, or an error whose token is ignored' % (fpath, line, fn),
                        {'class': cls, 'broken': 'sites_ok gen_emit_sites', 'site': [fpath, line, fn]}, no_failing_input=not ex)

    if v.corr_ok and cases:
        terms = [c[1] for c in cases]
        mism, errs = coq_eval_cases(PROP, IMPORTS, 'c04case', terms, shard=150 if tier == 'quick' else 600)
        v.obligation('correspondence: typing discipline of the model = passes::type_check on %d generated programs (vm_compute inside Coq)' % len(cases),
                     not mism and not errs, ('%d mismatches; ' % len(mism)) + '; '.join(errs)[:600] if (mism or errs) else '')
        for i in mism[:5]:
            c = cases[i]
            v.violation('typing discipline of the model and type_check disagree (the passes behind type_check may panic on what it accepts): %s' % (c[2] if len(c) > 2 else ''),
                        {'class': 'c04-corr:TC', 'kind': 'TC', 'case': c[1], 'source': c[2] if len(c) > 2 else '', 'source_text': (c[3] if len(c) > 3 else '').replace('; ', ';\n'),
                         'broken': 'correspondence Corr.C04.model_of'}, no_failing_input=False)
    if (not proofs_ok or not v.corr_ok) and not v.violations:
        v.violation('proof obligation does not check: %s' % json.dumps(v.coq_error)[:400], {'class': 'c04-proof', 'broken': v.coq_error}, no_failing_input=True)
    elif unrec and not v.violations:
        v.violation('translator no longer recognises a table: %s' % unrec[:3], {'class': 'c04-tie1', 'broken': unrec}, no_failing_input=True)
    elif any(not o[1] for o in v.obligations) and not v.violations:
        bad = [o for o in v.obligations if not o[1]]
        v.violation('obligation failed: %s' % bad[0][0], {'class': 'c04-obligation', 'broken': [list(b) for b in bad]}, no_failing_input=True)

    def num(mode, key):
        m = re.search(key + r'=(\d+)', stats.get(mode, '')); return int(m.group(1)) if m else 0
    v.coverage.update({
        'evaluations': num('cli', 'total') + len(cases),
        'distinct_nontrivial': num('cli', 'total') + distinct_count([c[1] for c in cases]),
        'rule': 'malformed-source stream from %d seed texts (tests/integration resources and inline source_test! sources wrapped per format, findings/repro, corpus/C16/src, all mapfiles under map/): token-level (delete/duplicate/swap/replace/insert from a dictionary of keywords, punctuation, reserved syntax and extreme literals) and byte-level (flip, special bytes, truncate, delete, duplicate chunk, BOM) mutations, integer literals made extreme, tokens made ill-typed / ill-scoped, nesting depth up to 256, grammar-generated typed expressions with one ill-typed node at a chosen nesting position, mapfiles of every section kind with malformed numbers and values x {truanm, trustd, trumsg (stage/ending/mission), truecl} x games; outcome must be exit 0 or non-zero with at least one error: diagnostic; typing cases: generated programs through parse/resolve/type_check vs the model' % nseeds,
        'command_line_runs': num('cli', 'total'), 'compiled_successfully': num('cli', 'compiled_ok'),
        'traces_validated_against_impl': len(cases),
        'generator_stats': {k: s[:3000] for k, s in stats.items()},
        'samples': [{'kind': c[0], 'case': c[1][:400], 'source': (c[3] if len(c) > 3 else '')[:200]} for c in cases[:1] + cases[-2:]],
        'exhaustive': False,
    })
    shutil.rmtree(W, ignore_errors=True)
    return v.finish(
        level='proof',
        checker_cmd='gen/optable.py gen/emitsites.py gen/abiletters.py ; cd coq && make theories/Corr/C04.vo theories/Props/C04.vo ; coqc work/audit_C04.v ; harness/target/debug/c04 fuzz|corr|replay ; coqc work/cases_C04/*.v',
        trusted_base=['Flocq 4.1.0 binary32 (through Model/Expr.v)',
                      'modelled, not verified: Model/Typing.v (the typing discipline; compared with passes::type_check on generated programs every run), Model/Diag.v (ErrorFlag / collect_with_recovery / `?`), Model/DecodeArgs.v; gen/emitsites.py classifies emit sites textually (macro name, `.ignore()`)',
                      'fork server (harness/src/forkrun.rs), checked against the exec\'d truth-cli on a sample every run'],
        assumptions=['PARTIAL: theorems cover const simplification / const evaluation on well-typed expressions, the error-flag plumbing under the emit-site discipline, and signature-table consumers. The lexer and LALR parser, name resolution, the other passes (lowering, register allocation, encoding: see C09/C12), diagnostic rendering (codespan spans), recursion depth, allocation, time and CLI argument handling are covered by the malformed-input harness only',
                     'emit sites whose diagnostic is not a literal error!/warning!/info! macro (a variable, bug!) are outside the discipline check',
                     'call expressions, offsetof/timeof and ++/-- are opaque to the expression model'])

def norm_class(s):
    return re.sub(r'\d+', 'N', s)[:80]
