"""C16 -- any binary input ends in success or a diagnostic, never a crash (partial proof).

Proved (Coq, Props/C16.v): the script reader terminates for every byte string and every instruction format
and is Ok/Err for every format with checked size arithmetic; every label lookup after a successful label pass
is defined; image extraction is total for consistent textures (and for all textures with the size guard).
Covered by the harness only (named as such in the evidence): file-header parsing, string decoding,
diagnostic rendering, allocation size, stack depth, time -- through the command line (fork server running
truth::cli_def::truth_main in a child with a 10 s alarm and a 2 GiB address space, confirmed through the
exec'd truth-cli binary) and through the library under catch_unwind."""
import os, sys, json, re, glob, shutil, binascii
from vlib import *

PROP = 'C16'
IMPORTS = 'Model.BinScript Model.Labels Model.Texture Gen.InstrFmt Gen.TexFmt Corr.C16'
W = os.path.join(WORK, 'c16', 'run-%d' % os.getpid())   # per invocation: two checks of the same property may run at once

# generated table row -> the Rust type whose read_instr / decode_label it describes (to pair a row that fails the
# side conditions of Props/C16.v C16_tables_wf with the crashing file found by the harness)
FMT_TYPE = {'FAnm06': 'InstrFormat06', 'FAnm07': 'InstrFormat07', 'FStd06': 'StdHooks06', 'FStd10': 'StdHooks10', 'FMsg': 'MsgHooks',
            'FEcl06': 'OldeEclHooks', 'FTl06': 'TimelineFormat06', 'FTl08': 'TimelineFormat08', 'FEcl10': 'ModernEclHooks'}
DEC_TYPE = {0: 'LanguageHooks::decode_label', 1: 'StdHooks06::decode_label', 2: 'OldeEclHooks::decode_label', 3: 'ModernEclHooks::decode_label'}

def tool_of(name):
    ext = name.rsplit('.', 1)[-1]
    return {'anm': 'truanm', 'std': 'trustd', 'msg': 'trumsg', 'ecl': 'truecl'}.get(ext)

def build_seeds(v):
    """compile corpus/C16/src/*.spec with the CLI of the working tree; list the bundled binaries"""
    sd = os.path.join(W, 'seeds'); shutil.rmtree(sd, ignore_errors=True); os.makedirs(sd)
    cli = harness_bin('truth-cli')
    lines = []; seen = set(); failed = []
    for d in ('tests/integration/bits-2-bits', 'tests/integration/resources'):
        for f in sorted(glob.glob(os.path.join(REPO, d, '*'))):
            n = os.path.basename(f); tool = tool_of(n)
            m = re.match(r'th(\d+)-', n)
            if not tool or not m or not os.path.isfile(f): continue
            data = open(f, 'rb').read()
            if data in seen: continue
            seen.add(data)
            lines.append('%s\t%s\t%s\t' % (f, tool, m.group(1)))
    f14 = os.path.join(VERIF, 'findings', 'repro', 'f14_std07_jump_offset_overflow.std')
    if os.path.exists(f14): lines.append('%s\ttrustd\t7\t\tknownbad' % f14)   # panics unmodified (defect #14)
    for f in sorted(glob.glob(os.path.join(VERIF, 'corpus', 'C16', 'src', '*.spec'))):
        n = os.path.basename(f)[:-5]; parts = n.split('.')
        tool, g = parts[-1], parts[-2][1:]
        flags = '--mission' if n.startswith('mission') else ('--ending' if n.startswith('end') else '')
        out = os.path.join(sd, n + '.bin')
        text = open(f).read().replace('/repo/', REPO.rstrip('/') + '/')
        src = os.path.join(sd, n + '.spec'); open(src, 'w').write(text)
        rc, o = sh([cli, tool, 'compile', '-g', g, src, '-o', out] + ([flags] if flags else []), timeout=60)
        if rc != 0 or not os.path.exists(out): failed.append('%s: %s' % (n, o.strip()[-200:])); continue
        lines.append('%s\t%s\t%s\t%s' % (out, tool, g, flags))
    v.obligation('seed sources corpus/C16/src/*.spec compile with the working tree', not failed, '; '.join(failed)[:800])
    mf = os.path.join(W, 'manifest.tsv'); open(mf, 'w').write('\n'.join(lines) + '\n')
    return mf, len(lines)

def table_status():
    """(unsafe format names, unsafe decoder indices, guard) computed inside Coq from the generated tables"""
    os.makedirs(W, exist_ok=True)
    p = os.path.join(W, 'status.v')
    open(p, 'w').write('From TV Require Import Base.I32 Model.BinScript Gen.InstrFmt Gen.TexFmt Corr.C16.\n'
                       'Goal True. let r := eval vm_compute in (unsafe_formats, unsafe_decoders, gen_extract_guard) in idtac "@@STATUS" r. exact I. Qed.\n')
    rc, o = sh(['coqc', '-noglob', '-Q', os.path.join(COQ, 'theories'), 'TV', p], timeout=300, cwd=W)
    m = re.search(r'@@STATUS\s*\(\[(.*?)\],\s*\[(.*?)\],\s*(true|false)\)', o, re.S)
    if rc != 0 or not m: return None
    fm = [x.strip() for x in m.group(1).split(';') if x.strip()]
    dc = [int(re.sub(r'%nat', '', x).strip()) for x in m.group(2).split(';') if x.strip()]
    return fm, dc, m.group(3) == 'true'

def parse(lines):
    fails, stats, diffs, seederr, herr, cases = [], {}, [], [], [], []
    for l in lines:
        f = l.rstrip('\n').split('\t')
        if f[0] == 'FAIL' and len(f) >= 11:
            fails.append({'mode': f[1], 'class': f[2], 'detail': f[3], 'tool': f[4], 'game': f[5], 'flags': f[6], 'action': f[7], 'opts': f[8], 'desc': f[9], 'hex': f[10]})
        elif f[0] == 'STATS': stats[f[1]] = '\t'.join(f[2:])
        elif f[0] == 'EXEC-DIFF': diffs.append(f[1:])
        elif f[0] == 'SEEDERR': seederr.append(f[1:])
        elif f[0] == 'HARNESS-ERROR': herr.append(f[1:])
        elif f[0] in ('READ', 'TEX', 'LAB'): cases.append(f)
    return fails, stats, diffs, seederr, herr, cases

def run(v, bin_, args, seed, what, timeout=3000):
    rc, out = sh([bin_] + [str(a) for a in args], timeout=timeout, env={'VERIF_SEED': str(seed)})
    if rc != 0: v.obligation('harness %s ran' % what, False, out[-800:])
    return out.splitlines()

def replay_cmd(r):
    hx = os.path.join(W, 'replay.hex'); os.makedirs(W, exist_ok=True); open(hx, 'w').write(r['hex'])
    return ['replay', r['tool'], str(r['game']), r.get('flags', ''), r.get('action', 'decompile'), r.get('opts', ''), hx]

def classes_count(stats_line):
    m = re.search(r'classes=\{(.*)\}\s*$', stats_line or '')
    out = {}
    if m:
        for k, n in re.findall(r'"((?:[^"\\]|\\.)*)": (\d+)', m.group(1)): out[k.replace('\\"', '"')] = int(n)
    return out

def main(argv):
    tier, seed, replay = tier_and_seed(argv)
    v = Verdict(PROP, tier, seed)
    os.makedirs(W, exist_ok=True)
    proofs_ok, h_ok, unrec = standard_proof_steps(
        v, PROP, ['instrfmt', 'texfmt', 'abiletters'], ['theories/Props/C16.vo'], ['c16', 'truth-cli'],
        corr_targets=['theories/Corr/C16.vo'])
    c16 = harness_bin('c16')
    fails, stats, diffs, seederr, herr, cases = [], {}, [], [], [], []
    nseeds = 0
    if h_ok and replay:
        r = json.load(open(replay))
        if r.get('hex'):
            f, s, d, se, he, _ = parse(run(v, c16, replay_cmd(r), seed, 'replay'))
            fails += f; stats.update(s)
        if r.get('case'):
            cases.append([r.get('kind', 'READ'), r['case'], r.get('source', '')])
    elif h_ok:
        mf, nseeds = build_seeds(v)
        # (a) known crashing files: one per recorded class; replayed every run (they pass once the fix is applied)
        for kf in sorted(glob.glob(os.path.join(VERIF, 'corpus', 'C16', 'known', '*.json'))):
            r = json.load(open(kf))
            f, s, d, se, he, _ = parse(run(v, c16, replay_cmd(r), seed, 'corpus replay'))
            for x in f: x['desc'] = 'corpus/C16/known/%s %s' % (os.path.basename(kf), x['desc'])
            fails += f
        # (b) the mutation stream through the command line and through the library
        budget, nexec, ninproc, ncorr = (700, 20, 4000, 60) if tier == 'quick' else (25000, 300, 150000, 1500)
        sc = float(os.environ.get('VERIF_BUDGET_SCALE', '1'))   # for trying out a tier quickly; 1 in normal use
        budget, nexec, ninproc, ncorr = [max(10, int(x * sc)) for x in (budget, nexec, ninproc, ncorr)]
        f, s, d, se, he, _ = parse(run(v, c16, ['fuzz', mf, budget, tier, nexec], seed, 'fuzz'))
        fails += f; stats.update(s); diffs += d; seederr += se; herr += he
        f, s, d, se, he, _ = parse(run(v, c16, ['inproc', mf, ninproc, 'quick'], seed + 1, 'inproc'))
        fails += f; stats.update(s); herr += he
        _, s, _, _, _, cases = parse(run(v, c16, ['corr', mf, ncorr], seed, 'corr'))
        stats.update(s)
        if tier != 'quick':
            # release build: arithmetic wraps instead of panicking
            ok, o = cargo_build(['c16', 'truth-cli'], release=True, timeout=3000)
            v.obligation('release build of the harness (thorough tier)', ok, o[-600:] if not ok else '')
            if ok:
                f, s, d, se, he, _ = parse(run(v, harness_bin('c16', release=True), ['fuzz', mf, budget // 2, tier, nexec // 2], seed + 2, 'fuzz (release)'))
                fails += f; stats.update(s); diffs += d; herr += he
        v.obligation('harness workers completed every mutant', not herr, json.dumps(herr)[:600])
        v.obligation('fork-server outcome = outcome of the exec\'d truth-cli binary on the confirmation sample (%s)' % stats.get('cli-exec', ''), not diffs, json.dumps(diffs)[:800])

    # (O) a panic, signal, timeout, allocation failure or failure without an error diagnostic: violation with the file
    reported = set()
    for x in fails:
        if x['class'] in reported: continue
        if x['class'].startswith('c16-seed-regression:') and sum(1 for c in reported if c.startswith('c16-seed-regression:')) >= 3: continue
        reported.add(x['class'])
        v.violation('%s %s -g%s %s %s %s: %s' % (x['tool'], x['action'], x['game'], x['flags'], x['opts'], x['desc'], x['detail']),
                    {'class': x['class'], 'tool': x['tool'], 'game': x['game'], 'flags': x['flags'], 'action': x['action'], 'opts': x['opts'],
                     'hex': x['hex'], 'mode': x['mode'], 'detail': x['detail'], 'mutation': x['desc']})

    # table rows outside the guards of the theorems: each stands for a panic class; the file comes from the harness
    st = table_status() if v.corr_ok else None
    if v.corr_ok:
        v.obligation('table status computed in Coq (unsafe_formats, unsafe_decoders, gen_extract_guard)', st is not None, '')
    if st:
        fm, dc, guard = st
        v.notes.append('generated tables: formats outside size_safe = %s; decode_label outside dl_safe = %s; extract size guard = %s' % (fm, dc, guard))
        todo = []
        for n in fm: todo.append(('c16-table:' + n, FMT_TYPE.get(n, n) + '::read_instr', 'instruction format %s (%s): the argument-size arithmetic can panic (side condition size_safe of C16_read_total fails)' % (n, FMT_TYPE.get(n, '?'))))
        for n in dc: todo.append(('c16-table:decode%d' % n, DEC_TYPE.get(n, 'decode_label'), 'decode_label #%d (%s): the product is computed in u32 and can overflow (side condition dl_safe fails)' % (n, DEC_TYPE.get(n, '?'))))
        if not guard: todo.append(('c16-table:extract-guard', 'produce_image_from_entry', 'produce_image_from_entry has lost its size guard (side condition of C16_extract_total fails)'))
        for c, needle, what in todo:
            ex = [x for x in fails if needle in x['class'] or needle.split('::')[0] in x['class']]
            rep = {'class': c, 'broken': what}
            if ex: rep.update({k: ex[0][k] for k in ('tool', 'game', 'flags', 'action', 'opts', 'hex', 'detail')})
            v.violation(what + (': ' + ex[0]['detail'] if ex else ''), rep, no_failing_input=not ex)

    # (X) correspondence: model vs implementation
    kinds = [c[0] for c in cases]
    if v.corr_ok and cases:
        terms = [c[1] for c in cases]
        mism, errs = coq_eval_cases(PROP, IMPORTS, 'c16case', terms, shard=250 if tier == 'quick' else 600)
        v.obligation('correspondence: model = implementation on %d cases (script reader x 4 formats, texture check, label pass; vm_compute inside Coq)' % len(cases),
                     not mism and not errs, ('%d mismatches; ' % len(mism)) + '; '.join(errs)[:600] if (mism or errs) else '')
        for i in mism[:5]:
            c = cases[i]
            impl_panic = c[1].rstrip().endswith('IPanic')
            v.violation('model/implementation disagreement on a %s case%s' % (c[0], ' (the implementation panicked)' if impl_panic else ''),
                        {'class': 'c16-corr:' + c[0], 'kind': c[0], 'case': c[1], 'source': c[2] if len(c) > 2 else '',
                         'hex': c[3] if len(c) > 3 else None, 'tool': 'truanm', 'game': '12', 'action': 'extract',
                         'broken': 'correspondence Corr.C16.model_of'}, no_failing_input=not impl_panic)
    if (not proofs_ok or not v.corr_ok) and not v.violations:
        v.violation('proof obligation does not check: %s' % json.dumps(v.coq_error)[:400],
                    {'class': 'c16-proof', 'broken': v.coq_error}, no_failing_input=True)
    elif unrec and not v.violations:
        v.violation('translator no longer recognises an instruction format / decode_label / colour table: %s' % unrec[:3],
                    {'class': 'c16-tie1', 'broken': unrec}, no_failing_input=True)
    elif any(not o[1] for o in v.obligations) and not v.violations:
        bad = [o for o in v.obligations if not o[1]]
        v.violation('obligation failed: %s' % bad[0][0], {'class': 'c16-obligation', 'broken': [list(b) for b in bad]}, no_failing_input=True)

    def total(mode):
        m = re.search(r'total=(\d+)', stats.get(mode, '')); return int(m.group(1)) if m else 0
    hist = {}
    for k in kinds: hist[k] = hist.get(k, 0) + 1
    v.coverage.update({
        'evaluations': total('cli') + total('cli-release') + total('inproc') + len(cases),
        'distinct_nontrivial': total('cli') + total('cli-release') + total('inproc') + distinct_count([c[1] for c in cases]),
        'rule': 'mutants of %d seed files (bundled tests/integration binaries, findings/repro f14, compiler outputs of corpus/C16/src for ANM v0/v8, STD 06/08/12, MSG 06/12, ending, mission 095/125, ECL 06/07/08/10/13): truncation at offsets, THTX field, 16/32-bit word (sizes, counts, offsets, jump targets, register ids), byte, multi-byte, string byte, insert/delete, fill, splice, append x tool x game x 8 decompile option sets + truanm extract; every mutant is distinct from its seed by construction; outcome must be exit 0 or non-zero with an error diagnostic naming the file; correspondence cases: script bytes behind a container prefix, texture (format,w,h,len), STD jump scripts' % nseeds,
        'command_line_runs': total('cli'), 'command_line_runs_release': total('cli-release'), 'library_runs': total('inproc'),
        'traces_validated_against_impl': len(cases), 'case_kinds': hist,
        'generator_stats': {k: s[:3000] for k, s in stats.items()},
        'seed_files_reporting_errors_unmodified': seederr[:10],
        'samples': [{'kind': c[0], 'case': c[1][:400]} for c in cases[:1] + cases[-2:]],
        'exhaustive': False,
    })
    shutil.rmtree(W, ignore_errors=True)
    return v.finish(
        level='proof',
        checker_cmd='gen/instrfmt.py gen/texfmt.py ; cd coq && make theories/Corr/C16.vo theories/Props/C16.vo ; coqc work/audit_C16.v ; harness/target/debug/c16 fuzz|inproc|corr|replay ; coqc work/cases_C16/*.v',
        trusted_base=['modelled, not verified: Model/BinScript.v (read_instr per format, read_instrs), Model/Labels.v (gather_jump_time_args, generate_offset_labels, label lookups), Model/Texture.v (produce_image_from_entry, ColorBytes::decode, ImageBuffer::from_raw length check) are hand-written restatements of the Rust code, parameterised by the generated tables',
                      'fork server (harness/src/forkrun.rs): a forked child calling truth::cli_def::truth_main is taken to behave like the truth-cli binary; checked on a sample of every run against the exec\'d binary'],
        assumptions=['PARTIAL: the theorems cover the script reader (all nine instruction formats), decode_label, the label pass and its lookups, and the texture size check. File-header parsing (seeks, entry/object/table loops), decode_args and string decoding, raising beyond labels, diagnostic rendering, allocation sizes, stack depth and running time are covered by the mutation harness only (command line with 10 s / 2 GiB limits, library under catch_unwind), not by a theorem',
                     'slice::binary_search is modelled as the index of the element (instr_offsets is strictly increasing)',
                     'C16_read_total / C16_decode_label_total / C16_extract_total hold because the generated rows satisfy size_safe / dl_safe / the size guard (C16_tables_wf, vm_compute on the tables of the current source); an edit that reintroduces unchecked size arithmetic breaks that obligation and is reported with the crashing file found by the harness'])
