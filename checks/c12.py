"""C12 -- argument encoding and decoding are inverse for every instruction signature."""
import os, sys, json, re
from vlib import *

PROP = 'C12'
IMPORTS = 'Model.Abi Model.Intrinsic Corr.C12'
KINDS = ('COMP', 'DECOMP', 'PLACE')

# implementation-level oracle classes with a name of their own (see known_findings.d/C12.json for their status)
ORACLE_CLASS = {
    'narrowing': 'c12-narrowing', 'bs-zero': 'c12-bs-zero', 'call-typing': 'c12-call-typing',
    'intrinsic-padding': 'c12-intrinsic-padding', 'nulless-furibug': 'c12-nulless-furibug', 'mask-overflow': 'c12-mask-overflow',
}
# switches of the generated table: (Coq term, violation class when false, what, repro input of findings/repro).
# All six were defects of the original tree, repaired in /repo (known_findings.d/C12.json: fixed); a switch that goes back
# to false is a regression and a violation.
FLAGS = [
    ('all_checked gen_codec', 'c12-narrowing',
     'an integer argument that does not fit its 1- or 2-byte field (or the 16-bit timeline arg0) is stored truncated (`as _` in encode_args): '
     'side condition all_checked of theorem C12_no_silent_change', 'f06_narrowing_args.anm.spec'),
    ('cd_bs_checked gen_codec', 'c12-bs-zero',
     'a string signature with bs=0 is accepted (encode_args then panics with a remainder by zero): side condition of C12_accepted_call_never_panics',
     'f05_bs_zero.anm.spec'),
    ('cd_place_with_padding gen_codec', 'c12-intrinsic-padding',
     'IntrinsicBuilder::into_vec does not allocate for the positions from_abi computes (panics when padding precedes a parameter): '
     'side condition of C12_intrinsic_placement_total', 'f04_intrinsic_padding.anm.spec'),
    ('cd_match_skips_padding gen_codec', 'c12-call-typing',
     'call arguments are matched against all parameters including defaulted padding: side condition of C12_accepted_call_never_panics',
     'f13b_padding_param_shift_accepts_invalid.anm.spec'),
    ('cd_nulless_furibug_rejected gen_codec', 'c12-nulless-furibug',
     'a string parameter with both nulless and furibug is accepted; after a furigana line its text reads back with that line\'s masked bytes '
     'attached (or not at all): side condition of C12_parsed_signature_is_covered', None),
    ('cd_mask_overflow_checked gen_codec', 'c12-mask-overflow',
     'a register argument beyond the 16th parameter is stored as an immediate without a diagnostic (the too-many-arguments check of encode_args '
     'can never fire): switch cd_mask_overflow_checked of the generated table', None),
]

def eval_with_retry(prop, imports, case_type, cases, shard):
    """coq_eval_cases, and a shard whose coqc died without a result (time limit on a loaded machine) is re-run alone in small pieces
    before it counts (DESIGN section 7)"""
    mism, errs = coq_eval_cases(prop, imports, case_type, cases, shard=shard)
    failed = sorted(set(int(m.group(1)) for e in errs for m in [re.match(r'shard (\d+):', e)] if m))
    if not failed:
        return mism, errs
    errs2 = [e for e in errs if not re.match(r'shard (\d+):', e)]
    for k in failed:
        idx = list(range(k * shard, min(len(cases), (k + 1) * shard)))
        m2, e2 = coq_eval_cases(prop + 'retry', imports, case_type, [cases[i] for i in idx], shard=max(20, shard // 8))
        mism += [idx[j] for j in m2]
        errs2 += ['retry of shard %d: %s' % (k, x) for x in e2]
    return sorted(set(mism)), errs2

def run_harness(v, args, seed):
    rc, out = sh([harness_bin('c12')] + [str(a) for a in args], timeout=1500, env={'VERIF_SEED': str(seed)})
    lines = [l for l in out.splitlines() if '\t' in l]
    if rc != 0:
        v.obligation('harness c12 %s ran' % args[0], False, out[-800:])
    return lines

def eval_flags(v):
    """value of the defect switches of Gen/ArgCodec.v, computed inside Coq"""
    d = os.path.join(WORK, 'c12'); os.makedirs(d, exist_ok=True)
    path = os.path.join(d, 'flags.v')
    with open(path, 'w') as f:
        f.write('From TV Require Import Base.I32 Model.Abi Spec.AbiFit Gen.ArgCodec.\n')
        for i, (term, _, _, _) in enumerate(FLAGS):
            f.write('Goal True. let r := eval vm_compute in (%s) in idtac "@@FLAG %d" r. exact I. Qed.\n' % (term, i))
    rc, o = sh(['coqc', '-noglob', '-Q', os.path.join(COQ, 'theories'), 'TV', path], timeout=300, cwd=d)
    vals = {}
    for m in re.finditer(r'@@FLAG (\d+) (true|false)', o):
        vals[int(m.group(1))] = m.group(2) == 'true'
    if rc != 0 or len(vals) != len(FLAGS):
        v.obligation('defect switches of Gen/ArgCodec.v evaluate', False, o[-600:])
    return vals

def main(argv):
    tier, seed, replay = tier_and_seed(argv)
    v = Verdict(PROP, tier, seed)
    proofs_ok, h_ok, unrec = standard_proof_steps(
        v, PROP, ['argcodec'], ['theories/Props/C12.vo'], ['c12'],
        corr_targets=['theories/Corr/C12.vo'])

    # recorded defects: a switch of the generated table that is still "false" is the defect, with its reproduction as input
    if v.corr_ok:
        vals = eval_flags(v)
        for i, (term, cls, what, repro) in enumerate(FLAGS):
            if vals.get(i) is False:
                p = os.path.join(VERIF, 'findings', 'repro', repro) if repro else None
                v.violation(what, {'class': cls, 'flag': term, 'source_file': ('findings/repro/' + repro) if repro else None,
                                   'source_text': open(p).read() if p and os.path.exists(p) else None})
        v.obligation('defect switches of the generated table evaluated (%s)' % ', '.join(
            '%s=%s' % (FLAGS[i][0].split()[0], vals.get(i)) for i in range(len(FLAGS))), len(vals) == len(FLAGS))

    cases, texts, kinds = [], [], []
    oracle_fail = []
    stats = []
    replay_class = None
    if h_ok:
        lines = []
        if replay:
            r = json.load(open(replay))
            replay_class = r.get('class')
            d = os.path.join(WORK, 'c12'); os.makedirs(d, exist_ok=True)
            if r.get('input'):
                p = os.path.join(d, 'replay.txt'); open(p, 'w').write(r['input'] + '\n')
                lines += run_harness(v, ['replay', p], seed)
            if r.get('case'):
                lines.append('%s\t%s\t%s' % (r.get('kind', 'COMP'), r['case'], r.get('input', '')))
        else:
            # corpus first: the seed reproductions and earlier minimised failures, through the replay oracle
            for f in sorted(glob.glob(os.path.join(VERIF, 'corpus', 'C12', '*.txt'))):
                m = re.search(r'^#class=(\S+)', open(f).read(), re.M)
                for l in run_harness(v, ['replay', f], seed):
                    parts = l.split('\t')
                    if parts[0] == 'ORACLE-FAIL':
                        if m and parts[1].startswith('replay:'): parts[1] = m.group(1) + parts[1][len('replay'):]
                        parts[1] += ' (corpus/C12/%s)' % os.path.basename(f)
                        lines.append('\t'.join(parts))
            n_codec = 280 if tier == 'quick' else 3000
            n_intr = 140 if tier == 'quick' else 1200
            lines += run_harness(v, ['repro'], seed) + run_harness(v, ['boundaries'], seed)
            lines += run_harness(v, ['codec', n_codec], seed) + run_harness(v, ['intrinsic', n_intr], seed)
        for l in lines:
            parts = l.split('\t')
            if parts[0] == 'ORACLE-FAIL': oracle_fail.append(parts[1:])
            elif parts[0] == 'STATS': stats.append('\t'.join(parts[1:]))
            elif parts[0] == 'REPLAY': v.notes.append('replay: ' + ' | '.join(parts[1:])[:600])
            elif parts[0] in KINDS:
                kinds.append(parts[0]); cases.append(parts[1]); texts.append(parts[2] if len(parts) > 2 else '')
    hist = {}
    for k in kinds: hist[k] = hist.get(k, 0) + 1

    # (O) implementation-level oracle: one violation per class, with the first input that shows it
    seen = {}
    for f in oracle_fail:
        token = f[0].split(':')[0]
        cls = ORACLE_CLASS.get(token, 'c12-oracle:' + token)
        if token == 'replay' and replay_class: cls = replay_class      # a replayed input keeps the class it was recorded under
        seen.setdefault(cls, []).append(f)
    for cls, fs in seen.items():
        f = fs[0]
        v.violation('implementation-level oracle: ' + f[0], {'class': cls, 'input': f[-1], 'detail': f[1][:1500], 'occurrences': len(fs)})
    unknown_oracle = [c for c in seen if c not in ORACLE_CLASS.values()]

    if v.corr_ok and cases:
        # (X) model vs implementation
        mism, errs = eval_with_retry(PROP, IMPORTS, 'c12case', cases, 250 if tier == 'quick' else 300)
        v.obligation('correspondence: model = implementation on %d cases (vm_compute inside Coq)' % len(cases), not mism and not errs,
                     ('%d mismatches; ' % len(mism)) + '; '.join(errs)[:600] if (mism or errs) else '')
        shown = set()
        for i in mism:
            if cases[i] in shown or len(shown) >= 5: continue
            shown.add(cases[i])
            v.violation('model/implementation disagreement on a %s case' % kinds[i],
                        {'class': 'c12-corr:' + kinds[i], 'kind': kinds[i], 'case': cases[i], 'input': texts[i].split(' >> ')[0],
                         'detail': texts[i][-400:], 'broken': 'correspondence Corr.C12.model_of'},
                        no_failing_input=not unknown_oracle)
        if errs and not mism:
            v.violation('correspondence evaluation failed: %s' % errs[0][:300], {'class': 'c12-corr-eval', 'broken': errs[:2]}, no_failing_input=True)
    if (not proofs_ok or not v.corr_ok) and not v.violations:
        v.violation('proof obligation does not check: %s' % json.dumps(v.coq_error)[:400],
                    {'class': 'c12-proof', 'broken': v.coq_error}, no_failing_input=True)
    elif unrec and not v.violations:
        v.violation('translator no longer recognises the argument codec: %s' % unrec[:3],
                    {'class': 'c12-tie1', 'broken': unrec}, no_failing_input=True)
    elif any(not o[1] for o in v.obligations) and not v.violations:
        bad = [o for o in v.obligations if not o[1]]
        v.violation('obligation failed: %s' % bad[0][0], {'class': 'c12-obligation', 'broken': [list(b) for b in bad]}, no_failing_input=True)

    nontrivial = [c for c in cases if 'IOk' in c]
    v.coverage.update({
        'evaluations': len(cases),
        'distinct_nontrivial': distinct_count(nontrivial),
        'rule': 'codec: seeded random mapfile signatures over S s U u C c b n N E f o t _ - z m p with imm/hex/arg0/bs/len/nulless/mask/furibug '
                '(0..18 parameters, padding anywhere, invalid signatures now and then) x 3 argument lists (width boundaries, registers, wrong '
                'types/arity now and then, strings around block/buffer boundaries) for ANM th12 (registers by mask), MSG th12 (no registers), '
                'ECL timeline th06 (arg0), compiled in-process (COMP: RawInstr.args_blob/param_mask/extra_arg + warnings vs Model encode_args after '
                'check_call); every resulting instruction, and a damaged copy of every second one, decompiled (DECOMP: ins_N argument list + warnings '
                'vs Model decode_call); scripts of consecutive furigana strings; boundaries: every integer width at every boundary value in every '
                'position; intrinsic: statements lowered through into_vec with padding anywhere (PLACE). distinct = distinct case terms; non-trivial '
                '= the implementation produced a value (not an error/panic)',
        'traces_validated_against_impl': len(cases),
        'case_kinds': hist,
        'generator_stats': stats,
        'oracle_failures_by_class': {c: len(fs) for c, fs in seen.items()},
        'samples': [{'kind': k, 'case': c[:700], 'source': t[:300]} for k, c, t in list(zip(kinds, cases, texts))[:1] + list(zip(kinds, cases, texts))[-2:]],
        'exhaustive': False,
    })
    return v.finish(
        level='proof',
        checker_cmd='cd coq && make theories/Corr/C12.vo theories/Props/C12.vo ; coqc work/audit_C12.v (Print Assumptions) ; coqc work/c12/flags.v ; '
                    'harness/target/debug/c12 repro|boundaries|codec|intrinsic ; coqc work/cases_C12/*.v',
        trusted_base=['Shift-JIS as implemented by encoding_rs: two premises of the theorems (decode o encode = id on the measured repertoire; no NUL byte '
                      'unless the string has U+0000), swept against encoding_rs by the C15 check',
                      'modelled, not verified: Model/Abi.v, Model/Intrinsic.v are hand-written restatements of encode_args, decode_args_with_abi, '
                      'raise_raw_ins_args, the call check, from_abi/into_vec, interpreting the generated table Gen/ArgCodec.v'],
        assumptions=['no @arg0/@mask/@blob pseudo-arguments; RegisterEncodingStyle::ByParamMask (EoSD ECL value-based registers are not modelled)',
                     'at most cd_mask_bits (16) parameters; blob shorter than 2^32 bytes',
                     'intrinsics with a sub id (CallEosd, CallReg) are not modelled'])
