"""Shared machinery of the /verif checks: table generation, Coq build + audit, harness build,
correspondence evaluation inside Coq, verdicts, evidence and replay files."""
import os, sys, re, json, time, hashlib, subprocess, shutil, fcntl, glob

VERIF = os.path.dirname(os.path.dirname(os.path.abspath(__file__)))
REPO = os.environ.get('VERIF_REPO', '/repo')
COQ = os.path.join(VERIF, 'coq')
HARNESS = os.path.join(VERIF, 'harness')
WORK = os.path.join(VERIF, 'work')
BIN = os.path.join(HARNESS, 'target', 'debug')
GUARD_CFG = 'truth_verif'

ALLOWED_AXIOMS = {
    # standard-library axioms that Flocq's binary32 development depends on (reals, classical logic)
    'ClassicalDedekindReals.sig_not_dec',
    'ClassicalDedekindReals.sig_forall_dec',
    'FunctionalExtensionality.functional_extensionality_dep',
    'Classical_Prop.classic',
}

TRUSTED_BASE_COMMON = [
    'Coq 8.16.1 kernel (coqc, full .vo build; vm_compute used for table side conditions and correspondence evaluation; no native_compute)',
    'axioms: none declared by this development; Print Assumptions of every property theorem is checked on every run against the allow-list {classic, functional_extensionality_dep, sig_forall_dec, sig_not_dec} (stdlib axioms pulled in by Flocq binary32)',
    'gen/*.py translators (regular-expression extraction of match-arm tables from /repo/src into coq/theories/Gen/*.v)',
    'the Rust harness (verif-harness crate, path dependency on /repo): generators, catch_unwind, serialisation of cases into Coq terms',
    'lib/vlib.py: the driver that builds, audits and compares',
]

def log(*a):
    print(*a, flush=True)

def sh(cmd, timeout=1800, cwd=None, env=None, input=None):
    e = dict(os.environ)
    e.setdefault('CARGO_NET_OFFLINE', 'true')
    e['RUST_BACKTRACE'] = '0'
    e.setdefault('VERIF_REPO', REPO)
    e.setdefault('VERIF_WORK', WORK)
    if env: e.update(env)
    try:
        p = subprocess.run(cmd, shell=isinstance(cmd, str), cwd=cwd, env=e, input=input,
                           stdout=subprocess.PIPE, stderr=subprocess.STDOUT, timeout=timeout, text=True, errors='replace')
        return p.returncode, p.stdout
    except subprocess.TimeoutExpired as ex:
        out = ex.stdout or ''
        if isinstance(out, bytes): out = out.decode('utf-8', 'replace')
        return 124, out + '\n[timeout after %ss]' % timeout

class Lock:
    def __init__(self, name):
        os.makedirs(WORK, exist_ok=True)
        self.path = os.path.join(WORK, name + '.lock')
    def __enter__(self):
        self.f = open(self.path, 'w')
        fcntl.flock(self.f, fcntl.LOCK_EX)
        return self
    def __exit__(self, *a):
        fcntl.flock(self.f, fcntl.LOCK_UN)
        self.f.close()

# ---------------------------------------------------------------------------------------------
# tie 1: generated tables

def gen_tables(names):
    """run gen/<name>.py for each name; returns translator notes"""
    notes = []
    with Lock('gen'):
        for n in names:
            out = os.path.join(COQ, 'theories', 'Gen', gen_registry()[n])
            rc, o = sh([sys.executable, os.path.join(VERIF, 'gen', n + '.py'), REPO, out], timeout=120, cwd=os.path.join(VERIF, 'gen'))
            if rc != 0:
                notes.append('%s: translator failed: %s' % (n, o.strip()[-500:]))
            else:
                notes += [l for l in o.splitlines() if l.strip()]
    return notes

def gen_registry():
    """every gen/<name>.py declares its output with a line `# gen-out: File.v`"""
    reg = {}
    for f in sorted(glob.glob(os.path.join(VERIF, 'gen', '*.py'))):
        m = re.search(r'^# gen-out:\s*(\w+\.v)\s*$', open(f).read(), re.M)
        if m:
            reg[os.path.basename(f)[:-3]] = m.group(1)
    return reg

def ensure_all_gen():
    """every registered Gen file must exist before coqdep runs; (re)generate those that are missing"""
    reg = gen_registry()
    todo = [n for n, out in reg.items() if not os.path.exists(os.path.join(COQ, 'theories', 'Gen', out))]
    return gen_tables(todo) if todo else []

# ---------------------------------------------------------------------------------------------
# Coq build

def coq_makefile():
    """_CoqProject is derived from the directory listing (nobody edits it by hand)"""
    files = sorted(os.path.relpath(f, COQ) for f in glob.glob(os.path.join(COQ, 'theories', '**', '*.v'), recursive=True))
    text = '-Q theories TV\n' + ''.join(f + '\n' for f in files)
    proj = os.path.join(COQ, '_CoqProject')
    mk = os.path.join(COQ, 'Makefile')
    changed = True
    try:
        changed = open(proj).read() != text
    except OSError:
        pass
    if changed:
        open(proj, 'w').write(text)
    if changed or not os.path.exists(mk):
        rc, o = sh('coq_makefile -f _CoqProject -o Makefile', cwd=COQ, timeout=120)
        if rc != 0:
            raise RuntimeError('coq_makefile failed: ' + o)

def coq_build(targets, timeout=1500):
    """make the given .vo targets (paths relative to coq/). Returns (ok, log, first_error)"""
    with Lock('coq'):
        coq_makefile()
        # .Makefile.d (coqdep output) is refreshed by make itself when files change
        rc, o = sh(['make', '-j16'] + targets, cwd=COQ, timeout=timeout)
    err = None
    if rc != 0:
        m = re.search(r'File "([^"]+)", line (\d+), characters [^\n]*\n((?:.*\n){0,12})', o)
        if m:
            err = {'file': m.group(1), 'line': int(m.group(2)), 'message': m.group(3).strip()[:1500]}
        else:
            err = {'file': '?', 'line': 0, 'message': o[-1500:]}
    return rc == 0, o, err

FORBIDDEN = re.compile(r'\b(Admitted|admit|Axiom|Axioms|Parameter|Parameters|Conjecture|Conjectures|Admit Obligations)\b|Unset\s+Guard|bypass_check|Unset\s+Positivity|Unset\s+Universe|type-in-type|impredicative-set')
SECTION_ONLY = re.compile(r'^\s*(Variable|Variables|Hypothesis|Hypotheses|Context)\b')

def strip_coq_comments(s):
    out = []; depth = 0; i = 0
    while i < len(s):
        if s.startswith('(*', i): depth += 1; i += 2
        elif s.startswith('*)', i) and depth > 0: depth -= 1; i += 2
        else:
            if depth == 0: out.append(s[i])
            elif s[i] == '\n': out.append('\n')
            i += 1
    return ''.join(out)

def audit_sources():
    """grep every .v file of the development for forbidden vernacular; Variable/Hypothesis only inside sections"""
    problems = []
    files = glob.glob(os.path.join(COQ, 'theories', '**', '*.v'), recursive=True) + [os.path.join(COQ, '_CoqProject')]
    for f in files:
        txt = open(f).read()
        if f.endswith('.v'):
            txt = strip_coq_comments(txt)
        depth = 0
        for ln, line in enumerate(txt.splitlines(), 1):
            if re.match(r'^\s*Section\b', line): depth += 1
            if re.match(r'^\s*End\b', line) and depth > 0: depth -= 1
            m = FORBIDDEN.search(line)
            if m:
                problems.append('%s:%d: forbidden "%s"' % (os.path.relpath(f, VERIF), ln, m.group(0)))
            if SECTION_ONLY.match(line) and depth == 0 and not re.match(r'^\s*Context\b', line):
                problems.append('%s:%d: %s outside a section' % (os.path.relpath(f, VERIF), ln, line.strip()[:60]))
    return problems

def props_theorems(prop):
    path = os.path.join(COQ, 'theories', 'Props', prop + '.v')
    if not os.path.exists(path):
        return []
    txt = strip_coq_comments(open(path).read())
    return re.findall(r'^\s*(?:Theorem|Lemma|Corollary|Example)\s+(\w+)', txt, re.M)

def audit_assumptions(prop):
    """compile a scratch file that prints the assumptions of every theorem of Props/<prop>.v"""
    names = props_theorems(prop)
    if not names:
        return [], {}, True
    os.makedirs(WORK, exist_ok=True)
    path = os.path.join(WORK, 'audit_%s.v' % prop)
    with open(path, 'w') as f:
        f.write('From TV Require Import Props.%s.\n' % prop)
        for n in names:
            f.write('Goal True. idtac "@@BEGIN %s". exact I. Qed.\nPrint Assumptions %s.\n' % (n, n))
        f.write('Goal True. idtac "@@END". exact I. Qed.\n')
    rc, o = sh(['coqc', '-noglob', '-Q', os.path.join(COQ, 'theories'), 'TV', path], timeout=600, cwd=WORK)
    res = {}
    if rc != 0:
        return names, {n: ['<audit failed: %s>' % o.strip()[-300:]] for n in names}, False
    chunks = re.split(r'@@BEGIN (\w+)', o)
    ok = True
    for i in range(1, len(chunks), 2):
        name, body = chunks[i], chunks[i + 1].split('@@END')[0]
        if 'Closed under the global context' in body:
            res[name] = []
        else:
            ax = [a for a in re.findall(r'^([A-Za-z_][\w\.]*)\s*:', body, re.M) if a != 'Axioms']
            # continuation lines start with whitespace; axiom names start at column 0
            res[name] = ax
            for a in ax:
                if a not in ALLOWED_AXIOMS: ok = False
    for n in names:
        if n not in res:
            res[n] = ['<no output>']; ok = False
    return names, res, ok

# ---------------------------------------------------------------------------------------------
# harness build

def cargo_build(bins, release=False, timeout=1500):
    lockf = os.path.join(HARNESS, 'Cargo.lock')
    with Lock('cargo'):
        try:
            src = os.path.join(REPO, 'Cargo.lock')
            if os.path.exists(src) and (not os.path.exists(lockf)):
                shutil.copy(src, lockf)
        except OSError:
            pass
        cmd = ['cargo', 'build', '--offline'] + (['--release'] if release else [])
        for b in bins: cmd += ['--bin', b]
        rc, o = sh(cmd, cwd=HARNESS, timeout=timeout)
    return rc == 0, o

def harness_bin(name, release=False):
    return os.path.join(HARNESS, 'target', 'release' if release else 'debug', name)

# ---------------------------------------------------------------------------------------------
# tie 2: evaluate the model on cases inside Coq

def coq_eval_cases(prop, corr_module, case_type, cases, check_fn='mismatches', shard=400, imports='', tag=''):
    """cases: list of Coq terms of type case_type. Evaluates `check_fn 0 [cases]` by vm_compute in
    shards over up to 16 parallel coqc processes. Returns (list of mismatching global indices, errors)"""
    os.makedirs(WORK, exist_ok=True)
    d = os.path.join(WORK, 'cases_%s%s' % (prop, tag))
    shutil.rmtree(d, ignore_errors=True)
    os.makedirs(d)
    shards = [cases[i:i + shard] for i in range(0, len(cases), shard)]
    procs = []
    results = [None] * len(shards)
    errors = []
    def launch(k, limit=900):
        path = os.path.join(d, 's%d.v' % k)
        with open(path, 'w') as f:
            f.write('From TV Require Import Base.I32 %s.\n%s\nOpen Scope Z_scope.\n' % (corr_module, imports))
            f.write('Definition cases : list %s := [\n' % case_type)
            f.write(';\n'.join(shards[k]))
            f.write('\n].\n')
            f.write('Goal True. let r := eval vm_compute in (%s 0%%N cases) in idtac "@@RESULT" r. exact I. Qed.\n' % check_fn)
        return subprocess.Popen(['timeout', str(limit), 'coqc', '-noglob', '-Q', os.path.join(COQ, 'theories'), 'TV', path],
                                cwd=d, stdout=subprocess.PIPE, stderr=subprocess.STDOUT, text=True)
    pending = list(range(len(shards)))
    running = {}
    retried = set()
    while pending or running:
        while pending and len(running) < 16:
            k = pending.pop(0)
            running[k] = launch(k)
        for k, p in list(running.items()):
            if p.poll() is not None:
                out = p.stdout.read()
                del running[k]
                m = re.search(r'@@RESULT\s*(.*)', out, re.S)
                if p.returncode != 0 or not m:
                    if p.returncode == 124 and k not in retried:
                        # the time limit expired (loaded machine): not a verdict -- run the shard again, alone in its
                        # slot, with a four times longer limit, before reporting anything
                        retried.add(k)
                        running[k] = launch(k, 3600)
                        continue
                    errors.append('shard %d: coqc failed: %s' % (k, out.strip()[-600:]))
                    results[k] = []
                else:
                    body = m.group(1)
                    idx = [int(x) for x in re.findall(r'(\d+)%N', body)]
                    results[k] = idx
        time.sleep(0.05)
    mism = []
    for k, r in enumerate(results):
        for i in (r or []):
            mism.append(k * shard + i)
    return mism, errors

# ---------------------------------------------------------------------------------------------
# verdicts

class Verdict:
    def __init__(self, prop, tier, seed):
        self.prop = prop; self.tier = tier; self.seed = seed
        self.t0 = time.time()
        self.violations = []      # (replay_path, suffix)
        self.known = []
        self.obligations = []     # (name, discharged: bool, detail)
        self.notes = []
        self.coverage = {}
        self.known_findings = load_known_findings().get(prop, [])

    def obligation(self, name, ok, detail=''):
        self.obligations.append((name, bool(ok), detail))

    def violation(self, what, replay, no_failing_input=False):
        """replay: dict describing the failing input (or the broken obligation)."""
        # known findings are matched on the 'class' key of the replay
        cls = replay.get('class')
        for kf in self.known_findings:
            if kf.get('status', 'open') == 'open' and cls and kf.get('class') == cls:
                if kf['class'] not in [k['class'] for k in self.known]:
                    self.known.append(kf)
                return 'known'
        d = os.path.join(VERIF, 'replays', self.prop)
        os.makedirs(d, exist_ok=True)
        replay = dict(replay)
        replay.update({'property': self.prop, 'tier': self.tier, 'seed': self.seed, 'what': what,
                       'no_failing_input_found': bool(no_failing_input)})
        blob = json.dumps(replay, indent=1, sort_keys=True)
        h = hashlib.sha1(blob.encode()).hexdigest()[:12]
        path = os.path.join(d, h + '.json')
        open(path, 'w').write(blob + '\n')
        self.violations.append((os.path.relpath(path, VERIF), no_failing_input, what))
        return 'new'

    def is_known(self, cls):
        return any(kf.get('status', 'open') == 'open' and kf.get('class') == cls for kf in self.known_findings)

    def finish(self, level='proof', checker_cmd='', trusted_base=None, assumptions=None, extra=None):
        wall = time.time() - self.t0
        n_ob = len(self.obligations)
        n_ok = sum(1 for o in self.obligations if o[1])
        cov = dict(self.coverage)
        cov.setdefault('evaluations', 0)
        cov.setdefault('distinct_nontrivial', 0)
        cov.update({
            'obligations': n_ob, 'discharged': n_ok,
            'obligation_list': [{'name': n, 'discharged': ok, 'detail': d} for n, ok, d in self.obligations],
            'checker_cmd': checker_cmd,
            'trusted_base': (trusted_base or []) + TRUSTED_BASE_COMMON,
        })
        if extra: cov.update(extra)
        ev = {
            'property_id': self.prop, 'tier': self.tier, 'seed': self.seed, 'level': level,
            'coverage': cov, 'assumptions': assumptions or [], 'wall_s': round(wall, 2),
            'violations': len(self.violations),
            'known_findings_reported': [k['class'] for k in self.known],
            'notes': self.notes,
        }
        os.makedirs(os.path.join(VERIF, 'evidence'), exist_ok=True)
        with open(os.path.join(VERIF, 'evidence', self.prop + '.json'), 'w') as f:
            json.dump(ev, f, indent=1)
            f.write('\n')
        for k in self.known:
            log('KNOWN-FINDING: property=%s %s' % (self.prop, k.get('what', k.get('class'))))
        for path, nf, what in self.violations:
            log('VIOLATION property=%s replay=%s%s' % (self.prop, path, ' no-failing-input-found' if nf else ''))
        log('[%s] tier=%s obligations %d/%d, evaluations=%s, violations=%d, known=%d, %.1fs' % (
            self.prop, self.tier, n_ok, n_ob, cov.get('evaluations'), len(self.violations), len(self.known), wall))
        return 1 if self.violations else 0

def load_known_findings():
    """known_findings.json plus per-property fragments known_findings.d/*.json (same format)"""
    out = {}
    files = [os.path.join(VERIF, 'known_findings.json')] + sorted(glob.glob(os.path.join(VERIF, 'known_findings.d', '*.json')))
    for p in files:
        try:
            data = json.load(open(p))
        except (OSError, ValueError):
            continue
        for e in data.get('findings', []):
            out.setdefault(e['property'], []).append(e)
    return out

def standard_proof_steps(v, prop, gens, vo_targets, bins, corr_targets=None):
    """Steps 1-3 of the verdict protocol. vo_targets: the property theorems (Props/Cxx.vo);
    corr_targets: model/spec/correspondence files, built separately so that the correspondence and the
    failing-input search still run when a proof obligation breaks.
    Returns (proofs_ok, harness_ok, unrecognised_table_rows); sets v.corr_ok, v.coq_error."""
    notes = ensure_all_gen()
    notes_g = gen_tables(gens)
    for n in notes_g: v.notes.append('translator: ' + n)
    unrec = [n for n in notes_g if 'unrecognised' in n or 'not found' in n or 'failed' in n or 'no arm' in n]
    v.obligation('tie1: translators recognise every table row (%s)' % ','.join(gens), not unrec, '; '.join(unrec)[:1000])
    v.corr_ok = True
    v.coq_error = None
    if corr_targets:
        cok, cout, cerr = coq_build(corr_targets)
        v.corr_ok = cok
        if not cok:
            v.coq_error = cerr
            v.obligation('coq build of the model/correspondence files %s' % ' '.join(corr_targets), False, json.dumps(cerr)[:1500])
    ok, out, err = coq_build(vo_targets)
    if not ok and v.coq_error is None: v.coq_error = err
    names = []
    if ok:
        names, ass, aok = audit_assumptions(prop)
        for n in names:
            bad = [a for a in ass[n] if a not in ALLOWED_AXIOMS]
            v.obligation('theorem %s (kernel-checked; assumptions: %s)' % (n, ', '.join(ass[n]) or 'closed under the global context'), not bad,
                         'disallowed assumptions: %s' % bad if bad else '')
    else:
        v.obligation('coq build of %s' % ' '.join(vo_targets), False, json.dumps(err)[:1500])
    src = audit_sources()
    v.obligation('source audit: no Admitted/admit/Axiom/Parameter/Conjecture/unguarded Variable/kernel-check switches', not src, '; '.join(src)[:1000])
    hok, hout = cargo_build(bins) if bins else (True, '')
    if not hok:
        v.obligation('harness build against /repo working tree', False, hout[-1500:])
    v.harness_log = hout
    return ok, hok, unrec

def tier_and_seed(argv):
    tier = os.environ.get('VERIF_TIER', 'quick')
    if '--tier' in argv: tier = argv[argv.index('--tier') + 1]
    try:
        seed = int(os.environ.get('VERIF_SEED', '1'))
    except ValueError:
        seed = 1
    replay = argv[argv.index('--replay') + 1] if '--replay' in argv else None
    return tier, seed, replay

def distinct_count(lines):
    return len(set(hashlib.sha1(l.encode()).digest() for l in lines))
