(* Base/I32.v -- 32-bit two's complement arithmetic over Z. *)
From Coq Require Export ZArith List Lia Bool.
Export ListNotations.
Open Scope Z_scope.

Ltac Zify.zify_post_hook ::= Z.div_mod_to_equations.

(* Outcomes of model functions: a Rust panic is an explicit outcome, never a default value. *)
Inductive outcome (A : Type) : Type :=
| Ok (a : A)
| Err (tag : nat)        (* a reported diagnostic (class tag) *)
| Panic (tag : nat)      (* Rust panic!/expect/assert!/overflow/index failure *)
| OutOfFuel.
Arguments Ok {A} a.
Arguments Err {A} tag.
Arguments Panic {A} tag.
Arguments OutOfFuel {A}.

Definition obind {A B} (x : outcome A) (f : A -> outcome B) : outcome B :=
  match x with Ok a => f a | Err t => Err t | Panic t => Panic t | OutOfFuel => OutOfFuel end.
Notation "'do' x <- m ; k" := (obind m (fun x => k)) (at level 200, x ident, m at level 100, k at level 200).

Definition is_panic {A} (x : outcome A) : bool := match x with Panic _ => true | _ => false end.

(* panic / error tags *)
Definition P_DIV0 : nat := 1.       (* attempt to divide by zero *)
Definition P_TYPE : nat := 2.       (* "(bug!) type_check should fail" *)
Definition P_OVERFLOW : nat := 3.   (* arithmetic overflow in debug build *)
Definition P_INDEX : nat := 4.      (* index out of bounds *)
Definition P_EXPECT : nat := 5.     (* expect()/unwrap() on None/Err *)
Definition P_UNREC : nat := 6.      (* the translator did not recognise the source text *)

Definition two31 : Z := 2147483648.
Definition two32 : Z := 4294967296.
Definition I32_MIN : Z := -2147483648.
Definition I32_MAX : Z := 2147483647.

Definition in_i32 (z : Z) : Prop := I32_MIN <= z <= I32_MAX.
Definition in_i32b (z : Z) : bool := (I32_MIN <=? z) && (z <=? I32_MAX).
Definition in_u32 (z : Z) : Prop := 0 <= z < two32.

(* the representative of z modulo 2^32 in [-2^31, 2^31) : Rust `as i32` / wrapping_* *)
Definition wrap32 (z : Z) : Z := (z + two31) mod two32 - two31.
(* the representative in [0, 2^32) : Rust `as u32` *)
Definition u32 (z : Z) : Z := z mod two32.

Lemma in_i32b_spec z : in_i32b z = true <-> in_i32 z.
Proof. unfold in_i32b, in_i32, I32_MIN, I32_MAX. rewrite andb_true_iff, !Z.leb_le. tauto. Qed.

Lemma wrap32_range z : in_i32 (wrap32 z).
Proof. unfold in_i32, wrap32, I32_MIN, I32_MAX, two31, two32. lia. Qed.

Lemma wrap32_id z : in_i32 z -> wrap32 z = z.
Proof. unfold in_i32, wrap32, I32_MIN, I32_MAX, two31, two32. intros. lia. Qed.

Lemma wrap32_cong z : (wrap32 z) mod two32 = z mod two32.
Proof. unfold wrap32, two31, two32. lia. Qed.

Lemma wrap32_eqm a b : a mod two32 = b mod two32 -> wrap32 a = wrap32 b.
Proof. unfold wrap32, two31, two32. lia. Qed.

Lemma wrap32_idem z : wrap32 (wrap32 z) = wrap32 z.
Proof. apply wrap32_id, wrap32_range. Qed.

Lemma wrap32_add_l a b : wrap32 (wrap32 a + b) = wrap32 (a + b).
Proof. apply wrap32_eqm. rewrite Z.add_mod, wrap32_cong, <- Z.add_mod; unfold two32; lia. Qed.

Lemma wrap32_add_r a b : wrap32 (a + wrap32 b) = wrap32 (a + b).
Proof. rewrite Z.add_comm, wrap32_add_l. f_equal. lia. Qed.

Lemma u32_range z : in_u32 (u32 z).
Proof. unfold in_u32, u32, two32. lia. Qed.

Lemma u32_wrap32 z : u32 (wrap32 z) = u32 z.
Proof. apply wrap32_cong. Qed.

Lemma wrap32_u32 z : wrap32 (u32 z) = wrap32 z.
Proof. apply wrap32_eqm. unfold u32. apply Z.mod_mod. unfold two32. lia. Qed.

Lemma wrap32_u32_id z : in_i32 z -> wrap32 (u32 z) = z.
Proof. intros. rewrite wrap32_u32. now apply wrap32_id. Qed.

(* generic n-bit wrap: signed and unsigned *)
Definition uwrap (bits : Z) (z : Z) : Z := z mod 2 ^ bits.
Definition swrap (bits : Z) (z : Z) : Z := (z + 2 ^ (bits - 1)) mod 2 ^ bits - 2 ^ (bits - 1).

Lemma swrap32 z : swrap 32 z = wrap32 z.
Proof. reflexivity. Qed.
