(* Base/F32.v -- IEEE-754 binary32 through Flocq; float values are carried as their bit
   patterns (Z in [0,2^32)), every NaN being identified with the canonical quiet NaN. *)
From TV Require Import Base.I32.
From Flocq Require Import IEEE754.BinarySingleNaN IEEE754.Binary IEEE754.Bits.
Open Scope Z_scope.

Definition CANON_NAN : Z := 2143289344. (* 0x7fc00000 *)

Definition fb (z : Z) : binary32 := b32_of_bits (z mod two32).
Definition bf (x : binary32) : Z :=
  match x with B754_nan _ _ _ _ _ => CANON_NAN | _ => bits_of_b32 x end.

Definition fcanon (z : Z) : Z := bf (fb z).

Definition fadd (a b : Z) : Z := bf (b32_plus mode_NE (fb a) (fb b)).
Definition fsub (a b : Z) : Z := bf (b32_minus mode_NE (fb a) (fb b)).
Definition fmul (a b : Z) : Z := bf (b32_mult mode_NE (fb a) (fb b)).
Definition fdiv (a b : Z) : Z := bf (b32_div mode_NE (fb a) (fb b)).
Definition fsqrt (a : Z) : Z := bf (b32_sqrt mode_NE (fb a)).
Definition fneg (a : Z) : Z := bf (b32_opp (fb a)).
Definition fcmp (a b : Z) : option comparison := b32_compare (fb a) (fb b).

Definition fis_nan (a : Z) : bool := match fb a with B754_nan _ _ _ _ _ => true | _ => false end.

(* Rust `x as i32` on f32: truncate toward zero, saturate, NaN -> 0 *)
Definition f2i (a : Z) : Z :=
  match fb a with
  | B754_zero _ _ _ => 0
  | B754_nan _ _ _ _ _ => 0
  | B754_infinity _ _ s => if s then I32_MIN else I32_MAX
  | B754_finite _ _ s m e _ =>
      let mag := if 0 <=? e then Zpos m * 2 ^ e else Zpos m / 2 ^ (- e) in
      let v := if s then - mag else mag in
      if v <? I32_MIN then I32_MIN else if I32_MAX <? v then I32_MAX else v
  end.

(* Rust `i as f32` on i32: round to nearest even *)
Definition i2f (i : Z) : Z :=
  bf (binary_normalize 24 128 eq_refl eq_refl mode_NE i 0 false).

(* C fmod / Rust `%` on f32: exact remainder with the sign of the dividend. *)
Definition frem (a b : Z) : Z :=
  match fb a, fb b with
  | B754_nan _ _ _ _ _, _ | _, B754_nan _ _ _ _ _ => CANON_NAN
  | B754_infinity _ _ _, _ => CANON_NAN
  | _, B754_zero _ _ _ => CANON_NAN
  | B754_zero _ _ _, _ => fcanon a
  | B754_finite _ _ _ _ _ _, B754_infinity _ _ _ => fcanon a
  | B754_finite _ _ sx mx ex _, B754_finite _ _ _ my ey _ =>
      let '(r, e) :=
        if ey <=? ex
        then (Z.rem (Zpos mx * 2 ^ (ex - ey)) (Zpos my), ey)
        else (Z.rem (Zpos mx) (Zpos my * 2 ^ (ey - ex)), ex) in
      let r := if sx then - r else r in
      bf (binary_normalize 24 128 eq_refl eq_refl mode_NE r e sx)
  end.

Definition F_ONE : Z := 1065353216.      (* 1.0f *)
Definition F_NEG_ONE : Z := 3212836864.  (* -1.0f *)
