(* Props/C19.v -- property C19: output is a deterministic function of the inputs (PARTIAL).
   Only statements; every proof is [exact lemma].

   What is proved: truth is single-threaded, so a second launch on the same input differs from the
   first only in the order in which randomly seeded std HashMaps/HashSets hand out their entries.
   (1) every consumer shape that the audited classification calls order-safe takes equal values on
       permutations of the entries (for all entry lists with distinct keys, all per-entry functions);
   (2) the shapes it calls unsafe do not (so [order_safe] is exact);
   (3) every iteration site that gen/hashiter.py finds in the current source is classified and order-safe
       (vm_compute over Gen.HashIter.sites; a new or edited site is Unclassified and breaks it).
   What is not proved (see checks/c19.meta.json): that the scanner finds every site, that the audited
   classification describes the code (pinned by digests, exercised by repeated launches), hash seeding,
   the OS, dependencies.  When (3) breaks, the check evaluates its decidable form
   ([C19_full_iff_no_unsafe_site]), lists the offending sites and searches for two differing launches. *)
From Coq Require Import String List ZArith Bool Permutation.
From TV Require Import Model.Order Model.OrderSites Proofs.OrderPerm Proofs.OrderSitesOk Gen.HashIter.
Import ListNotations.
Open Scope Z_scope.

(* (1) *)
Theorem C19_consumer_perm_invariant : forall p sh l l',
  order_safe sh = true -> step_commutes p ->
  NoDup (map fst l) -> NoDup (map (span p) l) -> Permutation l l' ->
  obs_eq (consumer p sh l) (consumer p sh l').
Proof. exact consumer_perm_invariant. Qed.

(* the general lemmas behind (1), for any element type *)
Theorem C19_sort_perm_invariant : forall (A : Type) (leb : A -> A -> bool),
  (forall a b, leb a b = true \/ leb b a = true) ->
  (forall a b c, leb a b = true -> leb b c = true -> leb a c = true) ->
  forall l l', antisym_on leb l -> Permutation l l' -> isort leb l = isort leb l'.
Proof. exact @sort_perm_invariant. Qed.

Theorem C19_collect_ordered_perm_invariant : forall (A : Type) (leb : A -> A -> bool),
  (forall a b, leb a b = true \/ leb b a = true) ->
  (forall a b c, leb a b = true -> leb b c = true -> leb a c = true) ->
  forall l l', antisym_on leb l -> Permutation l l' -> collect_ordered leb l = collect_ordered leb l'.
Proof. exact @collect_ordered_perm_invariant. Qed.

Theorem C19_comm_fold_perm_invariant : forall (A B : Type) (f : B -> A -> B),
  (forall a x y, f (f a x) y = f (f a y) x) ->
  forall l l', Permutation l l' -> forall a, fold_left f l a = fold_left f l' a.
Proof. exact @comm_fold_perm_invariant. Qed.

Theorem C19_min_by_perm_invariant : forall (A : Type) (leb : A -> A -> bool),
  (forall a b, leb a b = true \/ leb b a = true) ->
  (forall a b c, leb a b = true -> leb b c = true -> leb a c = true) ->
  forall l l', antisym_on leb l -> Permutation l l' -> min_by leb l = min_by leb l'.
Proof. exact @min_by_perm_invariant. Qed.

Theorem C19_lookup_perm_invariant : forall l l', NoDup (map fst l) -> Permutation l l' ->
  forall k, assoc k l = assoc k l'.
Proof. exact assoc_perm_invariant. Qed.

(* (2) *)
Theorem C19_emit_in_iteration_order_refuted : exists p l l',
  step_commutes p /\ NoDup (map fst l) /\ NoDup (map (span p) l) /\ Permutation l l'
  /\ ~ obs_eq (consumer p EmitInIterationOrder l) (consumer p EmitInIterationOrder l').
Proof. exact (unsafe_shapes_refuted EmitInIterationOrder eq_refl). Qed.

Theorem C19_first_error_wins_refuted : exists p l l',
  step_commutes p /\ NoDup (map fst l) /\ NoDup (map (span p) l) /\ Permutation l l'
  /\ ~ obs_eq (consumer p FirstErrorWins l) (consumer p FirstErrorWins l').
Proof. exact (unsafe_shapes_refuted FirstErrorWins eq_refl). Qed.

Theorem C19_min_by_key_first_wins_refuted : exists p l l',
  step_commutes p /\ NoDup (map fst l) /\ NoDup (map (span p) l) /\ Permutation l l'
  /\ ~ obs_eq (consumer p MinByKeyFirstWins l) (consumer p MinByKeyFirstWins l').
Proof. exact (unsafe_shapes_refuted MinByKeyFirstWins eq_refl). Qed.

Theorem C19_order_safe_is_exact : forall sh, order_safe sh = false ->
  exists p l l', step_commutes p /\ NoDup (map fst l) /\ NoDup (map (span p) l) /\ Permutation l l'
                 /\ ~ obs_eq (consumer p sh l) (consumer p sh l').
Proof. exact unsafe_shapes_refuted. Qed.

(* (3) the side condition over the sites of the current source: every site is classified and order-safe.
       (On the pinned tree five sites were not -- see known_findings.d/C19.json; they are repaired.  Should a site be
       recorded as an open finding again, its tag goes into Model/OrderSites.v [open_defect_tags], this theorem becomes
       the Definition C19_full and [C19_all_sites_classified_guarded] carries the claim.) *)
Definition C19_full : Prop := all_sites_classified_full.

Theorem C19_all_sites_classified : forall s, In s sites ->
  classification s <> Unclassified /\ order_safe (classification s) = true.
Proof. exact all_sites_classified. Qed.

Theorem C19_sites_deterministic : forall s, In s sites ->
  forall p l l', step_commutes p -> NoDup (map fst l) -> NoDup (map (span p) l) -> Permutation l l' ->
  obs_eq (consumer p (classification s) l) (consumer p (classification s) l').
Proof. exact sites_deterministic. Qed.

(* the same under the guard that excludes recorded open findings (none at present) *)
Theorem C19_all_sites_classified_guarded : forall s, In s sites ->
  classification s <> Unclassified /\ (order_safe (classification s) = true \/ In (tag_of s) open_defect_tags).
Proof. exact all_sites_classified_partial. Qed.

(* the decidable form that the check evaluates to list offending sites when the side condition breaks *)
Theorem C19_full_iff_no_unsafe_site : C19_full <-> unsafe_sites sites = [].
Proof. exact full_iff_no_unsafe_site. Qed.

(* non-vacuity: the hypotheses are satisfiable by non-trivial instances, and the consumers compute *)
(* (ex_params, ex_l, ex_l' are defined in Proofs/OrderSitesOk.v: four entries, keys 3 9 7 1, and a rotation of them) *)
Example C19_ex_hyps : step_commutes ex_params /\ NoDup (map fst ex_l) /\ NoDup (map (span ex_params) ex_l)
                      /\ Permutation ex_l ex_l'.
Proof. exact ex_hyps. Qed.

Example C19_ex_sorted : consumer ex_params CollectThenSort ex_l = OList [19; 37; 74; 91]
                        /\ consumer ex_params CollectThenSort ex_l' = OList [19; 37; 74; 91]
                        /\ consumer ex_params CollectOrdered ex_l' = OList [19; 37; 74; 91]
                        /\ consumer ex_params SortedByRenderer ex_l' = OList [91; 74; 37; 19]
                        /\ consumer ex_params AnyAll ex_l' = OBool true
                        /\ consumer ex_params CommFold ex_l' = ONum 9
                        /\ consumer ex_params MinByTotalKey ex_l = OOpt (Some (3, 7))
                        /\ consumer ex_params MinByTotalKey ex_l' = OOpt (Some (3, 7))
                        /\ consumer ex_params MinByKeyFirstWins ex_l = OOpt (Some (3, 7))
                        /\ consumer ex_params MinByKeyFirstWins ex_l' = OOpt (Some (7, 4))
                        /\ consumer ex_params EmitInIterationOrder ex_l = OList [37; 91; 74; 19]
                        /\ consumer ex_params EmitInIterationOrder ex_l' = OList [19; 74; 37; 91].
Proof. exact ex_values. Qed.

(* the inventory is not empty and the audited table really classifies hash iterations (not only name clashes) *)
Example C19_ex_inventory : (5 <=? Z.of_nat (length sites)) = true
  /\ existsb (fun s => shape_eqb (classification s) CollectHash) sites = true
  /\ existsb (fun s => shape_eqb (classification s) AnyAll) sites = true
  /\ existsb (fun s => shape_eqb (classification s) CollectThenSort) sites = true
  /\ existsb (fun s => shape_eqb (classification s) MinByTotalKey) sites = true.
Proof. exact ex_inventory. Qed.

Print Assumptions C19_consumer_perm_invariant.
Print Assumptions C19_order_safe_is_exact.
Print Assumptions C19_all_sites_classified.
Print Assumptions C19_sites_deterministic.
Print Assumptions C19_full_iff_no_unsafe_site.
