(* Props/C13.v -- property C13: every instruction gets exactly the time its labels say.
   Only statements; every proof is [exact lemma]. *)
From TV Require Import Base.I32 Model.Time Proofs.Time.
Open Scope Z_scope.

(* (0) the rules as written in the source today (read by gen/timelabels.py) have the shape the model
       hard-codes: `N:` assigns, `+N:` is wrapping_add, a root block starts at 0, a statement applies its
       own label before its time is recorded, the emitter starts at 0 and tries "cross zero", "decrease
       -> absolute", "increase -> relative" in this order, the "r"-label and `@ t` conditions *)
Theorem C13_source_shape_is_modelled : source_shape_ok = true.
Proof. exact source_shape_is_modelled. Qed.

(* (1) compile direction.  The time recorded for every statement of a program (arbitrarily nested
       blocks, loops, conditional chains, inner functions) is the label arithmetic of the rules
       over the pre-order listing of the program: start at 0, `N:` sets, `+N:` adds (mod 2^32),
       no label inherits; a label at the start or end of a block acts where it is written. *)
Theorem C13_time_pass_is_label_arithmetic : forall l r,
  time_pass l = Ok r -> r = scan 0 [] (flatten_stmts l).
Proof. exact time_pass_scan. Qed.

(* [scan] without inner functions is the plain running sum *)
Theorem C13_scan_is_running_sum : forall l cur stk,
  (forall x, In x l -> x <> FPush /\ x <> FPop) -> scan cur stk l = run_sum cur l.
Proof. exact scan_run_sum. Qed.

(* (2) flattening blocks (desugar_blocks) before the pass that lowering runs does not change the
       time of any instruction or label statement, nor whether the pass reports an error *)
Theorem C13_desugar_preserves_times : forall l,
  match time_pass l, time_pass (ds_stmts l) with
  | Ok r, Ok r' => filter not_aux r' = filter not_aux r
  | Err _, Err _ => True
  | _, _ => False
  end.
Proof. exact desugar_preserves_times. Qed.

(* (3) decompile direction, for ALL sequences of stored i32 times: if every offset label has the
       time of the previous or of the current instruction, the emitter does not panic, and the time
       pass over the emitted statements gives every instruction its stored time and every label its
       time_label (negative times, decreases, the `0:` at a negative -> non-negative crossing) *)
Theorem C13_emit_then_pass : forall l, times_in_i32 l -> placeable 0 l ->
  exists es r, decompile_labels l = Ok es /\ time_pass (to_stmts es) = Ok r /\
               filter not_time r = expected_recs l.
Proof. exact emit_then_pass. Qed.

(* (4) for every script and every jump table the generated labels are placeable, so
       "impossible time for label" is unreachable and the stored times are reproduced *)
Theorem C13_label_at_offset_placeable : forall p n args,
  snd (label_at_offset p n args) = p \/ snd (label_at_offset p n args) = n.
Proof. exact label_at_offset_placeable. Qed.

Theorem C13_decompile_script_times : forall times jumps, Forall in_i32 times ->
  exists es r, decompile_labels (script_einstrs times jumps) = Ok es /\
    time_pass (to_stmts es) = Ok r /\
    filter not_time r = expected_recs (script_einstrs times jumps) /\
    instr_times r = times.
Proof. exact decompile_script_times. Qed.

(* (5) a jump's time argument survives decompile + recompile: `@ t` is dropped exactly when t is
       the label's time, and a missing `@ t` compiles to timeof(label) *)
Theorem C13_jump_time_roundtrip : forall arg label_time,
  lower_goto_time (raise_goto_time arg label_time) label_time = arg.
Proof. exact jump_time_roundtrip. Qed.

(* (6) label names: two different jump targets never get the same label name (the defect found by this
       check on the original tree -- two labels `label_0r` -- is fixed by commit 3f82254) *)
Theorem C13_labels_distinct : forall times jumps, labels_distinct times jumps.
Proof. exact labels_distinct_all. Qed.

(* non-vacuity: the example of doc/syntax.md (`loop { +4: foo(); +6: }` after `+5:`), a wrapping
   delta, and a decompilation with a negative -> positive crossing and an "r" label *)
Example C13_ex_doc :
  compile_items (SCons (SLeaf (TInstr 1)) (SCons (SRel 5)
     (SCons (SNest KLoop (BCons (SCons (SRel 4) (SCons (SLeaf (TInstr 2)) (SCons (SRel 6) SNil))) BNil)) SNil)))
  = Ok [IMark 1 0; IMark 2 9; IAux 15].
Proof. vm_compute. reflexivity. Qed.

Example C13_ex_wrap :
  time_pass (SCons (SRel 1879048192) (SCons (SRel 1879048192) (SCons (SLeaf (TInstr 0)) SNil)))
  = Ok [(TTime, 1879048192); (TTime, -536870912); (TInstr 0, -536870912)].
Proof. vm_compute. reflexivity. Qed.

Example C13_ex_decompile :
  decompile_labels (script_einstrs [-1; 6; 6; 3] [(1%nat, Some (-1)); (3%nat, None)])
  = Ok [EAbs (-1); EInstr 0; ELabel 1; EAbs 0; ERel 6; EInstr 1; EInstr 2; EAbs 3; ELabel 6; EInstr 3].
Proof. vm_compute. reflexivity. Qed.

Example C13_ex_hyp : Forall in_i32 [-1; 6; 6; 3].
Proof. repeat constructor; unfold in_i32, I32_MIN, I32_MAX; lia. Qed.
