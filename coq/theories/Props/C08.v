(* Props/C08.v -- property C08: printed scripts parse back to the same script at every line width.
   Only statements; every proof is [exact lemma]. *)
From TV Require Import Base.I32 Gen.FmtTables Model.Fmt Model.FmtLex Model.FmtParse Spec.Fmt
  Proofs.FmtLits Proofs.FmtLexP Proofs.FmtLitRT Proofs.FmtWidth Proofs.FmtExprLex Proofs.FmtTables Proofs.FmtFold Proofs.FmtExprParse Proofs.FmtRoundtrip.
Open Scope Z_scope.

(* (1) integer literals: every i32 in every IntFormat (signed/unsigned decimal, hex, binary, bool,
       signed hex; MIN; unsigned printing of negatives) prints to a text that the lexer and parser
       specifications read back as the same value, once the sign the parser keeps as a unary minus
       is folded.  [pf] (float parsing) is irrelevant here and universally quantified. *)
Theorem C08_int_literal_roundtrip : forall pf f v, in_i32 v ->
  exists e, parse_text pf (print_int f v) = Ok e /\ fold e = FLitI v dec_fmt.
Proof. exact int_literal_roundtrip. Qed.

(* (2) string literals: all bytes, including quotes, backslashes, NUL, CR, LF and multi-byte text *)
Theorem C08_string_literal_roundtrip : forall s, parse_string_literal (print_string s) = Ok s.
Proof. exact string_literal_roundtrip. Qed.

Theorem C08_string_literal_is_one_token : forall s rest,
  lex1 (print_string s ^^ rest) = Some (TStr (print_string s), rest).
Proof. intros s rest. apply (lex1_str _ rest (safe_str_print s)). Qed.

(* (3) no token gluing: whenever the character after each written token cannot extend it
       ([safe], a decidable check on a token and the next character), lexing the concatenated
       output gives back exactly the written tokens -- for outputs of any length *)
Theorem C08_no_token_gluing : forall its, ok_seq its = true -> lex (concat_text its) = Ok (otoks its).
Proof. exact lex_ok_seq. Qed.

(* (3b) ... and every printable expression, of arbitrary nesting, passes that check in the inline
       layout: the printed text lexes to exactly the tokens the printer wrote.  [fd] is Rust's Display
       for finite non-negative f32 (hypothesis on its shape: digits, optionally `.digits`). *)
Theorem C08_expr_no_token_gluing : forall (fd : Z -> string),
  (forall a, 0 <= a < INF_BITS -> float_shape (float_text fd a) = true) ->
  forall e sup, pr_expr fd e = true -> lex (print_expr fd sup e) = Ok (expr_toks fd sup e).
Proof. exact expr_lex. Qed.

(* defect #12 (as long as src/fmt.rs has no guard: gen_unop_guard = false): unary minus applied to a
   negative literal is written `--3`, which is one token; the pair (`-`, `-`) fails the check *)
Theorem C08_no_token_gluing_refuted :
  if gen_unop_guard then True else
  let fd := fun _ : Z => "0"%string in
  let e := FUn "-" (FLitI (-3) dec_fmt) in
  pr_expr fd (FLitI (-3) dec_fmt) = true
  /\ print_expr fd true e = "--3"%string
  /\ lex (print_expr fd true e) = Ok [TFix "--"; TInt "3"]
  /\ expr_toks fd true e = [TFix "-"; TFix "-"; TInt "3"]
  /\ safe (TFix "-") (Some "-"%char) = false
  /\ pr_expr fd e = false.
Proof. vm_compute. repeat split. Qed.

(* tie 1: the token list, regexes, operator spellings, precedence tiers, keyword tables and escape
   tables read out of the current sources are the ones the models use *)
Theorem C08_tables_match : tables_ok = true.
Proof. exact tables_match. Qed.

(* (4) the line width is irrelevant: whatever the Formatter state machine does at a given width
       (inline attempt, outermost-only backtracking, block layout), the tokens it writes are the
       tokens of the document; the block layout's trailing commas are the only other non-blank text *)
Theorem C08_render_tokens : forall w d its, render_items w d = Ok its -> otoks_nt its = dtoks d.
Proof. exact render_tokens. Qed.

Theorem C08_width_irrelevant : forall w w' d its its',
  render_items w d = Ok its -> render_items w' d = Ok its' -> otoks_nt its = otoks_nt its'.
Proof. exact width_irrelevant_tokens. Qed.

(* (5) float literals, under the hypotheses on Rust's f32 Display (digits, optionally `.digits`, never an
       exponent) and str::parse::<f32> (it inverts Display): every non-NaN bit pattern reads back
       (NaN: finding #11) *)
Theorem C08_float_bits_roundtrip : forall (pf : string -> Z) (fd : Z -> string),
  (forall a, 0 <= a < INF_BITS -> float_shape (float_text fd a) = true) ->
  (forall a, 0 <= a < INF_BITS -> pf (float_text fd a) = a) ->
  forall b, 0 <= b < two32 -> f_is_nan b = false ->
  exists e, parse_text pf (concat_text (flat (DSeq (pp_float fd b)))) = Ok e /\ fold e = FLitF b.
Proof. exact float_bits_roundtrip. Qed.

(* (6) what the parser is expected to give back for a printed expression ([unfold]: negative literals
       become a unary minus, the IntFormat hint is gone, INF/NAN/true/false are names) denotes the same
       script as the expression that was printed, for every expression without a non-canonical NaN *)
Theorem C08_unfold_same_script : forall e, lits_ok e = true -> no_odd_nan e = true -> fold (unfold e) = fold e.
Proof. exact fold_unfold. Qed.

(* finding #11: NaN payloads and signs are not preserved *)
Theorem C08_nan_payload_refuted : forall fd,
  concat_text (flat (DSeq (pp_float fd 2143289345))) = "NAN"%string
  /\ concat_text (flat (DSeq (pp_float fd 4290772992))) = "NAN"%string.
Proof. intros fd. split; reflexivity. Qed.

(* non-vacuity *)
Example C08_int_example : exists e, parse_text (fun _ => 0) (print_int (IF true RHex) (-2147483648)) = Ok e
  /\ fold e = FLitI (-2147483648) dec_fmt /\ print_int (IF true RHex) (-2147483648) = "-0x80000000"%string.
Proof. exists (FUn "-" (FLitI (-2147483648) dec_fmt)). vm_compute. repeat split. Qed.

Example C08_width_example :
  let d := DSeq (pp (fun _ => "0"%string) true (FCall (CNormal "f") [] [FLitI 10 dec_fmt; FLitI 20 dec_fmt])) in
  render 100 d = Ok "f(10, 20)"%string
  /\ render 5 d = Ok ("f(" ^^ String "010" "    10," ^^ String "010" "    20," ^^ String "010" ")")%string.
Proof. vm_compute. split; reflexivity. Qed.

(* (7) the full statement of the property over expressions: for every printable expression of arbitrary
       nesting, in a parenthesis-suppressing position or not, the printed text lexes and parses (by the
       lexer and parser specifications) to the expected tree, which denotes the same script.
       [pf]/[fd]: Rust's str::parse::<f32> and f32 Display, constrained by the two hypotheses. *)
Definition C08_full : Prop :=
  forall (pf : string -> Z) (fd : Z -> string),
  (forall a, 0 <= a < INF_BITS -> float_shape (float_text fd a) = true) ->
  (forall a, 0 <= a < INF_BITS -> pf (float_text fd a) = a) ->
  forall sup e, pr_expr fd e = true ->
    parse_text pf (print_expr fd sup e) = Ok (unfold e)
    /\ (no_odd_nan e = true -> fold (unfold e) = fold e).

Theorem C08_expr_roundtrip : C08_full.
Proof. exact expr_roundtrip. Qed.

(* printing the re-parsed expression gives the same text again: for expressions in parser form
   ([unfold e = e]: what the parser itself builds) the round trip is exact *)
Theorem C08_print_idempotent : forall (pf : string -> Z) (fd : Z -> string),
  (forall a, 0 <= a < INF_BITS -> float_shape (float_text fd a) = true) ->
  (forall a, 0 <= a < INF_BITS -> pf (float_text fd a) = a) ->
  forall sup e, pr_expr fd e = true -> unfold e = e -> parse_text pf (print_expr fd sup e) = Ok e.
Proof. exact print_idempotent. Qed.

Example C08_roundtrip_example :
  let fd := fun _ : Z => "1.5"%string in
  let e := FBin (FLitI (-3) (IF true RHex)) "*" (FCall (CIns 5) [("mask"%string, FLitI 1 dec_fmt)] [FUn "sin" (FDiff [Some (FLitF 1069547520); None])]) in
  pr_expr fd e = true
  /\ print_expr fd true e = "-0x3 * ins_5(@mask=1, sin(1.5 :  ))"%string
  /\ parse_text (fun _ => 1069547520) (print_expr fd true e) = Ok (unfold e)
  /\ fold (unfold e) = fold e.
Proof. vm_compute. repeat split. Qed.

Print Assumptions C08_expr_roundtrip.
Print Assumptions C08_expr_no_token_gluing.
Print Assumptions C08_int_literal_roundtrip.
Print Assumptions C08_no_token_gluing.
Print Assumptions C08_render_tokens.
Print Assumptions C08_float_bits_roundtrip.
