(* Props/C18.v -- property C18: debug info describes the file that was actually written.
   Only statements.  [gather] is llir::lower::gather_label_info (records an offset per instruction and per
   label while encoding the instructions with dummy values), [final_sizes] are the sizes of the
   instructions that the final pass emits.  The two premises say that replacing labels, label times and
   locals by values changes neither an instruction's encoded size nor the encoding state handed to the
   next instruction (lower.rs: substitute_dummy_args "preserves the number of bytes in the written
   instruction"); the differential check compares their consequence on compiled programs. *)
From TV Require Import Base.I32 Model.DebugInfo Proofs.DebugInfo.
Open Scope Z_scope.

Section C18.
  Variable linstr : Type.
  Variable state : Type.
  Variable isize : linstr -> state -> Z.
  Variable step : linstr -> state -> state.
  Variable dummy resolve : linstr -> linstr.
  Hypothesis dummy_same_size : forall i st, isize (dummy i) st = isize (resolve i) st.
  Hypothesis dummy_same_state : forall i st, step (dummy i) st = step (resolve i) st.

  (* the recorded offset of instruction k is the sum of the sizes of the k instructions emitted before it *)
  Theorem C18_offsets_are_prefix_sums : forall code st k,
    (k < length (final_sizes linstr state isize step resolve code st))%nat ->
    length (g_instrs (gather linstr state isize step dummy code st 0)) = length (final_sizes linstr state isize step resolve code st) /\
    nth k (g_instrs (gather linstr state isize step dummy code st 0)) 0
      = total (firstn k (final_sizes linstr state isize step resolve code st)).
  Proof. exact (offsets_are_prefix_sums linstr state isize step dummy resolve dummy_same_size dummy_same_state). Qed.

  (* every label offset is the start of an emitted instruction or the end of the script *)
  Theorem C18_label_offsets_are_boundaries : forall code st n tm o,
    In (n, tm, o) (g_labels (gather linstr state isize step dummy code st 0)) ->
    (exists k, (k < length (final_sizes linstr state isize step resolve code st))%nat /\
               o = total (firstn k (final_sizes linstr state isize step resolve code st)))
    \/ o = total (final_sizes linstr state isize step resolve code st).
  Proof. exact (label_offsets_are_boundaries linstr state isize step dummy resolve dummy_same_size dummy_same_state). Qed.

  (* ... and carries the time of its label statement *)
  Theorem C18_label_time_is_stated : forall code st off n tm o,
    In (n, tm, o) (g_labels (gather linstr state isize step dummy code st off)) -> In (LLabel linstr n tm) code.
  Proof. exact (label_time_is_stated linstr state isize step dummy). Qed.

  (* the end offset is the length of the emitted script *)
  Theorem C18_end_offset_is_length : forall code st,
    g_end (gather linstr state isize step dummy code st 0) = total (final_sizes linstr state isize step resolve code st).
  Proof. exact (end_offset_is_length linstr state isize step dummy resolve dummy_same_size dummy_same_state). Qed.
End C18.

(* non-vacuity: sizes that depend on the encoding state (the furigana quirk: a string's size grows by what
   the previous string left behind) satisfy the premises, and the theorems compute the expected offsets *)
Example C18_premises_inhabited :
  let isize := fun (i : Z * Z) (st : Z) => fst i + st in   (* own size + bytes left by the previous instruction *)
  let step := fun (i : Z * Z) (_ : Z) => snd i in
  let dummy := fun i : Z * Z => i in
  (forall i st, isize (dummy i) st = isize (dummy i) st) /\
  g_instrs (gather (Z * Z) Z isize step dummy [LInstr _ (8, 4); LLabel _ 0%nat 10; LInstr _ (12, 0); LInstr _ (8, 0)] 0 0) = [0; 8; 24] /\
  g_end (gather (Z * Z) Z isize step dummy [LInstr _ (8, 4); LLabel _ 0%nat 10; LInstr _ (12, 0); LInstr _ (8, 0)] 0 0) = 32.
Proof. cbn. repeat split; reflexivity. Qed.
