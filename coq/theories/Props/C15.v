(* Props/C15.v -- property C15: text in string arguments and metadata survives compile and decompile
   unchanged.  Only statements; every proof is [exact lemma].
   Shift-JIS (encoding_rs) appears as the two premises [sjis_inverse] and [sjis_no_nul] of each theorem;
   [repertoire] is the set of code points that encoding_rs maps to bytes and back to themselves, measured
   by the harness on every run (together with both premises, over all of Unicode). *)
From TV Require Import Base.I32 Model.Abi Model.StrLit Spec.AbiFit Gen.ArgCodec Gen.StrEscape
  Proofs.AbiBytes Proofs.AbiRoundtrip Proofs.MetaStrings Proofs.StrLitRoundtrip Proofs.AbiGen Proofs.StrGen.
Open Scope Z_scope.

(* (1) a string argument under any encoding a signature can request -- block-padded to the end of the
       blob, length-prefixed, fixed buffer with or without `nulless`, any xor mask (mask, velocity,
       acceleration), with the furigana quirk in ANY state [st] left by the previous strings of the script
       (so: any sequence of consecutive furigana strings) -- reads back as the same code points, without a
       warning, from any position of a blob (arbitrary bytes [tail] after it). *)
Theorem C15_string_arg_roundtrip :
  forall (sjis_enc : list Z -> option bytes) (sjis_dec : bytes -> option (list Z)) (repertoire : Z -> bool),
  (forall s b, forallb repertoire s = true -> sjis_enc s = Some b -> sjis_dec b = Some s) ->
  (forall s b, sjis_enc s = Some b -> In 0 b -> In 0 s) ->
  forall sz m v a furibug s st b0 st1 tail,
  str_ok (EStr sz m v a furibug) = true -> good_string repertoire s = true ->
  string_field sjis_enc gen_codec sz m v a furibug s st = Ok (b0, st1) ->
  zlen b0 < 2 ^ 32 ->
  match sz with SBlock _ => tail = [] | _ => True end ->
  decode_string sjis_dec gen_codec sz m v a furibug (b0 ++ tail) (zlen (b0 ++ tail)) = Ok (s, [], tail, zlen tail).
Proof. exact (fun e d rp h1 h2 => string_roundtrip e d rp h1 h2 gen_codec gen_codec_ok). Qed.

(* (2) a string with an unencodable character is rejected, whatever the encoding *)
Theorem C15_unencodable_is_error :
  forall (sjis_enc : list Z -> option bytes) sz m v a furibug s st, sjis_enc s = None ->
  string_field sjis_enc gen_codec sz m v a furibug s st = Err E_ENCODING.
Proof. exact (fun e => unencodable_is_error e gen_codec). Qed.

(* (3) paths and names in file metadata *)
Theorem C15_path_roundtrip :
  forall (sjis_enc : list Z -> option bytes) (sjis_dec : bytes -> option (list Z)) (repertoire : Z -> bool),
  (forall s b, forallb repertoire s = true -> sjis_enc s = Some b -> sjis_dec b = Some s) ->
  (forall s b, sjis_enc s = Some b -> In 0 b -> In 0 s) ->
  forall s bs b rest, good_string repertoire s = true -> 0 < bs ->
  write_path sjis_enc s bs = Ok b -> read_path sjis_dec bs (b ++ rest) = Ok (s, rest).
Proof. exact path_roundtrip. Qed.

Theorem C15_name_roundtrip :
  forall (sjis_enc : list Z -> option bytes) (sjis_dec : bytes -> option (list Z)) (repertoire : Z -> bool),
  (forall s b, forallb repertoire s = true -> sjis_enc s = Some b -> sjis_dec b = Some s) ->
  (forall s b, sjis_enc s = Some b -> In 0 b -> In 0 s) ->
  forall s buf b rest, good_string repertoire s = true ->
  write_name sjis_enc s buf = Ok b -> read_name sjis_dec buf (b ++ rest) = Ok (s, [], rest).
Proof. exact name_roundtrip. Qed.

Theorem C15_name_too_long_is_error :
  forall (sjis_enc : list Z -> option bytes) s e buf, sjis_enc s = Some e -> buf <= zlen e ->
  write_name sjis_enc s buf = Err E_TOOLONG.
Proof. exact name_too_long_is_error. Qed.

(* (4) the text side: a string literal printed by the formatter (fmt.rs) is lexed as one token and
       parse_string_literal returns the same code points -- every string, including quotes, backslashes,
       newlines and NUL *)
Theorem C15_literal_roundtrip : forall s rest,
  read_literal gen_esc (print_literal gen_esc s ++ rest) = Some (s, rest).
Proof. exact (print_read_literal gen_esc gen_esc_ok). Qed.

(* non-vacuity *)
Example C15_string_arg_instance :
  let enc := fun s : list Z => Some (map (fun c => c mod 256) s) in
  exists b0 st1, string_field enc gen_codec (SPascal 4) 119 7 16 true [124; 130; 160; 97] (Some [9; 9]) = Ok (b0, st1)
                 /\ zlen b0 = 12 /\ st1 <> None.
Proof. eexists; eexists. split; [vm_compute; reflexivity|]. split; [reflexivity|discriminate]. Qed.
