(* Props/C01.v -- property C01: decompile then recompile reproduces the binary bit-for-bit.
   Statements only; proofs are [exact lemma]. *)
From TV Require Import Base.I32 Model.Abi Model.Diff Model.Time Model.Stream Model.Container Spec.AbiFit
  Proofs.AbiReencode Proofs.Diff Proofs.Time Proofs.StreamRoundtrip Proofs.ContainerScript Proofs.BytesRoundtrip Gen.ArgCodec.
Open Scope Z_scope.

(* The instruction-stream core (PARTIAL w.r.t. the full property, see C01_full below):
   for every script (any number of instructions, any i32 times incl. negative and decreasing ones, any
   jump table, any difficulty masks, any signatures without strings / timeline arg0, registers and
   immediates anywhere), every Shift-JIS codec, and every set of difficulty-flag definitions satisfying
   the C14 invariant:  if decompile succeeds without a loss warning (E_LOSSY), compiling what it
   produced -- time labels through the time pass, the difficulty label through the label parser, the
   argument list through encode_args -- gives back exactly the same instructions: same times, same
   mask bytes, same argument blobs and register masks.
   It composes C12_encode_decode, C13_decompile_script_times and C14_label_roundtrip over the tables
   read from the source on every run (Gen/ArgCodec.v, Gen/TimeLabels.v, Gen/DiffFlags.v). *)
Theorem C01_stream_roundtrip :
  forall (sjis_enc : list Z -> option bytes) (sjis_dec : bytes -> option (list Z)) has_regs fd,
  Consistent fd ->
  forall jumps (is : list rinstr) x,
  Forall in_i32 (map ri_time is) -> Forall (instr_ok sjis_dec has_regs) is ->
  decompile_script sjis_dec gen_codec fd jumps is = Ok x ->
  compile_script sjis_enc gen_codec has_regs fd x = Ok is.
Proof. exact stream_roundtrip. Qed.

(* The same at the level of BYTES, for every script the writer can emit (C03's container model over the header
   tables regenerated from the nine `impl InstrFormat` blocks, composed with the stream round trip above):
   for a format with an end marker, any instruction list that fits its header fields, any bytes after the
   script: the writer produces bytes bs; whatever the reader reads back from bs (followed by anything), if the
   stream decompiles without a loss warning then the text model compiles, and writing the compiled
   instructions gives bs again -- byte for byte.  [to_instr]/[of_instr] (Proofs/BytesRoundtrip.v) say which
   header fields feed which part of the stream: time, difficulty byte, opcode -> signature, blob + param mask. *)
Theorem C01_script_bytes_roundtrip :
  forall (sjis_enc : list Z -> option bytes) (sjis_dec : bytes -> option (list Z)) has_regs fd,
  Consistent fd ->
  forall f sig_of (xs : list (Z * rinstr)) rest start endo jumps,
  let l := map (fun p => to_instr (fst p) (snd p)) xs in
  fmt_ok f = true -> f_tkind f = TTerminal -> Forall (fun i => fitsb f i = true) l ->
  end_allows endo (start + size_seq f l) ->
  Forall (fun p => sig_of (fst p) = ri_sig (snd p)) xs ->
  Forall in_i32 (map ri_time (map snd xs)) -> Forall (instr_ok sjis_dec has_regs) (map snd xs) ->
  exists bs, write_instrs f l = Ok bs /\
    forall l', read_instrs f (bs ++ rest) start endo = Ok l' ->
    forall x, decompile_script sjis_dec gen_codec fd jumps (map (of_instr sig_of) l') = Ok x ->
    exists rs, compile_script sjis_enc gen_codec has_regs fd x = Ok rs /\
               write_instrs f (zipw to_instr (map i_opcode l') rs) = Ok bs.
Proof. exact script_bytes_roundtrip_terminal. Qed.

(* The full property additionally covers: jump-offset arguments as label names (offset <-> instruction
   index through the instruction sizes), string arguments (C15), intrinsic raising/lowering and block
   reconstruction (C07/C06 canon preservation), the printed text (C08), the container layouts (C03) and
   the five --no-* options.  Those links are covered on every run by the round-trip oracle of
   checks/c01.py (bundled binaries and every compilable source of the repository's tests x option
   subsets x widths through the CLI, byte comparison). *)
Definition C01_full : Prop :=
  forall (decompile_text compile_text : list Z -> option (list Z)) (b : list Z),
  (forall t, decompile_text b = Some t -> compile_text t = Some b).

(* non-vacuity: a three-instruction script (negative time, a register argument, a non-default mask)
   meets the hypotheses, decompiles, and compiles back to itself under the built-in flag definitions *)
Example C01_example_hypotheses : Forall (instr_ok (fun b => Some b) true) ex_is.
Proof. exact ex_ok. Qed.

Example C01_example_runs :
  match default_defs with
  | Ok fd => match decompile_script (fun b => Some b) gen_codec fd [(2%nat, None)] ex_is with
             | Ok x => compile_script (fun s => Some s) gen_codec true fd x
             | _ => Panic 0%nat
             end
  | _ => Panic 0%nat
  end = Ok ex_is.
Proof. exact ex_run. Qed.
Print Assumptions C01_script_bytes_roundtrip.
