(* Props/C16.v -- property C16 (partial): any binary input ends in success or a diagnostic, never a crash.
   Statements over the executable models of the script reader, the label pass and image extraction,
   instantiated with the tables that gen/instrfmt.py and gen/texfmt.py read out of the current source.
   The side conditions on the tables (every format has checked size arithmetic on an unsigned field, every
   decode_label is total, the extraction size guard is present) are discharged by vm_compute on the tables
   of the current source: an edit that reintroduces unchecked arithmetic breaks C16_tables_wf, and the check
   then reports the crashing file found by the harness.  (The panicking shapes that were present before the
   fix: commits 0453984 60f96af 2cd8af3 44d6844 0124ab9 ecc4bbd are kept as lemmas *_refuted in Proofs/.)
   Every proof is [exact lemma] or a three-line instantiation. *)
From TV Require Import Base.I32 Model.BinScript Model.Labels Model.Texture Model.DecodeArgs Gen.InstrFmt Gen.TexFmt Gen.AbiLetters
  Proofs.ReadTotal Proofs.LabelsDefined Proofs.ExtractTotal Proofs.DecodeTotal.
Open Scope Z_scope.

(* (0) the generated tables: every format reads at least one header field and computes the argument size
       with a checked subtraction / equality on an unsigned field; every decode_label is total; the colour
       table is well formed and image extraction checks the data size *)
Theorem C16_tables_wf :
  forallb (fun p => fmt_wf (snd p) && (0 <=? f_hdr (snd p)) && size_safe (snd p)) gen_formats = true /\
  forallb dl_safe gen_decoders = true /\
  tbl_wf gen_color_formats = true /\ gen_extract_guard = true.
Proof. repeat split; vm_compute; reflexivity. Qed.

Lemma gen_format_facts n F : In (n, F) gen_formats -> fmt_wf F = true /\ 0 <= f_hdr F /\ size_safe F = true.
Proof.
  intros H. destruct C16_tables_wf as [W _]. rewrite forallb_forall in W. specialize (W _ H). cbn [snd] in W.
  apply andb_true_iff in W. destruct W as [W W3]. apply andb_true_iff in W. destruct W as [W1 W2].
  repeat split; auto. now apply Z.leb_le.
Qed.

(* (1) the script reader terminates on every byte string, for every format, with or without an end
       offset: the fuel [length bs + 1] of [read_script] is never exhausted (each instruction consumes
       at least one byte: the termination argument is proved, not assumed) *)
Theorem C16_read_terminates : forall n F bs endo,
  In (n, F) gen_formats -> read_script F bs endo <> OutOfFuel.
Proof. intros n F bs endo H. apply read_script_terminates. apply (gen_format_facts n F H). Qed.

(* (2) read_total: for every instruction format of the source and every byte string the script reader
       returns Ok or Err: never Panic, never OutOfFuel *)
Theorem C16_read_total : forall n F bs endo,
  In (n, F) gen_formats -> ok_or_err (read_script F bs endo).
Proof. intros n F bs endo H. destruct (gen_format_facts n F H) as (W & Hh & SS). now apply read_total. Qed.

(* (3) decode_label of every language hook is total *)
Theorem C16_decode_label_total : forall k cur bits,
  In k gen_decoders -> exists o, decode_label k cur bits = Ok o.
Proof.
  intros k cur bits H. apply decode_label_total.
  destruct C16_tables_wf as (_ & D & _). rewrite forallb_forall in D. now apply D.
Qed.

(* (4) labels_defined: when the label pass of a script succeeded, the lookup performed for the jump of
       every instruction (raise_intrinsic_parts: `offset_labels[&x]`) finds a label; the pass itself and
       all lookups end in Ok or Err *)
Theorem C16_labels_defined : forall k script sizes ls,
  length sizes = length script ->
  (forall i, In i script -> abi_valid (ei_encs i) = true) ->
  label_pass k script sizes = Ok ls ->
  forall i, In i script -> ok_or_err (lookup_jump_label k ls i) /\ lookup_jump_label k ls i <> Panic P_INDEX.
Proof. exact labels_defined. Qed.

Theorem C16_label_pass_total : forall k script sizes,
  In k gen_decoders -> length sizes = length script ->
  (forall i, In i script -> abi_valid (ei_encs i) = true) ->
  ok_or_err (label_pass_and_lookups k script sizes).
Proof.
  intros k script sizes H. apply lookups_total.
  destruct C16_tables_wf as (_ & D & _). rewrite forallb_forall in D. now apply D.
Qed.

Theorem C16_labels_need_validation :
  let i := mkEI 0 0 [JOffset; JOffset] [8; 0] in
  abi_valid (ei_encs i) = false /\ label_pass_and_lookups DL_abs [i] [8] = Panic P_INDEX.
Proof. exact labels_undefined_without_validation. Qed.

(* (5) extract_total: for every texture header (any format number, width, height, data length) image
       extraction returns Ok or Err; it is Ok exactly for the consistent ones (data length = bytes per pixel
       x width x height of a known format), and an inconsistent one is a diagnostic *)
Theorem C16_extract_total : forall t,
  tex_ok_for gen_extract_bound t -> ok_or_err (produce_image gen_color_formats gen_extract_guard gen_extract_bound t).
Proof.
  intros t R. destruct C16_tables_wf as (_ & _ & W & G). rewrite G. apply extract_total_guarded; [exact W | | exact R].
  vm_compute. repeat split; discriminate.
Qed.

(* on the current tree the generated bound is the one of fix d8a7ff5: extraction is total for EVERY offset pair
   (before the fix: only for offsets whose padded image fits the address space, see extract_offset_refuted) *)
Theorem C16_extract_total_any_offset : forall t,
  gen_extract_bound <> None -> tex_dims_ok t ->
  ok_or_err (produce_image gen_color_formats gen_extract_guard gen_extract_bound t).
Proof.
  intros t Hb D. apply C16_extract_total. destruct gen_extract_bound; [exact D | contradiction].
Qed.
Example C16_extract_bound_present : gen_extract_bound <> None.
Proof. discriminate. Qed.

Theorem C16_extract_consistent_ok : forall t,
  tex_consistent gen_color_formats t -> tex_in_range t ->
  match gen_extract_bound with Some b => (t_w t + t_ox t) * (t_h t + t_oy t) <= b | None => True end ->
  produce_image gen_color_formats gen_extract_guard gen_extract_bound t = Ok tt.
Proof.
  intros t C R. destruct gen_extract_bound as [b|] eqn:E.
  - intros Hp. destruct R as (Hw & Hh & Hx & Hy & B1 & B2 & Ha).
    assert (Hb : 4 * b <= ALLOC_LIMIT) by (unfold gen_extract_bound in E; inversion E; subst b; vm_compute; discriminate).
    apply extract_consistent_ok_bound; [exact Hb | exact C | repeat split; lia | exact B1 | exact B2 | exact Hp].
  - intros _. now apply extract_consistent_ok.
Qed.

Theorem C16_extract_inconsistent_err : forall t c,
  find_fmt gen_color_formats (t_fmt t) = Some c -> t_len t <> cf_bpp c * t_w t * t_h t ->
  produce_image gen_color_formats gen_extract_guard gen_extract_bound t = Err E_TEXSIZE.
Proof.
  intros t c F N. destruct C16_tables_wf as (_ & _ & _ & G). rewrite G. exact (extract_inconsistent_err gen_color_formats gen_extract_bound t c F N).
Qed.

(* (6) decode_total: the blob decoder (decode_args_with_abi) is Ok or Err for every blob and every signature
       whose integer/padding sizes have a decoder arm and whose arg0 argument (if any) comes first and has
       its extra argument; every letter of the signature parser produces such a size *)
Theorem C16_letters_have_decoder_arms :
  letters_ok gen_decode_int_sizes gen_decode_pad_sizes gen_int_letters gen_pad_letters = true.
Proof. vm_compute. reflexivity. Qed.

Theorem C16_decode_total : forall str_ok blob es has_extra,
  encs_valid gen_decode_int_sizes gen_decode_pad_sizes es has_extra = true ->
  ok_or_err (decode_args str_ok gen_decode_int_sizes gen_decode_pad_sizes blob es has_extra).
Proof. intros. now apply decode_total. Qed.

Theorem C16_decode_needs_validation :
  decode_args (fun _ => true) [1; 2; 4] [1; 4] [0; 0; 0] [EncInt 3 false] false = Panic P_UNREACH /\
  decode_args (fun _ => true) [1; 2; 4] [1; 4] [0; 0] [EncInt 2 true] false = Panic P_EXPECT /\
  decode_args (fun _ => true) [1; 2; 4] [1; 4] [0; 0] [EncInt 2 true; EncInt 2 true] true = Panic P_EXPECT.
Proof. exact decode_unvalidated_refuted. Qed.

(* non-vacuity: a format that satisfies the guard of (2) exists in the generated table, and reads a script *)
Example C16_read_nonvacuous :
  In (FAnm07, gen_FAnm07) gen_formats /\ size_safe gen_FAnm07 = true /\
  read_script gen_FAnm07 [5;0; 12;0; 3;0; 0;0; 1;2;3;4; 255;255; 0;0; 0;0; 0;0] None = Ok [mkRI 3 5 0 [1;2;3;4]].
Proof. split; [cbn; tauto|]. split; vm_compute; reflexivity. Qed.

Example C16_labels_nonvacuous :
  label_pass_and_lookups DL_abs [mkEI 0 0 [JOther] [7]; mkEI 12 5 [JOffset; JTime] [0; 0]] [12; 16] = Ok tt.
Proof. vm_compute. reflexivity. Qed.

Example C16_extract_nonvacuous :
  tex_consistent tbl0 (mkTex 3 2 2 8 1 1) /\ tex_in_range (mkTex 3 2 2 8 1 1) /\ tbl_wf tbl0 = true.
Proof. exact extract_nonvacuous. Qed.
