(* Props/C16.v -- property C16 (partial): any binary input ends in success or a diagnostic, never a crash.
   Statements over the executable models of the script reader, the label pass and image extraction,
   instantiated with the tables that gen/instrfmt.py and gen/texfmt.py read out of the current source.
   The theorems are stated so that they hold for whatever the tables say: which rows satisfy the
   guards ([size_safe], [dl_safe], [gen_extract_guard]) is computed by the check on every run, and every
   row that does not is reported with a concrete crashing file.  Every proof is [exact lemma]. *)
From TV Require Import Base.I32 Model.BinScript Model.Labels Model.Texture Model.DecodeArgs Gen.InstrFmt Gen.TexFmt Gen.AbiLetters
  Proofs.ReadTotal Proofs.LabelsDefined Proofs.ExtractTotal Proofs.DecodeTotal.
Open Scope Z_scope.

(* (0) the generated tables are well formed: every format reads at least one header field *)
Theorem C16_tables_wf :
  forallb (fun p => fmt_wf (snd p) && (0 <=? f_hdr (snd p))) gen_formats = true /\ tbl_wf gen_color_formats = true.
Proof. split; vm_compute; reflexivity. Qed.

(* (1) the script reader terminates on every byte string, for every format, with or without an end
       offset: the fuel [length bs + 1] of [read_script] is never exhausted (each instruction consumes
       at least one byte: the termination argument is proved, not assumed) *)
Theorem C16_read_terminates : forall n F bs endo,
  In (n, F) gen_formats -> read_script F bs endo <> OutOfFuel.
Proof.
  intros n F bs endo H. apply read_script_terminates.
  destruct C16_tables_wf as [W _]. rewrite forallb_forall in W. specialize (W _ H). cbn in W.
  now apply andb_true_iff in W.
Qed.

(* (2) read_total: Ok or Err, never Panic, for every format whose size arithmetic is checked on an
       unsigned size field *)
Theorem C16_read_total : forall n F bs endo,
  In (n, F) gen_formats -> size_safe F = true -> ok_or_err (read_script F bs endo).
Proof.
  intros n F bs endo H S. destruct C16_tables_wf as [W _]. rewrite forallb_forall in W. specialize (W _ H). cbn in W.
  apply andb_true_iff in W. destruct W as [W1 W2]. apply read_total; auto. now apply Z.leb_le.
Qed.

(* (2') the other shapes of size arithmetic panic: unchecked subtraction (StdHooks10, OldeEclHooks), a
        signed size field cast to usize (OldeEclHooks, TimelineFormat06), assert_eq!(argsize, 12) (StdHooks06) *)
Theorem C16_read_total_refuted :
  read_script row_unchecked_u16 [0;0;0;0; 5;0; 7;0] None = Panic P_OVERFLOW /\
  (read_script row_unchecked_i16 [0;0;0;0; 5;0; 11;0; 0;255;255;0] None = Panic P_OVERFLOW /\
   read_script row_unchecked_i16 [0;0;0;0; 5;0; 0;128; 0;255;255;0] None = Panic P_CAPACITY) /\
  read_script row_checked_i16 [0;0; 0;0; 5;0; 255;255] None = Panic P_CAPACITY /\
  read_script row_assert12 [0;0;0;0; 5;0; 8;0] None = Panic P_ASSERT.
Proof.
  exact (conj unchecked_sub_refuted (conj unchecked_sub_signed_refuted (conj checked_sub_signed_refuted assert12_refuted))).
Qed.

(* (3) decode_label is total for the wide / relative / absolute forms; the u32 product overflows *)
Theorem C16_decode_label_total : forall k cur bits,
  In k gen_decoders -> dl_safe k = true -> exists o, decode_label k cur bits = Ok o.
Proof. intros k cur bits _. apply decode_label_total. Qed.

Theorem C16_decode_label_refuted : decode_label DL_mul20_u32 0 268435456 = Panic P_OVERFLOW.
Proof. exact decode_label_mul20_refuted. Qed.

(* (4) labels_defined: when the label pass of a script succeeded, the lookup performed for the jump of
       every instruction (raise_intrinsic_parts: `offset_labels[&x]`) finds a label; the pass itself and
       all lookups end in Ok or Err *)
Theorem C16_labels_defined : forall k script sizes ls,
  length sizes = length script ->
  (forall i, In i script -> abi_valid (ei_encs i) = true) ->
  label_pass k script sizes = Ok ls ->
  forall i, In i script -> ok_or_err (lookup_jump_label k ls i) /\ lookup_jump_label k ls i <> Panic P_INDEX.
Proof. exact labels_defined. Qed.

Theorem C16_label_pass_total : forall k script sizes,
  dl_safe k = true -> length sizes = length script ->
  (forall i, In i script -> abi_valid (ei_encs i) = true) ->
  ok_or_err (label_pass_and_lookups k script sizes).
Proof. exact lookups_total. Qed.

Theorem C16_labels_need_validation :
  let i := mkEI 0 0 [JOffset; JOffset] [8; 0] in
  abi_valid (ei_encs i) = false /\ label_pass_and_lookups DL_abs [i] [8] = Panic P_INDEX.
Proof. exact labels_undefined_without_validation. Qed.

(* (5) extract_total: a texture whose data length is bytes-per-pixel x width x height is extracted (with
       or without the size guard); with the guard every other texture is an error diagnostic; without it
       the two reproduced panics *)
Theorem C16_extract_consistent_ok : forall t,
  tex_consistent gen_color_formats t -> tex_in_range t ->
  produce_image gen_color_formats gen_extract_guard t = Ok tt.
Proof. intros t. apply extract_consistent_ok. Qed.

Theorem C16_extract_total_guarded : forall t,
  tex_in_range t -> ok_or_err (produce_image gen_color_formats true t).
Proof. intros t. apply extract_total_guarded. exact (proj2 C16_tables_wf). Qed.

Theorem C16_extract_total_refuted :
  (produce_image tbl0 false (mkTex 1 4 2 16 0 0) = Panic P_EXPECT) /\
  (produce_image tbl0 false (mkTex 3 2 2 7 0 0) = Panic P_ASSERT) /\
  (produce_image tbl0 true (mkTex 1 4 2 16 0 0) = Err E_TEXSIZE) /\
  (produce_image tbl0 true (mkTex 3 2 2 7 0 0) = Err E_TEXSIZE).
Proof. exact extract_total_refuted. Qed.

(* (6) decode_total: the blob decoder (decode_args_with_abi) is Ok or Err for every blob and every signature
       whose integer/padding sizes have a decoder arm and whose arg0 argument (if any) comes first and has
       its extra argument; every letter of the signature parser produces such a size *)
Theorem C16_letters_have_decoder_arms :
  letters_ok gen_decode_int_sizes gen_decode_pad_sizes gen_int_letters gen_pad_letters = true.
Proof. vm_compute. reflexivity. Qed.

Theorem C16_decode_total : forall str_ok blob es has_extra,
  encs_valid gen_decode_int_sizes gen_decode_pad_sizes es has_extra = true ->
  ok_or_err (decode_args str_ok gen_decode_int_sizes gen_decode_pad_sizes blob es has_extra).
Proof. intros. now apply decode_total. Qed.

Theorem C16_decode_unvalidated_refuted :
  decode_args (fun _ => true) [1; 2; 4] [1; 4] [0; 0; 0] [EncInt 3 false] false = Panic P_UNREACH /\
  decode_args (fun _ => true) [1; 2; 4] [1; 4] [0; 0] [EncInt 2 true] false = Panic P_EXPECT /\
  decode_args (fun _ => true) [1; 2; 4] [1; 4] [0; 0] [EncInt 2 true; EncInt 2 true] true = Panic P_EXPECT.
Proof. exact decode_unvalidated_refuted. Qed.

(* non-vacuity: a format that satisfies the guard of (2) exists in the generated table, and reads a script *)
Example C16_read_nonvacuous :
  In (FAnm07, gen_FAnm07) gen_formats /\ size_safe gen_FAnm07 = true /\
  read_script gen_FAnm07 [5;0; 12;0; 3;0; 0;0; 1;2;3;4; 255;255; 0;0; 0;0; 0;0] None = Ok [mkRI 3 5 0 [1;2;3;4]].
Proof. split; [cbn; tauto|]. split; vm_compute; reflexivity. Qed.

Example C16_labels_nonvacuous :
  label_pass_and_lookups DL_abs [mkEI 0 0 [JOther] [7]; mkEI 12 5 [JOffset; JTime] [0; 0]] [12; 16] = Ok tt.
Proof. vm_compute. reflexivity. Qed.

Example C16_extract_nonvacuous :
  tex_consistent tbl0 (mkTex 3 2 2 8 1 1) /\ tex_in_range (mkTex 3 2 2 8 1 1) /\ tbl_wf tbl0 = true.
Proof. exact extract_nonvacuous. Qed.
