(* Props/C04.v -- property C04 (partial): any text input ends in success or a rendered diagnostic, never a
   crash.  What is proved is the contract between passes and the error plumbing; the generated parser,
   diagnostic rendering, stack depth and time are covered by the malformed-input harness only.
   Every proof is [exact lemma]. *)
From TV Require Import Base.I32 Base.F32 Model.Ops Model.Expr Model.Typing Model.Diag Model.BinScript Model.DecodeArgs
  Gen.OpTable Gen.EmitSites Gen.AbiLetters Proofs.WellTyped Proofs.FailureIff Proofs.ReadTotal Proofs.DecodeTotal.
Open Scope Z_scope.

(* (0) side conditions on the operator table read from const_simplify.rs: shift counts are masked, and only
       the rows of `/` and `%` divide (the rows the passes guard against a zero divisor) *)
Theorem C04_operator_table_ok : table_ok gen_optable = true.
Proof. vm_compute. reflexivity. Qed.

(* (1) well_typed_no_panic: "type_check reports every type error, so later passes may panic on them".
       For every expression accepted by the typing discipline (operators typable exactly where the table has
       a non-type-error row; operands of equal type; integer conditions; numeric sigil casts), with a const
       cache that respects the declared types, const simplification returns an expression of the same type
       or a diagnostic: never a panic *)
Theorem C04_well_typed_no_panic : forall libm var_ty reg_ty call_ty opaque_ty cs e t,
  (forall id v, cs id = Some v -> var_ty id = Some (ty_of v)) ->
  tc gen_optable var_ty reg_ty call_ty opaque_ty e = Some t ->
  match simplify gen_optable libm cs e with
  | Ok e' => tc gen_optable var_ty reg_ty call_ty opaque_ty e' = Some t
  | Err _ => True
  | _ => False
  end.
Proof.
  intros libm var_ty reg_ty call_ty opaque_ty cs e t CST Ht.
  exact (simplify_well_typed gen_optable libm var_ty reg_ty call_ty opaque_ty C04_operator_table_ok cs CST e t Ht).
Qed.

(* (1') the same for the evaluator of const definitions (any fuel, any evaluation stack) *)
Theorem C04_const_eval_no_panic : forall libm var_ty reg_ty call_ty opaque_ty defs fuel stack e t,
  (forall id d, defs id = Some d -> exists t, var_ty id = Some t /\ tc gen_optable var_ty reg_ty call_ty opaque_ty d = Some t) ->
  tc gen_optable var_ty reg_ty call_ty opaque_ty e = Some t ->
  match ceval gen_optable libm defs fuel stack e with
  | Ok v => ty_of v = t
  | Panic _ => False
  | _ => True
  end.
Proof.
  intros libm var_ty reg_ty call_ty opaque_ty defs fuel stack e t DT Ht.
  pose proof (ceval_well_typed gen_optable libm var_ty reg_ty call_ty opaque_ty C04_operator_table_ok defs DT fuel stack e t Ht) as H.
  unfold cgood in H. destruct (ceval gen_optable libm defs fuel stack e); auto.
Qed.

(* (1'') the hypothesis is needed: an ill-typed expression that reaches the pass panics *)
Theorem C04_ill_typed_panics :
  simplify gen_optable (fun _ _ => 0) (fun _ => None) (EBin (ELitI 1) Add (ELitF 1065353216)) = Panic P_TYPE /\
  simplify gen_optable (fun _ _ => 0) (fun _ => None) (EUn Sin (ELitI 1)) = Panic P_TYPE /\
  simplify gen_optable (fun _ _ => 0) (fun _ => None) (ETern (ELitF 0) (ELitI 1) (ELitI 2)) = Panic P_TYPE.
Proof. repeat split; vm_compute; reflexivity. Qed.

(* (2) failure_iff_error_diagnostic: a computation built from `?`, ErrorFlag and collect_with_recovery over
       emit sites that respect the discipline (an error diagnostic's token is used, a warning's or note's
       is ignored) fails if and only if it printed an error-severity diagnostic *)
Theorem C04_failure_iff_error_diagnostic : forall c, disciplined c = true ->
  (fst (run c) = false <-> exists s, In s (snd (run c)) /\ s = SError).
Proof. exact failure_iff. Qed.

(* every `.emit(` site of src/ whose diagnostic is a literal error!/warning!/info! macro respects the
   discipline (gen/emitsites.py rescans the source on every run; the site that did not -- read_quad returning
   the token of a warning -- was repaired by fix: commit c0f0ed5) *)
Theorem C04_emit_sites_disciplined : sites_ok gen_emit_sites = true.
Proof. vm_compute. reflexivity. Qed.

(* (3) mapfile_tables_validated: every integer / padding letter of the signature parser has a size for which
       the blob decoder has a match arm, and on such signatures (arg0 first, only where the format has an
       extra argument) the decoder is Ok or Err for every blob *)
Theorem C04_mapfile_tables_validated :
  letters_ok gen_decode_int_sizes gen_decode_pad_sizes gen_int_letters gen_pad_letters = true /\
  forall str_ok blob es has_extra,
    encs_valid gen_decode_int_sizes gen_decode_pad_sizes es has_extra = true ->
    ok_or_err (decode_args str_ok gen_decode_int_sizes gen_decode_pad_sizes blob es has_extra).
Proof. split; [vm_compute; reflexivity|]. intros. now apply decode_total. Qed.

(* non-vacuity *)
Example C04_well_typed_nonvacuous :
  let vt := fun id : nat => match id with O => Some TInt | _ => Some TFloat end in
  let cs := fun id : nat => match id with O => Some (VInt 3) | _ => None end in
  let e := ETern (EBin (EVar None 0) Lt (ELitI 5)) (EBin (EVar (Some SgFloat) 0) Mul (ELitF 1073741824)) (EUn CastF (EBin (ELitI 7) Div (ELitI 2))) in
  tc gen_optable vt (fun _ => TInt) (fun _ => None) (fun _ => TInt) e = Some TFloat /\
  simplify gen_optable (fun _ _ => 0) cs e = Ok (ELitF 1086324736) /\
  simplify gen_optable (fun _ _ => 0) cs (EBin (ELitI 7) Div (EBin (EVar None 0) Sub (ELitI 3))) = Err E_DIV0.
Proof. repeat split; vm_compute; reflexivity. Qed.

Example C04_discipline_nonvacuous :
  let c := CFlag [CEmit SWarning DIgnored; CSeq (CEmit SInfo DIgnored) (CEmit SError DUsed); CRecover [COk; CEmit SError DUsed]] in
  disciplined c = true /\ run c = (false, [SWarning; SInfo; SError; SError]).
Proof. exact discipline_nonvacuous. Qed.
