(* Props/C03.v -- property C03: a successful compile never writes a file that differs from what was
   asked.  Only statements; every proof is [exact lemma] (or vm_compute on a generated table).
   [gen_formats] are the ten instruction formats that gen/instrheader.py reads out of the nine
   `impl InstrFormat` blocks (old ECL gives two: TH06 and later games). *)
From TV Require Import Base.I32 Model.Container Gen.InstrHeader
  Proofs.ContainerLE Proofs.Container Proofs.ContainerScript Proofs.ContainerStrings.
Open Scope Z_scope.

(* (0) little-endian codec: decoding the n bytes written for v gives v modulo 2^(8n) *)
Theorem C03_le_codec : forall n v, le_decode (le_encode n v) = v mod 2 ^ (8 * Z.of_nat n).
Proof. exact le_decode_encode. Qed.

(* (1) for every format table that passes [fmt_ok] and every instruction that fits it, the writer
       succeeds, writes instr_size bytes, and the reader gives back exactly that instruction (as a
       possible end marker where the format cannot tell) and the untouched remainder of the input *)
Theorem C03_instr_readback : forall f i rest, fmt_ok f = true -> fitsb f i = true ->
  exists bs, write_instr f i = Ok bs /\ bs <> [] /\ Z.of_nat (length bs) = instr_size f i /\
             read_instr f (bs ++ rest) = Ok (kind_of f i, rest).
Proof. exact instr_readback. Qed.

(* (2) script level, for the three ways the end of a script is found *)
Theorem C03_script_readback_terminal : forall f l rest start endo,
  fmt_ok f = true -> f_tkind f = TTerminal -> Forall (fun i => fitsb f i = true) l ->
  end_allows endo (start + size_seq f l) ->
  exists bs, write_instrs f l = Ok bs /\ read_instrs f (bs ++ rest) start endo = Ok l.
Proof. exact script_readback_terminal. Qed.

(* includes scripts whose last instruction is itself all zero: it is kept, because the end marker
   written after it is the one that sits at the end offset (or at end of input) *)
Theorem C03_script_readback_maybe : forall f l rest start endo,
  fmt_ok f = true -> f_tkind f = TMaybe -> Forall (fun i => fitsb f i = true) l ->
  (endo = Some (start + size_seq f l + Z.of_nat (length (term_bytes f))) \/ (endo = None /\ rest = [])) ->
  exists bs, write_instrs f l = Ok bs /\ read_instrs f (bs ++ rest) start endo = Ok l.
Proof. exact script_readback_maybe. Qed.

Theorem C03_script_readback_noterm : forall f l rest start,
  fmt_ok f = true -> f_tkind f = TNone -> Forall (fun i => fitsb f i = true) l ->
  exists bs, write_instrs f l = Ok bs /\ read_instrs f (bs ++ rest) start (Some (start + size_seq f l)) = Ok l.
Proof. exact script_readback_noterm. Qed.

(* (3) no silent change: in a format all of whose header fields are checked, an instruction (whose
       fields are in their Rust types, which sets nothing the format has no field for and leaves a
       field that the format overwrites with a literal at that literal) is written without a diagnostic
       exactly when it fits *)
Theorem C03_no_silent_change : forall f i,
  fmt_ok f = true -> all_checked f = true ->
  wf_instr f i = true -> unstored_default f i = true -> forced_default f i = true -> alen i <= ISIZE_MAX ->
  (is_ok (write_instr f i) = true <-> fitsb f i = true).
Proof. exact no_silent_change. Qed.

(* (4) the generated tables: every one is a well-formed table and every one is all-checked, so (1)-(3)
       hold for the ten instruction formats of the current source without a side condition on the table *)
Theorem C03_generated_tables_ok : forallb fmt_ok gen_formats = true.
Proof. vm_compute. reflexivity. Qed.

Theorem C03_generated_all_checked : forallb all_checked gen_formats = true.
Proof. vm_compute. reflexivity. Qed.

Theorem C03_no_silent_change_generated : forall f i, In f gen_formats ->
  wf_instr f i = true -> unstored_default f i = true -> forced_default f i = true -> alen i <= ISIZE_MAX ->
  (is_ok (write_instr f i) = true <-> fitsb f i = true).
Proof.
  intros f i Hf. apply no_silent_change.
  - assert (H := C03_generated_tables_ok). rewrite forallb_forall in H. auto.
  - assert (H := C03_generated_all_checked). rewrite forallb_forall in H. auto.
Qed.

Theorem C03_instr_readback_generated : forall f i rest, In f gen_formats -> fitsb f i = true ->
  exists bs, write_instr f i = Ok bs /\ bs <> [] /\ Z.of_nat (length bs) = instr_size f i /\
             read_instr f (bs ++ rest) = Ok (kind_of f i, rest).
Proof.
  intros f i rest Hf. apply instr_readback.
  assert (H := C03_generated_tables_ok). rewrite forallb_forall in H. auto.
Qed.

(* (5) string lists of stack-ECL files (ANIM/ECLI include lists, sub names): the padding written after the
       strings is a function of the number of bytes written, the list is a multiple of four bytes long, and
       reading gives the strings back together with the untouched remainder of the file *)
Theorem C03_string_list_readback : forall ss rest, Forall no_nul ss ->
  read_string_list (length ss) (write_string_list ss ++ rest) = Some (ss, rest).
Proof. exact string_list_readback. Qed.

Theorem C03_string_list_aligned : forall ss, Z.of_nat (length (write_string_list ss)) mod 4 = 0.
Proof. exact string_list_aligned. Qed.

(* non-vacuity: an ordinary instruction fits every generated format (with 12 argument bytes and,
   for TH06 ECL, the parameter mask the format forces) *)
Example C03_fits_inhabited :
  forallb (fun f => fitsb f (mkInstr 10 3 (if Z.eqb (f_hdr f) 12 then 255 else 0) (repeat 7 12)
                               (i_diff (f_default f)) 0 0 0)) gen_formats = true.
Proof. vm_compute. reflexivity. Qed.

(* the premises of (3)/(4) are satisfiable, and the iff is not vacuous: an out-of-range time label is
   refused with a diagnostic and does not fit; the same instruction with an in-range time is written *)
Example C03_no_silent_change_inhabited :
  let bad := mkInstr 70000 3 0 [1; 2; 3; 4] 255 0 0 0 in
  let good := mkInstr 700 3 0 [1; 2; 3; 4] 255 0 0 0 in
  wf_instr gen_anm_v2 bad = true /\ unstored_default gen_anm_v2 bad = true /\ forced_default gen_anm_v2 bad = true /\
  write_instr gen_anm_v2 bad = Err E_RANGE /\ fitsb gen_anm_v2 bad = false /\
  is_ok (write_instr gen_anm_v2 good) = true /\ fitsb gen_anm_v2 good = true.
Proof. vm_compute. repeat split; reflexivity. Qed.
