(* Props/C20.v -- property C20: a name used in a script compiles to the id its target has in the output file.
   Only statements; every proof is [exact lemma].  [gen_idtable] is regenerated from the sources on every run. *)
From Coq Require Import Permutation.
From TV Require Import Base.I32 Base.F32 Model.Ops Model.Expr Gen.OpTable Model.Ids Gen.Ids Proofs.Ids Model.IdsExpr Proofs.IdsExpr.
Open Scope Z_scope.

(* (1) ANM: a successful compile writes, for every use of a sprite name, the id that every sprite of that name has in the
       written sprite tables (explicit `id`, else previous + 1, continuing across entries); for every use of a script
       name its position in the file *)
Theorem C20_anm_name_value_is_table_value : forall inp tbl args,
  compile_anm gen_idtable inp = Ok (tbl, args) ->
  length tbl = length (concat (ai_entries inp)) /\
  (forall j n, nth_error (ai_uses inp) j = Some (USprite n) ->
     exists a, nth_error args j = Some a /\
       (exists i d, nth_error (concat (ai_entries inp)) i = Some d /\ sd_name d = n) /\
       (forall i d, nth_error (concat (ai_entries inp)) i = Some d -> sd_name d = n -> nth_error tbl i = Some a)) /\
  (forall j n, nth_error (ai_uses inp) j = Some (UScript n) ->
     exists i, nth_error (ai_scripts inp) i = Some n /\ nth_error args j = Some (u32 (Z.of_nat i)) /\
               forall i', nth_error (ai_scripts inp) i' = Some n -> i' = i).
Proof. exact anm_name_value_is_table_value. Qed.

(* (1') the same at the level of the source: sprite ids are constant expressions over `const` items.  The id written is
        the expression after const_simplify (Model/Expr.v: simplify), the value of the name is the DFS const evaluator
        (ceval) on `<id expr> + i`; both are the C11 models over the generated operator table, and they agree: *)
Theorem C20_id_expr_evaluators_agree : forall libm fuel dl cache,
  NoDup (map fst dl) ->
  eval_deferred gen_optable libm (assoc dl) fuel (map fst dl) [] = Ok cache ->
  forall e w k v,
  written_value gen_optable libm cache e = Ok w ->
  const_value gen_optable libm fuel dl e k = Ok v ->
  v = wrap32 (w + k).
Proof. exact two_evaluators_agree. Qed.

(* sprite and script names share one namespace (two enums).  [use_ok] (Proofs/IdsExpr.v) spells out what each kind of use
   must be: an argument typed by its signature (`n`: XSprite, `N`: XScript) is the id of every sprite of that name in the
   written table / the script's unique position, looked up in the signature's enum first and in the other enum otherwise;
   an untyped use (XPlain: `const int W = name;`, a plain int argument) of a name that is both a sprite and a script never
   compiles (~ (is_sprite /\ is_script)), and otherwise is the value of its only owner *)
Theorem C20_anm_src_name_value_is_table_value : forall libm fuel inp tbl nums args,
  NoDup (map fst (as_consts inp)) ->
  compile_anm_src gen_optable libm fuel gen_idtable inp = Ok (tbl, nums, args) ->
  length tbl = length (concat (as_entries inp)) /\
  forall j u, nth_error (as_uses inp) j = Some u ->
    exists a, nth_error args j = Some a /\
      match u with
      | XSprite n => (is_sprite (concat (as_entries inp)) n -> sprite_target (concat (as_entries inp)) tbl n a) /\
                     (~ is_sprite (concat (as_entries inp)) n -> script_target (map sc_name (as_scripts inp)) n a)
      | XScript n => (is_script (map sc_name (as_scripts inp)) n -> script_target (map sc_name (as_scripts inp)) n a) /\
                     (~ is_script (map sc_name (as_scripts inp)) n -> sprite_target (concat (as_entries inp)) tbl n a)
      | XPlain n => ~ (is_sprite (concat (as_entries inp)) n /\ is_script (map sc_name (as_scripts inp)) n) /\
                    (is_sprite (concat (as_entries inp)) n -> sprite_target (concat (as_entries inp)) tbl n a) /\
                    (is_script (map sc_name (as_scripts inp)) n -> script_target (map sc_name (as_scripts inp)) n a)
      end.
Proof. exact anm_src_name_value_is_table_value. Qed.

(* a name owned by both enums in an untyped position is an error *)
Theorem C20_cross_enum_plain_use_is_error : forall consts names n v i,
  lookup_const n consts = Some v -> index_of n names = Some i ->
  resolve_use consts names (XPlain n) = Err E_AMBIG_ENUM.
Proof. intros consts names n v i H1 H2. unfold resolve_use. now rewrite H1, H2. Qed.

(* the rule itself: the constants gather_sprite_id_exprs defines are the ids write_entry assigns *)
Theorem C20_sprite_const_is_written_id : forall wraps decls w,
  written_ids wraps 1 0 decls = Ok w ->
  exists cs, const_ids SeqAdd 0 0 0 decls = Ok cs /\ map (fun p => u32 (snd p)) cs = w /\ map fst cs = map sd_name decls.
Proof. intros wraps decls w H. exact (const_vs_written wraps decls 0 0 0 w eq_refl H). Qed.

(* (2) one name with two different values, or a name that does not exist, is an error *)
Theorem C20_anm_ambiguous_or_missing_is_error : forall inp consts,
  has_dup (ai_scripts inp) = false ->
  const_ids SeqAdd 0 0 0 (concat (ai_entries inp)) = Ok consts ->
  (consistent consts = false \/ exists n, In (USprite n) (ai_uses inp) /\ lookup_const n consts = None) ->
  exists e, compile_anm gen_idtable inp = Err e.
Proof. exact anm_ambiguous_or_missing_is_error. Qed.

(* (3) defect #18 (a sprite id of 0xFFFFFFFF made `sprite_id + 1` overflow in write_entry; repaired in /repo by b32efe8,
       after which gen/ids.py emits it_writer_wraps := true): the writer of the current tree never overflows; for the
       non-wrapping writer the bound below is the guard *)
Theorem C20_sprite_writer_is_total : forall decls, exists w, written_ids (it_writer_wraps gen_idtable) 1 0 decls = Ok w.
Proof. exact sprite_writer_is_total. Qed.

Theorem C20_sprite_ids_below_bound_no_overflow : forall B decls,
  0 <= B -> B + Z.of_nat (length decls) < two32 ->
  (forall d e, In d decls -> sd_id d = Some e -> 0 <= e < B) ->
  exists w, written_ids false 1 0 decls = Ok w.
Proof. exact sprite_ids_below_bound_no_overflow. Qed.

(* (4) ANM scripts, old-ECL subs, STD objects: a reference is the position in file order; duplicates and unknown
       names are errors *)
Theorem C20_position_value_is_table_index : forall names uses args,
  compile_positions PosIndex names uses = Ok args ->
  forall j u, nth_error uses j = Some u ->
    exists i, nth_error names i = Some u /\ nth_error args j = Some (Z.of_nat i) /\
              forall i', nth_error names i' = Some u -> i' = i.
Proof. exact position_value_is_table_index. Qed.

Theorem C20_position_rules_are_index :
  it_script_const gen_idtable = PosIndex /\ it_sub_const gen_idtable = PosIndex /\ it_std_object gen_idtable = PosIndex.
Proof. repeat split; reflexivity. Qed.

Theorem C20_missing_or_duplicate_is_error : forall names uses,
  (has_dup names = true \/ exists u, In u uses /\ ~ In u names) ->
  exists e, compile_positions PosIndex names uses = Err e.
Proof. exact missing_or_duplicate_is_error. Qed.

(* (5) MSG: a table entry naming a script holds that script's offset; densify undoes sparsify *)
Theorem C20_msg_name_value_is_table_value : forall hf s scripts tbl,
  compile_msg gen_idtable hf s scripts = Ok tbl ->
  exists dense, densify gen_idtable s = Ok dense /\ length tbl = length dense /\
  forall i e, nth_error dense i = Some e ->
    exists o, nth_error tbl i = Some (o, if hf then te_flags e else 0) /\
      match te_script e with
      | None => o = 0
      | Some n => exists k size, nth_error scripts k = Some (n, size) /\
                    o = msg_header_size hf (length dense) + sum_sizes (firstn k scripts) /\
                    forall k' size', nth_error scripts k' = Some (n, size') -> k' = k
      end.
Proof. exact msg_name_value_is_table_value. Qed.

Theorem C20_densify_sparsify : forall t, densify gen_idtable (sparsify t) = Ok t.
Proof. exact densify_sparsify. Qed.

(* (6) old-ECL timelines: explicit indices are kept, automatic ones count 0,1,2,.. and an accepted numbering is a
       permutation of 0..n-1 *)
Theorem C20_timeline_indices_are_a_permutation : forall numbers idxs,
  timeline_indices gen_idtable numbers = Ok idxs ->
  Permutation idxs (seq 0 (length numbers)) /\
  forall i, match nth_error numbers i with
            | Some (Some z) => 0 <= z /\ nth_error idxs i = Some (Z.to_nat z)
            | Some None => nth_error idxs i = Some (autos_before numbers i)
            | None => True
            end.
Proof. exact timeline_indices_are_a_permutation. Qed.

(* non-vacuity *)
Example C20_anm_instance :
  compile_anm gen_idtable
    {| ai_entries := [[ {| sd_name := 0; sd_id := None |}; {| sd_name := 1; sd_id := Some 10 |}; {| sd_name := 2; sd_id := None |} ];
                      [ {| sd_name := 3; sd_id := None |}; {| sd_name := 0; sd_id := Some 0 |}; {| sd_name := 4; sd_id := Some 5 |} ]];
       ai_scripts := [0; 1; 2]%nat;
       ai_uses := [USprite 2; UScript 1; USprite 3; USprite 0; USprite 4; UScript 0; UScript 2; USprite 1] |}
  = Ok ([0; 10; 11; 12; 0; 5], [11; 1; 12; 0; 5; 0; 2; 10]).
Proof. vm_compute. reflexivity. Qed.

(* `const int K = 7; const int NEG = -3;`  sprites: a {id: (NEG ? K : 20)}, b {}, a' = a again with id 7 -- and uses *)
Example C20_anm_src_instance :
  compile_anm_src gen_optable (fun _ _ => 0) 50 gen_idtable
    {| as_consts := [(0%nat, ELitI 7); (1%nat, EUn Neg (ELitI 3))];
       as_entries := [[ {| ss_name := 0; ss_id := Some (ETern (EVar None 1%nat) (EVar None 0%nat) (ELitI 20)) |}; {| ss_name := 1; ss_id := None |} ];
                      [ {| ss_name := 0; ss_id := Some (ELitI 7) |} ]];
       as_scripts := [ {| sc_name := 0; sc_number := None |}; {| sc_name := 1; sc_number := Some 10 |}; {| sc_name := 2; sc_number := None |} ];
       as_uses := [XSprite 0; XSprite 1; XScript 2; XPlain 2; XScript 0] |}
  = Ok ([7; 8; 7], [0; 10; 11], [7; 8; 2; 2; 0]).
Proof. vm_compute. reflexivity. Qed.

(* name 0 is both sprite 0 (id 7) and script 0: typed uses resolve, the untyped one is an error *)
Example C20_cross_enum_instance :
  let inp u := {| as_consts := []; as_entries := [[ {| ss_name := 0; ss_id := Some (ELitI 7) |} ]; [ {| ss_name := 0; ss_id := Some (ELitI 7) |} ]];
                  as_scripts := [ {| sc_name := 5; sc_number := None |}; {| sc_name := 0; sc_number := None |} ]; as_uses := u |} in
  compile_anm_src gen_optable (fun _ _ => 0) 50 gen_idtable (inp [XSprite 0; XScript 0]) = Ok ([7; 7], [0; 1], [7; 1]) /\
  compile_anm_src gen_optable (fun _ _ => 0) 50 gen_idtable (inp [XPlain 0]) = Err E_AMBIG_ENUM.
Proof. split; vm_compute; reflexivity. Qed.

Example C20_msg_instance :
  compile_msg gen_idtable false {| sp_len := 4; sp_tbl := [(3%nat, {| te_script := Some 1%nat; te_flags := 0 |})];
                                   sp_default := {| te_script := Some 0%nat; te_flags := 0 |} |} [(1%nat, 12); (0%nat, 16)]
  = Ok [(32, 0); (32, 0); (32, 0); (20, 0)].
Proof. vm_compute. reflexivity. Qed.

Example C20_timeline_instance :
  timeline_indices gen_idtable [Some 1; None; Some 2; None] = Err E_TIMELINE /\
  timeline_indices gen_idtable [Some 1; None; Some 3; None] = Err E_TIMELINE /\
  timeline_indices gen_idtable [Some 2; None; Some 3; None] = Ok [2; 0; 3; 1]%nat.
Proof. repeat split; vm_compute; reflexivity. Qed.
