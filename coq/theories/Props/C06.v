(* Props/C06.v -- property C06: turning blocks into labels and jumps preserves behaviour.
   Only statements; every proof is [exact lemma].

   [run_struct L fuel (Lax tr)] is AstVm on the nested program (tr: does vm.rs assign `time` at
   the fall-through points -- read out of the source by gen/desugar_rules.py), [run_flat] is AstVm on the flat
   statement list that [desugar] (passes::desugar_blocks::run) produces; a state carries script
   time, real time, the instruction log (with real times) and the registers.  [Strict tg fl] is
   AstVm instrumented with run-time guards (Model/Blocks.v: the two `times` guards, and for
   [tg = true] the time guard); the theorems say exactly
   when the two interpreters agree, and that outside the guards they do not. *)
From TV Require Import Base.I32 Model.Blocks Model.BlocksInst Gen.DesugarRules
  Proofs.BlocksStatic Proofs.BlocksSim Proofs.BlocksMono Proofs.BlocksInst.
Open Scope Z_scope.

(* the three facts about the expression language that block desugaring relies on *)
Definition lang_laws (L : lang) : Prop :=
  (forall e n r, const_int L e = Some n -> eval_int L e r = Ok (n, r)) /\     (* a literal evaluates to itself *)
  (forall e r z r', eval_int L e r = Ok (z, r') -> in_i32 z) /\                (* values are i32 *)
  (forall v z r, in_i32 z -> rd L v (wr L v z r) = Ok z).                      (* read after write *)

(* (1) statement times are unchanged: the original statements, in order, with the times the time
       pass gives them, are the same before and after desugaring (any flavour, any gensym start),
       and the running time after the generated code is the running time after the block, so
       every generated label gets the time its position implies *)
Theorem C06_times_preserved : forall (L : lang) fl (p : block L) g t,
  code_atoms L (fst (desugar_stmts L fl p g)) t = block_atoms L p t
  /\ code_after L (fst (desugar_block L fl p g)) t = block_after L p t.
Proof.
  exact (fun L fl p g t => conj (proj1 (proj2 (atoms_preserved_all L fl)) p g t) (times_preserved_block L fl p g t)).
Qed.

(* (2) forward simulation, all constructs, unbounded nesting and iteration counts, every initial
       state: a terminating guarded run of the nested program is reproduced exactly by the flat
       program -- same final time, real time, instruction log and registers; the `times`
       temporaries [tm'] live outside the register file.  [tg = true]: guarded against the three
       conditions; [tg = false]: AstVm without the assignments at fall-through points, guarded
       against the two `times` conditions only *)
Theorem C06_desugar_correct : forall (L : lang), lang_laws L ->
  forall tg fl (p : block L) st fuel st',
    wf_prog L p = true ->
    run_struct L fuel (Strict tg fl) p st = Ok st' ->
    exists fuel' tm', run_flat L fuel' (desugar L fl p) st = Ok (st', tm').
Proof.
  exact (fun L H tg fl p st fuel st' => desugar_correct_strict L tg fl (proj1 H) (proj1 (proj2 H)) (proj2 (proj2 H)) p st fuel st').
Qed.

(* (3) the flat interpreter is a function: whatever fuel, a finished flat run has that result *)
Theorem C06_flat_deterministic : forall (L : lang) k k' env t c s r r',
  frun L k env t c s = Ok r -> frun L k' env t c s = Ok r' -> r = r'.
Proof. exact frun_det. Qed.

(* (4) a guarded run is an AstVm run: with the time guard, of vm.rs as found and of the patched
       vm.rs alike; without it, of the patched vm.rs *)
Theorem C06_strict_is_astvm : forall (L : lang) fl tg tr, tg = true \/ tr = false ->
  forall (p : block L) st fuel st',
  run_struct L fuel (Strict tg fl) p st = Ok st' -> run_struct L fuel (Lax tr) p st = Ok st'.
Proof. exact strict_lax. Qed.

(* (5) the concrete integer language used by the correspondence satisfies the laws *)
Theorem C06_IL_laws : lang_laws IL.
Proof. exact (conj IL_const (conj IL_i32 IL_rw)). Qed.

Theorem C06_desugar_correct_IL : forall tg fl (p : block IL) st fuel st',
  wf_prog IL p = true ->
  run_struct IL fuel (Strict tg fl) p st = Ok st' ->
  exists fuel' tm', run_flat IL fuel' (desugar IL fl p) st = Ok (st', tm').
Proof. exact desugar_correct_IL. Qed.

(* (6) the statement without the guards is false, for vm.rs as found ([tr = true]) and with the
       time-reset patch ([tr = false]) alike: AstVm's nested interpreter and the jump form differ
       (a) [tr = true only] after a time label that goes backwards, (b) for a negative `times`
       count, (c) for a named counter driven below zero under the `--c > 0` flavour *)
Definition C06_full (tr : bool) : Prop :=
  forall (L : lang), lang_laws L ->
  forall fl (p : block L) st fuel st',
    wf_prog L p = true ->
    run_struct L fuel (Lax tr) p st = Ok st' ->
    exists fuel' tm', run_flat L fuel' (desugar L fl p) st = Ok (st', tm').

Theorem C06_full_refuted_time_reset : refuted true PredecNeZero cex_time (init 0 []).
Proof. exact cex_time_reset. Qed.
Theorem C06_full_refuted_neg_count : forall tr, refuted tr PredecGtZero cex_negcount (init 0 [(0, -1)]).
Proof. exact cex_neg_count. Qed.
Theorem C06_full_refuted_neg_counter : forall tr, refuted tr PredecGtZero cex_negcounter (init 0 []).
Proof. exact cex_neg_counter. Qed.

Theorem C06_full_refuted : forall tr, ~ C06_full tr.
Proof. exact full_refuted. Qed.

(* (6') the time guard is implied by a static condition: if no time label goes backwards
        ([mono_block]) and the run starts at time <= 0, the guarded run never stops at the time guard
        -- whatever the fuel; so for such programs only the two `times` guards remain *)
Theorem C06_monotone_no_time_reset : forall (L : lang),
  (forall e r, eval_int L e r <> Err E_TIMERESET) ->
  (forall x rt r, exec L x rt r <> Err E_TIMERESET) ->
  (forall v r, rd L v r <> Err E_TIMERESET) ->
  forall fl (p : block L) st fuel,
    wf_prog L p = true -> mono_block L p 0 = true -> s_time st <= 0 ->
    run_struct L fuel (Strict true fl) p st <> Err E_TIMERESET.
Proof. exact (fun L H1 H2 H3 fl => monotone_no_time_reset L fl H1 H2 H3). Qed.

Theorem C06_monotone_no_time_reset_IL : forall fl (p : block IL) st fuel,
  wf_prog IL p = true -> mono_block IL p 0 = true -> s_time st <= 0 ->
  run_struct IL fuel (Strict true fl) p st <> Err E_TIMERESET.
Proof. exact monotone_no_time_reset_IL. Qed.

(* (7) tie 1: the `times` zero-test rule ("unless the count is a non-zero constant"), the flavour
       used when the format has no counting jump, and the order of preference between the two
       flavours, as read out of the Rust source on this run, are the ones the model uses *)
Theorem C06_rules_as_modelled :
  gen_rules_recognised = true /\
  (forall c, gen_zero_test c = zero_test c) /\
  gen_fallback = PredecNeZero /\
  gen_pref_order = [PredecNeZero; PredecGtZero].
Proof. exact rules_as_modelled. Qed.

(* stretch, not proved: divergence is preserved as well *)
Definition C06_preserves_divergence : Prop :=
  forall (L : lang), lang_laws L ->
  forall fl (p : block L) st,
    wf_prog L p = true ->
    (forall fuel, run_struct L fuel (Strict true fl) p st = OutOfFuel) ->
    forall fuel', run_flat L fuel' (desugar L fl p) st = OutOfFuel.

(* non-vacuity: a program with every construct nested (Proofs/BlocksInst.v: demo) is well formed
   and its guarded run terminates with 11 logged calls, under both flavours *)
Example C06_demo_wf : wf_prog IL demo = true.
Proof. exact demo_wf. Qed.
Example C06_demo_runs :
  match run_struct IL 200 (Strict true PredecNeZero) demo (init 0 [(0, 2)]) with
  | Ok st' => Nat.eqb (length (s_log st')) 11 | _ => false end = true
  /\ match run_struct IL 200 (Strict true PredecGtZero) demo (init 0 [(0, 2)]) with
     | Ok st' => Nat.eqb (length (s_log st')) 11 | _ => false end = true.
Proof. exact (conj demo_runs_ne demo_runs_gt). Qed.
