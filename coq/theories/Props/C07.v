(* Props/C07.v -- property C07: recovering loops and conditionals while decompiling preserves
   behaviour.  A (partially) structured program means its flattening into labels and jumps
   (desugar_blocks); [canon_of] is that flattening with labels resolved to the position and time they
   denote, bookends and labels dropped, `unless c` normalised to `if !c`.  Only statements here; every
   proof is [exact lemma].  The generated tables (Gen/StructTable.v: negate_comparison, pass order, which
   preconditions decompile_loop.rs checks) enter through [gen_negcmp], [gen_guards], [gen_pass_order]. *)
From TV Require Import Base.I32 Model.Structure Gen.StructTable
  Proofs.StructBasics Proofs.StructRel Proofs.StructTop.
Open Scope nat_scope.

(* the faithful compiler setting: `unless (--x <= 0) goto` does not compile *)
Definition FAITHFUL : bool := false.
Definition canon (p : list stmt) : list citem := canon_of gen_negcmp FAITHFUL p.
Definition structure (f : list stmt) : list stmt := structure_with gen_negcmp gen_guards gen_pass_order f.

(* The full statement: for every flat, well-labelled instruction stream, the reconstructed program
   flattens back to the same canonical stream (same instructions, times, difficulty masks, jump
   targets as (position, time), explicit time arguments). *)
Definition C07_full : Prop :=
  forall f, is_flat f = true -> well_labelled f -> canon (structure f) = canon f.

Theorem C07_structure_canon : C07_full.
Proof. exact C07_all_proof. Qed.

(* "never moves a label that something else still jumps to": every label still mentioned after the
   reconstruction denotes the same (position, time) as in the input stream *)
Theorem C07_referenced_labels_keep_position_and_time :
  forall f, is_flat f = true -> well_labelled f ->
  forall l, In l (refs (structure f)) -> lookup (lenv st0 (structure f)) l = lookup (lenv st0 f) l.
Proof. exact referenced_labels_all. Qed.

(* "never captures a jump with an explicit time argument": the explicit time arguments, instruction by
   instruction, are those of the input (jumps generated for loops / cond chains / breaks carry none) *)
Theorem C07_explicit_time_jumps_untouched :
  forall f, is_flat f = true -> well_labelled f ->
  map explicit_time (canon (structure f)) = map explicit_time (canon f).
Proof. exact explicit_time_all. Qed.

(* "never alters time labels": every instruction keeps the time the time labels give it *)
Theorem C07_time_labels_unchanged :
  forall f, is_flat f = true -> well_labelled f ->
  map item_time (canon (structure f)) = map item_time (canon f).
Proof. exact item_times_all. Qed.

(* The defect this check found (fixed in truth 9533770, which added the guard g_if_cnt): without that guard a
   forward count jump `if (--x > 0) goto L` became `if (--x <= 0) { ... }`, which no format can compile, and the
   canonical stream of the reconstruction differed from the input's.  Independently of the guard, the
   statement holds for every stream whose reconstruction has no such cond block: *)
Theorem C07_structure_canon_without_count_chains :
  forall f, is_flat f = true -> well_labelled f -> no_cnt_chain (structure f) = true ->
  canon (structure f) = canon f.
Proof. exact C07_full_proof. Qed.

Theorem C07_count_jump_negation_refuted :
  g_if_cnt gen_guards = false ->     (* held of the source before 9533770; vacuous now *)
  exists f, is_flat f = true /\ well_labelled f /\ canon (structure f) <> canon f.
Proof. exact count_jump_negation_refuted. Qed.

(* each pass on its own, over partially structured programs (the loop pass only ever sees flat input) *)
Theorem C07_loop_pass_preserves : forall f, is_flat f = true -> well_labelled f ->
  well_labelled (loop_pass gen_guards f) /\ canon (loop_pass gen_guards f) = canon f.
Proof. exact loop_pass_gen. Qed.

Theorem C07_break_pass_preserves : forall p, well_labelled p ->
  well_labelled (break_pass gen_guards p) /\ canon (break_pass gen_guards p) = canon p.
Proof. exact break_pass_gen. Qed.

Theorem C07_unused_labels_pass_preserves : forall p, well_labelled p ->
  well_labelled (unused_pass p) /\ canon (unused_pass p) = canon p.
Proof. exact unused_pass_gen. Qed.

(* the cond-chain pass, for a compiler that can lower what the pass negates (canon_of _ true) *)
Theorem C07_if_else_pass_preserves : forall p, well_labelled p ->
  well_labelled (ifelse_pass gen_negcmp gen_guards p) /\
  canon_of gen_negcmp true (ifelse_pass gen_negcmp gen_guards p) = canon_of gen_negcmp true p.
Proof. exact ifelse_pass_gen. Qed.

(* tie 1 side conditions *)
Theorem C07_pass_order : gen_pass_order = [PLoop; PIfElse; PBreak; PUnused].
Proof. exact gen_pass_order_ok. Qed.
Theorem C07_negate_comparison_involutive : forall op op', gen_negcmp op = Some op' -> gen_negcmp op' = Some op.
Proof. exact gen_negcmp_involutive. Qed.
Theorem C07_essential_guards_present : essential_guards gen_guards = true /\ g_if_cnt gen_guards = true.
Proof. exact (conj gen_guards_essential gen_if_cnt). Qed.

(* non-vacuity: a stream with a do-while loop, an if/else chain, a break, an explicit-time jump and a dropped
   label satisfies the hypotheses and is really restructured *)
Example C07_nonvacuous :
  is_flat example_stream = true /\ well_labelled example_stream /\ no_cnt_chain (structure example_stream) = true /\
  structure example_stream = example_structured.
Proof. exact example_ok. Qed.

Print Assumptions C07_structure_canon.
Print Assumptions C07_count_jump_negation_refuted.
Print Assumptions C07_referenced_labels_keep_position_and_time.
