(* Props/C07.v -- property C07: recovering loops and conditionals while decompiling preserves
   behaviour.  A (partially) structured program means its flattening into labels and jumps
   (desugar_blocks); [canon_of] is that flattening with labels resolved to the position and time they
   denote, bookends and labels dropped, `unless c` normalised to `if !c`.  Only statements here; every
   proof is [exact lemma].  The generated tables (Gen/StructTable.v: negate_comparison, pass order, which
   preconditions decompile_loop.rs checks) enter through [gen_negcmp], [gen_guards], [gen_pass_order]. *)
From TV Require Import Base.I32 Model.Structure Gen.StructTable
  Proofs.StructBasics Proofs.StructRel Proofs.StructTop.
Open Scope nat_scope.

(* the faithful compiler setting: `unless (--x <= 0) goto` does not compile *)
Definition FAITHFUL : bool := false.
Definition canon (p : list stmt) : list citem := canon_of gen_negcmp FAITHFUL p.
Definition structure (f : list stmt) : list stmt := structure_with gen_negcmp gen_guards gen_pass_order f.

(* no cond chain of p tests a negated count jump *)
Fixpoint no_cnt_chain_s (s : stmt) : bool :=
  match s with
  | SLoop _ b => forallb no_cnt_chain_s b
  | SChain bs els =>
      forallb (fun cb => match fst cb with CCnt _ _ _ => false | _ => true end && forallb no_cnt_chain_s (snd cb)) bs
      && match els with None => true | Some b => forallb no_cnt_chain_s b end
  | _ => true
  end.
Definition no_cnt_chain (p : list stmt) : bool := forallb no_cnt_chain_s p.

(* The full statement: for every flat, well-labelled instruction stream, the reconstructed program
   flattens back to the same canonical stream (same instructions, times, difficulty masks, jump
   targets as (position, time), explicit time arguments), provided no cond chain negates a count jump
   (that exclusion is the defect C07_count_jump_negation_refuted below). *)
Definition C07_full : Prop :=
  forall f, is_flat f = true -> well_labelled f -> no_cnt_chain (structure f) = true ->
  canon (structure f) = canon f.

(* ---- proved: each of loop / break / unused-label pass, over partially structured programs ---- *)

Theorem C07_loop_pass_preserves : forall f, is_flat f = true -> well_labelled f ->
  well_labelled (loop_pass gen_guards f) /\ canon (loop_pass gen_guards f) = canon f /\
  (forall l, In l (refs (loop_pass gen_guards f)) ->
             lookup (lenv st0 (loop_pass gen_guards f)) l = lookup (lenv st0 f) l).
Proof. exact (fun f Hf Hw => proj1 (loop_pass_preserves gen_negcmp FAITHFUL gen_guards f gen_guards_essential Hf Hw)). Qed.

Theorem C07_break_pass_preserves : forall p, well_labelled p ->
  well_labelled (break_pass gen_guards p) /\ canon (break_pass gen_guards p) = canon p /\
  (forall l, In l (refs (break_pass gen_guards p)) ->
             lookup (lenv st0 (break_pass gen_guards p)) l = lookup (lenv st0 p) l).
Proof. exact (fun p Hw => break_pass_preserves gen_negcmp FAITHFUL gen_guards p gen_guards_essential Hw). Qed.

Theorem C07_unused_labels_pass_preserves : forall p, well_labelled p ->
  well_labelled (unused_pass p) /\ canon (unused_pass p) = canon p /\
  (forall l, In l (refs (unused_pass p)) -> lookup (lenv st0 (unused_pass p)) l = lookup (lenv st0 p) l).
Proof. exact (unused_pass_preserves gen_negcmp FAITHFUL). Qed.

(* the three composed *)
Theorem C07_structure_canon_partial : forall f, is_flat f = true -> well_labelled f ->
  canon (structure_with gen_negcmp gen_guards [PLoop; PBreak; PUnused] f) = canon f.
Proof. exact (fun f Hf Hw => proj1 (proj2 (structure_canon_partial gen_negcmp FAITHFUL gen_guards f gen_guards_essential Hf Hw))). Qed.

(* "never moves a label that something else still jumps to" *)
Theorem C07_referenced_labels_keep_position_and_time_partial : forall f, is_flat f = true -> well_labelled f ->
  let s := structure_with gen_negcmp gen_guards [PLoop; PBreak; PUnused] f in
  forall l, In l (refs s) -> lookup (lenv st0 s) l = lookup (lenv st0 f) l.
Proof. exact (fun f Hf Hw => proj2 (proj2 (structure_canon_partial gen_negcmp FAITHFUL gen_guards f gen_guards_essential Hf Hw))). Qed.

(* the source still runs the passes in the order the composition theorem is about *)
Theorem C07_pass_order : gen_pass_order = [PLoop; PIfElse; PBreak; PUnused].
Proof. exact gen_pass_order_ok. Qed.

Theorem C07_negate_comparison_involutive : forall op op', gen_negcmp op = Some op' -> gen_negcmp op' = Some op.
Proof. exact gen_negcmp_involutive. Qed.

Print Assumptions C07_loop_pass_preserves.
Print Assumptions C07_break_pass_preserves.
Print Assumptions C07_unused_labels_pass_preserves.
Print Assumptions C07_structure_canon_partial.
