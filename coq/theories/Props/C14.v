(* Props/C14.v -- property C14: difficulty labels and switches select exactly the stated difficulties.
   Only statements; every proof is [exact lemma]. *)
From TV Require Import Base.I32 Gen.DiffFlags Model.Diff Proofs.Diff.
From Coq Require Import NArith.
Open Scope N_scope.

(* (0) the constants read from src/context/diff_flags.rs, llir/lower.rs and diff_switch_utils.rs satisfy the side conditions the proofs use
       (8 bits, 8 distinct built-in names, `-` `+` `*` are not flag-name characters, define_flag
       performs exactly the three updates the model performs, elaborate_diff_switches / select_diff_switch_case /
       explicit_case_bitmasks have the modelled text) *)
Theorem C14_table_ok : table_ok = true.
Proof. exact table_is_ok. Qed.

(* (1) label round trip, for ALL flag definitions satisfying the invariant and all 256 masks:
       the mask prints (no panic) as a label that parses back to the same mask *)
Theorem C14_label_roundtrip : forall fd, Consistent fd -> forall m, m <= 255 ->
  exists s, mask_to_label fd m = Ok s /\ parse_label fd s = Ok m.
Proof. exact label_roundtrip_sec. Qed.

(* (2) the invariant holds for the built-in definitions and is preserved by every definition that
       does not give a bit a name that another bit currently prints as *)
Theorem C14_default_consistent : exists fd, default_defs = Ok fd /\ Consistent fd.
Proof. exact default_defs_consistent. Qed.

Theorem C14_define_preserves_consistent : forall fd c i e fd',
  Consistent fd -> no_repoint fd c i -> define_flag fd c i e = Ok fd' -> Consistent fd'.
Proof. exact define_preserves_consistent. Qed.

Theorem C14_mapfile_ops_preserve_consistent : forall ops fd fd',
  Consistent fd -> ops_no_repoint fd ops -> apply_mapfile_ops fd ops = Ok fd' -> Consistent fd'.
Proof. exact mapfile_ops_preserve_consistent. Qed.

(* (3) known defect #10 (DESIGN 6) and its fix (fixes/c14-flag-name-repoint.diff).  gen/diffflags.py reads from
       define_flag_from_mapfile whether it rejects a name that another flag currently prints as
       (gen_repoint_check).  While it does not, the round trip is refuted -- `0 E-` then `4 E-`: mask 0x01
       prints as "E", which parses to bit 4.  Once it does, the round trip holds in every state a mapfile
       can reach from the built-in definitions. *)
Theorem C14_label_roundtrip_all_defs_refuted : gen_repoint_check = false ->
  exists fd0 fd m s, default_defs = Ok fd0 /\ apply_mapfile_ops fd0 dup_ops = Ok fd /\ m <= 255 /\
    mask_to_label fd m = Ok s /\ parse_label fd s <> Ok m.
Proof. exact label_roundtrip_all_defs_refuted. Qed.

Theorem C14_label_roundtrip_reachable : gen_repoint_check = true -> forall ops fd0 fd,
  default_defs = Ok fd0 -> apply_mapfile_ops fd0 ops = Ok fd ->
  forall m, m <= 255 -> exists s, mask_to_label fd m = Ok s /\ parse_label fd s = Ok m.
Proof. exact label_roundtrip_reachable. Qed.

(* (4) switch elaboration, flat switches (every switch of the statement has n cases, 2 <= n <= 8, first
       case present -- what the parser and validate_difficulty guarantee): on every difficulty d the
       switches have a position for and the label permits (bit d of label mask /\ difficulty_bits),
       exactly one emitted copy applies, it carries the values the switches mean at d, and every copy
       keeps the default-on flag bits exactly as the label set them *)
Theorem C14_elaborate_exactly_one : forall fd m args n d,
  fd_enable fd <= 255 -> m <= 255 -> (2 <= n <= 8)%nat ->
  (forall a, In a args -> well_formed_arg n a = true /\ flat_arg a = true) -> has_switch args = true ->
  (d < n)%nat -> bit (N.land m (difficulty_bits fd)) d = true ->
  exists copies mask vs, elaborate fd m args = Ok copies /\
    filter (fun c => bit (fst c) d) copies = [(mask, vs)] /\
    eval_args args d = Ok vs /\
    (forall c, In c copies -> N.land (fst c) (aux_bits fd) = N.land m (aux_bits fd)).
Proof. exact elaborate_exactly_one_lem. Qed.

(* (5) defect found by this check and its fix (fixes/c14-nested-diff-switch.diff): a switch nested inside a
       switch case.  gen/diffflags.py reads from elaborate_diff_switches whether explicit positions are
       collected through nested switches (gen_nested_meta).  While they are not, `ins((1:2:3:4):::)` gets
       one copy for difficulties 0-3 carrying the value of difficulty 0, although it means 2 at difficulty 1;
       once they are, the same statement gets the four copies it means. *)
Theorem C14_elaborate_nested_refuted : gen_nested_meta = false ->
  exists fd copies, default_defs = Ok fd /\ elaborate fd 255 [nested_arg] = Ok copies /\
    filter (fun c => bit (fst c) 1) copies = [(15, [1%Z])] /\ meaning nested_arg 1 = Ok 2%Z.
Proof. exact elaborate_nested_refuted. Qed.

Theorem C14_elaborate_nested_fixed_example : gen_nested_meta = true ->
  exists fd, default_defs = Ok fd /\
    elaborate fd 255 [nested_arg] = Ok [(1, [1%Z]); (2, [2%Z]); (4, [3%Z]); (8, [4%Z])].
Proof. exact elaborate_nested_fixed_example. Qed.

(* non-vacuity *)
Example C14_ex_roundtrip_th08_style :
  (* `4 a+` .. `7 d+` (default-on aux flags), names E N H L for 0..3 *)
  exists fd0 fd, default_defs = Ok fd0 /\
   apply_mapfile_ops fd0 [(0%Z, [69; 45]); (1%Z, [78; 45]); (2%Z, [72; 45]); (3%Z, [76; 45]); (4%Z, [97; 43]); (5%Z, [98; 43])] = Ok fd /\
   consistentb fd = true /\ mask_to_label fd 0x13 = Ok [69; 78; 45; 98] /\ parse_label fd [69; 78; 45; 98] = Ok 0x13.
Proof. eexists. eexists. split; [vm_compute; reflexivity|]. split; [vm_compute; reflexivity|]. repeat split; vm_compute; reflexivity. Qed.

Example C14_ex_elaborate :
  (* {"*"}: ins((10:20::), (5::7:)) under the built-in flags *)
  exists fd, default_defs = Ok fd /\
   elaborate fd 255 [ASw (CSome (AVal 10) (CSome (AVal 20) (CNone (CNone CNil)))); ASw (CSome (AVal 5) (CNone (CSome (AVal 7) (CNone CNil))))]
   = Ok [(1, [10; 5]%Z); (2, [20; 5]%Z); (12, [20; 7]%Z)].
Proof. eexists. split; vm_compute; reflexivity. Qed.
