(* Props/C09.v -- property C09: the type checker accepts exactly the well-typed scripts and
   predicts value types.  Only statements; every proof is [exact lemma].

   Model/TypeCheck.check_file T G D is the model of passes::type_check::run, parameterised by the
   operator typing tables T (Gen/OpClass.v, read from ast/mod.rs and type_check.rs) and the dispatch
   tables D (Gen/TcDispatch.v, read from Visitor::visit_stmt / visit_item and walk_stmt / walk_item).
   Spec/TypingRules.wt_file is the declarative typing relation. *)
From TV Require Import Base.I32 Base.F32 Model.Ops Model.Expr Model.TypeCheck Spec.TypingRules
  Gen.OpTable Gen.OpClass Gen.TcDispatch
  Proofs.TypingExpr Proofs.TypingSound Proofs.TypingDynamic Proofs.TypingWitness.
Open Scope Z_scope.

(* (1) checker = typing rules, for every program (any nesting, any statement kind) and every
       environment, whenever the tables satisfy the decidable side conditions *)
Theorem C09_check_iff_wt : forall T D,
  optypes_ok T = true -> dispatch_complete D = true ->
  ot_ct_enum T = CT_enum_ty -> ot_call_zip T = CZ_nondefault ->
  forall G items, check_file T G D items = TOk <-> wt_file G items.
Proof. exact check_iff_wt_tables. Qed.

(* (1') for the tables read from the current source tree: unguarded, because every side condition
       is true of them (C09_side_conditions, by vm_compute) *)
Theorem C09_check_iff_wt_gen : forall G items,
  check_file gen_optypes G gen_tctable items = TOk <-> wt_file G items.
Proof. exact check_iff_wt_gen. Qed.

Theorem C09_side_conditions :
  optypes_ok gen_optypes = true /\ dispatch_complete gen_tctable = true /\
  ot_ct_enum gen_optypes = CT_enum_ty /\ ot_call_zip gen_optypes = CZ_nondefault.
Proof. exact (conj gen_optypes_ok (conj gen_dispatch_complete (conj gen_ct_enum_ok gen_call_zip_ok))). Qed.

(* (1g) for arbitrary tables with the documented operator typing: on every program inside the
       decidable guard [file_guard] (every statement kind it uses has the specified row in
       Visitor::visit_stmt / visit_item, ...).  This is what remains true when a row is broken. *)
Theorem C09_check_iff_wt_guarded : forall T D,
  optypes_ok T = true ->
  forall G items, file_guard T G D items = true -> (check_file T G D items = TOk <-> wt_file G items).
Proof. exact check_iff_wt_guarded. Qed.

(* the operator typing tables of the source are the documented ones (vm_compute) *)
Theorem C09_operator_tables_as_documented : optypes_ok gen_optypes = true.
Proof. exact gen_optypes_ok. Qed.
Theorem C09_walk_as_transcribed : walk_ok gen_tctable = true.
Proof. exact gen_walk_ok. Qed.

(* the reference typer used by the correspondence check decides the typing relation *)
Theorem C09_reference_typer : forall G items,
  check_file spec_optypes G spec_tctable items = TOk <-> wt_file G items.
Proof. exact reference_typer_decides_wt. Qed.

(* (1r) the programs that exhibited the defects repaired by the `fix:` commits 2f23e04 (free
       blocks), daf145f (label operands), e620e4b (const items), af0e0ca (padding parameters),
       8ea8263 (compute_ty of enum consts) are now judged as the typing rules say *)
Theorem C09_former_counterexamples :
  check_file gen_optypes G0 gen_tctable w_block = TErr /\
  check_file gen_optypes G0 gen_tctable w_interrupt = TErr /\
  check_file gen_optypes G0 gen_tctable w_reltime = TErr /\
  check_file gen_optypes G0 gen_tctable w_const = TErr /\
  check_file gen_optypes G0 gen_tctable w_pad_bad = TErr /\
  check_file gen_optypes G0 gen_tctable w_pad_good = TOk /\
  compute_ty gen_optypes G0 w_enum = check_expr gen_optypes G0 w_enum.
Proof. exact former_witnesses. Qed.

(* (2) compute_ty agrees with check_expr on every accepted expression (the code only
       debug_asserts this): for any tables inside the expression guard; unguarded when compute_ty
       handles enum consts by their enum's type; and for the tables of the current tree *)
Theorem C09_compute_ty_agrees : forall T G e t,
  eguard T G e = true -> check_expr T G e = Ok t -> compute_ty T G e = Ok t.
Proof. exact compute_ty_agrees. Qed.
Theorem C09_compute_ty_agrees_unguarded : forall T,
  optypes_ok T = true -> ot_ct_enum T = CT_enum_ty -> ot_call_zip T = CZ_nondefault ->
  forall G e t, check_expr T G e = Ok t -> compute_ty T G e = Ok t.
Proof. exact compute_ty_agrees_tables. Qed.
Theorem C09_compute_ty_agrees_gen : forall G e t,
  check_expr gen_optypes G e = Ok t -> compute_ty gen_optypes G e = Ok t.
Proof. exact compute_ty_agrees_gen. Qed.

(* (3) static type = dynamic type: a well-typed expression that AstVm evaluates (with the operator
       table read from const_simplify.rs, any libm) yields a value of the predicted type *)
Theorem C09_static_is_dynamic : forall G libm regs locals cs diff,
  env_ok G regs locals cs -> forall e t v,
  has_type G e (Value t) -> enums_ok G cs e ->
  eval gen_optable libm regs locals cs diff (to_expr e) = Ok v -> type_of_value v = t.
Proof. exact static_is_dynamic_gen. Qed.

(* ... and for the checker of the current tree: accepted => evaluates to the type compute_ty predicts *)
Theorem C09_accepted_static_is_dynamic : forall G libm regs locals cs diff e t v,
  env_ok G regs locals cs -> enums_ok G cs e ->
  check_expr gen_optypes G e = Ok (Value t) ->
  eval gen_optable libm regs locals cs diff (to_expr e) = Ok v ->
  type_of_value v = t /\ compute_ty gen_optypes G e = Ok (Value t).
Proof. exact static_is_dynamic_gen'. Qed.

(* non-vacuity *)
Example C09_nontrivial_instance : wt_file G0 prog_ok /\ check_file gen_optypes G0 gen_tctable prog_ok = TOk.
Proof. exact (conj prog_ok_wt prog_ok_checks). Qed.
Example C09_static_is_dynamic_instance :
  has_type G0 e_dyn (Value TFloat) /\
  eval gen_optable (fun _ _ => 0) (fun _ => VFloat ONE_HALF) (fun _ => VFloat ONE_HALF) (fun _ => None) 0
       (to_expr e_dyn) = Ok (VFloat 1075838976).
Proof. exact e_dyn_instance. Qed.
