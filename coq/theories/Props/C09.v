(* Props/C09.v -- property C09: the type checker accepts exactly the well-typed scripts and
   predicts value types.  Only statements; every proof is [exact lemma].

   Model/TypeCheck.check_file T G D is the model of passes::type_check::run, parameterised by the
   operator typing tables T (Gen/OpClass.v, read from ast/mod.rs and type_check.rs) and the dispatch
   tables D (Gen/TcDispatch.v, read from Visitor::visit_stmt / visit_item and walk_stmt / walk_item).
   Spec/TypingRules.wt_file is the declarative typing relation. *)
From TV Require Import Base.I32 Base.F32 Model.Ops Model.Expr Model.TypeCheck Spec.TypingRules
  Gen.OpTable Gen.OpClass Gen.TcDispatch
  Proofs.TypingExpr Proofs.TypingSound Proofs.TypingDynamic Proofs.TypingWitness.
Open Scope Z_scope.

(* (1) checker = typing rules, for every program (any nesting, any statement kind) and every
       environment, whenever the tables satisfy the decidable side conditions *)
Theorem C09_check_iff_wt : forall T D,
  optypes_ok T = true -> dispatch_complete D = true ->
  ot_ct_enum T = CT_enum_ty -> ot_call_zip T = CZ_nondefault ->
  forall G items, check_file T G D items = TOk <-> wt_file G items.
Proof. exact check_iff_wt_tables. Qed.

(* (1') for the tables of the current source tree: on every program inside the guard.  The guard
       [file_guard] is a boolean function of the program: every statement kind it uses has the
       specified row in Visitor::visit_stmt / visit_item, it mentions no enum const of a non-int enum
       unless compute_ty handles those, and it calls no signature with a defaulted parameter before
       a non-defaulted one unless the arguments are zipped with the non-defaulted parameters only.
       When all tables are as specified the guard is true of every program (1''). *)
Theorem C09_check_iff_wt_gen : forall G items,
  file_guard gen_optypes G gen_tctable items = true ->
  (check_file gen_optypes G gen_tctable items = TOk <-> wt_file G items).
Proof. exact check_iff_wt_gen. Qed.

Theorem C09_check_iff_wt_gen_unguarded :
  dispatch_complete gen_tctable = true ->
  ot_ct_enum gen_optypes = CT_enum_ty -> ot_call_zip gen_optypes = CZ_nondefault ->
  forall G items, check_file gen_optypes G gen_tctable items = TOk <-> wt_file G items.
Proof. exact check_iff_wt_gen_unguarded. Qed.

(* the operator typing tables of the source are the documented ones (vm_compute) *)
Theorem C09_operator_tables_as_documented : optypes_ok gen_optypes = true.
Proof. exact gen_optypes_ok. Qed.
Theorem C09_walk_as_transcribed : walk_ok gen_tctable = true.
Proof. exact gen_walk_ok. Qed.

(* the reference typer used by the correspondence check decides the typing relation *)
Theorem C09_reference_typer : forall G items,
  check_file spec_optypes G spec_tctable items = TOk <-> wt_file G items.
Proof. exact reference_typer_decides_wt. Qed.

(* (1-) the refutations: each holds vacuously once the corresponding row is repaired *)
Theorem C09_check_iff_wt_refuted_free_block :
  tc_stmt gen_tctable K_Block = D_Skip ->
  exists G items, check_file gen_optypes G gen_tctable items = TOk /\ ~ wt_file G items.
Proof. exact free_block_refuted. Qed.
Theorem C09_check_iff_wt_refuted_interrupt_label :
  tc_stmt gen_tctable K_InterruptLabel = D_Skip ->
  exists G items, check_file gen_optypes G gen_tctable items = TOk /\ ~ wt_file G items.
Proof. exact interrupt_label_refuted. Qed.
Theorem C09_check_iff_wt_refuted_rel_time_label :
  tc_stmt gen_tctable K_RelTimeLabel = D_Skip ->
  exists G items, check_file gen_optypes G gen_tctable items = TOk /\ ~ wt_file G items.
Proof. exact rel_time_label_refuted. Qed.
Theorem C09_check_iff_wt_refuted_const_item :
  tc_item gen_tctable IK_ConstVar = I_Walk ->
  exists G items, check_file gen_optypes G gen_tctable items = TOk /\ ~ wt_file G items.
Proof. exact const_item_refuted. Qed.
Theorem C09_check_iff_wt_refuted_call_padding :
  ot_call_zip gen_optypes = CZ_all ->
  exists G good bad,
    (wt_file G good /\ check_file gen_optypes G gen_tctable good <> TOk) /\
    (check_file gen_optypes G gen_tctable bad = TOk /\ ~ wt_file G bad).
Proof. exact call_padding_refuted. Qed.

(* (2) compute_ty agrees with check_expr on every accepted expression (the code only
       debug_asserts this): any tables, inside the expression guard; unguarded when compute_ty
       handles enum consts by their enum's type *)
Theorem C09_compute_ty_agrees : forall T G e t,
  eguard T G e = true -> check_expr T G e = Ok t -> compute_ty T G e = Ok t.
Proof. exact compute_ty_agrees. Qed.
Theorem C09_compute_ty_agrees_unguarded : forall T,
  optypes_ok T = true -> ot_ct_enum T = CT_enum_ty -> ot_call_zip T = CZ_nondefault ->
  forall G e t, check_expr T G e = Ok t -> compute_ty T G e = Ok t.
Proof. exact compute_ty_agrees_tables. Qed.
Theorem C09_compute_ty_agrees_refuted :
  ot_ct_enum gen_optypes = CT_enum_int ->
  exists G e t, check_expr gen_optypes G e = Ok t /\ compute_ty gen_optypes G e <> Ok t.
Proof. exact compute_ty_enum_refuted. Qed.

(* (3) static type = dynamic type: a well-typed expression that AstVm evaluates (with the operator
       table read from const_simplify.rs, any libm) yields a value of the predicted type *)
Theorem C09_static_is_dynamic : forall G libm regs locals cs diff,
  env_ok G regs locals cs -> forall e t v,
  has_type G e (Value t) -> enums_ok G cs e ->
  eval gen_optable libm regs locals cs diff (to_expr e) = Ok v -> type_of_value v = t.
Proof. exact static_is_dynamic_gen. Qed.

(* ... and for the checker of the current tree: accepted => evaluates to the type compute_ty predicts *)
Theorem C09_accepted_static_is_dynamic : forall G libm regs locals cs diff e t v,
  env_ok G regs locals cs -> enums_ok G cs e -> eguard gen_optypes G e = true ->
  check_expr gen_optypes G e = Ok (Value t) ->
  eval gen_optable libm regs locals cs diff (to_expr e) = Ok v ->
  type_of_value v = t /\ compute_ty gen_optypes G e = Ok (Value t).
Proof. exact static_is_dynamic_gen'. Qed.

(* non-vacuity *)
Example C09_guard_satisfiable : file_guard gen_optypes G0 gen_tctable prog_ok = true /\ wt_file G0 prog_ok
  /\ check_file gen_optypes G0 gen_tctable prog_ok = TOk.
Proof. exact (conj prog_ok_guard (conj prog_ok_wt prog_ok_checks)). Qed.
Example C09_static_is_dynamic_instance :
  has_type G0 e_dyn (Value TFloat) /\
  eval gen_optable (fun _ _ => 0) (fun _ => VFloat ONE_HALF) (fun _ => VFloat ONE_HALF) (fun _ => None) 0
       (to_expr e_dyn) = Ok (VFloat 1075838976).
Proof. exact e_dyn_instance. Qed.
