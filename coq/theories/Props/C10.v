(* Props/C10.v -- property C10: names resolve by lexical scope, independent of how they are spelled.
   Only statements; every proof is [exact lemma] (examples: computation).

   Model:  Model/Resolve.v   [resolve g fl sl p]  -- the rib-stack visitor of src/resolve/mod.rs together
           with the language tagging of passes::resolution::assign_languages; g = names from mapfiles,
           builtins and enums; fl / sl = language of functions / of scripts.
   Spec:   Spec/Scope.v      [scope_spec], [binds], [no_redeclaration]  -- the documented scoping rules
           as an environment-passing semantics without ribs. *)
From TV Require Import Base.I32 Model.ResolveSyntax Gen.RibTable Model.Resolve Model.ResolveRename Spec.Scope
  Proofs.ResolveSpec Proofs.ResolveRedecl Proofs.ResolveAlpha Proofs.ResolveWf Proofs.ResolveScoping.
Open Scope Z_scope.

(* (0) tie 1: what gen/ribtable.py reads out of the source on every run is what the model is written for:
       which rib kinds hold locals / are barriers, the order of the global ribs, the ribs every visitor
       method pushes, and the order of the decisive steps *)
Theorem C10_rib_tables_as_modelled :
  gen_recognised = true
  /\ gen_holds_locals = [TLocals; TParams]
  /\ gen_barriers = [TLocalBarrier]
  /\ gen_initial_ribs = [GInsAliases; GRegAliases; GBuiltinConsts; GEnumConsts]
  /\ gen_file_ribs = [(TVars, TItems); (TFuncs, TItems)]
  /\ gen_block_ribs = [(TFuncs, TItems); (TVars, TItems); (TVars, TLocals)]
  /\ gen_func_ribs = [(TVars, TLocalBarrier); (TVars, TParams)]
  /\ gen_const_ribs = [(TVars, TLocalBarrier)]
  /\ gen_script_ribs = []
  /\ gen_file_items_first = true /\ gen_block_items_first = true /\ gen_decl_init_first = true
  /\ gen_barrier_checked_first = true /\ gen_params_before_body = true /\ gen_resolve_conditions = true.
Proof. exact rib_tables_as_modelled. Qed.

(* (1) the visitor assigns to every identifier occurrence exactly what the scoping rules say *)
Theorem C10_resolve_sound_complete : forall g fl sl p,
  res_events (resolve g fl sl p) = scope_spec g fl sl p.
Proof. exact resolve_sound_complete. Qed.

(* (2) a redefinition diagnostic is emitted exactly when one rib declares a spelling twice *)
Theorem C10_redeclaration_iff : forall g fl sl p,
  redef_events (resolve g fl sl p) = [] <-> no_redeclaration p.
Proof. exact redeclaration_iff. Qed.

(* (3) resolve_names succeeds exactly when nothing is redeclared and every occurrence denotes a
       definition (or is never visited, see (9)) ... *)
Theorem C10_resolve_ok_iff : forall g fl sl p evs,
  resolve_outcome g fl sl p = Ok evs <->
  evs = resolve g fl sl p /\ no_redeclaration p
  /\ forall id r, binds g fl sl p id r -> is_error r = false.
Proof. exact resolve_ok_iff. Qed.

(* ... and fails exactly for: unknown name, local used across an item boundary, ambiguous or missing
   enum const, redeclaration in one rib *)
Theorem C10_resolve_err_iff : forall g fl sl p,
  resolve_outcome g fl sl p = Err E_RESOLVE <->
  ~ no_redeclaration p
  \/ exists id r, binds g fl sl p id r /\
       (r = RUnknown \/ (exists d, r = RBarrier d) \/ r = RAmbiguous \/ r = RNoEnum \/ r = RNoConst).
Proof. exact resolve_err_iff. Qed.

(* (4) renaming: [rho id] is the new spelling of occurrence id, [nm id] its old one, [sigma i] the new
       spelling of the declaration with index i.  If sigma is injective and produces no spelling of the
       original program, the tree is well formed and the renaming is consistent with the resolution of
       the accepted program (bound occurrences follow their declaration, everything else keeps its
       spelling), then the renamed program is accepted with the very same resolution of every
       occurrence -- definitions are identified by the index of the declaring occurrence, so this is
       equality of the partition of occurrences into definition classes. *)
Theorem C10_alpha_invariance : forall g fl sl (sigma rho nm : Z -> ident),
  (forall i j, sigma i = sigma j -> i = j) ->
  (forall j id, sigma j <> nm id) ->
  forall p evs,
  wf_prog nm p ->
  resolve_outcome g fl sl p = Ok evs ->
  consistent sigma rho nm evs ->
  resolve_outcome g fl sl (ren_prog rho p) = Ok evs.
Proof. exact alpha_invariance. Qed.

(* the same on the specification, for every program (accepted or not) *)
Theorem C10_alpha_invariance_spec : forall g fl sl (sigma rho nm : Z -> ident),
  (forall i j, sigma i = sigma j -> i = j) ->
  (forall j id, sigma j <> nm id) ->
  forall p, wf_prog nm p -> consistent sigma rho nm (scope_spec g fl sl p) ->
  scope_spec g fl sl (ren_prog rho p) = scope_spec g fl sl p.
Proof. exact alpha_spec. Qed.

(* the side conditions are decidable by computation *)
Theorem C10_wf_checker_sound : forall nm p, wf_progb nm p = true -> wf_prog nm p.
Proof. exact wf_progb_sound. Qed.
Theorem C10_consistent_checker_sound : forall sigma rho nm evs,
  consistentb sigma rho nm evs = true -> consistent sigma rho nm evs.
Proof. exact consistentb_sound. Qed.

(* (5) locals never cross items: whatever surrounds a function or const item, an occurrence inside it
       that denotes a local variable or parameter denotes one declared inside that item *)
Theorem C10_locals_never_cross_items : forall g fl sl i ve fe id d,
  is_barrier_item i = true -> fun_env fe ->
  In (EvRes id (ROk d)) (s_item g fl sl ve fe i) -> is_local_def d = true ->
  exists j, user_id d = Some j /\ In j (lids_item i).
Proof. exact locals_never_cross_items. Qed.

(* (6) consts are in scope in their whole block, also before the declaration *)
Theorem C10_consts_visible_before_declaration : forall g fl sl ve fe al pre us post vars c init u,
  let b := bapp pre (BCons (SUses us) post) in
  In (IConst vars) (block_items b) -> In (c, init) vars ->
  NoDup (const_names (block_items b)) ->
  ~ In (oname c) (local_names pre) ->
  In u us -> u_kind u = UVar -> u_guards u = [] -> oname (u_occ u) = oname c ->
  In (EvRes (oid (u_occ u)) (ROk (DConst (oid c)))) (s_block g fl sl ve fe al b).
Proof. exact consts_visible_before_declaration. Qed.

(* (7) register and instruction aliases only in their own language; none without a language *)
Theorem C10_aliases_only_in_own_language : forall g lv lf al u l y,
  no_alias_env lv -> no_alias_env lf ->
  (resolve_use g lv lf al u = ROk (DReg l y) \/ resolve_use g lv lf al u = ROk (DIns l y)) ->
  al = Some l /\ y = oname (u_occ u).
Proof. exact aliases_only_in_own_language. Qed.

(* (8) DEFECT (findings c10-excess-args, c10-padding-gap): a call argument that is not matched with a
       parameter of the callee is visited only by an extra loop, which (read from the source on every
       run: gen_excess_mode, gen_zip_skips_padding) was missing at first and now starts after as many
       arguments as the callee has parameters -- although padding parameters are matched with no
       argument.  As long as some arguments are left out, "every use of a name refers to ..." is false
       as stated: an accepted program can contain a use that refers to nothing.  Once every argument
       is visited (fixes/c10-resolve-args-after-matched.diff) no use is ever skipped. *)
Theorem C10_every_use_bound_refuted : some_args_skipped ->
  exists g fl sl p evs id, resolve_outcome g fl sl p = Ok evs /\ In (EvRes id RSkipped) evs
                           /\ forall r, binds g fl sl p id r -> r = RSkipped.
Proof. exact every_use_bound_refuted. Qed.

Theorem C10_uses_never_skipped_after_fix : all_args_visited ->
  forall g lv lf al u, resolve_use g lv lf al u <> RSkipped.
Proof. exact uses_never_skipped. Qed.

(* exactly one of the two holds for the source as it is now *)
Theorem C10_args_visited_or_skipped : all_args_visited \/ some_args_skipped.
Proof. exact args_visited_or_skipped. Qed.

(* (9) ... and true for every occurrence that is visited at all *)
Theorem C10_accepted_uses_are_bound : forall g fl sl p evs,
  resolve_outcome g fl sl p = Ok evs ->
  forall id r, In (EvRes id r) evs -> r <> RSkipped -> exists d, r = ROk d /\ binds g fl sl p id (ROk d).
Proof. exact accepted_uses_are_bound. Qed.

(* ---- non-vacuity ---- *)

(* spellings: a=0 b=1 c=2 d=3; languages: ECL=0 timeline=5.  Mapfile: register alias a (ECL),
   instruction aliases a (ECL, opcode 21, 2 parameters) and b (timeline, opcode 5); enum E(9) = {c}.

     const int b = c;               // c: enum const E.c (global)           ids: b0  c1
     void d(int a, int e) {         // parameter a shadows the register alias    d2  a3  e4   (e = spelling 5)
         int c = a + e;             //                                           a5 e6 c7
         {
             int a = c;             // initialiser sees the outer c; new a       c8 a9
             x(a, c);               // x is a function declared below            x10 a11 c12   (x = spelling 4)
             const int x(int p, int q) { return b; }   // b: the file-level const     x13 p18 q19 b14
         }
         a(a, c);                   // instruction alias a; parameter a; local c   a15 a16 c17
     }                                                                                              *)
Definition ex_genv : genv := GEnv [(0, 0)] [(0, 0, 21); (5, 1, 5)] [(0, 21, [(None, false); (None, false)])] [] [(9, [2])].
Definition ex_prog : prog :=
  PFile [ IConst [(Occ 1 0, [Use UVar (Occ 2 1) []])];
          IFunc QNone (Occ 3 2) [Occ 0 3; Occ 5 4]
            (BCons (SDecl [(Occ 2 7, [Use UVar (Occ 0 5) []; Use UVar (Occ 5 6) []])])
            (BCons (SBlock
               (BCons (SDecl [(Occ 0 9, [Use UVar (Occ 2 8) []])])
               (BCons (SUses [Use UFun (Occ 4 10) []; Use UVar (Occ 0 11) [Guard (CNamed (Occ 4 10)) 0%nat];
                              Use UVar (Occ 2 12) [Guard (CNamed (Occ 4 10)) 1%nat]])
               (BCons (SItem (IFunc QConst (Occ 4 13) [Occ 6 18; Occ 7 19] (BCons (SUses [Use UVar (Occ 1 14) []]) BNil)))
                BNil))))
            (BCons (SUses [Use UFun (Occ 0 15) []; Use UVar (Occ 0 16) [Guard (CNamed (Occ 0 15)) 0%nat];
                           Use UVar (Occ 2 17) [Guard (CNamed (Occ 0 15)) 1%nat]])
             BNil))) ].

Definition ex_events : list event :=
  [EvRes 0 (ROk (DConst 0)); EvRes 2 (ROk (DFunc 2 2)); EvRes 1 (ROk (DEnum 9 2));
   EvRes 3 (ROk (DParam 3)); EvRes 4 (ROk (DParam 4));
   EvRes 5 (ROk (DParam 3)); EvRes 6 (ROk (DParam 4)); EvRes 7 (ROk (DLocal 7));
   EvRes 13 (ROk (DFunc 13 2));
   EvRes 8 (ROk (DLocal 7)); EvRes 9 (ROk (DLocal 9));
   EvRes 10 (ROk (DFunc 13 2)); EvRes 11 (ROk (DLocal 9)); EvRes 12 (ROk (DLocal 7));
   EvRes 18 (ROk (DParam 18)); EvRes 19 (ROk (DParam 19)); EvRes 14 (ROk (DConst 0));
   EvRes 15 (ROk (DIns 0 0)); EvRes 16 (ROk (DParam 3)); EvRes 17 (ROk (DLocal 7))].

Example C10_example_accepted : resolve_outcome ex_genv 0 5 ex_prog = Ok ex_events.
Proof. vm_compute. reflexivity. Qed.

(* a renaming of ex_prog: every declaration i becomes spelling 1000+i *)
Definition ex_sigma (i : Z) : ident := if 0 <=? i then i + 1000 else i - 1000.
Definition ex_nm : Z -> ident := prog_nm ex_prog.
Definition ex_rho (id : Z) : ident :=
  match find_res id ex_events with
  | Some (ROk d) => match user_id d with Some i => ex_sigma i | None => ex_nm id end
  | _ => ex_nm id
  end.

Example C10_example_alpha_hypotheses :
  (forall i j, ex_sigma i = ex_sigma j -> i = j)
  /\ (forall j id, ex_sigma j <> ex_nm id)
  /\ wf_prog ex_nm ex_prog
  /\ consistent ex_sigma ex_rho ex_nm ex_events
  /\ ren_prog ex_rho ex_prog <> ex_prog.
Proof.
  split; [|split; [|split; [|split]]].
  - intros i j. unfold ex_sigma. destruct (0 <=? i) eqn:A, (0 <=? j) eqn:B;
      rewrite ?Z.leb_le, ?Z.leb_gt in *; lia.
  - intros j id. assert (R : 0 <= ex_nm id < 1000).
    { unfold ex_nm, prog_nm.
      assert (F : Forall (fun p => 0 <= snd p < 1000) (map occ_pair (prog_occs ex_prog))) by (vm_compute; repeat constructor; discriminate).
      revert F. generalize (map occ_pair (prog_occs ex_prog)). intro t. induction 1 as [|[i x] r Hx _ IH]; cbn [table_nm]; [lia|].
      destruct (id =? i); [exact Hx | exact IH]. }
    unfold ex_sigma. destruct (0 <=? j) eqn:A; rewrite ?Z.leb_le, ?Z.leb_gt in *; lia.
  - apply wf_progb_sound. vm_compute. reflexivity.
  - apply consistentb_sound. vm_compute. reflexivity.
  - vm_compute. discriminate.
Qed.

Example C10_example_renamed_accepted :
  resolve_outcome ex_genv 0 5 (ren_prog ex_rho ex_prog) = Ok ex_events.
Proof.
  destruct C10_example_alpha_hypotheses as [H1 [H2 [H3 [H4 _]]]].
  exact (C10_alpha_invariance ex_genv 0 5 ex_sigma ex_rho ex_nm H1 H2 ex_prog ex_events H3 C10_example_accepted H4).
Qed.

(* rejected programs: a local used inside a nested const; a redeclaration *)
(*   { int a = 1; const int b = a; }   and   { int a; int a; } *)
Definition ex_barrier : prog :=
  PBlock (BCons (SDecl [(Occ 0 0, [])]) (BCons (SItem (IConst [(Occ 1 1, [Use UVar (Occ 0 2) []])])) BNil)).
Definition ex_redecl : prog := PBlock (BCons (SDecl [(Occ 0 0, [])]) (BCons (SDecl [(Occ 0 1, [])]) BNil)).

Example C10_example_barrier :
  resolve_outcome ex_genv 0 5 ex_barrier = Err E_RESOLVE /\ binds ex_genv 0 5 ex_barrier 2 (RBarrier (DLocal 0)).
Proof. split; [vm_compute; reflexivity | unfold binds; vm_compute; tauto]. Qed.

Example C10_example_redeclaration :
  resolve_outcome ex_genv 0 5 ex_redecl = Err E_RESOLVE /\ ~ no_redeclaration ex_redecl.
Proof.
  split; [vm_compute; reflexivity|]. cbn. unfold nr_block, heads_ok. cbn. intros [[H _] _]. inversion H as [|? ? Hn _]; subst. apply Hn. now left.
Qed.

(* (5),(6),(7) on the inner pieces of ex_prog *)
Example C10_example_const_before_declaration :
  In (EvRes 3 (ROk (DConst 1)))
     (s_block ex_genv 0 5 env0 env0 (Some 0)
        (bapp BNil (BCons (SUses [Use UVar (Occ 7 3) []]) (BCons (SItem (IConst [(Occ 7 1, [])])) BNil)))).
Proof.
  apply (C10_consts_visible_before_declaration ex_genv 0 5 env0 env0 (Some 0) BNil
           [Use UVar (Occ 7 3) []] (BCons (SItem (IConst [(Occ 7 1, [])])) BNil) [(Occ 7 1, [])] (Occ 7 1) [] (Use UVar (Occ 7 3) []));
    cbn; auto. repeat constructor; auto.
Qed.

Example C10_example_alias_language :
  resolve_use ex_genv env0 env0 (Some 0) (Use UVar (Occ 0 1) []) = ROk (DReg 0 0)
  /\ resolve_use ex_genv env0 env0 (Some 5) (Use UVar (Occ 0 1) []) = RUnknown
  /\ resolve_use ex_genv env0 env0 None (Use UVar (Occ 0 1) []) = RUnknown.
Proof. vm_compute. auto. Qed.
