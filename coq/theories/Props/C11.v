(* Props/C11.v -- property C11: compile-time evaluation agrees with run-time evaluation.
   Only statements; every proof is [exact lemma]. *)
From TV Require Import Base.I32 Base.F32 Model.Ops Model.Expr Spec.MachineOps Gen.OpTable
  Proofs.OpsSpec Proofs.SimplifySound.
Open Scope Z_scope.

(* (1) every integer operator's compile-time result is the documented machine semantics, for
       all operand pairs; where the machine semantics is undefined the operator itself panics
       (the callers guard it: C11_undefined_is_error) *)
Theorem C11_int_table_matches_spec : forall op a b, in_i32 a -> in_i32 b ->
  match spec_bi op a b with
  | Some r => binop_eval gen_optable op (VInt a) (VInt b) = Ok (VInt r)
  | None => binop_eval gen_optable op (VInt a) (VInt b) = Panic P_DIV0
  end.
Proof. exact int_table_matches_spec. Qed.

Theorem C11_int_unop_matches_spec : forall libm op a, in_i32 a ->
  match spec_ui op a with
  | Some r => unop_eval libm gen_optable op (VInt a) = Ok (Some (VInt r))
  | None => True
  end.
Proof. exact int_unop_matches_spec. Qed.

Theorem C11_float_table_is_ieee : forall op, gen_bf op = ieee_bf op.
Proof. exact float_table_is_ieee. Qed.

Theorem C11_float_unop_table : forall op, gen_uf op = expected_uf op.
Proof. exact float_unop_table. Qed.

(* (2) simplification preserves evaluation: any registers, locals, const cache, difficulty,
       libm; equality of outcomes including panics *)
Theorem C11_simplify_sound : forall libm regs locals cs diff e e',
  simplify gen_optable libm cs e = Ok e' ->
  eval gen_optable libm regs locals cs diff e' = eval gen_optable libm regs locals cs diff e.
Proof. exact simplify_sound_gen. Qed.

(* (3) a constant division or remainder by zero is a diagnostic, not a value and not a panic *)
Theorem C11_undefined_is_error : forall libm cs a op z,
  (op = Div \/ op = Rem) ->
  simplify gen_optable libm cs (EBin (ELitI a) op (ELitI 0)) = Err E_DIV0
  /\ simplify gen_optable libm cs (EBin (ELitI z) op (EBin (ELitI a) Sub (ELitI a))) = Err E_DIV0.
Proof. exact undefined_is_error_gen. Qed.

(* (4) naming a constant expression gives the same simplified expression as writing it inline *)
Theorem C11_named_equals_inline : forall libm cs id e v,
  simplify gen_optable libm cs e = Ok (lit v) -> cs id = Some v ->
  simplify gen_optable libm cs (EVar None id) = simplify gen_optable libm cs e.
Proof. exact named_equals_inline_gen. Qed.

Print Assumptions C11_int_table_matches_spec.
Print Assumptions C11_int_unop_matches_spec.
Print Assumptions C11_float_table_is_ieee.
Print Assumptions C11_float_unop_table.
Print Assumptions C11_simplify_sound.
Print Assumptions C11_undefined_is_error.
Print Assumptions C11_named_equals_inline.
