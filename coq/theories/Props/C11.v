(* Props/C11.v -- property C11: compile-time evaluation agrees with run-time evaluation.
   Only statements; every proof is [exact lemma]. *)
From TV Require Import Base.I32 Base.F32 Model.Ops Model.Expr Spec.MachineOps Gen.OpTable
  Proofs.OpsSpec Proofs.SimplifySound Proofs.ConstDfs Proofs.ConstVm.
From Coq Require Import Permutation.
Open Scope Z_scope.

(* (1) every integer operator's compile-time result is the documented machine semantics, for
       all operand pairs; where the machine semantics is undefined the operator itself panics
       (the callers guard it: C11_undefined_is_error) *)
Theorem C11_int_table_matches_spec : forall op a b, in_i32 a -> in_i32 b ->
  match spec_bi op a b with
  | Some r => binop_eval gen_optable op (VInt a) (VInt b) = Ok (VInt r)
  | None => binop_eval gen_optable op (VInt a) (VInt b) = Panic P_DIV0
  end.
Proof. exact int_table_matches_spec. Qed.

Theorem C11_int_unop_matches_spec : forall libm op a, in_i32 a ->
  match spec_ui op a with
  | Some r => unop_eval libm gen_optable op (VInt a) = Ok (Some (VInt r))
  | None => True
  end.
Proof. exact int_unop_matches_spec. Qed.

Theorem C11_float_table_is_ieee : forall op, gen_bf op = ieee_bf op.
Proof. exact float_table_is_ieee. Qed.

Theorem C11_float_unop_table : forall op, gen_uf op = expected_uf op.
Proof. exact float_unop_table. Qed.

(* (2) simplification preserves evaluation: any registers, locals, const cache, difficulty,
       libm; equality of outcomes including panics *)
Theorem C11_simplify_sound : forall libm regs locals cs diff e e',
  simplify gen_optable libm cs e = Ok e' ->
  eval gen_optable libm regs locals cs diff e' = eval gen_optable libm regs locals cs diff e.
Proof. exact simplify_sound_gen. Qed.

(* (3) a constant division or remainder by zero is a diagnostic, not a value and not a panic *)
Theorem C11_undefined_is_error : forall libm cs a op z,
  (op = Div \/ op = Rem) ->
  simplify gen_optable libm cs (EBin (ELitI a) op (ELitI 0)) = Err E_DIV0
  /\ simplify gen_optable libm cs (EBin (ELitI z) op (EBin (ELitI a) Sub (ELitI a))) = Err E_DIV0.
Proof. exact undefined_is_error_gen. Qed.

(* (4) naming a constant expression gives the same simplified expression as writing it inline *)
Theorem C11_named_equals_inline : forall libm cs id e v,
  simplify gen_optable libm cs e = Ok (lit v) -> cs id = Some v ->
  simplify gen_optable libm cs (EVar None id) = simplify gen_optable libm cs e.
Proof. exact named_equals_inline_gen. Qed.

(* (5) consts: the compile-time DFS evaluator of const definitions (Evaluator::_const_eval with its cache and
       cycle check) agrees with the run-time evaluator.  For every set of const definitions with distinct ids,
       whatever their declaration order, once do_deferred_evaluations has produced the cache:
       every expression the compile-time evaluator gives a value to evaluates, at run time over that cache, to
       the same value (any registers, locals, difficulty), and every cached const is the run-time value of its
       defining expression. *)
Theorem C11_const_cache_agrees_with_vm : forall libm fuel (dl : list (nat * expr)) cache,
  NoDup (map fst dl) ->
  eval_deferred gen_optable libm (assoc dl) fuel (map fst dl) [] = Ok cache ->
  (forall f st e v regs locals diff, ceval gen_optable libm (assoc dl) f st e = Ok v ->
     eval gen_optable libm regs locals (assoc cache) diff e = Ok v) /\
  (forall id d v regs locals diff, In (id, d) dl -> assoc cache id = Some v ->
     eval gen_optable libm regs locals (assoc cache) diff (EVar None id) = Ok v /\
     eval gen_optable libm regs locals (assoc cache) diff d = Ok v).
Proof. exact const_cache_agrees_with_vm. Qed.

(* (6) the value of a const does not depend on where the DFS reached it from (use site, sigil of the
       first use, evaluation stack), nor on the fuel once it is enough *)
Theorem C11_const_value_independent_of_reach : forall T libm defs f st e v,
  ceval T libm defs f st e = Ok v -> forall st', incl st' st -> ceval T libm defs f st' e = Ok v.
Proof. exact ceval_stack_irrelevant. Qed.

Theorem C11_const_eval_fuel_monotone : forall T libm defs f st e,
  ceval T libm defs f st e <> OutOfFuel -> forall f', (f <= f')%nat -> ceval T libm defs f' st e = ceval T libm defs f st e.
Proof. exact ceval_fuel_mono. Qed.

(* (7) the cache does not depend on the order in which the definitions are evaluated *)
Theorem C11_const_cache_order_independent : forall T libm defs fuel ids ids' out,
  NoDup ids -> Permutation ids ids' ->
  eval_deferred T libm defs fuel ids [] = Ok out ->
  exists out', eval_deferred T libm defs fuel ids' [] = Ok out' /\ forall k, assoc out' k = assoc out k.
Proof. exact eval_deferred_order_independent. Qed.

(* (8) a const defined as itself is an error, never a value *)
Theorem C11_self_reference_is_error : forall T libm defs fuel id sg,
  defs id = Some (EVar sg id) -> forall v, ceval T libm defs fuel [] (EVar None id) <> Ok v.
Proof. exact self_reference_is_error. Qed.

(* non-vacuity of (5): `const float B = %A + 0.5; const int A = 3;` (B declared first, reaching A through a
   sigil): the cache holds A = 3 (an int) and B = 3.5 *)
Example C11_const_example :
  let dl := [(1%nat, EBin (EVar (Some SgFloat) 0%nat) Add (ELitF 1056964608)); (0%nat, ELitI 3)] in
  NoDup (map fst dl) /\
  exists cache, eval_deferred gen_optable (fun _ _ => 0) (assoc dl) 10 (map fst dl) [] = Ok cache /\
                assoc cache 0%nat = Some (VInt 3) /\ assoc cache 1%nat = Some (VFloat 1080033280).
Proof.
  cbv zeta. split; [repeat constructor; cbn; intuition congruence|].
  eexists. split; [vm_compute; reflexivity|]. split; reflexivity.
Qed.

Print Assumptions C11_int_table_matches_spec.
Print Assumptions C11_const_cache_agrees_with_vm.
Print Assumptions C11_const_value_independent_of_reach.
Print Assumptions C11_const_eval_fuel_monotone.
Print Assumptions C11_const_cache_order_independent.
Print Assumptions C11_self_reference_is_error.
Print Assumptions C11_int_unop_matches_spec.
Print Assumptions C11_float_table_is_ieee.
Print Assumptions C11_float_unop_table.
Print Assumptions C11_simplify_sound.
Print Assumptions C11_undefined_is_error.
Print Assumptions C11_named_equals_inline.
