(* Props/C02.v -- property C02: compiling expressions and statements preserves what the script
   does.  Statements only; proofs are [exact lemma]. *)
From TV Require Import Base.I32 Base.F32 Model.Ops Model.Expr Model.Lower Model.LowerSem
  Gen.OpTable Proofs.LowerSound Proofs.LowerGenTable Proofs.F32Laws.
Open Scope Z_scope.

(* Stage A (closed): an assignment statement `v aop= e` whose right-hand side is any well-typed
   nesting of arithmetic / bitwise / comparison operators, unary operators, casts and sigil reads over
   registers, locals and literals.  For EVERY table of available intrinsics (native vs fallback
   encodings: `a += b` as `a = a + b`, `-x` as `-1 * x`, `~x` as `-1 - x`), cast mode, register and
   local typing, fuel, lowering state, difficulty, and EVERY memory (register file and locals):
   if the lowerer produces code, running that code (with its temporaries, which are locals that are
   allocated and freed by the code) leaves memory exactly as the source assignment does. *)
Theorem C02_assign_lowering_correct :
  forall libm avail auto_casts rty lty diff time mask fuel v aop e s code s' m m',
  (forall op t, sigil_of_unop op <> None -> avail (KUnOp op t) = false) ->
  lower avail auto_casts rty lty time mask fuel (CAssignOp v aop e) s = Ok (code, s') ->
  wt_pure rty lty (te s) e = true -> locals_below (g s) e = true -> var_below (g s) v ->
  fresh lty m (g s) ->
  assign_s gen_optable libm rty lty diff (te s) m v aop e = Ok m' ->
  run_pure gen_optable libm lty code m = Ok m'.
Proof. exact assign_lowering_correct_gen. Qed.

(* the law behind the fallback encoding of float negation, for every bit pattern (NaNs are one class) *)
Theorem C02_fneg_is_mul_minus_one : forall x, fneg x = fmul F_NEG_ONE x.
Proof. exact fneg_is_mul_minus_one. Qed.

(* every instruction the lowerer emits for a statement carries that statement's time and mask
   (so times and difficulty masks of the instruction log are preserved by construction) *)
Theorem C02_lowered_instrs_carry_stmt_time :
  forall avail auto_casts rty lty time mask fuel c s code s',
  lower avail auto_casts rty lty time mask fuel c s = Ok (code, s') ->
  Forall (at_time time mask) code.
Proof. exact lower_times. Qed.

(* non-vacuity: `REG[1010] = (REG[1011] + 1) * (REG[1011] - 2)` with only `=` and binop intrinsics *)
Example C02_example :
  let avail := fun k => match k with KAssignOp None _ | KBinOp _ _ => true | _ => false end in
  let rty := fun _ : Z => TInt in let lty := fun _ : nat => TInt in
  let v := mkvar None (VReg 1010) in
  let e := EBin (EBin (EReg None 1011) Add (ELitI 1)) Mul (EBin (EReg None 1011) Sub (ELitI 2)) in
  let s := mklst 100 [] in
  let m := mkmem (fun r => if r =? 1011 then VInt 7 else VInt 0) (fun _ => VInt 0) in
  exists code s' m',
    lower avail true rty lty 0 255 10 (CAssignOp v None e) s = Ok (code, s') /\
    length code = 5%nat /\
    wt_pure rty lty (te s) e = true /\ locals_below (g s) e = true /\
    assign_s gen_optable (fun _ _ => 0) rty lty 0 (te s) m v None e = Ok m' /\
    regs m' 1010 = VInt 40.
Proof. exact lower_example. Qed.
