(* Props/C02.v -- property C02: compiling expressions and statements preserves what the script
   does.  Statements only; proofs are [exact lemma]. *)
From TV Require Import Base.I32 Base.F32 Model.Ops Model.Expr Model.Lower Model.LowerSem
  Model.LowerProg Gen.OpTable Proofs.LowerSound Proofs.LowerGenTable Proofs.F32Laws Proofs.LowerJumps Proofs.LowerJumpsGen
  Proofs.LowerProg Proofs.LowerProgGen.
Open Scope Z_scope.

(* Stage A (closed): an assignment statement `v aop= e` whose right-hand side is any well-typed
   nesting of arithmetic / bitwise / comparison operators, unary operators, casts and sigil reads over
   registers, locals and literals.  For EVERY table of available intrinsics (native vs fallback
   encodings: `a += b` as `a = a + b`, `-x` as `-1 * x`, `~x` as `-1 - x`), cast mode, register and
   local typing, fuel, lowering state, difficulty, and EVERY memory (register file and locals):
   if the lowerer produces code, running that code (with its temporaries, which are locals that are
   allocated and freed by the code) leaves memory exactly as the source assignment does. *)
Theorem C02_assign_lowering_correct :
  forall libm avail auto_casts rty lty diff time mask fuel v aop e s code s' m m',
  (forall op t, sigil_of_unop op <> None -> avail (KUnOp op t) = false) ->
  lower avail auto_casts rty lty time mask fuel (CAssignOp v aop e) s = Ok (code, s') ->
  wt_pure rty lty (te s) e = true -> locals_below (g s) e = true -> var_below (g s) v ->
  fresh lty m (g s) ->
  assign_s gen_optable libm rty lty diff (te s) m v aop e = Ok m' ->
  run_pure gen_optable libm lty code m = Ok m'.
Proof. exact assign_lowering_correct_gen. Qed.

(* Stage B (closed): conditional jumps `if/unless (cond) goto l @ t` whose condition is any nesting of
   && || ! over comparisons and integer-valued jump-free expressions.  The emitted code (temporaries,
   short-circuit jumps to generated skip labels, negated comparisons for `unless`, one- or two-part
   compare+jump) leaves memory unchanged and leaves the statement by a jump to l exactly when the
   source condition, as AstVm evaluates it, says so.  [nonan]: operands of comparisons are not NaN
   (the property quantifies over non-NaN floats; `unless (a < b)` compiles to `a >= b`).
   [run_fwd ... Exec m None]: forward-label semantics of one statement's code (Model/LowerSem.v). *)
Theorem C02_cond_jump_correct :
  forall libm avail auto_casts rty lty diff time mask fuel k e l jt s code s' m b,
  (forall op t, sigil_of_unop op <> None -> avail (KUnOp op t) = false) ->
  lower avail auto_casts rty lty time mask fuel (CCondNonCount k e l jt) s = Ok (code, s') ->
  wt_cond rty lty (te s) e = true -> locals_below (g s) e = true -> label_ok l (g s) ->
  nonan gen_optable libm rty lty diff (te s) m e -> fresh lty m (g s) ->
  cond_s gen_optable libm rty lty diff (te s) m e = Ok b ->
  run_fwd gen_optable libm lty code Exec m None =
    Ok (if xorb b (is_unless k) then RJump l jt m else RFall m).
Proof. exact cond_jump_correct_gen. Qed.

(* Stage B (closed): `v = c ? x : y` with nested ternaries in the branches and conditions as above:
   the emitted code (condition, both branches, the generated false/end labels) falls through with
   memory exactly as the source assignment leaves it. *)
Theorem C02_ternary_assign_correct :
  forall libm avail auto_casts rty lty diff time mask fuel v e s code s' m m',
  (forall op t, sigil_of_unop op <> None -> avail (KUnOp op t) = false) ->
  lower avail auto_casts rty lty time mask fuel (CAssignOp v None e) s = Ok (code, s') ->
  wt_tern rty lty (te s) e = true -> locals_below (g s) e = true -> var_below (g s) v ->
  nonan_t gen_optable libm rty lty diff (te s) m e -> fresh lty m (g s) ->
  assign_s gen_optable libm rty lty diff (te s) m v None e = Ok m' ->
  run_fwd gen_optable libm lty code Exec m None = Ok (RFall m').
Proof. exact ternary_assign_correct_gen. Qed.

(* counting jumps `if/unless (--v) goto l`, `(--v != 0)`, `(--v > 0)`: the variable is decremented
   (32-bit wrap) and the jump is taken exactly as the source says, for both keywords *)
Theorem C02_count_jump_correct :
  forall libm avail rty lty diff time mask k v op l jt s code s' m n,
  (forall op t, sigil_of_unop op <> None -> avail (KUnOp op t) = false) ->
  lower_count_jump avail rty lty time mask k v op l jt s = Ok (code, s') ->
  label_ok l (g s) ->
  eval_s gen_optable libm rty lty diff (te s) m (var_expr v) = Ok (VInt n) ->
  run_fwd gen_optable libm lty code Exec m None =
    Ok (if xorb (count_taken op (wrap32 (n - 1))) (is_unless k)
        then RJump l jt (update m (v_id v) (VInt (wrap32 (n - 1))))
        else RFall (update m (v_id v) (VInt (wrap32 (n - 1))))).
Proof. exact count_jump_correct_gen. Qed.

(* structure of all emitted code: generated labels carry the emitting call's gensym numbers, RegAlloc /
   RegFree are balanced (skipping over the code leaves memory unchanged), local typing only grows *)
Theorem C02_lowered_code_shape :
  forall avail auto_casts rty lty time mask fuel c s code s',
  lower avail auto_casts rty lty time mask fuel c s = Ok (code, s') ->
  Proofs.LowerShape.okshape lty s s' code.
Proof. exact Proofs.LowerShape.lower_shape. Qed.

(* the law behind the fallback encoding of float negation, for every bit pattern (NaNs are one class) *)
Theorem C02_fneg_is_mul_minus_one : forall x, fneg x = fmul F_NEG_ONE x.
Proof. exact fneg_is_mul_minus_one. Qed.

(* every instruction the lowerer emits for a statement carries that statement's time and mask
   (so times and difficulty masks of the instruction log are preserved by construction) *)
Theorem C02_lowered_instrs_carry_stmt_time :
  forall avail auto_casts rty lty time mask fuel c s code s',
  lower avail auto_casts rty lty time mask fuel c s = Ok (code, s') ->
  Forall (at_time time mask) code.
Proof. exact lower_times. Qed.

(* Stage C (closed): WHOLE BODIES.  [sprog]/[wprog] (Model/LowerProg.v) are AstVm on the flat source body and
   on the lowered instruction stream: state = memory, script time, real time, instruction log; waits, difficulty
   masks, jumps forwards and backwards (loops) to user labels, with or without a time argument.  Both are
   validated against AstVm itself on every run (Corr.C02.model_run: source body, and raised compiled code).
   For every body of statements covered by [wf_stmt] (assignments with any compound operator over jump-free
   or ternary right-hand sides (`v op= c ? a : b` goes through a temporary), declarations (one variable with a jump-free or ternary initialiser, or any list of
   variables each without initialiser or with a jump-free one),
   scope ends, empty statements, conditional / counting / unconditional jumps, labels, interrupts, instruction
   calls with jump-free or ternary arguments (complex arguments go through temporaries that are live across the call and freed after it);
   statements disabled on the VM's difficulty are waited for and skipped),
   every table of intrinsics, every initial state and any number of loop iterations [fs]:
   if the source run, in strict mode, ends in a state, the lowered stream ends in EXACTLY that state -- same
   registers and locals, same time and real time, same instruction log with the same real times.
   Strict mode makes two things errors of the source run instead of silent differences:
   - a statement met while the script time is already past its own time (non-monotone time labels, or `goto L @ t`
     with t after L's time): the jumps that the lowerer generates inside a statement reset the time to the
     statement's time.  Without this guard the statement is FALSE of the code: recorded finding
     c02-oracle:explicit-jump-time (corpus/C02/explicit_jump_time.txt);
   - a NaN operand of a comparison inside a condition (the property quantifies over non-NaN floats);
   - a scope end, an empty statement or a declaration without any initialiser that is the first statement at its time: the compiled code has nothing there
     that could wait (only the final time / real time of the VM differ).
   Scope markers are lexical in both machines: passing over a declaration or a scope end (seeking a label, or on
   another difficulty) resets that local to its default, as RegAlloc/RegFree do in the stream. *)
Theorem C02_body_correct :
  forall libm avail auto_casts rty lty diff dsel n0 fuel body code s',
  (forall op t, sigil_of_unop op <> None -> avail (KUnOp op t) = false) ->
  lower_body avail auto_casts rty lty fuel body (mklst n0 []) = Ok (code, s') ->
  wf_body rty lty n0 body ->
  forall fs st st', fresh lty (p_mem st) n0 ->
  sprog gen_optable libm rty lty diff dsel true fs body Exec st = Ok st' ->
  wprog gen_optable libm lty dsel fs code Exec st None = Ok st'.
Proof. exact body_correct_gen. Qed.

(* non-vacuity of Stage C: a loop through a backward counting jump (3 iterations), a compound assignment
   through a temporary, a ternary, `unless (a || b) goto L @ t`, a declaration with a ternary initialiser, a call
   disabled on the VM's difficulty, scope ends, declarations without initialiser (alone and in a list), calls with complex and ternary arguments: the premises hold, the strict source
   run ends (time 40, real time 60, 6 logged calls) and so does the lowered stream, in the same state *)
Example C02_body_example :
  let rty := fun _ : Z => TInt in let lty := fun _ : nat => TInt in let libm := fun (_ : unop) (_ : Z) => 0 in
  exists code s' st',
    lower_body ex_avail true rty lty 20 ex_body (mklst 2 []) = Ok (code, s') /\ length code = 66%nat /\
    wf_body rty lty 2 ex_body /\ fresh lty (p_mem ex_st0) 2 /\
    sprog gen_optable libm rty lty 0 (Some 0%nat) true 10 ex_body Exec ex_st0 = Ok st' /\
    p_time st' = 40 /\ p_real st' = 60 /\ length (p_log st') = 6%nat /\ regs (p_mem st') 1011 = VInt 27 /\
    wprog gen_optable libm lty (Some 0%nat) 10 code Exec ex_st0 None = Ok st'.
Proof. exact body_example. Qed.

(* The full property, for reference.  Not yet a theorem:
   difficulty switches inside expressions, ternaries nested inside
   arithmetic, and the composition with register allocation
   (Proofs/RegAllocSem.v, regalloc_simulates).  Those parts are covered by the structural correspondence (model lowering =
   implementation lowering) and by the AstVm before/after oracle on every run. *)
Definition C02_full_statement : Prop :=
  forall libm avail auto_casts rty lty time mask fuel (st : sstmt) s code s' m,
  (forall op t, sigil_of_unop op <> None -> avail (KUnOp op t) = false) ->
  lower_stmt avail auto_casts rty lty time mask fuel st s = Ok (code, s') ->
  fresh lty m (g s) ->
  exists r, run_fwd gen_optable libm lty code Exec m None = Ok r.

(* non-vacuity: `REG[1010] = (REG[1011] + 1) * (REG[1011] - 2)` with only `=` and binop intrinsics *)
Example C02_example :
  let avail := fun k => match k with KAssignOp None _ | KBinOp _ _ => true | _ => false end in
  let rty := fun _ : Z => TInt in let lty := fun _ : nat => TInt in
  let v := mkvar None (VReg 1010) in
  let e := EBin (EBin (EReg None 1011) Add (ELitI 1)) Mul (EBin (EReg None 1011) Sub (ELitI 2)) in
  let s := mklst 100 [] in
  let m := mkmem (fun r => if r =? 1011 then VInt 7 else VInt 0) (fun _ => VInt 0) in
  exists code s' m',
    lower avail true rty lty 0 255 10 (CAssignOp v None e) s = Ok (code, s') /\
    length code = 5%nat /\
    wt_pure rty lty (te s) e = true /\ locals_below (g s) e = true /\
    assign_s gen_optable (fun _ _ => 0) rty lty 0 (te s) m v None e = Ok m' /\
    regs m' 1010 = VInt 40.
Proof. exact lower_example. Qed.
