(* Props/C12.v -- property C12: argument encoding and decoding are inverse for every instruction
   signature.  Only statements; every proof is [exact lemma].
   Shift-JIS (encoding_rs) appears as the two premises [sjis_inverse] and [sjis_no_nul]; the harness
   sweeps both against encoding_rs over the whole repertoire on every run.
   [gen_codec] is the table gen/argcodec.py reads out of encode_args / decode_args_with_abi. *)
From TV Require Import Base.I32 Model.Abi Model.Intrinsic Spec.AbiFit Gen.ArgCodec
  Proofs.AbiBytes Proofs.AbiRoundtrip Proofs.AbiNoPanic Proofs.IntrinsicPlace Proofs.AbiReencode Proofs.AbiGen.
Open Scope Z_scope.

(* (1) decode o encode = id.  For every signature accepted by abi.rs validate() with at most as many
       parameters as the mask has bits, nonzero block sizes (and not nulless+furibug), padding anywhere,
       registers or immediates in every position, consecutive furigana strings (any state [st]):
       if encode_args succeeds without a warning on arguments that fit their fields, then the blob,
       mask and arg0 it produced decode -- through decode_args_with_abi and raise_raw_ins_args -- to
       exactly those arguments, with no warning. *)
Theorem C12_decode_encode :
  forall (sjis_enc : list Z -> option bytes) (sjis_dec : bytes -> option (list Z)) (repertoire : Z -> bool),
  (forall s b, forallb repertoire s = true -> sjis_enc s = Some b -> sjis_dec b = Some s) ->
  (forall s b, sjis_enc s = Some b -> In 0 b -> In 0 s) ->
  forall has_regs sig args st r st',
  sig_ok gen_codec has_regs sig = true ->
  args_fit repertoire gen_codec sig args = true ->
  encode_args sjis_enc gen_codec has_regs sig args st = Ok (r, st') ->
  r_warn r = [] -> zlen (r_blob r) < 2 ^ 32 ->
  decode_call sjis_dec gen_codec sig r = Ok (args, []).
Proof. exact (fun e d rp h1 h2 => decode_encode e d rp h1 h2 gen_codec gen_codec_ok). Qed.

(* (1') encode o decode = id: a blob (of bytes) and a mask that decode without any warning -- no leftover
        bytes, no unused mask bits, zero padding -- re-encode to exactly that blob and mask.  Signatures without
        strings and timeline arg0 (an over-padded string decodes without a warning and re-encodes shorter;
        that direction is not claimed); [mask_canonical]: no mask bit on an always-immediate parameter
        (the decoder ignores such a bit without a warning -- a known TODO in decode_args_with_abi). *)
Theorem C12_encode_decode :
  forall (sjis_enc : list Z -> option bytes) (sjis_dec : bytes -> option (list Z)) has_regs sig blob mask args st,
  forallb plain_enc sig = true -> forallb (enc_known gen_codec) sig = true -> bytes_ok blob -> 0 <= mask ->
  nparams sig <= cd_mask_bits gen_codec -> mask_canonical gen_codec sig mask = true ->
  decode_call sjis_dec gen_codec sig (mkres blob mask None []) = Ok (args, []) ->
  has_regs = true \/ existsb a_reg args = false ->
  encode_args sjis_enc gen_codec has_regs sig args st = Ok (mkres blob mask None [], st).
Proof. exact (fun e d => encode_decode e d gen_codec gen_codec_ok gen_codec_reenc). Qed.

(* (2) values that do not fit are diagnosed, not silently changed: every narrowing cast of the table is
       range-checked (side condition [all_checked gen_codec], discharged by computation on the generated
       table), so ANY well-typed argument list that encode_args accepts without a warning reads back
       exactly -- an integer outside its field's range, or outside i16 for a timeline arg0, cannot be accepted. *)
Theorem C12_no_silent_change :
  forall (sjis_enc : list Z -> option bytes) (sjis_dec : bytes -> option (list Z)) (repertoire : Z -> bool),
  (forall s b, forallb repertoire s = true -> sjis_enc s = Some b -> sjis_dec b = Some s) ->
  (forall s b, sjis_enc s = Some b -> In 0 b -> In 0 s) ->
  forall has_regs sig args st r st',
  sig_ok gen_codec has_regs sig = true ->
  args_typed repertoire sig args = true ->
  encode_args sjis_enc gen_codec has_regs sig args st = Ok (r, st') ->
  r_warn r = [] -> zlen (r_blob r) < 2 ^ 32 ->
  decode_call sjis_dec gen_codec sig r = Ok (args, []).
Proof. exact (fun e d rp h1 h2 => no_silent_change e d rp h1 h2 gen_codec gen_codec_ok gen_all_checked). Qed.

(* (3) a call that the front end accepts never makes encode_args panic.  [check_call] is the model of the
       arity/type/const-ness check of type_check.rs + const_simplify.rs (arguments against the non-padding
       parameters); [abi_of_params] of the mapfile signature parser with validate() (bs=0 rejected). *)
Theorem C12_accepted_call_never_panics :
  forall (sjis_enc : list Z -> option bytes) lang_arg0 ps sig args has_regs st,
  abi_of_params gen_codec lang_arg0 ps = Some sig ->
  check_call gen_codec sig args = true ->
  is_panic (encode_args sjis_enc gen_codec has_regs sig args st) = false.
Proof. exact accepted_call_never_panics_gen. Qed.

(* (4) intrinsic placement: the positions that IntrinsicInstrAbiParts::from_abi computes (counting padding)
       are exactly the non-padding positions of the signature, and IntrinsicBuilder::into_vec allocates for
       them, so it cannot panic -- for every intrinsic kind and every signature, padding anywhere. *)
Theorem C12_intrinsic_placement_total : forall k sig p b t,
  from_abi k sig = Ok p ->
  (match b_jump b with Some _ => true | None => false end) = (match ap_jump p with Some _ => true | None => false end) ->
  length (b_plain b) = length (ap_plain p) -> length (b_outputs b) = length (ap_outputs p) ->
  (exists outs, zip_outputs (b_outputs b) (ap_outputs p) = Ok outs) ->
  exists args, into_vec gen_codec p b t = Ok args.
Proof. exact (fun k sig p b t => into_vec_total gen_codec k sig p b t (or_introl gen_place_with_padding)). Qed.

(* (5) the signatures covered by (1) and (2) are all the signatures a mapfile can declare: whatever the signature
       parser accepts (block sizes are unsigned numbers; bs=0 and nulless+furibug are rejected, validate() holds)
       satisfies [sig_ok], given at most as many parameters as the mask has bits and registers only in
       languages without timeline arg0 *)
Theorem C12_parsed_signature_is_covered : forall lang_arg0 ps sig has_regs,
  abi_of_params gen_codec lang_arg0 ps = Some sig -> params_nonneg ps = true ->
  nparams sig <= cd_mask_bits gen_codec -> (lang_arg0 = true -> has_regs = false) ->
  sig_ok gen_codec has_regs sig = true.
Proof. exact parsed_sig_ok. Qed.

(* non-vacuity: the hypotheses of (1) are satisfiable by a non-trivial instance *)
Example C12_decode_encode_instance :
  let sig := [EInt 2 true false false; EPad 1; EFloat false; EStr (SBlock 4) 5 7 11 true] in
  let args := [mkarg (AInt (-300)) true; mkarg (AFloat 1069547520) false; mkarg (AStr [124; 97]) false] in
  let enc := fun s : list Z => Some s in
  sig_ok gen_codec true sig = true /\ args_fit (fun _ => true) gen_codec sig args = true /\
  exists r st', encode_args enc gen_codec true sig args (Some [1; 2; 3]) = Ok (r, st') /\ r_warn r = []
                /\ r_mask r = 1 /\ st' <> None /\ decode_call (fun b => Some b) gen_codec sig r = Ok (args, []).
Proof.
  cbv zeta. split; [vm_compute; reflexivity|]. split; [vm_compute; reflexivity|].
  eexists; eexists. split; [vm_compute; reflexivity|]. split; [reflexivity|]. split; [reflexivity|].
  split; [discriminate|]. vm_compute. reflexivity.
Qed.

Example C12_encode_decode_instance :
  let sig := [EInt 2 false false false; EPad 1; EFloat false] in
  let blob := [255; 255; 0; 0; 0; 128; 63] in
  let args := [mkarg (AInt 65535) false; mkarg (AFloat 1065353216) true] in
  forallb plain_enc sig = true /\ forallb (enc_known gen_codec) sig = true /\ mask_canonical gen_codec sig 2 = true /\
  decode_call (fun _ => None) gen_codec sig (mkres blob 2 None []) = Ok (args, []) /\
  encode_args (fun _ => None) gen_codec true sig args None = Ok (mkres blob 2 None [], None).
Proof. cbv zeta. repeat split; vm_compute; reflexivity. Qed.
