(* Props/C05.v -- property C05: scratch registers never collide with registers the script uses.
   Only statements; every proof is [exact lemma]. *)
From TV Require Import Base.I32 Model.RegAlloc Gen.Regs
  Proofs.RegAllocBase Proofs.RegAlloc Proofs.RegAllocThm Proofs.RegAllocGen.
Open Scope Z_scope.

(* [cfg_ok c] (Model/RegAlloc.v): no register is in two pools or twice in one; distinct parameters
   live in distinct registers.  Discharged for the generated tables in (6). *)

(* (1) the invariant, in every state the allocator reaches on any statement stream:
       live locals hold pairwise different registers; each is a named parameter in its parameter
       register, or a local in a general-use register of its own type that the code does not name
       (as far as get_explicitly_used_regs sees) and that is not a parameter register; a free
       register (other than a released parameter register) is in the free lists exactly once and
       is not held by a live local *)
Theorem C05_alloc_inv : forall c code s,
  cfg_ok c -> reachable c code s ->
  NoDup (map snd (locals s)) /\
  (forall d r, In (d, r) (locals s) ->
     In (Some d, r) (params c) \/
     exists t, tyof c d = Some t /\ In r (general c t) /\ ~ In r (explicit c code) /\ ~ In r (param_regs c)) /\
  (forall r, ~ In r (param_regs c) -> In r (all_free (free s)) ->
     count_occ Z.eq_dec (all_free (free s)) r = 1%nat /\ ~ In r (map snd (locals s))).
Proof. exact p_alloc_inv. Qed.

(* (2) what the compiler picks on its own at a RegAlloc: a general-use register of the local's type,
       not named by the code, not a parameter register, not held by any live local or parameter *)
Theorem C05_pick_ok : forall c code s d s' x',
  cfg_ok c -> reachable c code s ->
  step c (clash c (explicit c code)) s (RegAlloc d) = Ok (s', x') ->
  exists r t,
    locals s' = (d, r) :: locals s /\ tyof c d = Some t /\ In r (general c t) /\
    ~ In r (explicit c code) /\ ~ In r (param_regs c) /\ ~ In r (map snd (locals s)).
Proof. exact p_pick_ok. Qed.

(* (3) completeness of the scan for named registers (get_explicitly_used_regs as gen/regs.py finds
       it in the source).  [mentioned] is syntactic occurrence anywhere in the stream, also inside
       difficulty switches. *)
Theorem C05_explicit_regs_complete : forall code r,
  mentioned code r <-> In r (explicit_regs_sel gen_explicit_deep code).
Proof. exact p_explicit_regs_complete. Qed.

(* (2) + (3): the picked register is not mentioned anywhere in the code *)
Theorem C05_no_collision :
  forall c code s d s' x',
    cfg_ok c -> explicit c = explicit_regs_sel gen_explicit_deep -> True -> reachable c code s ->
    step c (clash c (explicit c code)) s (RegAlloc d) = Ok (s', x') ->
    exists r t,
      locals s' = (d, r) :: locals s /\ tyof c d = Some t /\ In r (general c t) /\
      ~ mentioned code r /\ ~ In r (param_regs c) /\ ~ In r (map snd (locals s)).
Proof. exact p_no_collision. Qed.

(* defect #3 (fixed in 4000fd0): `int x = 7; ins_200(x, (I0 : 5 : 6 : 7)); ins_200(x, 1);` in a TH06 sub
   puts x into I1, not into I0 *)
Example C05_f03_avoids_switch_register :
  match assign_registers (th06_cfg (explicit_regs_sel gen_explicit_deep)) f03_code with
  | Ok (_, Instr _ _ _ (Known [Raw (SReg r _); _]) :: _) | Ok (_, _ :: Instr _ _ _ (Known [Raw (SReg r _); _]) :: _) => r
  | _ => 0
  end = -10002.
Proof. exact f03_fixed. Qed.

(* (4) the result: same statements in the same order with the same opcode / time / difficulty,
       arguments unchanged except Local -> register of the same storage type, no Local left, and
       every register in the output is one the input names, a named parameter's register, or a
       register satisfying (1) *)
Theorem C05_alloc_result : forall c code s code',
  cfg_ok c -> assign_registers c code = Ok (s, code') ->
  length code' = length code /\
  forall2b stmt_refines code code' = true /\
  forallb stmt_no_local code' = true /\
  (forall r, mentioned code' r ->
     mentioned code r \/ In r (named_param_regs c) \/
     exists t, In r (general c t) /\ ~ In r (explicit c code) /\ ~ In r (param_regs c)).
Proof. exact p_alloc_result. Qed.

(* (5) closed failure *)
Theorem C05_exhausted_is_error : forall c c1 d c2 s o t,
  let code := c1 ++ RegAlloc d :: c2 in
  run c (clash c (explicit c code)) (init c code) c1 = Ok (s, o) ->
  tyof c d = Some t -> getp (free s) t = [] ->
  assign_registers c code = Err E_TOO_COMPLEX.
Proof. exact alloc_exhausted_fails. Qed.

Theorem C05_anti_scratch_is_error : forall c code,
  existsb is_alloc code = true -> existsb (is_anti c ThisFunction) code = true ->
  match assign_registers c code with Ok _ => False | _ => True end.
Proof. exact alloc_anti_fails. Qed.

Theorem C05_file_fails_closed : forall (cs : list (cfg * list lstmt)) outs,
  assign_file cs = Ok outs ->
  existsb (fun p => existsb is_alloc (snd p)) cs &&
  existsb (fun p => existsb (is_anti (fst p) WaterElf) (snd p)) cs = false /\
  forall p, In p cs -> existsb is_alloc (snd p) && existsb (is_anti (fst p) ThisFunction) (snd p) = false.
Proof. exact file_fails_closed. Qed.

(* (6) the side conditions hold for the register tables of the current source *)
Theorem C05_gen_pools_nodup : forall l g, In g gen_games ->
  NoDup (gen_general l g TInt ++ gen_general l g TFloat ++ gen_general l g TString).
Proof. exact gen_pools_nodup. Qed.

Theorem C05_gen_param_regs_nodup : forallb (fun g => nodupb (all_param_regs g)) gen_games = true.
Proof. exact gen_param_regs_nodup_b. Qed.

Theorem C05_param_registers_nodup : forall preg,
  (forall t n t' n' r, preg t n = Some r -> preg t' n' = Some r -> tclass t = tclass t' /\ n = n') ->
  forall ps l, param_registers preg ps 0 0 = Some l -> NoDup (map snd l).
Proof. exact p_param_registers_nodup. Qed.

Theorem C05_translator_recognised_everything : gen_unrecognised = 0%nat.
Proof. reflexivity. Qed.

(* non-vacuity: a TH06 sub with an int parameter (in I0) that keeps two int locals and a float
   temporary alive satisfies the hypotheses and allocates I1, I2, F1 (F0 is the float parameter's) *)
Definition ex_cfg : cfg :=
  {| general := gen_general LEcl G_Th06; anti := gen_anti LEcl G_Th06;
     params := [(Some 9%N, -10001); (None, -10005)];
     tyof := fun d => if N.eqb d 2 then Some TFloat else Some TInt;
     explicit := explicit_regs_sel gen_explicit_deep |}.
Definition ex_code : list lstmt :=
  [RegAlloc 0; RegAlloc 1; RegAlloc 2;
   Instr 200 0 255 (Known [Local 0 TInt; Local 1 TInt; Local 2 TFloat; Local 9 TInt; Raw (SReg (-10004) TInt)]);
   RegFree 2; RegFree 1; RegFree 0].

Example C05_example_cfg_ok : cfg_ok ex_cfg.
Proof. split; apply nodupb_NoDup; vm_compute; reflexivity. Qed.

Example C05_example_result :
  match assign_registers ex_cfg ex_code with
  | Ok (_, [_; _; _; Instr _ _ _ (Known args); _; _; _]) => args
  | _ => []
  end = [Raw (SReg (-10002) TInt); Raw (SReg (-10003) TInt); Raw (SReg (-10006) TFloat);
         Raw (SReg (-10001) TInt); Raw (SReg (-10004) TInt)].
Proof. vm_compute. reflexivity. Qed.

Example C05_example_switch_free : switch_reg_free ex_code = true.
Proof. reflexivity. Qed.

Example C05_example_exhausted :
  assign_registers ex_cfg (map RegAlloc [0; 1; 3; 4; 5; 6; 7; 8]%N) = Err E_TOO_COMPLEX.
Proof. vm_compute. reflexivity. Qed.
