(* Props/C17.v -- property C17: extracting images and compiling them back reproduces the embedded textures.
   Only statements; every proof is [exact lemma].  [gen_pixtable] is regenerated from src/image/color.rs on every run. *)
From TV Require Import Base.I32 Base.F32 Model.Pixel Gen.Pixel Gen.TexFmt Spec.ImageSources
  Proofs.PixelSweep Proofs.Pixel Proofs.PixelSources.
Open Scope Z_scope.

(* (1) every pixel value of every format survives decode -> encode: the three finite domains exhaustively
       (the bound is the whole domain), ARGB_8888 for all 2^32 values *)
Theorem C17_rgb565_lossless : forall p, 0 <= p < 2 ^ 16 ->
  (do c <- dec565 gen_pixtable p; enc565 gen_pixtable c) = Ok p.
Proof. exact rgb565_lossless. Qed.

Theorem C17_argb4444_lossless : forall p, 0 <= p < 2 ^ 16 ->
  (do c <- dec4444 gen_pixtable p; enc4444 gen_pixtable c) = Ok p.
Proof. exact argb4444_lossless. Qed.

Theorem C17_gray8_lossless : forall g, 0 <= g < 2 ^ 8 ->
  (do c <- decG gen_pixtable g; encG gen_pixtable c) = Ok g.
Proof. exact gray8_lossless. Qed.

Theorem C17_argb8888_lossless : forall p, 0 <= p < 2 ^ 32 ->
  (do c <- dec8888 gen_pixtable p; enc8888 gen_pixtable c) = Ok p.
Proof. exact argb8888_lossless_do. Qed.

(* ... and the detour through the ARGB_8888 pixel that the image file carries *)
Theorem C17_pixel_through_image_lossless : forall f p, 0 <= p < 256 ^ pt_bpp gen_pixtable f ->
  (do c <- dec_px gen_pixtable f p; do q <- enc8888 gen_pixtable c;
   do c' <- dec8888 gen_pixtable q; enc_px gen_pixtable f c') = Ok p.
Proof. exact through_png_lossless. Qed.

(* (2) whole textures: ColorFormat::transcode_to_argb_8888 then transcode_from_argb_8888 is the identity on every
       byte string whose length is a multiple of the pixel size *)
Theorem C17_transcode_lossless : forall f bs,
  Forall (fun b => 0 <= b < 256) bs -> (Nat.modulo (length bs) (bpp_nat gen_pixtable f) = 0)%nat ->
  (do a <- to_argb gen_pixtable f bs; from_argb gen_pixtable f a) = Ok bs.
Proof. exact transcode_lossless_do. Qed.

(* (3) cropping by the offsets undoes the padding by the offsets, for all dimensions and offsets *)
Theorem C17_texture_roundtrip : forall ox oy w h (tex : list (list pixel)),
  length tex = h -> Forall (fun r => length r = w) tex ->
  crop ox oy w h (pad ox oy w tex) = tex.
Proof. exact texture_roundtrip. Qed.

(* (4) extract, then compile with the extraction directory as image source: the THTX section is reproduced exactly,
       for every supported format, size, offset and every script entry that does not contradict the original.
       PNG encoding/decoding is an explicit premise (lossless for RGBA8), not an axiom. *)
Theorem C17_extract_compile_roundtrip :
  forall (pngfile : Type) (png_enc : image -> pngfile) (png_dec : pngfile -> option image),
  (forall im, png_dec (png_enc im) = Some im) ->
  forall f t ox oy sp path,
    (t_fmt t = pt_fmt_num gen_pixtable f /\ Forall (fun b => 0 <= b < 256) (t_data t) /\
     length (t_data t) = (bpp_nat gen_pixtable f * (t_w t * t_h t))%nat) ->
    (soft_agrees (s_w sp) (t_w t) /\ soft_agrees (s_h sp) (t_h t) /\
     into_option (set_soft_if_missing (s_fmt sp) (pt_fmt_num gen_pixtable Argb8888)) = Some (pt_fmt_num gen_pixtable f) /\
     into_option (set_soft_if_missing (s_has sp) true) = Some true /\
     opt_nat (into_option (s_ox sp)) = ox /\ opt_nat (into_option (s_oy sp)) = oy) ->
    (* the padded image is within the bound that `truanm extract` puts on it (fix d8a7ff5; no bound before it) *)
    over_bound gen_extract_bound ox oy t = false ->
    exists im, extract_image gen_extract_bound gen_pixtable ox oy t = Ok im /\
      compile_textures pngfile png_dec gen_pixtable [SDir [(path, png_enc im)]]
        [{| we_path := path; we_specs := sp; we_loaded := LNone |}] = Ok [Some t].
Proof.
  intros pngfile png_enc png_dec Hpng f t ox oy sp path Hv Hs Hb.
  destruct (extract_compile_roundtrip pngfile png_enc png_dec Hpng f t ox oy sp path Hv Hs) as [im [Hp Hc]].
  exists im. split; [apply extract_image_within; assumption | exact Hc].
Qed.

(* beyond the bound extraction is a diagnostic, not an image: the round trip is about images that can be extracted *)
Theorem C17_extract_beyond_bound_is_error : forall f t ox oy,
  format_of_num gen_pixtable (t_fmt t) = Some f ->
  length (t_data t) = (bpp_nat gen_pixtable f * t_w t * t_h t)%nat ->
  over_bound gen_extract_bound ox oy t = true ->
  extract_image gen_extract_bound gen_pixtable ox oy t = Err 28%nat.
Proof.
  intros f t ox oy Hf Hl Hb. unfold extract_image. rewrite Hf, Hl, Nat.eqb_refl, Hb. reflexivity.
Qed.

(* (5) entries sharing a path are matched to source entries in order of appearance *)
Theorem C17_same_path_matched_in_order : forall (pngfile : Type) (ds : list (wentry pngfile)) q i d,
  nth_error ds i = Some d ->
  nth_error (apply_anm pngfile q ds) i =
    Some (match nth_error (filter (fun s => Nat.eqb (se_path s) (we_path _ d)) q)
                          (count_occ Nat.eq_dec (firstn i (map (we_path _) ds)) (we_path _ d)) with
          | Some s => update_from_anm pngfile d s
          | None => d
          end).
Proof.
  intros pngfile ds q i d H. rewrite (same_path_matched_in_order pngfile ds q i d H).
  unfold matched, rank. now rewrite (nth_path pngfile ds i d H).
Qed.

(* (6) when several image sources supply the same entry, the last one wins *)
Theorem C17_last_source_wins : forall (pngfile : Type) srcs1 (s : source pngfile) srcs2 ds i d l,
  nth_error ds i = Some d ->
  supplies pngfile s (map (we_path _) ds) i = Some l ->
  (forall s', In s' srcs2 -> supplies pngfile s' (map (we_path _) ds) i = None) ->
  exists d', nth_error (apply_sources pngfile (srcs1 ++ s :: srcs2) ds) i = Some d' /\ we_loaded _ d' = l.
Proof. exact last_source_wins. Qed.

(* (7) an ANM file used as image source has its texture copied verbatim (any format number, any bytes) *)
Theorem C17_anm_source_verbatim : forall (pngfile : Type) (png_dec : pngfile -> option image) srcs1 q srcs2 ds i d se t,
  nth_error ds i = Some d ->
  matched q (map (we_path _) ds) i = Some se -> se_tex se = Some t ->
  (forall s', In s' srcs2 -> no_match pngfile s' (map (we_path _) ds) i) ->
  soft_agrees (s_w (we_specs _ d)) (t_w t) -> soft_agrees (s_h (we_specs _ d)) (t_h t) ->
  soft_agrees (s_fmt (we_specs _ d)) (t_fmt t) -> soft_agrees (s_has (we_specs _ d)) true ->
  exists d', nth_error (apply_sources pngfile (srcs1 ++ SAnm q :: srcs2) ds) i = Some d' /\
             finalize_entry pngfile png_dec gen_pixtable d' = Ok (Some t).
Proof. exact anm_source_verbatim. Qed.

(* (8) SoftOption precedence: an explicit `has_data: false` is never overridden by an image source *)
Theorem C17_explicit_beats_source : forall (pngfile : Type) (png_dec : pngfile -> option image) srcs ds i d d' r,
  nth_error ds i = Some d -> s_has (we_specs _ d) = Explicit false ->
  nth_error (apply_sources pngfile srcs ds) i = Some d' ->
  finalize_entry pngfile png_dec gen_pixtable d' = Ok r -> r = None.
Proof. exact explicit_beats_source. Qed.

(* non-vacuity: the hypotheses are satisfiable by non-trivial instances *)
Definition ex_tex : texture := {| t_w := 2; t_h := 1; t_fmt := 3; t_data := [0x34; 0x12; 0xff; 0xff] |}.
Definition ex_spec : wspecs := {| s_w := Explicit 2%nat; s_h := Missing; s_fmt := Explicit 3; s_has := Missing;
                                  s_ox := Explicit 3%nat; s_oy := Explicit 1%nat |}.

Example C17_roundtrip_instance :
  (t_fmt ex_tex = pt_fmt_num gen_pixtable Rgb565 /\ Forall (fun b => 0 <= b < 256) (t_data ex_tex) /\
   length (t_data ex_tex) = (bpp_nat gen_pixtable Rgb565 * (t_w ex_tex * t_h ex_tex))%nat) /\
  (soft_agrees (s_w ex_spec) (t_w ex_tex) /\ soft_agrees (s_h ex_spec) (t_h ex_tex) /\
   into_option (set_soft_if_missing (s_fmt ex_spec) (pt_fmt_num gen_pixtable Argb8888)) = Some (pt_fmt_num gen_pixtable Rgb565) /\
   into_option (set_soft_if_missing (s_has ex_spec) true) = Some true /\
   opt_nat (into_option (s_ox ex_spec)) = 3%nat /\ opt_nat (into_option (s_oy ex_spec)) = 1%nat) /\
  over_bound gen_extract_bound 3 1 ex_tex = false /\
  (do im <- extract_image gen_extract_bound gen_pixtable 3 1 ex_tex;
   compile_textures image Some gen_pixtable [SDir [(7%nat, im)]]
     [{| we_path := 7%nat; we_specs := ex_spec; we_loaded := LNone |}]) = Ok [Some ex_tex].
Proof.
  split; [|split].
  - repeat split; try reflexivity. repeat constructor; cbn; lia.
  - repeat split; reflexivity.
  - split; vm_compute; reflexivity.
Qed.

(* two script entries with the same path, two ANM sources with two entries each for that path and a directory:
   the second script entry takes the second entry of the last ANM source, verbatim *)
Definition ex_e (p : nat) : wentry image :=
  {| we_path := p; we_specs := {| s_w := Missing; s_h := Missing; s_fmt := Missing; s_has := Missing; s_ox := Missing; s_oy := Missing |};
     we_loaded := LNone |}.
Definition ex_t (b : Z) : texture := {| t_w := 1; t_h := 1; t_fmt := 7; t_data := [b] |}.
Definition ex_se (p : nat) (b : Z) : sentry := {| se_path := p; se_ox := O; se_oy := O; se_tex := Some (ex_t b) |}.

Example C17_sources_instance :
  let ds := [ex_e 1; ex_e 1] in
  let q := [ex_se 1 30; ex_se 2 31; ex_se 1 32] in
  matched q (map (we_path _) ds) 1 = Some (ex_se 1 32) /\
  no_match image (SDir [(5%nat, {| iw := O; ih := O; irows := [] |})]) (map (we_path _) ds) 1 /\
  compile_textures image Some gen_pixtable
    [SAnm [ex_se 1 10; ex_se 1 11]; SAnm q; SDir [(5%nat, {| iw := O; ih := O; irows := [] |})]] ds
  = Ok [Some (ex_t 30); Some (ex_t 32)].
Proof. repeat split; vm_compute; reflexivity. Qed.
