(* Model/LowerSem.v -- semantics of flat source statements (what AstVm does with them) and of
   the lowered instruction stream.  Executable definitions only.

   Memory = registers + locals.  A local is set to the default value of its type when it is
   allocated and again when it is freed: a freed local is unobservable, and this makes "the
   compiled code leaves memory exactly as the source statement does" an equality. *)
From TV Require Import Base.I32 Base.F32 Model.Ops Model.Expr Model.Lower.
Open Scope Z_scope.

Record mem := mkmem { regs : Z -> value; locs : nat -> value }.

Definition default_of (t : ty) : value := match t with TInt => VInt 0 | TFloat => VFloat 0 end.
Definition vty (v : value) : option ty := match v with VInt _ => Some TInt | VFloat _ => Some TFloat | VStr _ => None end.

Definition lookup (m : mem) (x : lvar) : value :=
  match x with VReg r => regs m r | VLoc d => locs m d end.
Definition update (m : mem) (x : lvar) (v : value) : mem :=
  match x with
  | VReg r => mkmem (fun r' => if r' =? r then v else regs m r') (locs m)
  | VLoc d => mkmem (regs m) (fun d' => if Nat.eqb d' d then v else locs m d')
  end.

Section Sem.
  Variable T : optable.
  Variable libm : unop -> Z -> Z.
  Variable rty : Z -> ty.
  Variable lty : nat -> ty.
  Variable diff : nat.

  (* source expressions are evaluated by the C11 evaluator (AstVm::eval) *)
  Definition eval_src (m : mem) (e : expr) : outcome value :=
    eval T libm (regs m) (locs m) (fun _ => None) diff e.

  (* a lowered argument: immediates, or a variable read as a given type (a sigil read) *)
  Definition read_arg (m : mem) (a : targ) : outcome value :=
    match a with
    | TImm v => Ok v
    | TVar t x => expect (cast_by_sigil (Some (sigil_of_ty t)) (lookup m x))
    | _ => Panic P_UNIMPL
    end.

  Definition write_arg (m : mem) (a : targ) (v : value) : outcome mem :=
    match a with
    | TVar _ x => Ok (update m x v)
    | _ => Panic P_EXPECT
    end.

  (* the intrinsics compute with the operator semantics of the VM *)
  Definition exec_pure (i : tinstr) (m : mem) : outcome mem :=
    match i with
    | IAssignOp None _ dst src => do v <- read_arg m src; write_arg m dst v
    | IAssignOp (Some b) _ dst src =>
        do old <- read_arg m dst; do v <- read_arg m src; do r <- binop_eval T b old v; write_arg m dst r
    | IBinOp op _ dst a b =>
        do x <- read_arg m a; do y <- read_arg m b; do r <- binop_eval T op x y; write_arg m dst r
    | IUnOp op _ dst a =>
        do x <- read_arg m a;
        do r <- unop_eval libm T op x;
        match r with Some v => write_arg m dst v | None => Panic P_EXPECT end
    | _ => Panic P_UNIMPL
    end.

  (* jump-free code, ignoring times and difficulty masks (all instructions emitted for one statement
     carry that statement's time and mask) *)
  Fixpoint run_pure (code : list lstmt) (m : mem) : outcome mem :=
    match code with
    | [] => Ok m
    | LInstr _ _ i :: rest => do m' <- exec_pure i m; run_pure rest m'
    | LAlloc d t :: rest => run_pure rest (update m (VLoc d) (default_of t))
    | LFree d :: rest => run_pure rest (update m (VLoc d) (default_of (lty d)))
    | LLabel _ _ :: rest => run_pure rest m
    end.

  (* what AstVm does for `v aop= e;` *)
  Definition assign_src (m : mem) (v : var) (aop : assignop) (e : expr) : outcome mem :=
    do val <- eval_src m e;
    match aop with
    | None => Ok (update m (v_id v) val)
    | Some b =>
        do old <- eval_src m (var_expr v);
        do r <- binop_eval T b old val;
        Ok (update m (v_id v) r)
    end.
End Sem.

(* ---- the expression fragment of the first lowering theorem ---- *)
Section Typing.
  Variable rty : Z -> ty.
  Variable lty : nat -> ty.

  (* make every read type explicit (a variable without sigil is read as its inherent type) *)
  Fixpoint elab (te : tenv) (e : expr) : expr :=
    match e with
    | EReg None r => EReg (Some (sigil_of_ty (rty r))) r
    | EVar None d => EVar (Some (sigil_of_ty (loc_ty lty te d))) d
    | EUn op x => EUn op (elab te x)
    | EBin a op b => EBin (elab te a) op (elab te b)
    | ETern c l r => ETern (elab te c) (elab te l) (elab te r)
    | _ => e
    end.

  Definition is_int_only (op : binop) : bool :=
    match op with
    | BitOr | BitXor | BitAnd | LogicOr | LogicAnd | ShiftLeft | ShiftRightSigned | ShiftRightUnsigned => true
    | _ => false
    end.

  (* well-typed, jump-free expressions: literals, variables, unary and binary operators *)
  Fixpoint wt_pure (te : tenv) (e : expr) : bool :=
    match e with
    | ELitI _ | ELitF _ | EReg _ _ | EVar _ _ => true
    | EUn op x =>
        wt_pure te x &&
        match op with
        | Neg | EncodeI | EncodeF | CastI | CastF => true
        | Not | BitNot => ty_eqb (ety rty lty te x) TInt
        | Sin | Cos | Tan | Asin | Acos | Atan | Sqrt => ty_eqb (ety rty lty te x) TFloat
        end
    | EBin a op b =>
        wt_pure te a && wt_pure te b && ty_eqb (ety rty lty te a) (ety rty lty te b) &&
        (if is_int_only op then ty_eqb (ety rty lty te a) TInt else true)
    | _ => false
    end.

  (* locals mentioned by an expression are below a bound (temporaries are allocated above it) *)
  Fixpoint locals_below (n : nat) (e : expr) : bool :=
    match e with
    | EVar _ d => Nat.ltb d n
    | EUn _ x => locals_below n x
    | EBin a _ b => locals_below n a && locals_below n b
    | ETern c l r => locals_below n c && locals_below n l && locals_below n r
    | EDiff _ | ECall _ _ => false
    | _ => true
    end.
End Typing.

(* ---- code with jumps: forward-label semantics of the code emitted for ONE statement ----
   All labels the lowerer generates are jumped to from earlier positions of the same statement's code.
   [Exec] executes; [Seek l t] skips forward to label l (RegAlloc/RegFree markers are lexical and are
   processed in both modes).  Falling off the end while seeking means the jump leaves the statement. *)
Inductive mode := Exec | Seek (l : label) (t : option Z).
Inductive fres := RFall (m : mem) | RJump (l : label) (t : option Z) (m : mem).

Definition label_eqb (a b : label) : bool :=
  match a, b with
  | LUser x, LUser y => Nat.eqb x y
  | LGen k1 n1, LGen k2 n2 => Nat.eqb k1 k2 && Nat.eqb n1 n2
  | _, _ => false
  end.

Section JumpSem.
  Variable T : optable.
  Variable libm : unop -> Z -> Z.
  Variable lty : nat -> ty.

  Definition truthy (v : value) : outcome bool :=
    match v with VInt 0 => Ok false | VInt _ => Ok true | _ => Panic P_TYPE end.

  (* one instruction: new memory, new hidden compare register, and whether it jumps *)
  Definition exec_step (i : tinstr) (m : mem) (cmp : option (value * value))
    : outcome (mem * option (value * value) * option (label * option Z)) :=
    match i with
    | ICondJmp op _ a b l jt =>
        do x <- read_arg m a; do y <- read_arg m b; do r <- binop_eval T op x y; do t <- truthy r;
        Ok (m, cmp, if t then Some (l, jt) else None)
    | ICmp _ a b => do x <- read_arg m a; do y <- read_arg m b; Ok (m, Some (x, y), None)
    | ICmpJmp op l jt =>
        match cmp with
        | Some (x, y) => do r <- binop_eval T op x y; do t <- truthy r; Ok (m, cmp, if t then Some (l, jt) else None)
        | None => Panic P_EXPECT
        end
    | ICountJmp op x l jt =>
        do v <- read_arg m x;
        match v with
        | VInt n =>
            let n' := wrap32 (n - 1) in
            do m' <- write_arg m x (VInt n');
            let taken := match op with Gt => 0 <? n' | _ => negb (n' =? 0) end in
            Ok (m', cmp, if taken then Some (l, jt) else None)
        | _ => Panic P_TYPE
        end
    | IJmp l jt => Ok (m, cmp, Some (l, jt))
    | IInterrupt _ => Ok (m, cmp, None)
    | ICall _ _ => Panic P_UNIMPL
    | _ => do m' <- exec_pure T libm i m; Ok (m', cmp, None)
    end.

  Fixpoint run_fwd (code : list lstmt) (md : mode) (m : mem) (cmp : option (value * value)) : outcome fres :=
    match code with
    | [] => Ok (match md with Exec => RFall m | Seek l t => RJump l t m end)
    | LAlloc d t :: rest => run_fwd rest md (update m (VLoc d) (default_of t)) cmp
    | LFree d :: rest => run_fwd rest md (update m (VLoc d) (default_of (lty d))) cmp
    | LLabel _ l' :: rest =>
        match md with
        | Seek l t => if label_eqb l l' then run_fwd rest Exec m cmp else run_fwd rest md m cmp
        | Exec => run_fwd rest Exec m cmp
        end
    | LInstr _ _ i :: rest =>
        match md with
        | Seek _ _ => run_fwd rest md m cmp
        | Exec =>
            match exec_step i m cmp with
            | Ok (m', cmp', None) => run_fwd rest Exec m' cmp'
            | Ok (m', cmp', Some (l, t)) => run_fwd rest (Seek l t) m' cmp'
            | Err e => Err e | Panic p => Panic p | OutOfFuel => OutOfFuel
            end
        end
    end.
End JumpSem.

(* conditions and ternaries whose leaves are jump-free expressions *)
Section CondTyping.
  Variable rty : Z -> ty.
  Variable lty : nat -> ty.

  Fixpoint wt_cond (te : tenv) (e : expr) : bool :=
    match e with
    | EBin a op b =>
        match op with
        | LogicAnd | LogicOr => wt_cond te a && wt_cond te b
        | _ => wt_pure rty lty te e && ty_eqb (ety rty lty te e) TInt
        end
    | EUn Not b => wt_cond te b
    | _ => wt_pure rty lty te e && ty_eqb (ety rty lty te e) TInt
    end.

  Fixpoint wt_tern (te : tenv) (e : expr) : bool :=
    match e with
    | ETern c l r => wt_cond te c && wt_tern te l && wt_tern te r && ty_eqb (ety rty lty te l) (ety rty lty te r)
    | _ => wt_pure rty lty te e
    end.
End CondTyping.
