(* Model/Container.v -- executable model of truth's instruction containers (property C03).

   Restates, over the tables that gen/instrheader.py reads out of the nine `impl InstrFormat`
   blocks under src/formats, the functions
     InstrFormat::write_instr / read_instr / write_terminal_instr / instr_size
     llir::write_instrs / llir::read_instrs                     (src/llir/mod.rs)
     BinWrite::write_{i8..u32} / BinRead::read_{i8..u32}        (src/io.rs, little endian)
   Definitions only; the lemmas are in Proofs/Container*.v. *)
From TV Require Import Base.I32.
Open Scope Z_scope.

(* ------------------------------------------------------------------------------------------ *)
(* Rust integer types that occur in headers; usize is U64 *)
Inductive ity := I8 | U8 | I16 | U16 | I32 | U32 | U64.

Definition ity_bytes (t : ity) : nat :=
  match t with I8 | U8 => 1 | I16 | U16 => 2 | I32 | U32 => 4 | U64 => 8 end%nat.
Definition ity_signed (t : ity) : bool := match t with I8 | I16 | I32 => true | _ => false end.
Definition ity_bits (t : ity) : Z := 8 * Z.of_nat (ity_bytes t).
Definition ity_lo (t : ity) : Z := if ity_signed t then - 2 ^ (ity_bits t - 1) else 0.
Definition ity_hi (t : ity) : Z := if ity_signed t then 2 ^ (ity_bits t - 1) - 1 else 2 ^ ity_bits t - 1.
Definition in_range (t : ity) (v : Z) : Prop := ity_lo t <= v <= ity_hi t.
Definition in_rangeb (t : ity) (v : Z) : bool := (ity_lo t <=? v) && (v <=? ity_hi t).
(* Rust `v as t` *)
Definition cast (t : ity) (v : Z) : Z := if ity_signed t then swrap (ity_bits t) v else uwrap (ity_bits t) v.
(* every value of a is a value of b *)
Definition sub_range (a b : ity) : bool := (ity_lo b <=? ity_lo a) && (ity_hi a <=? ity_hi b).
Definition ity_eqb (a b : ity) : bool :=
  match a, b with
  | I8, I8 | U8, U8 | I16, I16 | U16, U16 | I32, I32 | U32, U32 | U64, U64 => true
  | _, _ => false
  end.

(* ------------------------------------------------------------------------------------------ *)
(* little-endian byte strings (byteorder::LittleEndian): a byte is a Z in 0..255 *)
Fixpoint le_encode (n : nat) (v : Z) : list Z :=
  match n with O => [] | S k => v mod 256 :: le_encode k (v / 256) end.
Fixpoint le_decode (bs : list Z) : Z :=
  match bs with [] => 0 | b :: t => b + 256 * le_decode t end.

(* read_exact: the first n bytes and the remainder, None at end of input *)
Fixpoint take (n : nat) (bs : list Z) : option (list Z * list Z) :=
  match n with
  | O => Some ([], bs)
  | S k => match bs with
           | [] => None
           | b :: t => match take k t with Some (a, r) => Some (b :: a, r) | None => None end
           end
  end.

(* diagnostics / panics of this model *)
Definition E_EOF : nat := 30.      (* read_exact failed: "failed to fill whole buffer" diagnostic *)
Definition E_RANGE : nat := 31.    (* a checked header field is out of range (diagnostic) *)
Definition E_BADSIZE : nat := 32.  (* "bad instruction size" *)
Definition E_PASTEND : nat := 33.  (* "script read past expected end" *)
Definition E_TERMLIKE : nat := 34. (* a writer refused an instruction that reads as the end marker *)

(* ------------------------------------------------------------------------------------------ *)
(* llir::RawInstr *)
Record instr := mkInstr {
  i_time : Z; i_opcode : Z; i_mask : Z; i_args : list Z;
  i_diff : Z; i_pop : Z; i_extra : Z; i_argc : Z }.
(* i_extra is extra_arg.unwrap_or(0): the writers use exactly that value, and the model identifies
   None with Some(0) (the harness serialises the field the same way). *)

(* what a header field holds *)
Inductive fld :=
| FTime | FOpcode | FMask | FDiff | FPop | FExtra | FArgc   (* RawInstr fields *)
| FArgsLen                 (* instr.args_blob.len() *)
| FInstrSize               (* self.instr_size(instr) = instr_header_size() + args_blob.len() *)
| FConst (c : Z).          (* a literal on the write side; a value that is read and dropped on the read side *)

Definition fld_eqb (a b : fld) : bool :=
  match a, b with
  | FTime, FTime | FOpcode, FOpcode | FMask, FMask | FDiff, FDiff | FPop, FPop
  | FExtra, FExtra | FArgc, FArgc | FArgsLen, FArgsLen | FInstrSize, FInstrSize => true
  | FConst x, FConst y => x =? y
  | _, _ => false
  end.
Definition is_const (f : fld) : bool := match f with FConst _ => true | _ => false end.

Inductive castk := AsCast | Checked.
(* one `f.write_<disk>(<expr of type mem> [as _])` *)
Record wfield := W { w_fld : fld; w_mem : ity; w_disk : ity; w_cast : castk }.
(* one `let x = f.read_<disk>()? [as <mem>]`, stored in RawInstr field r_fld (type r_mem) *)
Record rfield := R { r_fld : fld; r_disk : ity; r_mem : ity }.

Inductive argrule :=
| ArgsByLen            (* read_byte_vec(argsize) *)
| ArgsBySizeChecked    (* size.checked_sub(header) or "bad instruction size" *)
| ArgsBySizePanic      (* size - header: overflow panic (debug build) *)
| ArgsFixed (n : Z).   (* assert_eq!(argsize, n); read_byte_vec(n) *)

Inductive tkind := TNone | TTerminal | TMaybe.

Record fmt := mkFmt {
  f_hdr : Z;                       (* instr_header_size() *)
  f_write : list wfield;           (* write_instr, in order; the args blob follows *)
  f_read : list rfield;            (* read_instr, in order *)
  f_eof_first : bool;              (* the first read is read_i16_or_eof *)
  f_args : argrule;
  f_tkind : tkind;                 (* how read_instr recognises the end marker *)
  f_tafter : nat;                  (* number of header fields read before that test *)
  f_tafter_args : bool;            (* the test comes after the args blob was read *)
  f_tcond : list (fld * Z);        (* all of these fields equal these values *)
  f_twrite : list (ity * Z);       (* write_terminal_instr *)
  f_tguard : bool;                 (* write_instr refuses instructions that satisfy f_tcond *)
  f_fixed_wdiag : bool;            (* ArgsFixed: the writer reports a wrong argument size as a diagnostic (else assert!) *)
  f_fixed_rdiag : bool;            (* ArgsFixed: the reader reports a wrong argument size as a diagnostic (else assert!) *)
  f_default : instr                (* RawInstr::DEFAULTS *)
}.

Definition alen (i : instr) : Z := Z.of_nat (length (i_args i)).

Definition get (hdr : Z) (i : instr) (f : fld) : Z :=
  match f with
  | FTime => i_time i | FOpcode => i_opcode i | FMask => i_mask i | FDiff => i_diff i
  | FPop => i_pop i | FArgc => i_argc i
  | FExtra => i_extra i
  | FArgsLen => alen i
  | FInstrSize => hdr + alen i
  | FConst c => c
  end.

Definition instr_size (f : fmt) (i : instr) : Z := f_hdr f + alen i.

Definition cond_on (hdr : Z) (i : instr) (c : list (fld * Z)) : bool :=
  forallb (fun p => get hdr i (fst p) =? snd p) c.
(* the instruction satisfies the end-marker test of its own format *)
Definition looks_terminal (f : fmt) (i : instr) : bool := cond_on (f_hdr f) i (f_tcond f).

(* ------------------------------------------------------------------------------------------ *)
(* writing *)
Definition write_field (hdr : Z) (i : instr) (w : wfield) : outcome (list Z) :=
  let v := get hdr i (w_fld w) in
  match w_cast w with
  | AsCast => Ok (le_encode (ity_bytes (w_disk w)) v)
  | Checked => if in_rangeb (w_disk w) v then Ok (le_encode (ity_bytes (w_disk w)) v) else Err E_RANGE
  end.

Fixpoint write_fields (hdr : Z) (i : instr) (ws : list wfield) : outcome (list Z) :=
  match ws with
  | [] => Ok []
  | w :: t => do a <- write_field hdr i w; do b <- write_fields hdr i t; Ok (a ++ b)
  end.

Definition write_instr (f : fmt) (i : instr) : outcome (list Z) :=
  if f_tguard f && looks_terminal f i then Err E_TERMLIKE else
  do h <- write_fields (f_hdr f) i (f_write f);
  match f_args f with
  | ArgsFixed n => if alen i =? n then Ok (h ++ i_args i) else if f_fixed_wdiag f then Err E_RANGE else Panic P_EXPECT
  | _ => Ok (h ++ i_args i)
  end.

Definition write_terminal (f : fmt) : outcome (list Z) :=
  match f_tkind f with
  | TNone => Panic P_EXPECT      (* "stack ECL has no terminal instr"; never called by write_instrs *)
  | _ => Ok (flat_map (fun p => le_encode (ity_bytes (fst p)) (snd p)) (f_twrite f))
  end.

(* llir::write_instrs *)
Fixpoint write_seq (f : fmt) (l : list instr) : outcome (list Z) :=
  match l with
  | [] => Ok []
  | i :: t => do a <- write_instr f i; do b <- write_seq f t; Ok (a ++ b)
  end.
Definition write_instrs (f : fmt) (l : list instr) : outcome (list Z) :=
  do a <- write_seq f l;
  match f_tkind f with
  | TNone => Ok a
  | _ => do t <- write_terminal f; Ok (a ++ t)
  end.

(* ------------------------------------------------------------------------------------------ *)
(* reading *)
Definition read_field (r : rfield) (bs : list Z) : outcome (fld * Z * list Z) :=
  match take (ity_bytes (r_disk r)) bs with
  | None => Err E_EOF
  | Some (a, rest) => Ok (r_fld r, cast (r_mem r) (cast (r_disk r) (le_decode a)), rest)
  end.

Fixpoint read_fields (rs : list rfield) (bs : list Z) : outcome (list (fld * Z) * list Z) :=
  match rs with
  | [] => Ok ([], bs)
  | r :: t => do x <- read_field r bs;
              do y <- read_fields t (snd x);
              Ok (fst x :: fst y, snd y)
  end.

Fixpoint lookup (f : fld) (vals : list (fld * Z)) : option Z :=
  match vals with
  | [] => None
  | (g, v) :: t => if fld_eqb f g then Some v else lookup f t
  end.
Definition lookup_or (f : fld) (vals : list (fld * Z)) (d : Z) : Z :=
  match lookup f vals with Some v => v | None => d end.

Definition cond_vals (vals : list (fld * Z)) (c : list (fld * Z)) : bool :=
  forallb (fun p => match lookup (fst p) vals with Some v => v =? snd p | None => false end) c.

(* RawInstr { <fields read>, ..RawInstr::DEFAULTS } *)
Definition rebuild (d : instr) (vals : list (fld * Z)) (args : list Z) : instr :=
  {| i_time := lookup_or FTime vals (i_time d);
     i_opcode := lookup_or FOpcode vals (i_opcode d);
     i_mask := lookup_or FMask vals (i_mask d);
     i_args := args;
     i_diff := lookup_or FDiff vals (i_diff d);
     i_pop := lookup_or FPop vals (i_pop d);
     i_extra := lookup_or FExtra vals (i_extra d);
     i_argc := lookup_or FArgc vals (i_argc d) |}.

Definition args_len (f : fmt) (vals : list (fld * Z)) : outcome Z :=
  match f_args f with
  | ArgsByLen => match lookup FArgsLen vals with Some n => Ok n | None => Panic P_UNREC end
  | ArgsBySizeChecked =>
      match lookup FInstrSize vals with
      | Some s => if s <? f_hdr f then Err E_BADSIZE else Ok (s - f_hdr f)
      | None => Panic P_UNREC
      end
  | ArgsBySizePanic =>
      match lookup FInstrSize vals with
      | Some s => if s <? f_hdr f then Panic P_OVERFLOW else Ok (s - f_hdr f)
      | None => Panic P_UNREC
      end
  | ArgsFixed n =>
      match lookup FArgsLen vals with
      | Some a => if a =? n then Ok n else if f_fixed_rdiag f then Err E_BADSIZE else Panic P_EXPECT
      | None => Panic P_UNREC
      end
  end.

Inductive rkind := RInstr (i : instr) | RMaybe (i : instr) | RTerminal | REof.

Definition is_tterminal (f : fmt) : bool := match f_tkind f with TTerminal => true | _ => false end.
Definition is_tmaybe (f : fmt) : bool := match f_tkind f with TMaybe => true | _ => false end.

Definition ISIZE_MAX : Z := 9223372036854775807.

Definition read_instr (f : fmt) (bs : list Z) : outcome (rkind * list Z) :=
  if f_eof_first f && match bs with [] => true | _ => false end then Ok (REof, []) else
  do x <- read_fields (firstn (f_tafter f) (f_read f)) bs;
  if is_tterminal f && negb (f_tafter_args f) && cond_vals (fst x) (f_tcond f) then Ok (RTerminal, snd x) else
  do y <- read_fields (skipn (f_tafter f) (f_read f)) (snd x);
  let vals := fst x ++ fst y in
  do n <- args_len f vals;
  if ISIZE_MAX <? n then Panic P_OVERFLOW        (* vec![0; n]: capacity overflow *)
  else if Z.of_nat (length (snd y)) <? n then Err E_EOF
  else match take (Z.to_nat n) (snd y) with
       | None => Err E_EOF
       | Some (args, rest) =>
           let i := rebuild (f_default f) vals args in
           if is_tterminal f && f_tafter_args f && cond_vals vals (f_tcond f) then Ok (RTerminal, rest)
           else if is_tmaybe f && cond_vals vals (f_tcond f) then Ok (RMaybe i, rest)
           else Ok (RInstr i, rest)
       end.

(* llir::read_instrs.  [cur] is cur_offset, [poss] is possible_terminal, [acc] is instrs. *)
Definition opt_list {A} (o : option A) : list A := match o with Some a => [a] | None => [] end.

Fixpoint read_loop (fuel : nat) (f : fmt) (bs : list Z) (cur : Z) (endo : option Z)
         (poss : option instr) (acc : list instr) : outcome (list instr) :=
  match fuel with
  | O => OutOfFuel
  | S fuel' =>
      let continue_ :=
        do r <- read_instr f bs;
        match fst r with
        | REof => Ok acc
        | RTerminal => Ok acc
        | RInstr i => read_loop fuel' f (snd r) (cur + instr_size f i) endo None (acc ++ opt_list poss ++ [i])
        | RMaybe i => read_loop fuel' f (snd r) (cur + instr_size f i) endo (Some i) (acc ++ opt_list poss)
        end in
      match endo with
      | Some e => if cur <? e then continue_ else if cur =? e then Ok acc else Err E_PASTEND
      | None => continue_
      end
  end.

Definition read_instrs (f : fmt) (bs : list Z) (start : Z) (endo : option Z) : outcome (list instr) :=
  read_loop (S (length bs)) f bs start endo None [].

(* ------------------------------------------------------------------------------------------ *)
(* the property's vocabulary *)

(* the value v, written into a field that is read back as r, comes back as the value of r's field *)
Definition pair_fits (hdr : Z) (i : instr) (w : wfield) (r : rfield) : bool :=
  let back := cast (r_mem r) (cast (r_disk r) (get hdr i (w_fld w))) in
  match r_fld r with
  | FConst _ => true
  | g => back =? get hdr i g
  end.

Fixpoint forallb2 {A B} (p : A -> B -> bool) (l1 : list A) (l2 : list B) : bool :=
  match l1, l2 with
  | [], [] => true
  | a :: t1, b :: t2 => p a b && forallb2 p t1 t2
  | _, _ => false
  end.

Definition instr_flds : list fld := [FTime; FOpcode; FMask; FDiff; FPop; FExtra; FArgc].
Definition read_flds (f : fmt) : list fld := map r_fld (f_read f).
Definition memf (g : fld) (l : list fld) : bool := existsb (fld_eqb g) l.

Definition comp_default (d i : instr) (g : fld) : bool :=
  match g with
  | FTime => i_time i =? i_time d | FOpcode => i_opcode i =? i_opcode d | FMask => i_mask i =? i_mask d
  | FDiff => i_diff i =? i_diff d | FPop => i_pop i =? i_pop d | FArgc => i_argc i =? i_argc d
  | FExtra => i_extra i =? i_extra d
  | _ => true
  end.
(* RawInstr fields the format has no room for hold their default value *)
Definition unstored_default (f : fmt) (i : instr) : bool :=
  forallb (fun g => memf g (read_flds f) || comp_default (f_default f) i g) instr_flds.

Definition fields_fit (f : fmt) (i : instr) : bool := forallb2 (pair_fits (f_hdr f) i) (f_write f) (f_read f).

(* the writer's own range checks accept the instruction *)
Definition checks_pass (f : fmt) (i : instr) : bool :=
  forallb (fun w => match w_cast w with
                    | Checked => in_rangeb (w_disk w) (get (f_hdr f) i (w_fld w))
                    | AsCast => true
                    end) (f_write f).

(* "the instruction fits the format": every stored field survives, nothing unstored is set, and the
   instruction is not mistaken for the end marker *)
Definition fitsb (f : fmt) (i : instr) : bool :=
  fields_fit f i && unstored_default f i && negb (is_tterminal f && looks_terminal f i) &&
  (alen i <=? ISIZE_MAX) && checks_pass f i.     (* a Vec is never longer than isize::MAX *)

(* every value the source could put in a field is in the Rust type of that field *)
Definition wf_instr (f : fmt) (i : instr) : bool :=
  forallb (fun w => in_rangeb (w_mem w) (get (f_hdr f) i (w_fld w))) (f_write f).

(* what read_instr returns for a fitting instruction *)
Definition kind_of (f : fmt) (i : instr) : rkind :=
  if is_tmaybe f && looks_terminal f i then RMaybe i else RInstr i.

(* --- conditions on a format table ------------------------------------------------------- *)
Definition pair_compat (f : fmt) (w : wfield) (r : rfield) : bool :=
  Nat.eqb (ity_bytes (w_disk w)) (ity_bytes (r_disk r)) &&
  (is_const (r_fld r) || is_const (w_fld w) || fld_eqb (w_fld w) (r_fld r)).

Fixpoint existsb2 {A B} (p : A -> B -> bool) (l1 : list A) (l2 : list B) : bool :=
  match l1, l2 with
  | a :: t1, b :: t2 => p a b || existsb2 p t1 t2
  | _, _ => false
  end.

(* a format with a fixed argument size writes that size as a literal and reads it as the argument size *)
Definition fixed_pair (n : Z) (w : wfield) (r : rfield) : bool :=
  fld_eqb (w_fld w) (FConst n) && fld_eqb (r_fld r) FArgsLen && in_rangeb (r_disk r) n && in_rangeb (r_mem r) n.

Definition sum_bytes_w (ws : list wfield) : Z := fold_right (fun w a => Z.of_nat (ity_bytes (w_disk w)) + a) 0 ws.

Definition args_rule_ok (f : fmt) : bool :=
  match f_args f with
  | ArgsByLen | ArgsFixed _ => memf FArgsLen (read_flds f)
  | ArgsBySizeChecked | ArgsBySizePanic => memf FInstrSize (read_flds f)
  end.

Definition term_bytes (f : fmt) : list Z :=
  flat_map (fun p => le_encode (ity_bytes (fst p)) (snd p)) (f_twrite f).

Definition term_reads_ok (f : fmt) : bool :=
  match f_tkind f with
  | TNone => true
  | TTerminal =>
      match term_bytes f, read_instr f (term_bytes f) with
      | _ :: _, Ok (RTerminal, _) => true
      | _, _ => false
      end
  | TMaybe =>
      (* the end marker reads as a possible terminal of exactly its own size, and end of input is detected *)
      match term_bytes f, read_instr f (term_bytes f) with
      | _ :: _, Ok (RMaybe t, []) => (instr_size f t =? Z.of_nat (length (term_bytes f))) && f_eof_first f
      | _, _ => false
      end
  end.

Definition fmt_ok (f : fmt) : bool :=
  forallb2 (pair_compat f) (f_write f) (f_read f) &&
  (sum_bytes_w (f_write f) =? f_hdr f) && (0 <? f_hdr f) &&
  args_rule_ok f &&
  match f_args f with ArgsFixed n => existsb2 (fixed_pair n) (f_write f) (f_read f) | _ => true end &&
  forallb (fun p => negb (is_const (fst p)) &&
                    memf (fst p) (map r_fld (if f_tafter_args f then f_read f else firstn (f_tafter f) (f_read f))))
          (f_tcond f) &&
  (negb (f_tguard f) || is_tterminal f) &&
  term_reads_ok f.

(* a RawInstr field whose place in the file is taken by a literal (the EoSD ECL parameter mask is always
   written as 0x00FF): like a field the format has no room for, with that literal as its only value *)
Definition forced_pair (w : wfield) (r : rfield) : bool :=
  match w_fld w, r_fld r with
  | FConst c, (FTime | FOpcode | FMask | FDiff | FPop | FExtra | FArgc) => in_rangeb (r_disk r) c && in_rangeb (r_mem r) c
  | _, _ => false
  end.
Definition forced_value_ok (hdr : Z) (i : instr) (w : wfield) (r : rfield) : bool :=
  if forced_pair w r then get hdr i (r_fld r) =? get hdr i (w_fld w) else true.
Definition forced_default (f : fmt) (i : instr) : bool :=
  forallb2 (forced_value_ok (f_hdr f) i) (f_write f) (f_read f).

(* every value of both a and b is a value of both c and d *)
Definition meet_sub (a b c d : ity) : bool :=
  (Z.max (ity_lo c) (ity_lo d) <=? Z.max (ity_lo a) (ity_lo b)) && (Z.min (ity_hi a) (ity_hi b) <=? Z.min (ity_hi c) (ity_hi d)).

(* a field whose write cannot change the value without a diagnostic: the value read is dropped, or the
   same field is read back and either (A) the write is range-checked (or cannot narrow) and every value
   that passes is a value of the type it is read as and of the field it is stored in; or (B) nothing
   narrows: the field type is unchanged and the on-disk type is at least as wide *)
Definition pair_checked (f : fmt) (w : wfield) (r : rfield) : bool :=
  is_const (r_fld r) || forced_pair w r ||
  (fld_eqb (w_fld w) (r_fld r) &&
   ((match w_cast w with Checked => true | AsCast => sub_range (w_mem w) (w_disk w) end &&
     meet_sub (w_mem w) (w_disk w) (r_disk r) (r_mem r))
    || (match w_cast w with Checked => false | AsCast => true end &&
        ity_eqb (w_mem w) (r_mem r) && (ity_bits (r_mem r) <=? ity_bits (r_disk r))))) ||
  (* the literal argument size of a format whose writer asserts that size *)
  match w_fld w, r_fld r, f_args f with
  | FConst c, FArgsLen, ArgsFixed n => (c =? n) && in_rangeb (r_disk r) c && in_rangeb (r_mem r) c
  | _, _, _ => false
  end.

(* the end-marker test asks for an instruction size that no instruction has *)
Definition term_unreachable (f : fmt) : bool :=
  existsb (fun p => match fst p with
                    | FInstrSize => snd p <? f_hdr f
                    | FArgsLen => snd p <? 0
                    | _ => false
                    end) (f_tcond f).

Definition all_checked (f : fmt) : bool :=
  forallb2 (pair_checked f) (f_write f) (f_read f) && (negb (is_tterminal f) || f_tguard f || term_unreachable f).

(* the header fields that are not checked (for the report), and whether the end marker can be forged *)
Fixpoint unchecked_fields (f : fmt) (ws : list wfield) (rs : list rfield) : list fld :=
  match ws, rs with
  | w :: t1, r :: t2 => if pair_checked f w r then unchecked_fields f t1 t2 else r_fld r :: unchecked_fields f t1 t2
  | _, _ => []
  end.
Definition terminal_forgeable (f : fmt) : bool := is_tterminal f && negb (f_tguard f) && negb (term_unreachable f).

Definition is_ok {A} (o : outcome A) : bool := match o with Ok _ => true | _ => false end.

(* ------------------------------------------------------------------------------------------ *)
(* string lists of stack-ECL files (ANIM / ECLI include lists, sub names): ecl_10.rs write_string_list /
   read_string_list over BinWrite::write_cstring(_, 1), BinRead::read_cstring_blockwise(1) and align_to(_, 4).
   A string is the list of bytes actually written (the Shift-JIS encoding), without its terminator. *)
Definition pad4 (n : Z) : Z := if n mod 4 =? 0 then 0 else 4 - n mod 4.      (* align_to(n, 4) *)
Fixpoint strings_len (ss : list (list Z)) : Z :=
  match ss with [] => 0 | s :: t => Z.of_nat (length s) + 1 + strings_len t end.
Fixpoint write_strings (ss : list (list Z)) : list Z :=
  match ss with [] => [] | s :: t => s ++ 0 :: write_strings t end.
(* the padding is a function of the number of bytes written *)
Definition write_string_list (ss : list (list Z)) : list Z :=
  write_strings ss ++ repeat 0 (Z.to_nat (pad4 (strings_len ss))).

(* read_cstring_blockwise(1): the bytes before the first 0 *)
Fixpoint read_cstring (bs : list Z) : option (list Z * list Z) :=
  match bs with
  | [] => None
  | b :: t => if b =? 0 then Some ([], t)
              else match read_cstring t with Some (s, r) => Some (b :: s, r) | None => None end
  end.
Fixpoint read_strings (n : nat) (bs : list Z) : option (list (list Z) * list Z) :=
  match n with
  | O => Some ([], bs)
  | S k => match read_cstring bs with
           | None => None
           | Some (s, r) => match read_strings k r with Some (ss, r') => Some (s :: ss, r') | None => None end
           end
  end.
Definition read_string_list (n : nat) (bs : list Z) : option (list (list Z) * list Z) :=
  match read_strings n bs with
  | None => None
  | Some (ss, r) => match take (Z.to_nat (pad4 (strings_len ss))) r with
                    | Some (_, r') => Some (ss, r')
                    | None => None
                    end
  end.
