(* Model/LowerProg.v -- whole bodies: what AstVm does with a flat source body (statements with times and
   difficulty masks, labels, jumps in both directions, instruction calls) and what it does with the
   lowered instruction stream of the whole body.  Executable definitions only.

   State = memory + script time + real time + instruction log.  Both machines follow AstVm::_run
   (src/vm.rs): wait until the statement's time (even on the wrong difficulty), skip the statement if
   its mask does not contain the VM's difficulty, run it; a jump to l looks l up, sets the time to the
   jump's time argument (or the label's own time) and resumes AT the label statement.

   Both machines scan forward: [Seek l t] skips to the first label l after the current position and a
   body that is left while seeking is re-entered from its start ([sprog]/[wprog]); with pairwise distinct
   labels this is AstVm's "first label of that name".  RegAlloc/RegFree markers in the lowered stream
   are lexical (they reset the local to the default of its type, in both modes): a local outside its
   allocation is unobservable, and the convention makes "same state" an equality. *)
From TV Require Import Base.I32 Base.F32 Model.Ops Model.Expr Model.Lower Model.LowerSem.
Open Scope Z_scope.

Definition E_TIME_AHEAD : nat := 13.   (* strict mode: the script time is ahead of the statement's time *)
Definition P_NOLABEL : nat := 14.
Definition E_SILENT_WAIT : nat := 16.  (* strict mode: a statement that compiles to no instruction (scope end, empty statement) is the first at its time *)
Definition E_NAN_CMP : nat := 15.      (* strict mode: a comparison in a condition has a NaN operand *)      (* AstVm: "tried to jump to {} but this label did not exist" *)

Record pst := mkpst {
  p_mem : mem;
  p_time : Z;                               (* AstVm::time *)
  p_real : Z;                               (* AstVm::real_time *)
  p_log : list (Z * Z * list value);        (* instr_log, newest first: (real_time, opcode, args) *)
}.

Definition set_mem (st : pst) (m : mem) : pst := mkpst m (p_time st) (p_real st) (p_log st).
Definition set_time (st : pst) (t : Z) : pst := mkpst (p_mem st) t (p_real st) (p_log st).
Definition add_log (st : pst) (opcode : Z) (vs : list value) : pst :=
  mkpst (p_mem st) (p_time st) (p_real st) ((p_real st, opcode, vs) :: p_log st).
(* "Wait" until this statement's time *)
Definition wait (t : Z) (st : pst) : pst :=
  if p_time st <? t then mkpst (p_mem st) t (p_real st + (t - p_time st)) (p_log st) else st.
(* arriving at a label by a jump *)
Definition arrive (lt : Z) (jt : option Z) (st : pst) : pst :=
  wait lt (set_time st (match jt with Some x => x | None => lt end)).

(* difficulty_mask.contains(difficulty); no difficulty set: every statement runs *)
Definition runs (dsel : option nat) (mask : Z) : bool :=
  match dsel with None => true | Some d => Z.testbit mask (Z.of_nat d) end.

Definition kw_unless (k : kw) : bool := match k with KwUnless => true | KwIf => false end.
Definition cnt_taken (op : binop) (n' : Z) : bool := match op with Gt => 0 <? n' | _ => negb (n' =? 0) end.

Section Prog.
  Variable T : optable.
  Variable libm : unop -> Z -> Z.
  Variable rty : Z -> ty.
  Variable lty : nat -> ty.
  Variable diff : nat.
  Variable dsel : option nat.       (* AstVm::difficulty *)
  Variable strict : bool.           (* strict: a statement met with the time ahead of its own is an error *)

  (* ---------------- source ---------------- *)
  Definition eval_e (m : mem) (e : expr) : outcome value := eval_src T libm diff m (elab rty lty [] e).

  Definition assign_e (m : mem) (v : var) (aop : assignop) (e : expr) : outcome mem :=
    do val <- eval_e m e;
    match aop with
    | None => Ok (update m (v_id v) val)
    | Some b =>
        do old <- eval_e m (var_expr v);
        do r <- binop_eval T b old val;
        Ok (update m (v_id v) r)
    end.

  Definition count_e (m : mem) (k : kw) (v : var) (op : binop) (l : label) (jt : option Z)
    : outcome (mem * option (label * option Z)) :=
    do x <- eval_e m (var_expr v);
    match x with
    | VInt n =>
        let n' := wrap32 (n - 1) in
        Ok (update m (v_id v) (VInt n'), if xorb (cnt_taken op n') (kw_unless k) then Some (l, jt) else None)
    | _ => Panic P_TYPE
    end.

  (* strict mode also rules out NaN operands of the comparisons in conditions (`unless (a < b)` is compiled
     as `a >= b`; the property quantifies over non-NaN floats) *)
  Definition notnan_b (v : value) : bool := match v with VFloat f => negb (fis_nan f) | _ => true end.
  Fixpoint nonan_b (m : mem) (e : expr) : bool :=
    match e with
    | EBin a op b =>
        match op with
        | LogicAnd | LogicOr => nonan_b m a && nonan_b m b
        | _ => match eval_e m a, eval_e m b with
               | Ok av, Ok bv => notnan_b av && notnan_b bv
               | _, _ => true
               end
        end
    | EUn Not b => nonan_b m b
    | _ => true
    end.
  Fixpoint nonan_tb (m : mem) (e : expr) : bool :=
    match e with
    | ETern c l r => nonan_b m c && nonan_tb m l && nonan_tb m r
    | _ => true
    end.
  Definition stmt_nonan (s : sstmt) (m : mem) : bool :=
    match s with
    | SAssign _ _ e => nonan_tb m e
    | SCondJmp _ (CExpr e) _ _ => nonan_b m e
    | SDecl t [(d, Some e)] => nonan_tb (update m (VLoc d) (default_of t)) e
    | SCall _ args => forallb (nonan_tb m) args
    | _ => true
    end.

  (* statements that compile to no instruction or label: the compiled code cannot wait for their time *)
  Definition no_init (x : nat * option expr) : bool := match snd x with None => true | Some _ => false end.
  Definition is_silent (s : sstmt) : bool :=
    match s with
    | SScopeEnd _ | SNop => true
    | SDecl _ vars => forallb no_init vars   (* declarations without initialisers: RegAlloc markers only *)
    | _ => false
    end.

  Definition mode_of (j : option (label * option Z)) : mode :=
    match j with Some (l, jt) => Seek l jt | None => Exec end.
  Definition logged (lg : option (Z * list value)) (st : pst) : pst :=
    match lg with Some (opc, vs) => add_log st opc vs | None => st end.

  (* one statement that is not a label: new memory, jump, logged call *)
  Definition sstep (s : sstmt) (m : mem) : outcome (mem * option (label * option Z) * option (Z * list value)) :=
    match s with
    | SAssign v aop e => do m' <- assign_e m v aop e; Ok (m', None, None)
    | SCondJmp k (CExpr e) l jt =>
        do v <- eval_e m e; do b <- truthy v;
        Ok (m, if xorb b (kw_unless k) then Some (l, jt) else None, None)
    | SCondJmp k (CPredec v) l jt => do r <- count_e m k v Ne l jt; Ok (fst r, snd r, None)
    | SCondJmp k (CPredecCmp v op) l jt =>
        match op with
        | Ne | Gt => do r <- count_e m k v op l jt; Ok (fst r, snd r, None)
        | _ => Err E_UNSUPPORTED
        end
    | SJmp l jt => Ok (m, Some (l, jt), None)
    | SCall opcode args => do vs <- mapM (eval_e m) args; Ok (m, None, Some (opcode, vs))
    | SInterrupt _ | SNop | SLabel _ => Ok (m, None, None)
    | SDecl t vars =>
        (fix go (vs : list (nat * option expr)) (m : mem) : outcome (mem * option (label * option Z) * option (Z * list value)) :=
           match vs with
           | [] => Ok (m, None, None)
           | (d, init) :: rest =>
               let m1 := update m (VLoc d) (default_of t) in
               match init with
               | Some e => do m2 <- assign_e m1 (mkvar None (VLoc d)) None e; go rest m2
               | None => go rest m1
               end
           end) vars m
    | SScopeEnd d => Ok (update m (VLoc d) (default_of (lty d)), None, None)
    end.

  (* scope markers are lexical, as RegAlloc/RegFree are in the lowered stream: a statement that is passed over
     (while seeking a label, or because it is disabled on this difficulty) still resets the locals it declares
     or ends to the default value (a local outside its scope is unobservable) *)
  Definition sseek (s : sstmt) (m : mem) : mem :=
    match s with
    | SDecl t vars => fold_left (fun m x => update m (VLoc (fst x)) (default_of t)) vars m
    | SScopeEnd d => update m (VLoc d) (default_of (lty d))
    | _ => m
    end.

  Fixpoint sblk (body : list (Z * Z * sstmt)) (md : mode) (st : pst) : outcome (mode * pst) :=
    match body with
    | [] => Ok (md, st)
    | (t, mask, s) :: rest =>
        match md with
        | Seek l jt =>
            match s with
            | SLabel l' => if label_eqb l l' then sblk rest Exec (arrive t jt st) else sblk rest md st
            | _ => sblk rest md (set_mem st (sseek s (p_mem st)))
            end
        | Exec =>
            if strict && (t <? p_time st) then Err E_TIME_AHEAD
            else if strict && is_silent s && (p_time st <? t) then Err E_SILENT_WAIT
            else
              let st1 := wait t st in
              if negb (runs dsel mask) then sblk rest Exec (set_mem st1 (sseek s (p_mem st1)))
              else if strict && negb (stmt_nonan s (p_mem st1)) then Err E_NAN_CMP
              else
                match sstep s (p_mem st1) with
                | Ok (m', j, lg) => sblk rest (mode_of j) (logged lg (set_mem st1 m'))
                | Err e => Err e | Panic p => Panic p | OutOfFuel => OutOfFuel
                end
        end
    end.

  Definition is_slabel (l : label) (x : Z * Z * sstmt) : bool :=
    match snd x with SLabel l' => label_eqb l l' | _ => false end.

  Fixpoint sprog (fuel : nat) (body : list (Z * Z * sstmt)) (md : mode) (st : pst) : outcome pst :=
    match fuel with
    | O => OutOfFuel
    | S f =>
        match sblk body md st with
        | Ok (Exec, st') => Ok st'
        | Ok (Seek l jt, st') => if existsb (is_slabel l) body then sprog f body (Seek l jt) st' else Panic P_NOLABEL
        | Err e => Err e | Panic p => Panic p | OutOfFuel => OutOfFuel
        end
    end.

  (* ---------------- lowered stream ---------------- *)
  Fixpoint wblk (code : list lstmt) (md : mode) (st : pst) (cmp : option (value * value))
    : outcome (mode * pst * option (value * value)) :=
    match code with
    | [] => Ok (md, st, cmp)
    | LAlloc d t :: rest => wblk rest md (set_mem st (update (p_mem st) (VLoc d) (default_of t))) cmp
    | LFree d :: rest => wblk rest md (set_mem st (update (p_mem st) (VLoc d) (default_of (lty d)))) cmp
    | LLabel lt l' :: rest =>
        match md with
        | Seek l jt => if label_eqb l l' then wblk rest Exec (arrive lt jt st) cmp else wblk rest md st cmp
        | Exec => wblk rest Exec (wait lt st) cmp
        end
    | LInstr t mask i :: rest =>
        match md with
        | Seek _ _ => wblk rest md st cmp
        | Exec =>
            let st1 := wait t st in
            if negb (runs dsel mask) then wblk rest Exec st1 cmp
            else
              match i with
              | ICall opcode args =>
                  match mapM (read_arg (p_mem st1)) args with
                  | Ok vs => wblk rest Exec (add_log st1 opcode vs) cmp
                  | Err e => Err e | Panic p => Panic p | OutOfFuel => OutOfFuel
                  end
              | _ =>
                  match exec_step T libm i (p_mem st1) cmp with
                  | Ok (m', cmp', None) => wblk rest Exec (set_mem st1 m') cmp'
                  | Ok (m', cmp', Some (l, jt)) => wblk rest (Seek l jt) (set_mem st1 m') cmp'
                  | Err e => Err e | Panic p => Panic p | OutOfFuel => OutOfFuel
                  end
              end
        end
    end.

  Definition is_llabel (l : label) (x : lstmt) : bool :=
    match x with LLabel _ l' => label_eqb l l' | _ => false end.

  Fixpoint wprog (fuel : nat) (code : list lstmt) (md : mode) (st : pst) (cmp : option (value * value)) : outcome pst :=
    match fuel with
    | O => OutOfFuel
    | S f =>
        match wblk code md st cmp with
        | Ok (Exec, st', _) => Ok st'
        | Ok (Seek l jt, st', cmp') => if existsb (is_llabel l) code then wprog f code (Seek l jt) st' cmp' else Panic P_NOLABEL
        | Err e => Err e | Panic p => Panic p | OutOfFuel => OutOfFuel
        end
    end.
End Prog.

(* lowering of a whole body: the statements in order, threading the lowerer's state *)
Section Body.
  Variable avail : ikind -> bool.
  Variable auto_casts : bool.
  Variable rty : Z -> ty.
  Variable lty : nat -> ty.

  Fixpoint lower_body (fuel : nat) (body : list (Z * Z * sstmt)) (s : lst) : outcome (list lstmt * lst) :=
    match body with
    | [] => Ok ([], s)
    | (time, mask, st) :: rest =>
        match lower_stmt avail auto_casts rty lty time mask fuel st s with
        | Ok (c1, s1) =>
            match lower_body fuel rest s1 with
            | Ok (c2, s2) => Ok (c1 ++ c2, s2)
            | e => e
            end
        | e => e
        end
    end.
End Body.
