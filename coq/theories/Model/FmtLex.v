(* Model/FmtLex.v -- specification of the lexer (src/parse/lexer.rs, a logos automaton):
   maximal munch over the token classes, with logos' priority (fixed text > `ins_...` > identifier)
   for equal lengths.  The logos automaton itself is tied by correspondence (token soups).

   ASCII whitespace only: logos' `\s` also accepts the Unicode White_Space characters; the
   formatter never writes those outside string literals. *)
From TV Require Import Base.I32 Model.Fmt.
Open Scope Z_scope.

Definition E_LEX : nat := 50.     (* "invalid token" *)

Definition ncode (c : ascii) : N := N_of_ascii c.
Definition in_range (lo hi : N) (c : ascii) : bool := let n := ncode c in (lo <=? n)%N && (n <=? hi)%N.

Definition is_alpha (c : ascii) : bool := in_range 65 90 c || in_range 97 122 c.
Definition is_ident_start (c : ascii) : bool := is_alpha c || Ascii.eqb c "_"%char.
Definition is_ident_char (c : ascii) : bool := is_ident_start c || is_digit c.
Definition is_hex (c : ascii) : bool := is_digit c || in_range 65 70 c || in_range 97 102 c.
Definition is_bin (c : ascii) : bool := in_range 48 49 c.
(* \t \n \v \f \r space *)
Definition is_ws (c : ascii) : bool := in_range 9 13 c || Ascii.eqb c " "%char.
(* [-*ENHLWXYZO4567] *)
Definition is_diff_char (c : ascii) : bool :=
  mem_str (str1 c) ["-"; "*"; "E"; "N"; "H"; "L"; "W"; "X"; "Y"; "Z"; "O"; "4"; "5"; "6"; "7"]%string.

Fixpoint span (p : ascii -> bool) (s : string) : string * string :=
  match s with
  | EmptyString => (EmptyString, EmptyString)
  | String c r => if p c then let (a, b) := span p r in (String c a, b) else (EmptyString, s)
  end.

Fixpoint drop (n : nat) (s : string) : string :=
  match n, s with
  | O, _ => s
  | S k, String _ r => drop k r
  | S _, EmptyString => EmptyString
  end.

(* longest fixed token of [toks] that is a prefix of [s] *)
Fixpoint longest_fixed (toks : list string) (s : string) : option string :=
  match toks with
  | [] => None
  | t :: r =>
      let best := longest_fixed r s in
      if prefixb t s then
        match best with
        | Some b => if Nat.ltb (String.length t) (String.length b) then Some b else Some t
        | None => Some t
        end
      else best
  end.

(* [0-9]+(\.([0-9]*f|[0-9]+)|f)    [0-9]+|0[xX][0-9a-fA-F]+|0[bB][0-1]+ *)
Definition is_x (c : ascii) : bool := Ascii.eqb c "x"%char || Ascii.eqb c "X"%char.
Definition is_b (c : ascii) : bool := Ascii.eqb c "b"%char || Ascii.eqb c "B"%char.
Definition is_f (c : ascii) : bool := Ascii.eqb c "f"%char.

Definition lex_number (s : string) : token * string :=
  let (d, r) := span is_digit s in
  match r with
  | String c r1 =>
      if is_f c then (TFloat (d ^^ "f"), r1)
      else if Ascii.eqb c "."%char then
        let (d2, r2) := span is_digit r1 in
        match r2 with
        | String c2 r3 =>
            if is_f c2 then (TFloat (d ^^ "." ^^ d2 ^^ "f"), r3)
            else if String.eqb d2 "" then (TInt d, r) else (TFloat (d ^^ "." ^^ d2), r2)
        | EmptyString => if String.eqb d2 "" then (TInt d, r) else (TFloat (d ^^ "." ^^ d2), r2)
        end
      else if String.eqb d "0" && is_x c then
        let (h, r2) := span is_hex r1 in
        if String.eqb h "" then (TInt d, r) else (TInt (d ^^ str1 c ^^ h), r2)
      else if String.eqb d "0" && is_b c then
        let (h, r2) := span is_bin r1 in
        if String.eqb h "" then (TInt d, r) else (TInt (d ^^ str1 c ^^ h), r2)
      else (TInt d, r)
  | EmptyString => (TInt d, r)
  end.

(* LitString: quote, then any number of (a character other than backslash and quote, or a
   backslash followed by any character but a newline), then quote.  [scan_str] runs after the
   opening quote. *)
Fixpoint scan_str (s : string) : option (string * string) :=
  match s with
  | EmptyString => None
  | String c r =>
      if Ascii.eqb c """"%char then Some (str1 c, r)
      else if Ascii.eqb c "\"%char then
        match r with
        | EmptyString => None
        | String c2 r2 =>
            if Ascii.eqb c2 "010"%char then None
            else match scan_str r2 with Some (b, rest) => Some (String c (String c2 b), rest) | None => None end
        end
      else match scan_str r with Some (b, rest) => Some (String c b, rest) | None => None end
  end.

(* rad\([-+]?[0-9]+(\.([0-9]*f|[0-9]+)|f)?\)   after the word "rad".
   Observed behaviour of the logos automaton: once it has consumed `rad(`, an optional sign and a
   digit, it does not fall back to the identifier `rad` when the rest fails to match: the result is an
   invalid token (RadStuck). *)
Inductive radres := RadNo | RadStuck | RadYes (tail rest : string).

Definition rad_tail (s : string) : radres :=
  match s with
  | String "("%char r0 =>
      let (sg, r1) := match r0 with
                      | String c r => if Ascii.eqb c "-"%char || Ascii.eqb c "+"%char then (str1 c, r) else (EmptyString, r0)
                      | _ => (EmptyString, r0)
                      end in
      match r1 with
      | String c _ =>
          if is_digit c then
            let (t, r2) := lex_number r1 in
            (* the number part is a float token or plain decimal digits *)
            let body := match t with
                        | TFloat b => Some b
                        | TInt b => let (d, rest) := span is_digit b in if String.eqb rest "" then Some b else None
                        | _ => None
                        end in
            match body, r2 with
            | Some b, String ")"%char r3 => RadYes ("(" ^^ sg ^^ b ^^ ")") r3
            | _, _ => RadStuck
            end
          else RadNo
      | _ => RadNo
      end
  | _ => RadNo
  end.

Definition lex1 (s : string) : option (token * string) :=
  match s with
  | EmptyString => None
  | String c r =>
      if is_ident_start c then
        let (w, rest) := span is_ident_char s in
        match (if String.eqb w "rad" then rad_tail rest else RadNo) with
        | RadYes tail rest' => Some (TRad (w ^^ tail), rest')
        | RadStuck => None
        | RadNo => Some (word_tok w, rest)
        end
      else if is_digit c then Some (lex_number s)
      else if Ascii.eqb c """"%char then
        match scan_str r with Some (b, rest) => Some (TStr (String c b), rest) | None => None end
      else if Ascii.eqb c "!"%char && match r with String c2 _ => is_diff_char c2 | _ => false end then
        let (d, rest) := span is_diff_char r in Some (TDiff (String c d), rest)
      else
        match longest_fixed puncts s with
        | Some t => Some (TFix t, drop (String.length t) s)
        | None => None
        end
  end.

(* whitespace and comments:   \s+   //[^\n\r]*[\n\r]*   /\*([^*]|\**[^*/])*\*+/   (unclosed block comment: error) *)
Inductive smode := MNormal | MLine | MBlock | MBlockStar.

Definition is_nl (c : ascii) : bool := Ascii.eqb c "010"%char || Ascii.eqb c "013"%char.

Fixpoint skip (m : smode) (s : string) : outcome string :=
  match m, s with
  | MNormal, String c r =>
      if is_ws c then skip MNormal r
      else if Ascii.eqb c "/"%char then
        match r with
        | String "/"%char r2 => skip MLine r2
        | String "*"%char r2 => skip MBlock r2
        | _ => Ok s
        end
      else Ok s
  | MNormal, EmptyString => Ok s
  | MLine, String c r => if is_nl c then skip MNormal r else skip MLine r
  | MLine, EmptyString => Ok s
  | MBlock, String c r => if Ascii.eqb c "*"%char then skip MBlockStar r else skip MBlock r
  | MBlockStar, String c r =>
      if Ascii.eqb c "/"%char then skip MNormal r
      else if Ascii.eqb c "*"%char then skip MBlockStar r
      else skip MBlock r
  | _, EmptyString => Err E_LEX
  end.

Fixpoint lexf (n : nat) (s : string) : outcome (list token) :=
  match n with
  | O => OutOfFuel
  | S n' =>
      match skip MNormal s with
      | Ok EmptyString => Ok []
      | Ok s' =>
          match lex1 s' with
          | Some (t, rest) => match lexf n' rest with Ok ts => Ok (t :: ts) | e => e end
          | None => Err E_LEX
          end
      | Err t => Err t
      | Panic t => Panic t
      | OutOfFuel => OutOfFuel
      end
  end.

Definition lex (s : string) : outcome (list token) := lexf (S (String.length s)) s.
