(* Model/ResolveSyntax.v -- C10: scope trees, definitions, resolution results, the global environment.
   Definitions only.

   A scope tree is what name resolution sees of a script file: items (const definitions, functions
   with parameters, scripts, meta), blocks of statements, local declarations, and identifier uses.
   Expressions are reduced to the list of identifier uses they contain; a use that stands inside a
   positional argument of a call remembers the chain of enclosing (callee, argument position)
   pairs, innermost first, because the implementation only visits as many arguments as the callee has
   parameters and colours enum constants by the parameter.  Every identifier occurrence carries
   its spelling and a unique index (the position in which the translator met it). *)
From TV Require Import Base.I32.
Open Scope Z_scope.

Definition ident := Z.
Definition lang := Z.

Record occ := Occ { oname : ident; oid : Z }.

Inductive callee := CNamed (o : occ) | CRaw (op : Z).
Record guard := Guard { g_callee : callee; g_pos : nat }.

Inductive ukind := UVar | UFun | UEnumQ (en : ident).
Record use := Use { u_kind : ukind; u_occ : occ; u_guards : list guard }.

Inductive fqual := QNone | QInline | QConst.

Inductive stmt :=
| SUses (us : list use)                      (* any statement/condition that only uses names *)
| SDecl (vars : list (occ * list use))       (* int a = e1, b = e2; *)
| SBlock (b : block)                         (* nested block: bare, loop, while, times, if/else arm *)
| SItem (i : item)                           (* const or function as a statement *)
with block := BNil | BCons (s : stmt) (b : block)
with item :=
| IConst (vars : list (occ * list use))      (* const int a = e1, b = e2; *)
| IFunc (q : fqual) (f : occ) (params : list occ) (body : block)
| IFuncDecl (q : fqual) (f : occ) (params : list occ)    (* declaration without a body *)
| IScript (b : block)
| IMeta (us : list use).

Inductive prog := PFile (items : list item) | PBlock (b : block).

(* what an identifier can denote *)
Inductive def :=
| DLocal (id : Z) | DParam (id : Z) | DConst (id : Z) | DFunc (id : Z) (arity : nat)   (* declared in the program, id = index of the declaring occurrence *)
| DReg (l : lang) (x : ident)            (* register alias of a mapfile *)
| DIns (l : lang) (x : ident)            (* instruction alias of a mapfile *)
| DBuiltin (x : ident)                   (* NAN, INF, PI *)
| DEnum (e x : ident).                   (* enum const e.x *)

Inductive res :=
| ROk (d : def)
| RUnknown              (* "unknown variable/function" *)
| RBarrier (d : def)    (* "cannot use local/parameter from outside function/const" *)
| RAmbiguous            (* "ambiguous enum const" *)
| RNoEnum               (* "no such enum" *)
| RNoConst              (* "no enum const E.x" *)
| RSkipped.             (* never visited: no resolution and no diagnostic *)

Inductive event := EvRes (id : Z) (r : res) | EvRedef (id : Z).

(* names that exist before the program is looked at *)
Record genv := GEnv {
  ge_regs : list (lang * ident);                          (* register aliases *)
  ge_ins : list (lang * ident * Z);                       (* instruction aliases: language, name, opcode *)
  ge_sigs : list (lang * Z * list (option ident * bool)); (* (language, opcode) -> for every parameter: enum colour, has a default (padding) *)
  ge_builtins : list ident;
  ge_enums : list (ident * list ident)                    (* every declared enum with its const names *)
}.

(* the ribs the implementation pushes / starts with; compared with the generated table Gen/RibTable.v *)
Inductive ribtag := TLocals | TParams | TLocalBarrier | TItems | TMapfile | TEnumConsts | TBuiltinConsts | TDummyRoot.
Inductive gribtag := GInsAliases | GRegAliases | GBuiltinConsts | GEnumConsts.
Inductive nstag := TVars | TFuncs.

(* which call arguments that were not matched with a parameter are still visited (generated) *)
Inductive excess_mode := ExNone | ExAfterParams | ExAfterMatched.
