(* Model/TypeCheck.v -- executable model of the type checker (src/passes/type_check.rs):
   ExprTypeChecker::check_expr / check_var / check_expr_call, Expr::compute_ty, the check_stmt_*
   functions and the Visitor (visit_item / visit_stmt dispatch over every StmtKind, walk_stmt,
   walk_item of src/ast/mod.rs).  Names are already resolved (DefIds), so the typing
   environment is flat.  The operator requirements and the two dispatch tables are parameters:
   they are read from the source by gen/opclass.py and gen/tcdispatch.py.
   Executable definitions only. *)
From TV Require Import Base.I32 Model.Ops Model.Expr.
Open Scope Z_scope.

(* ---- types (src/value.rs) ---- *)
Inductive sty := TInt | TFloat | TString.              (* ScalarType *)
Inductive vty := Untyped | Typed (t : sty).            (* VarType *)
Inductive ety := Void | Value (t : sty).               (* ExprType *)

Definition sty_eqb (a b : sty) : bool :=
  match a, b with TInt, TInt | TFloat, TFloat | TString, TString => true | _, _ => false end.
Definition ety_eqb (a b : ety) : bool :=
  match a, b with Void, Void => true | Value x, Value y => sty_eqb x y | _, _ => false end.
Definition vty_eqb (a b : vty) : bool :=
  match a, b with Untyped, Untyped => true | Typed x, Typed y => sty_eqb x y | _, _ => false end.
Definition sty_of_sigil (s : sigil) : sty := match s with SgInt => TInt | SgFloat => TFloat end.

(* ---- expressions (ast::Expr, after name resolution) ---- *)
Inductive vname := VReg (r : Z) | VNamed (id : nat).
Inductive var := Var (sg : option sigil) (n : vname).
Inductive fname := FIns (opcode : Z) | FNamed (id : nat).
Inductive pseudo := PK_mask | PK_pop | PK_blob | PK_arg0 | PK_nargs.

Inductive texpr :=
| TLitI (z : Z)
| TLitF (bits : Z)
| TLitS (s : list Z)
| TVar (v : var)
| TEnum (en : nat) (id : nat)                           (* EnumName.ident *)
| TBin (a : texpr) (op : binop) (b : texpr)
| TUn (op : unop) (x : texpr)
| TXcr (v : var)                                        (* ++x, --x, x++, x-- *)
| TTern (c l r : texpr)
| TDiff (first : texpr) (rest : list (option texpr))    (* first case always present *)
| TLabelProp                                            (* offsetof(l) / timeof(l) *)
| TCall (f : fname) (ps : list (pseudo * texpr)) (args : list texpr).

(* ---- signatures and the typing environment (context/defs.rs) ---- *)
Record sig := { sg_params : list (vty * bool)           (* type, has a default (padding) *)
              ; sg_ret : ety }.
Record env := {
  reg_ty : Z -> vty;                 (* Defs::reg_inherent_ty *)
  var_ty : nat -> vty;               (* Defs::var_inherent_ty, by DefId *)
  enum_ty : nat -> sty;              (* Defs::enum_ty, by enum name *)
  fn_sig : fname -> option sig;      (* func_signature_from_ast; None = InsMissingSigError *)
  fn_is_ins : fname -> bool;         (* func_opcode_from_ast(..).is_ok() *)
}.

(* ---- statements and items (ast::StmtKind, ast::Item) ---- *)
Inductive tykw := KwInt | KwFloat | KwString | KwVar | KwVoid.
Inductive assignop :=
| AO_Assign | AO_Add | AO_Sub | AO_Mul | AO_Div | AO_Rem | AO_BitOr | AO_BitXor | AO_BitAnd
| AO_ShiftLeft | AO_ShiftRightSigned | AO_ShiftRightUnsigned.

Inductive stmt :=
(* StmtKind::Item(item); the same constructors are the items of a file *)
| SFunc (ret : ety) (code : option (list stmt))
| SScript (code : list stmt)
| SMeta (es : list texpr)
| SConst (kw : tykw) (vars : list (var * texpr))
(* the other statement kinds *)
| SJump
| SCondJump (c : texpr)
| SReturn (v : option texpr)
| SCondChain (cbs : list (texpr * list stmt)) (els : option (list stmt))
| SLoop (b : list stmt)
| SWhile (c : texpr) (b : list stmt)
| STimes (clob : option var) (n : texpr) (b : list stmt)
| SExpr (e : texpr)
| SBlock (b : list stmt)
| SAssign (v : var) (op : assignop) (e : texpr)
| SDecl (kw : tykw) (vars : list (var * option texpr))
| SCallSub (args : list texpr)
| SInterrupt (e : texpr)
| SAbsTime
| SRelTime (e : texpr)
| SLabel
| SScopeEnd
| SNoInstr.

Inductive skind :=
| K_Item | K_Jump | K_CondJump | K_Return | K_CondChain | K_Loop | K_While | K_Times | K_Expr
| K_Block | K_Assignment | K_Declaration | K_CallSub | K_InterruptLabel | K_AbsTimeLabel
| K_RelTimeLabel | K_Label | K_ScopeEnd | K_NoInstruction.
Inductive ikind := IK_Func | IK_Script | IK_Meta | IK_ConstVar.

Definition all_skinds : list skind :=
  [K_Item; K_Jump; K_CondJump; K_Return; K_CondChain; K_Loop; K_While; K_Times; K_Expr; K_Block;
   K_Assignment; K_Declaration; K_CallSub; K_InterruptLabel; K_AbsTimeLabel; K_RelTimeLabel;
   K_Label; K_ScopeEnd; K_NoInstruction].
Definition all_ikinds : list ikind := [IK_Func; IK_Script; IK_Meta; IK_ConstVar].

Definition kind_of (s : stmt) : skind :=
  match s with
  | SFunc _ _ | SScript _ | SMeta _ | SConst _ _ => K_Item
  | SJump => K_Jump | SCondJump _ => K_CondJump | SReturn _ => K_Return
  | SCondChain _ _ => K_CondChain | SLoop _ => K_Loop | SWhile _ _ => K_While
  | STimes _ _ _ => K_Times | SExpr _ => K_Expr | SBlock _ => K_Block
  | SAssign _ _ _ => K_Assignment | SDecl _ _ => K_Declaration | SCallSub _ => K_CallSub
  | SInterrupt _ => K_InterruptLabel | SAbsTime => K_AbsTimeLabel | SRelTime _ => K_RelTimeLabel
  | SLabel => K_Label | SScopeEnd => K_ScopeEnd | SNoInstr => K_NoInstruction
  end.
Definition ikind_of (s : stmt) : option ikind :=
  match s with
  | SFunc _ _ => Some IK_Func | SScript _ => Some IK_Script | SMeta _ => Some IK_Meta
  | SConst _ _ => Some IK_ConstVar | _ => None
  end.

(* ---- the tables read from the source ---- *)
Inductive opclass :=
| OC_Arithmetic | OC_Comparison | OC_Bitwise | OC_Shift | OC_Logical | OC_FloatMath | OC_TySigil
| OC_Cast | OC_DirectAssignment | OC_unrec.
Inductive req := RQ_numeric | RQ_int | RQ_float | RQ_string | RQ_unreachable | RQ_unrec.
Inductive res := RS_arg | RS_int | RS_float | RS_unreachable | RS_unrec.
Inductive ct_enum := CT_enum_int | CT_enum_ty | CT_enum_unrec.       (* compute_ty, EnumConst arm *)
Inductive call_zip := CZ_all | CZ_nondefault | CZ_unrec.             (* which params the args are zipped with *)

Record optypes := {
  ot_bin_class : binop -> opclass;             (* BinOpKind::class *)
  ot_un_class : unop -> opclass;               (* UnOpKind::class (not used by the checker) *)
  ot_bin_req : opclass -> req;                 (* binop_check *)
  ot_bin_res : opclass -> res;                 (* _binop_ty *)
  ot_un_req : unop -> req;                     (* unop_check *)
  ot_un_res : unop -> res;                     (* _unop_ty *)
  ot_pseudo_req : pseudo -> req;               (* pseudo_check *)
  ot_assign_binop : assignop -> option binop;  (* AssignOpKind::corresponding_binop *)
  ot_ct_enum : ct_enum;
  ot_call_zip : call_zip;
}.

(* the check functions a visit_stmt / visit_item arm may call *)
Inductive checkfn :=
| CF_return | CF_assignment | CF_expr | CF_times | CF_declaration | CF_cond | CF_constvar.
Inductive drow :=
| D_Walk                                   (* ast::walk_stmt(self, stmt) *)
| D_Skip                                   (* {} *)
| D_Unimpl                                 (* unimplemented!(..) *)
| D_Reject                                 (* let e = self.ctx.emitter.emit(error!(..)); self.errors.set(e) *)
| D_Check (f : checkfn) (walk_block : bool)  (* if let Err(e) = self.check_..(..) { self.errors.set(e) } [; walk_block] *)
| D_Unrec.
Inductive irow :=
| I_Walk                                   (* ast::walk_item(self, item) *)
| I_FuncWalk                               (* push FuncState; walk_item; pop *)
| I_Check (f : checkfn)
| I_Skip
| I_Unrec.
(* what walk_stmt / walk_item do for a kind: the visitor calls, in order *)
Inductive wcall :=
| WC_item | WC_jump | WC_cond | WC_expr | WC_optexpr | WC_exprs | WC_block | WC_optblock
| WC_condblocks | WC_var | WC_optvar | WC_declvars | WC_constvars | WC_rootblock | WC_optrootblock
| WC_meta | WC_unrec.

Record tctable := {
  tc_stmt : skind -> drow;                 (* Visitor::visit_stmt *)
  tc_item : ikind -> irow;                 (* Visitor::visit_item *)
  tc_walk_stmt : skind -> list wcall;      (* ast::walk_stmt *)
  tc_walk_item : ikind -> list wcall;      (* ast::walk_item *)
}.

(* ---- outcomes ---- *)
Definition E_TYPE : nat := 10.             (* a "type error"-class diagnostic *)
Definition P_UNREACHABLE : nat := 8.       (* unreachable!() *)

Inductive tcres := TOk | TErr | TPanic.    (* result of the visitor: errors are accumulated *)
Definition join (a b : tcres) : tcres :=
  match a, b with
  | TPanic, _ | _, TPanic => TPanic
  | TErr, _ | _, TErr => TErr
  | TOk, TOk => TOk
  end.
Definition of_outcome {A} (o : outcome A) : tcres :=
  match o with Ok _ => TOk | Err _ => TErr | Panic _ => TPanic | OutOfFuel => TPanic end.
Definition joinmap {A} (f : A -> tcres) (l : list A) : tcres :=
  fold_right (fun x acc => join (f x) acc) TOk l.
Definition allok {A} (f : A -> outcome unit) (l : list A) : outcome unit :=
  fold_right (fun x acc => do u_ <- f x; acc) (Ok tt) l.

Definition tcres_eqb (a b : tcres) : bool :=
  match a, b with TOk, TOk | TErr, TErr | TPanic, TPanic => true | _, _ => false end.

Section Check.
  Variable T : optypes.
  Variable G : env.

  Definition var_inherent (v : var) : vty :=
    match v with Var _ (VReg r) => reg_ty G r | Var _ (VNamed id) => var_ty G id end.
  (* CompilerContext::var_read_ty_from_ast *)
  Definition var_read_ty (v : var) : vty :=
    match v with Var (Some sg) _ => Typed (sty_of_sigil sg) | Var None _ => var_inherent v end.
  Definition var_sigil (v : var) : option sigil := match v with Var sg _ => sg end.

  Definition check_var_weak (v : var) : outcome unit :=
    match var_inherent v, var_sigil v with
    | Typed TString, Some _ => Err E_TYPE
    | _, _ => Ok tt
    end.
  Definition check_var (v : var) : outcome sty :=
    do u_ <- check_var_weak v;
    match var_read_ty v with Typed t => Ok t | Untyped => Err E_TYPE end.

  Definition require (r : req) (t : sty) : outcome unit :=
    match r, t with
    | RQ_numeric, TInt | RQ_numeric, TFloat | RQ_int, TInt | RQ_float, TFloat | RQ_string, TString => Ok tt
    | RQ_unreachable, _ => Panic P_UNREACHABLE
    | RQ_unrec, _ => Panic P_UNREC
    | _, _ => Err E_TYPE
    end.
  Definition require_same (a b : sty) : outcome sty := if sty_eqb a b then Ok a else Err E_TYPE.
  Definition require_exact (a b : ety) : outcome unit := if ety_eqb a b then Ok tt else Err E_TYPE.
  Definition as_value (t : ety) : outcome sty := match t with Value t => Ok t | Void => Err E_TYPE end.
  Definition expect_value (t : ety) : outcome sty := match t with Value t => Ok t | Void => Panic P_EXPECT end.

  Definition res_ty (r : res) (arg : outcome sty) : outcome sty :=
    match r with
    | RS_arg => arg | RS_int => Ok TInt | RS_float => Ok TFloat
    | RS_unreachable => Panic P_UNREACHABLE | RS_unrec => Panic P_UNREC
    end.

  Definition has_blob (ps : list (pseudo * texpr)) : bool :=
    existsb (fun p => match fst p with PK_blob => true | _ => false end) ps.

  (* Expr::compute_ty ("assumes that the expression has already been type-checked") *)
  Fixpoint compute_ty (e : texpr) : outcome ety :=
    match e with
    | TLitI _ => Ok (Value TInt)
    | TLitF _ => Ok (Value TFloat)
    | TLitS _ => Ok (Value TString)
    | TEnum en _ =>
        match ot_ct_enum T with
        | CT_enum_int => Ok (Value TInt)
        | CT_enum_ty => Ok (Value (enum_ty G en))
        | CT_enum_unrec => Panic P_UNREC
        end
    | TVar v => match var_read_ty v with Typed t => Ok (Value t) | Untyped => Panic P_EXPECT end
    | TBin a op _ =>
        do t <- res_ty (ot_bin_res T (ot_bin_class T op)) (do x <- compute_ty a; expect_value x);
        Ok (Value t)
    | TUn op x =>
        do t <- res_ty (ot_un_res T op) (do y <- compute_ty x; expect_value y);
        Ok (Value t)
    | TXcr _ => Ok (Value TInt)
    | TTern _ l _ => compute_ty l
    | TDiff first _ => compute_ty first
    | TLabelProp => Ok (Value TInt)
    | TCall f ps _ =>
        if has_blob ps then Ok Void
        else match fn_sig G f with Some s => Ok (sg_ret s) | None => Panic P_EXPECT end
    end.

  Definition binop_ty (op : binop) (a : texpr) : outcome sty :=
    res_ty (ot_bin_res T (ot_bin_class T op)) (do x <- compute_ty a; expect_value x).
  Definition unop_ty (op : unop) (x : texpr) : outcome sty :=
    res_ty (ot_un_res T op) (do y <- compute_ty x; expect_value y).

  Definition binop_check (op : binop) (a b : sty) : outcome unit :=
    do u_ <- require (ot_bin_req T (ot_bin_class T op)) a;
    do u_ <- require_same a b;
    Ok tt.

  Definition nondefault (p : vty * bool) : bool := negb (snd p).
  Definition min_args (s : sig) : nat := length (filter nondefault (sg_params s)).
  (* the parameters the arguments are zipped with *)
  Definition zip_params (s : sig) : outcome (list (vty * bool)) :=
    match ot_call_zip T with
    | CZ_all => Ok (sg_params s)
    | CZ_nondefault => Ok (filter nondefault (sg_params s))
    | CZ_unrec => Panic P_UNREC
    end.
  Definition param_accepts (p : vty) (t : sty) : outcome unit :=
    match p with Typed pt => if sty_eqb t pt then Ok tt else Err E_TYPE | Untyped => Ok tt end.

  (* the loops of check_expr, over the checker [f] of sub-expressions *)
  Definition diff_go (f : texpr -> outcome ety) : list (option texpr) -> sty -> outcome sty :=
    fix go (l : list (option texpr)) (t : sty) : outcome sty :=
      match l with
      | [] => Ok t
      | None :: l' => go l' t
      | Some x :: l' =>
          do tx <- (do y <- f x; as_value y);
          do t' <- require_same t tx;
          go l' t'
      end.
  Definition pseudos_go (f : texpr -> outcome ety) : list (pseudo * texpr) -> outcome unit :=
    fix go (l : list (pseudo * texpr)) : outcome unit :=
      match l with
      | [] => Ok tt
      | (k, x) :: l' =>
          do tx <- (do y <- f x; as_value y);
          do u_ <- require (ot_pseudo_req T k) tx;
          go l'
      end.
  Definition zip_go (f : texpr -> outcome ety) : list texpr -> list (vty * bool) -> outcome unit :=
    fix go (l : list texpr) (ps : list (vty * bool)) : outcome unit :=
      match l, ps with
      | a :: l', p :: ps' =>
          do ta <- (do y <- f a; as_value y);
          do u_ <- param_accepts (fst p) ta;
          go l' ps'
      | _, _ => Ok tt
      end.
  Definition all_go (f : texpr -> outcome ety) : list texpr -> outcome unit :=
    fix go (l : list texpr) : outcome unit :=
      match l with
      | [] => Ok tt
      | a :: l' => do u_ <- f a; go l'
      end.

  (* ExprTypeChecker::check_expr (without the debug_assert against compute_ty: see
     Proofs/TypingSound.compute_ty_agrees) *)
  Fixpoint check_expr (e : texpr) : outcome ety :=
    match e with
    | TLitI _ => Ok (Value TInt)
    | TLitF _ => Ok (Value TFloat)
    | TLitS _ => Ok (Value TString)
    | TVar v => do t <- check_var v; Ok (Value t)
    | TEnum en _ => Ok (Value (enum_ty G en))
    | TBin a op b =>
        do ta <- (do x <- check_expr a; as_value x);
        do tb <- (do x <- check_expr b; as_value x);
        do u_ <- binop_check op ta tb;
        do t <- binop_ty op a;
        Ok (Value t)
    | TUn op x =>
        do tx <- (do y <- check_expr x; as_value y);
        do u_ <- require (ot_un_req T op) tx;
        do t <- unop_ty op x;
        Ok (Value t)
    | TXcr v =>
        do t <- check_var v;
        do u_ <- require RQ_int t;
        Ok (Value t)
    | TTern c l r =>
        do tl <- (do x <- check_expr l; as_value x);
        do tr <- (do x <- check_expr r; as_value x);
        do tc <- (do x <- check_expr c; as_value x);
        do u_ <- require RQ_int tc;
        do t <- require_same tl tr;
        Ok (Value t)
    | TDiff first rest =>
        do t0 <- (do x <- check_expr first; as_value x);
        do t <- diff_go check_expr rest t0;
        Ok (Value t)
    | TLabelProp => Ok (Value TInt)
    | TCall f ps args =>
        do u_ <- pseudos_go check_expr ps;
        if negb (fn_is_ins G f) && negb (match ps with [] => true | _ => false end) then Err E_TYPE
        else if has_blob ps then
          match args with [] => Ok Void | _ :: _ => Err E_TYPE end
        else
          match fn_sig G f with
          | None => Err E_TYPE
          | Some s =>
              if negb (Nat.eqb (length args) (min_args s)) then Err E_TYPE
              else
                do params <- zip_params s;
                do u_ <- zip_go check_expr args params;
                (* "Recurse on function arguments" *)
                do u_ <- all_go check_expr args;
                Ok (sg_ret s)
          end
    end.

  Definition check_expr_as_value (e : texpr) : outcome sty := do x <- check_expr e; as_value x.

  (* Visitor::check_cond *)
  Definition check_cond (c : texpr) : outcome unit :=
    do t <- check_expr_as_value c; require RQ_int t.

  Definition kw_var_ty (kw : tykw) : outcome vty :=
    match kw with
    | KwInt => Ok (Typed TInt) | KwFloat => Ok (Typed TFloat) | KwString => Ok (Typed TString)
    | KwVar => Ok Untyped
    | KwVoid => Panic P_UNREACHABLE      (* unreachable!("void var") *)
    end.

  (* Visitor::check_single_var_decl *)
  Definition check_single_var_decl (kw : tykw) (v : var) (value : option texpr) : outcome unit :=
    do u_ <- check_var_weak v;
    do dt <- kw_var_ty kw;
    do u_ <- match dt with
            | Typed decl_ty =>
                match var_read_ty v with
                | Typed vt => require_exact (Value decl_ty) (Value vt)
                | Untyped => Panic P_EXPECT          (* expect("var is typed") *)
                end
            | Untyped => Ok tt
            end;
    match value with
    | None => Ok tt
    | Some e =>
        do vt <- check_var v;
        do et <- check_expr e;
        do t <- as_value et;
        require_exact (Value t) (Value vt)
    end.

  Definition check_stmt_assignment (v : var) (op : assignop) (e : texpr) : outcome unit :=
    do vt <- check_var v;
    do et <- check_expr_as_value e;
    match ot_assign_binop T op with
    | None =>
        match op with
        | AO_Assign => do u_ <- require_same vt et; Ok tt
        | _ => Panic P_EXPECT                       (* expect("only Assign has no binop") *)
        end
    | Some bop =>
        match op with
        | AO_Assign => do u_ <- require_same vt et; Ok tt
        | _ => binop_check bop vt et
        end
    end.

  Definition check_stmt_expr (e : texpr) : outcome unit :=
    do t <- check_expr e;
    match t with Void => Ok tt | Value _ => Err E_TYPE end.

  Definition check_stmt_times (clob : option var) (n : texpr) : outcome unit :=
    do t <- check_expr_as_value n;
    do u_ <- require RQ_int t;
    match clob with
    | None => Ok tt
    | Some v => do vt <- check_var v; do u_ <- require_same vt t; Ok tt
    end.

  (* cur: return type of the innermost enclosing function (cur_func_stack.last()) *)
  Definition check_stmt_return (cur : option ety) (v : option texpr) : outcome unit :=
    match cur with
    | None => Err E_TYPE                             (* "return outside of a function" (a panic before fix 40454b1) *)
    | Some ret =>
        match v with
        | None => require_exact Void ret
        | Some e =>
            do et <- check_expr e;
            do t <- as_value et;
            require_exact (Value t) ret
        end
    end.

  Definition check_stmt_declaration (kw : tykw) (vars : list (var * option texpr)) : outcome unit :=
    allok (fun p => check_single_var_decl kw (fst p) (snd p)) vars.

  Definition check_const_item (kw : tykw) (vars : list (var * texpr)) : outcome unit :=
    allok (fun p => check_single_var_decl kw (fst p) (Some (snd p))) vars.

  (* what an arm `if let Err(e) = self.check_xxx(..) { self.errors.set(e) }` does on a statement;
     a check function applied to a statement kind it cannot destructure would not compile *)
  Definition apply_check (f : checkfn) (cur : option ety) (s : stmt) : outcome unit :=
    match f, s with
    | CF_return, SReturn v => check_stmt_return cur v
    | CF_assignment, SAssign v op e => check_stmt_assignment v op e
    | CF_expr, SExpr e => check_stmt_expr e
    | CF_times, STimes clob n _ => check_stmt_times clob n
    | CF_declaration, SDecl kw vars => check_stmt_declaration kw vars
    | CF_cond, SCondJump e | CF_cond, SInterrupt e | CF_cond, SRelTime e => check_cond e
    | CF_constvar, SConst kw vars => check_const_item kw vars
    | _, _ => Panic P_UNREC
    end.

  Definition visit_expr (e : texpr) : tcres := of_outcome (check_expr e).
  Definition visit_cond (e : texpr) : tcres := of_outcome (check_cond e).

  Variable D : tctable.

  (* Visitor::visit_stmt; the items are visited through visit_item (inlined below, so that the
     recursion is structural) *)
  Fixpoint check_stmt (cur : option ety) (s : stmt) {struct s} : tcres :=
    let blk (c : option ety) (b : list stmt) : tcres := joinmap (check_stmt c) b in
    let oblk (c : option ety) (b : option (list stmt)) : tcres :=
      match b with Some b => joinmap (check_stmt c) b | None => TOk end in
    let item_visit : tcres :=
      match s with
      | SFunc ret code =>
          match tc_item D IK_Func with
          | I_FuncWalk => oblk (Some ret) code
          | I_Walk => oblk cur code
          | I_Skip => TOk
          | _ => TPanic
          end
      | SScript code =>
          match tc_item D IK_Script with
          | I_Walk => blk cur code
          | I_Skip => TOk
          | _ => TPanic
          end
      | SMeta es =>
          match tc_item D IK_Meta with
          | I_Walk => joinmap visit_expr es
          | I_Skip => TOk
          | _ => TPanic
          end
      | SConst kw vars =>
          match tc_item D IK_ConstVar with
          | I_Walk => joinmap (fun p => visit_expr (snd p)) vars
          | I_Check f => of_outcome (apply_check f cur s)
          | I_Skip => TOk
          | _ => TPanic
          end
      | _ => TPanic
      end in
    let own_blocks : tcres :=
      match s with
      | SLoop b | SWhile _ b | STimes _ _ b | SBlock b => blk cur b
      | SCondChain cbs els => join (joinmap (fun cb => blk cur (snd cb)) cbs) (oblk cur els)
      | _ => TOk
      end in
    match tc_stmt D (kind_of s) with
    | D_Skip => TOk
    | D_Unimpl => TPanic
    | D_Reject => TErr
    | D_Unrec => TPanic
    | D_Check f wb => join (of_outcome (apply_check f cur s)) (if wb then own_blocks else TOk)
    | D_Walk =>
        match s with
        | SFunc _ _ | SScript _ | SMeta _ | SConst _ _ => item_visit
        | SJump => TOk
        | SCondJump c => visit_cond c
        | SReturn v => match v with Some e => visit_expr e | None => TOk end
        | SCondChain cbs els =>
            join (joinmap (fun cb => join (visit_cond (fst cb)) (blk cur (snd cb))) cbs) (oblk cur els)
        | SLoop b => blk cur b
        | SWhile c b => join (visit_cond c) (blk cur b)
        | STimes _ n b => join (visit_expr n) (blk cur b)
        | SExpr e => visit_expr e
        | SBlock b => blk cur b
        | SAssign _ _ e => visit_expr e
        | SDecl _ vars => joinmap (fun p => match snd p with Some e => visit_expr e | None => TOk end) vars
        | SCallSub args => joinmap visit_expr args
        | SInterrupt e => visit_expr e
        | SAbsTime => TOk
        | SRelTime e => visit_expr e
        | SLabel => TOk
        | SScopeEnd => TOk
        | SNoInstr => TOk
        end
    end.

  Definition check_block (cur : option ety) (b : list stmt) : tcres := joinmap (check_stmt cur) b.

  (* Visitor::visit_item on an item of the file (the K_Item row is not consulted here) *)
  Definition check_item (cur : option ety) (s : stmt) : tcres :=
    match s with
    | SFunc ret code =>
        match tc_item D IK_Func with
        | I_FuncWalk => match code with Some b => check_block (Some ret) b | None => TOk end
        | I_Walk => match code with Some b => check_block cur b | None => TOk end
        | I_Skip => TOk
        | _ => TPanic
        end
    | SScript code =>
        match tc_item D IK_Script with
        | I_Walk => check_block cur code
        | I_Skip => TOk
        | _ => TPanic
        end
    | SMeta es =>
        match tc_item D IK_Meta with
        | I_Walk => joinmap visit_expr es
        | I_Skip => TOk
        | _ => TPanic
        end
    | SConst kw vars =>
        match tc_item D IK_ConstVar with
        | I_Walk => joinmap (fun p => visit_expr (snd p)) vars
        | I_Check f => of_outcome (apply_check f cur s)
        | I_Skip => TOk
        | _ => TPanic
        end
    | _ => TPanic
    end.

  (* passes::type_check::run on a ScriptFile: walk_file *)
  Definition check_file (items : list stmt) : tcres := joinmap (check_item None) items.
End Check.

(* ---- erasure into the expression language of Model/Expr.v (for AstVm evaluation) ---- *)
Fixpoint to_expr (e : texpr) : expr :=
  match e with
  | TLitI z => ELitI z
  | TLitF b => ELitF b
  | TLitS s => ELitS s
  | TVar (Var sg (VReg r)) => EReg sg r
  | TVar (Var sg (VNamed id)) => EVar sg id
  | TEnum _ id => EEnum id
  | TBin a op b => EBin (to_expr a) op (to_expr b)
  | TUn op x => EUn op (to_expr x)
  | TXcr _ => EOpaque 1
  | TTern c l r => ETern (to_expr c) (to_expr l) (to_expr r)
  | TDiff first rest =>
      EDiff (Some (to_expr first) :: map (fun c => match c with Some x => Some (to_expr x) | None => None end) rest)
  | TLabelProp => EOpaque 0
  | TCall _ _ args => ECall 0 (map to_expr args)
  end.

Definition type_of_value (v : value) : sty :=
  match v with VInt _ => TInt | VFloat _ => TFloat | VStr _ => TString end.
