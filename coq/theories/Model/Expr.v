(* Model/Expr.v -- expressions, the run-time evaluator (AstVm::eval, src/vm.rs), the
   const-simplification visitor (src/passes/const_simplify.rs) and the DFS evaluator of const
   definitions (src/context/consts.rs).  Executable definitions only. *)
From TV Require Import Base.I32 Base.F32 Model.Ops.
Open Scope Z_scope.

Inductive sigil := SgInt | SgFloat.

Inductive expr :=
| ELitI (z : Z)
| ELitF (bits : Z)
| ELitS (s : list Z)
| EReg (sg : option sigil) (r : Z)            (* REG[r] / register alias: never constant *)
| EVar (sg : option sigil) (id : nat)         (* named variable (local, param or const), by DefId *)
| EEnum (id : nat)                            (* enum const, by DefId *)
| EUn (op : unop) (e : expr)
| EBin (a : expr) (op : binop) (b : expr)
| ETern (c l r : expr)
| EDiff (cases : list (option expr))          (* (a:b::d) ; first case always present *)
| ECall (f : nat) (args : list expr)          (* call in expression position: opaque to the VM *)
| EOpaque (n : nat).                          (* offsetof/timeof/xcrement: never simplified *)

Definition P_UNIMPL : nat := 7.
Definition E_DIV0 : nat := 1.      (* diagnostic: division by zero in a constant expression *)
Definition E_NONCONST : nat := 2.  (* diagnostic: const evaluation error / non-const expression *)
Definition E_CYCLE : nat := 3.     (* diagnostic: cycle in const definition *)

Definition lit (v : value) : expr :=
  match v with VInt z => ELitI z | VFloat b => ELitF b | VStr s => ELitS s end.

(* Expr::to_const *)
Definition to_const (e : expr) : option value :=
  match e with ELitI z => Some (VInt z) | ELitF b => Some (VFloat b) | ELitS s => Some (VStr s) | _ => None end.

(* ScalarValue::cast_by_ty_sigil *)
Definition cast_by_sigil (sg : option sigil) (v : value) : option value :=
  match sg, v with
  | None, _ => Some v
  | Some SgInt, VInt x => Some (VInt x)
  | Some SgInt, VFloat x => Some (VInt (f2i x))
  | Some SgFloat, VInt x => Some (VFloat (i2f x))
  | Some SgFloat, VFloat x => Some (VFloat x)
  | Some _, VStr _ => None
  end.

Definition sigil_of_unop (op : unop) : option sigil :=
  match op with EncodeI => Some SgInt | EncodeF => Some SgFloat | _ => None end.

Definition expect {A} (o : option A) : outcome A :=
  match o with Some a => Ok a | None => Panic P_EXPECT end.

(* diff_switch_utils::select_diff_switch_case *)
Fixpoint select_case {A} (cases : list (option A)) (d : nat) (last : option A) : option A :=
  match cases with
  | [] => None   (* assert!(difficulty < cases.len()) *)
  | c :: rest =>
      let last' := match c with Some x => Some x | None => last end in
      match d with
      | O => last'
      | S d' => select_case rest d' last'
      end
  end.

Section Eval.
  Variable T : optable.
  Variable libm : unop -> Z -> Z.
  Variable regs : Z -> value.              (* register file *)
  Variable locals : nat -> value.          (* non-const named variables *)
  Variable cs : nat -> option value.       (* the const cache: Some v iff the id is an evaluated const *)
  Variable diff : nat.

  (* the zero-divisor guard of the const-simplification pass and of the const DFS evaluator *)
  Definition undefined_binop (op : binop) (b : value) : bool :=
    match op, b with
    | Div, VInt 0 | Rem, VInt 0 => true
    | _, _ => false
    end.

  Fixpoint eval (e : expr) : outcome value :=
    match e with
    | ELitI z => Ok (VInt z)
    | ELitF b => Ok (VFloat b)
    | ELitS s => Ok (VStr s)
    | EReg sg r => expect (cast_by_sigil sg (regs r))
    | EVar sg id =>
        match cs id with
        | Some v => expect (cast_by_sigil sg v)
        | None => expect (cast_by_sigil sg (locals id))
        end
    | EEnum id => match cs id with Some v => Ok v | None => Panic P_UNIMPL end
    | EUn op x =>
        do v <- eval x;
        match sigil_of_unop op with
        | Some sg => expect (cast_by_sigil (Some sg) v)
        | None => do r <- unop_eval libm T op v; expect r
        end
    | EBin a op b => do av <- eval a; do bv <- eval b; binop_eval T op av bv
    | ETern c l r =>
        do cv <- eval c;
        match cv with
        | VInt 0 => eval r
        | VInt _ => eval l
        | _ => Panic P_TYPE
        end
    | EDiff cases =>
        match select_case (map (fun c => match c with Some x => Some (eval x) | None => None end) cases)
                          diff None with
        | Some r => r
        | None => Panic P_EXPECT
        end
    | ECall _ _ => Panic P_UNIMPL
    | EOpaque _ => Panic P_UNIMPL
    end.

  (* const_simplify::Visitor::visit_expr : children first (walk_expr_mut), then this node *)
  Fixpoint simplify (e : expr) : outcome expr :=
    match e with
    | ELitI _ | ELitF _ | ELitS _ | EReg _ _ | EOpaque _ => Ok e
    | EVar sg id =>
        match cs id with
        | Some v => do v' <- expect (cast_by_sigil sg v); Ok (lit v')
        | None => Ok e
        end
    | EEnum id => match cs id with Some v => Ok (lit v) | None => Ok e end
    | EUn op b =>
        do b' <- simplify b;
        match to_const b' with
        | Some bv =>
            do r <- unop_eval libm T op bv;
            match r with Some v => Ok (lit v) | None => Ok (EUn op b') end
        | None => Ok (EUn op b')
        end
    | EBin a op b =>
        do a' <- simplify a;
        do b' <- simplify b;
        match to_const a', to_const b' with
        | Some av, Some bv =>
            if undefined_binop op bv then Err E_DIV0
            else do v <- binop_eval T op av bv; Ok (lit v)
        | _, _ => Ok (EBin a' op b')
        end
    | ETern c l r =>
        do c' <- simplify c;
        do l' <- simplify l;
        do r' <- simplify r;
        match to_const c' with
        | Some (VInt 0) => Ok r'
        | Some (VInt _) => Ok l'
        | Some _ => Panic P_TYPE
        | None => Ok (ETern c' l' r')
        end
    | EDiff cases =>
        do cases' <- (fix go (l : list (option expr)) : outcome (list (option expr)) :=
                        match l with
                        | [] => Ok []
                        | None :: t => do t' <- go t; Ok (None :: t')
                        | Some x :: t => do x' <- simplify x; do t' <- go t; Ok (Some x' :: t')
                        end) cases;
        Ok (EDiff cases')
    | ECall f args =>
        do args' <- (fix go (l : list expr) : outcome (list expr) :=
                       match l with
                       | [] => Ok []
                       | x :: t => do x' <- simplify x; do t' <- go t; Ok (x' :: t')
                       end) args;
        Ok (ECall f args')
    end.
End Eval.

(* Evaluator::_get_or_compute / _const_eval (src/context/consts.rs), without the cache: the
   cache only memoises values of consts that have been completely evaluated. *)
Section ConstEval.
  Variable T : optable.
  Variable libm : unop -> Z -> Z.
  Variable defs : nat -> option expr.      (* const id -> defining expression *)

  Definition on_stack (id : nat) (stack : list nat) : bool := existsb (Nat.eqb id) stack.

  Fixpoint ceval (fuel : nat) (stack : list nat) (e : expr) {struct fuel} : outcome value :=
    match fuel with
    | O => OutOfFuel
    | S f =>
        let get (id : nat) : outcome value :=
          if on_stack id stack then Err E_CYCLE
          else match defs id with
               | None => Err E_NONCONST
               | Some d => ceval f (id :: stack) d
               end in
        match e with
        | ELitI z => Ok (VInt z)
        | ELitF b => Ok (VFloat b)
        | ELitS s => Ok (VStr s)
        | EVar sg id => do v <- get id; expect (cast_by_sigil sg v)
        | EEnum id => get id
        | EUn op b =>
            do bv <- ceval f stack b;
            do r <- unop_eval libm T op bv;
            match r with Some v => Ok v | None => Err E_NONCONST end
        | EBin a op b =>
            do av <- ceval f stack a;
            do bv <- ceval f stack b;
            if undefined_binop op bv then Err E_DIV0 else binop_eval T op av bv
        | ETern c l r =>
            do cv <- ceval f stack c;
            do lv <- ceval f stack l;
            do rv <- ceval f stack r;
            match cv with
            | VInt 0 => Ok rv
            | VInt _ => Ok lv
            | _ => Panic P_TYPE
            end
        | EReg _ _ | EDiff _ | ECall _ _ | EOpaque _ => Err E_NONCONST
        end
    end.

  (* Consts::do_deferred_evaluations : every deferred id, in order; the first error aborts *)
  Fixpoint eval_deferred (fuel : nat) (ids : list nat) (acc : list (nat * value)) : outcome (list (nat * value)) :=
    match ids with
    | [] => Ok acc
    | id :: rest =>
        do v <- ceval fuel [] (EVar None id);
        eval_deferred fuel rest ((id, v) :: acc)
    end.
End ConstEval.

Fixpoint assoc {A} (l : list (nat * A)) (k : nat) : option A :=
  match l with
  | [] => None
  | (k', v) :: t => if Nat.eqb k k' then Some v else assoc t k
  end.

Fixpoint mapM {A B} (f : A -> outcome B) (l : list A) : outcome (list B) :=
  match l with
  | [] => Ok []
  | x :: t => do y <- f x; do t' <- mapM f t; Ok (y :: t')
  end.

(* evaluate all consts, then simplify the given expressions: the part of the compile pipeline
   between type checking and lowering, as far as constants are concerned *)
Definition const_pipeline (T : optable) (libm : unop -> Z -> Z) (fuel : nat)
           (defs : list (nat * expr)) (es : list expr) : outcome (list expr) :=
  do cache <- eval_deferred T libm (assoc defs) fuel (map fst defs) [];
  mapM (simplify T libm (assoc cache)) es.
