(* Model/OrderSites.v -- C19: the AUDITED classification of every hash-iteration site.

   Written by hand after reading the code of each site that gen/hashiter.py lists in Gen/HashIter.v
   (gen/hashiter_audit.py prints row skeletons for a tree).  A row applies to a site only if the
   digests it pins still match, so an edit of an audited consumer makes the site [Unclassified] again
   and breaks Proofs/OrderSitesOk.v (all_sites_classified):
     PinDecl     the declared types of the hashy names in the header (used for [NotHash]: the header names a
                 Vec/IndexMap/... and merely shares its name with a hash-typed field elsewhere)
     PinStmt d   additionally the text of the whole statement (a `for`: header and body; a "call": also
                 the text of the callee)
     PinFn d     additionally the text of the whole enclosing fn (the consumer spans several statements)
   Rows "after fixes/...diff" classify the sites as they look once the corresponding patch of
   /verif/fixes is applied (each was produced by applying the patch and re-running the scanner).

   Definitions only. *)
From Coq Require Import String List Bool.
From TV Require Import Model.Order.
Import ListNotations.
Open Scope string_scope.

Inductive pin := PinDecl | PinStmt (d : string) | PinFn (d : string).

Record row := mk_row {
  r_file : string; r_fn : string; r_kind : string; r_header : string; r_ord : nat;
  r_decls : list string;      (* acceptable declaration digests *)
  r_pin : pin;
  r_shape : shape;
  r_tag : string              (* names the finding class of an unsafe site: c19-site:<tag> *)
}.

Definition table : list row := [
  (* line 658; impl rib::Rib (field defs: HashMap<Ident, RibEntry>)
     `(RibKind::LocalBarrier { .. }, ns) | (RibKind::DummyRoot, ns) => panic!("noun called on {:?} {:?} rib", self, ns)`: the Debug text of
     a Rib lists its hash map in iteration order, but only inside the message of a panic that reports an internal bug *)
  mk_row "resolve/mod.rs" "Rib::noun" "fmt-debug" "panic!(""noun called on{:?}{:?}rib"",self,ns)" 1 ["db029df000"] (PinStmt "2cb1862eba") BugPanicMessage "";
  (* line 335; valid_fields:field: HashSet<&'static str>
     HashSet<&str>: `.iter().map(..).any(|x| x == key)` -- an existence test *)
  mk_row "ast/meta.rs" "ParseObject::finish" "iter" "self.valid_fields.iter()" 1 ["4a69e45151"] (PinStmt "f69cbdb4de") AnyAll "";
  (* line 796; enums:field: IdMap<Ident,EnumData>|field: IdMap<Ident,ScalarValueMap<Sp<Ident>>>|field: IdMap<Sp<Ident>,Vec<(i32,Sp<Ident>)>>
     DEFECT: Mapfile::enums is an IdMap; each entry is declared in iteration order: declare_enum, then define_enum_const allocates DefIds, pushes to Consts::deferred_ids and to deferred_equality_checks -- and evaluate_all_deferred reports only the FIRST failing equality check, so which "ambiguous value for enum const" error appears depends on the hash order; Consts::debug_info lists the consts in the same order in the --output-debug-info file (fixes/c19-mapfile-enum-order.diff) *)
  mk_row "context/defs.rs" "CompilerContext::extend_from_mapfile" "iter" "mapfile.enums.iter()" 1 ["c0aa526eb3"] (PinStmt "7f192a11fb") EmitInIterationOrder "extend_from_mapfile/mapfile.enums";
  (* line 796; enums:field: IdMap<Ident,EnumData>|field: IdMap<Ident,ScalarValueMap<Sp<Ident>>>|field: IdMap<Sp<Ident>,Vec<(i32,Sp<Ident>)>>
     after fixes/c19-mapfile-enum-order.diff: Mapfile::enums is an IndexMap filled from a BTreeMap (only the two Defs-side `enums` fields remain hash maps: this declaration digest) *)
  mk_row "context/defs.rs" "CompilerContext::extend_from_mapfile" "iter" "mapfile.enums.iter()" 1 ["70ff796cef"] (PinStmt "7f192a11fb") NotHash "";
  (* line 900; defs:field: HashMap<Ident,RibEntry> ; enums:field: IdMap<Ident,EnumData>|field: IdMap<Ident,ScalarValueMap<Sp<Ident>>>|field: IdMap<Sp<Ident>,Vec<(i32,Sp<Ident>)>>
     Defs::enums (IdMap) -> `.map(|(key, data)| (key.clone(), data.generate_lookup(consts))).collect()` into ConstNames::enums (IdMap), which is only indexed by key (llir/raise/early.rs); generate_lookup walks EnumData::consts, an IndexMap *)
  mk_row "context/defs.rs" "CompilerContext::get_const_names" "iter" "defs.enums.iter()" 1 ["c0aa526eb3"; "70ff796cef"] (PinStmt "2d29797ea9") CollectHash "";
  (* line 1094; defs:field: HashMap<Ident,RibEntry> ; instrs:field: IdMap<(LanguageKey,raw::Opcode),InsData>
     returns `ins_sigs.chain(non_ins_sigs)`: the hash order of Defs::instrs is handed to the caller (site kind "call") *)
  mk_row "context/defs.rs" "CompilerContext::all_signatures" "values" "self.defs.instrs.values()" 1 ["1fd467afe8"] (PinFn "f24c1477d2") ReturnedIterator "";
  (* line 1095; defs:field: HashMap<Ident,RibEntry> ; funcs:field: IdMap<DefId,FuncData>
     as above, Defs::funcs *)
  mk_row "context/defs.rs" "CompilerContext::all_signatures" "values" "self.defs.funcs.values()" 1 ["3fc400d9dd"] (PinFn "f24c1477d2") ReturnedIterator "";
  (* line 1100; all_signatures():fn context/defs.rs returns an iterator over a hash container (self.defs.instrs.values())
     DEFECT: `.map(|siggy| .. validate_param_ty_color ..).collect_with_recovery()` emits one "no such enum" error per bad signature, in the hash order of Defs::instrs (fixes/c19-signature-validation-order.diff) *)
  mk_row "context/defs.rs" "CompilerContext::validate_mapfile_signatures" "call" "self.all_signatures()" 1 ["b8cf4eaf93"] (PinStmt "ce70d7d8bf") EmitInIterationOrder "validate_mapfile_signatures/all_signatures";
  (* line 1155; enums:field: IdMap<Ident,EnumData>|field: IdMap<Ident,ScalarValueMap<Sp<Ident>>>|field: IdMap<Sp<Ident>,Vec<(i32,Sp<Ident>)>>
     DEFECT: `.min_by_key(|&(_, distance)| distance)`: of several equally close enum names the first in hash order is suggested (fixes/c19-similar-enum-tiebreak.diff) *)
  mk_row "context/defs.rs" "Defs::find_similar_enum_name" "keys" "self.enums.keys()" 1 ["c0aa526eb3"; "70ff796cef"] (PinStmt "f2651dc75b") MinByKeyFirstWins "find_similar_enum_name/enums.keys";
  (* line 1375; clashing_names_for_regs:let = IdMap::<RegId,IdMap<UsedName,UsedNameData>>::new();
     DEFECT (DESIGN section 6 #9): one `warning!("register {} used under multiple names")` is emitted per entry of an IdMap<RegId, ..>, in hash order (fixes/c19-ordered-register-maps.diff) *)
  mk_row "llir/lower/stackless.rs" "assign_registers" "for" "for (reg,used_names)in clashing_names_for_regs" 1 ["c44617be49"] (PinStmt "d61100d5d0") EmitInIterationOrder "assign_registers/clashing_names_for_regs";
  (* line 1378; used_names:bound by a for pattern over a nested hash container (clashing_names_for_regs)
     inner IdMap<UsedName, UsedNameData> of one register: every entry becomes a primary label of ONE diagnostic; the spans are single tokens of one file (a parameter name, a register token), pairwise distinct, which codespan lays out by range; the notes are all the same string (param_note). (the map becomes a BTreeMap with fixes/c19-ordered-register-maps.diff) *)
  mk_row "llir/lower/stackless.rs" "assign_registers" "for" "for (_,UsedNameData{span,note})in used_names" 1 ["291e38cfa3"] (PinStmt "cd284279e1") SortedByRenderer "";
  (* line 1421; implicitly_used_regs:param: &HashMap<RegId,(ScalarType,Span)>
     DEFECT: one `error.secondary(scratch_span, "{} holds this")` label per entry of a HashMap<RegId, ..> in hash order; codespan numbers multi-line labels in the order given, so the rendering of the "script too complex" error differs between launches when the scratch registers hold multi-line expressions (fixes/c19-ordered-register-maps.diff) *)
  mk_row "llir/lower/stackless.rs" "script_too_complex" "for" "for (&scratch_reg,&(scratch_ty,scratch_span))in implicitly_used_regs" 1 ["5e3b997814"] (PinStmt "efb3725827") EmitInIterationOrder "script_too_complex/implicitly_used_regs";
  (* line 25; instrs:field: IdMap<(LanguageKey,raw::Opcode),InsData>
     `instrs` is a Vec / slice of instructions; the name collides with Defs::instrs *)
  mk_row "llir/raise/infer_pcb_signatures.rs" "CallRegSignatures::infer_from_calls" "for" "for instr in&mut script.instrs" 1 ["2422e9ab6a"] PinDecl NotHash "";
  (* line 210; defs:field: HashMap<Ident,RibEntry>
     Defs::initial_ribs returns a Vec built from two EnumMap<LanguageKey, Rib> (in key order) and two single ribs; `defs` collides with rib::Rib::defs *)
  mk_row "resolve/mod.rs" "Visitor::new" "into_iter" "ctx.defs.initial_ribs().into_iter()" 1 ["597f776878"] PinDecl NotHash "";
  (* line 86; var_values:field: HashMap<VarId,VarValue>
     Display for AstVm (used by tests only): entries are pushed to `others` / `regs`, both `sort_by_key(|&(id, _)| id)` before printing *)
  mk_row "vm.rs" "AstVm::fmt" "for" "for (&var_id,value)in&self.var_values" 1 ["56db49ee97"] (PinFn "9710486c87") CollectThenSort "";
  (* line 1095; defs:field: HashMap<Ident,RibEntry> ; instrs:field: IdMap<(LanguageKey,raw::Opcode),InsData>
     after fixes/c19-signature-validation-order.diff: `.iter().map(..).collect::<Vec<_>>()` then `sort_by_key(|&(key, _)| key)`; keys of one map are distinct *)
  mk_row "context/defs.rs" "CompilerContext::all_signatures" "iter" "self.defs.instrs.iter()" 1 ["1fd467afe8"] (PinFn "17441ce31c") CollectThenSort "";
  (* line 1097; defs:field: HashMap<Ident,RibEntry> ; funcs:field: IdMap<DefId,FuncData>
     as above *)
  mk_row "context/defs.rs" "CompilerContext::all_signatures" "iter" "self.defs.funcs.iter()" 1 ["3fc400d9dd"] (PinFn "17441ce31c") CollectThenSort "";
  (* line 1103; all_signatures():fn context/defs.rs returns an iterator over a hash container (self.defs.instrs.iter())
     after fixes/c19-signature-validation-order.diff: the callee sorts both vectors by key before chaining them (this digest covers the callee text) *)
  mk_row "context/defs.rs" "CompilerContext::validate_mapfile_signatures" "call" "self.all_signatures()" 1 ["bffb93324c"] (PinStmt "1774c2f2ec") CollectThenSort "";
  (* line 1158; enums:field: IdMap<Ident,EnumData>|field: IdMap<Ident,ScalarValueMap<Sp<Ident>>>
     after fixes/c19-similar-enum-tiebreak.diff: `.min_by_key(|&(candidate, distance)| (distance, candidate))`: a total order on distinct names *)
  mk_row "context/defs.rs" "Defs::find_similar_enum_name" "keys" "self.enums.keys()" 1 ["c0aa526eb3"; "70ff796cef"] (PinStmt "96097af053") MinByTotalKey ""
].

Definition row_matches (r : row) (s : site) : bool :=
  String.eqb (r_file r) (s_file s) && String.eqb (r_fn r) (s_fn s) && String.eqb (r_kind r) (s_kind s)
  && String.eqb (r_header r) (s_header s) && Nat.eqb (r_ord r) (s_ord s)
  && existsb (String.eqb (s_decl s)) (r_decls r)
  && match r_pin r with
     | PinDecl => true
     | PinStmt d => String.eqb d (s_stmt s)
     | PinFn d => String.eqb d (s_fnd s)
     end.

Definition row_of (s : site) : option row := find (fun r => row_matches r s) table.

Definition classification (s : site) : shape :=
  match row_of s with Some r => r_shape r | None => Unclassified end.

Definition tag_of (s : site) : string :=
  match row_of s with Some r => r_tag r | None => "" end.

(* Defects of the pinned tree that are recorded, not repaired (known_findings.d/C19.json, class c19-site:<tag>).
   A tag stays here after its patch is applied: no site carries it any more. *)
Definition open_defect_tags : list string := [
  "assign_registers/clashing_names_for_regs";
  "script_too_complex/implicitly_used_regs";
  "extend_from_mapfile/mapfile.enums";
  "validate_mapfile_signatures/all_signatures";
  "find_similar_enum_name/enums.keys"
].

Definition is_open_defect (s : site) : bool := existsb (String.eqb (tag_of s)) open_defect_tags.

(* the side condition, with and without the guard that excludes the recorded defects *)
Definition site_ok_strict (s : site) : bool :=
  negb (shape_eqb (classification s) Unclassified) && order_safe (classification s).
Definition site_ok (s : site) : bool :=
  negb (shape_eqb (classification s) Unclassified) && (order_safe (classification s) || is_open_defect s).

Definition unclassified_sites (l : list site) : list site :=
  filter (fun s => shape_eqb (classification s) Unclassified) l.
Definition unsafe_sites (l : list site) : list site :=
  filter (fun s => negb (order_safe (classification s))) l.
