(* Model/OrderSites.v -- C19: the AUDITED classification of every hash-iteration site.

   Written by hand after reading the code of each site that gen/hashiter.py lists in Gen/HashIter.v
   (gen/hashiter_audit.py prints row skeletons for a tree).  A row applies to a site only if the
   digests it pins still match, so an edit of an audited consumer makes the site [Unclassified] again
   and breaks Proofs/OrderSitesOk.v (all_sites_classified):
     PinDecl     the declared types of the hashy names in the header (used for [NotHash]: the header names a
                 Vec/IndexMap/... and merely shares its name with a hash-typed field elsewhere)
     PinStmt d   additionally the text of the whole statement (a `for`: header and body; a "call": also
                 the text of the callee)
     PinFn d     additionally the text of the whole enclosing fn (the consumer spans several statements)
   Re-audited against /repo at eb822a9 (after the four c19 fix commits): every row below describes a site of that tree.

   Definitions only. *)
From Coq Require Import String List Bool.
From TV Require Import Model.Order.
Import ListNotations.
Open Scope string_scope.

Inductive pin := PinDecl | PinStmt (d : string) | PinFn (d : string).

Record row := mk_row {
  r_file : string; r_fn : string; r_kind : string; r_header : string; r_ord : nat;
  r_decls : list string;      (* acceptable declaration digests *)
  r_pin : pin;
  r_shape : shape;
  r_tag : string              (* names the finding class of an unsafe site: c19-site:<tag> *)
}.

Definition table : list row := [
  (* src/ast/meta.rs ParseObject::finish -- valid_fields: HashSet<&'static str>
     `for key in self.map.keys() { if !self.valid_fields.iter().map(..).any(|x| x == key) { return Err(UnrecognizedField) } }`:
     the hash set is only tested for membership (the outer loop runs over `map`, an IndexMap of the source fields) *)
  mk_row "ast/meta.rs" "ParseObject::finish" "iter" "self.valid_fields.iter()" 1 ["4a69e45151"] (PinStmt "f69cbdb4de") AnyAll "";
  (* src/context/defs.rs CompilerContext::extend_from_mapfile -- `mapfile.enums.iter().map(|(enum_name, enum_pairs)| { declare_enum; define_enum_const.. })`
     Mapfile::enums is an IndexMap filled from a BTreeMap (commit bba6707; it was an IdMap: the enums were declared, their consts queued for
     evaluation / equality checks and listed in the debug info in hash order).  The scanner still lists the site because two other fields
     called `enums` (Defs::enums, ConstNames::enums) are hash maps: this declaration digest is exactly those two. *)
  mk_row "context/defs.rs" "CompilerContext::extend_from_mapfile" "iter" "mapfile.enums.iter()" 1 ["70ff796cef"] (PinStmt "7f192a11fb") NotHash "";
  (* src/context/defs.rs CompilerContext::get_const_names -- Defs::enums: IdMap<Ident, EnumData>
     `defs.enums.iter().map(|(key, data)| (key.clone(), data.generate_lookup(consts))).collect()` into ConstNames::enums (an IdMap again), which
     is only indexed by key (llir/raise/early.rs); generate_lookup walks EnumData::consts, an IndexMap, so each value is a function of its entry *)
  mk_row "context/defs.rs" "CompilerContext::get_const_names" "iter" "defs.enums.iter()" 1 ["70ff796cef"] (PinStmt "2d29797ea9") CollectHash "";
  (* src/context/defs.rs CompilerContext::all_signatures -- Defs::instrs: IdMap<(LanguageKey, Opcode), InsData> (commit c2b9bc7)
     `let mut ins_sigs = self.defs.instrs.iter().map(|(&key, data)| (key, &data.sig)).collect::<Vec<_>>(); ins_sigs.sort_by_key(|&(key, _)| key);`
     the keys of one map are distinct, so the sorted vector does not depend on the iteration order (whole fn pinned: the sort is the next statement) *)
  mk_row "context/defs.rs" "CompilerContext::all_signatures" "iter" "self.defs.instrs.iter()" 1 ["1fd467afe8"] (PinFn "17441ce31c") CollectThenSort "";
  (* the same for Defs::funcs: IdMap<DefId, FuncData>: `.iter().filter_map(..).collect::<Vec<_>>()` then `sort_by_key(|&(key, _)| key)` *)
  mk_row "context/defs.rs" "CompilerContext::all_signatures" "iter" "self.defs.funcs.iter()" 1 ["3fc400d9dd"] (PinFn "17441ce31c") CollectThenSort "";
  (* src/context/defs.rs CompilerContext::validate_mapfile_signatures -- `self.all_signatures().map(|siggy| ..validate_param_ty_color..).collect_with_recovery()`
     emits one "no such enum" error per bad signature in the order all_signatures yields: the two sorted vectors, chained.  The statement digest of a
     "call" site covers the callee, so an edit of all_signatures (e.g. dropping a sort) invalidates this row too. *)
  mk_row "context/defs.rs" "CompilerContext::validate_mapfile_signatures" "call" "self.all_signatures()" 1 ["bffb93324c"] (PinStmt "1774c2f2ec") CollectThenSort "";
  (* src/context/defs.rs Defs::find_similar_enum_name -- Defs::enums keys (commit eb822a9)
     `self.enums.keys().map(|candidate| (candidate, osa_distance(..))).min_by_key(|&(candidate, distance)| (distance, candidate)).filter(..)`:
     the minimum for the lexicographic order on (distance, name), total on distinct names (it was min_by_key(distance): first of the ties in hash order) *)
  mk_row "context/defs.rs" "Defs::find_similar_enum_name" "keys" "self.enums.keys()" 1 ["70ff796cef"] (PinStmt "96097af053") MinByTotalKey "";
  (* src/llir/raise/infer_pcb_signatures.rs infer_from_calls -- `for instr in &mut script.instrs`: RaiseScript::instrs is a Vec<RaiseInstr>;
     the field name collides with Defs::instrs (this declaration digest).  The IdMap built in this fn (`signatures`) is only entered/looked up. *)
  mk_row "llir/raise/infer_pcb_signatures.rs" "CallRegSignatures::infer_from_calls" "for" "for instr in&mut script.instrs" 1 ["2422e9ab6a"] PinDecl NotHash "";
  (* src/resolve/mod.rs Visitor::new -- `ctx.defs.initial_ribs().into_iter().collect()`: Defs::initial_ribs returns a Vec built from two
     EnumMap<LanguageKey, Rib> (in key order) and two single ribs; `defs` collides with rib::Rib::defs (a HashMap that is only entered/looked up) *)
  mk_row "resolve/mod.rs" "Visitor::new" "into_iter" "ctx.defs.initial_ribs().into_iter()" 1 ["597f776878"] PinDecl NotHash "";
  (* src/resolve/mod.rs impl rib::Rib (field defs: HashMap<Ident, RibEntry>), fn noun
     `(RibKind::LocalBarrier { .. }, ns) | (RibKind::DummyRoot, ns) => panic!("noun called on {:?} {:?} rib", self, ns)`: the Debug text of
     a Rib lists its hash map in iteration order, but only inside the message of a panic that reports an internal bug *)
  mk_row "resolve/mod.rs" "Rib::noun" "fmt-debug" "panic!(""noun called on{:?}{:?}rib"",self,ns)" 1 ["db029df000"] (PinStmt "2cb1862eba") BugPanicMessage "";
  (* src/vm.rs impl Display for AstVm (used by the test suite only) -- var_values: HashMap<VarId, VarValue>
     the loop pushes every entry to `others` / `regs`; both are `sort_by_key(|&(id, _)| id)` before anything is printed (whole fn pinned) *)
  mk_row "vm.rs" "AstVm::fmt" "for" "for (&var_id,value)in&self.var_values" 1 ["56db49ee97"] (PinFn "9710486c87") CollectThenSort ""
].

Definition row_matches (r : row) (s : site) : bool :=
  String.eqb (r_file r) (s_file s) && String.eqb (r_fn r) (s_fn s) && String.eqb (r_kind r) (s_kind s)
  && String.eqb (r_header r) (s_header s) && Nat.eqb (r_ord r) (s_ord s)
  && existsb (String.eqb (s_decl s)) (r_decls r)
  && match r_pin r with
     | PinDecl => true
     | PinStmt d => String.eqb d (s_stmt s)
     | PinFn d => String.eqb d (s_fnd s)
     end.

Definition row_of (s : site) : option row := find (fun r => row_matches r s) table.

Definition classification (s : site) : shape :=
  match row_of s with Some r => r_shape r | None => Unclassified end.

Definition tag_of (s : site) : string :=
  match row_of s with Some r => r_tag r | None => "" end.

(* Tags of order-dependent sites that are recorded as OPEN findings (known_findings.d/C19.json, class c19-site:<tag>) instead of
   being repaired.  Empty: the five sites found on the pinned tree (assign_registers/clashing_names_for_regs,
   script_too_complex/implicitly_used_regs, extend_from_mapfile/mapfile.enums, validate_mapfile_signatures/all_signatures,
   find_similar_enum_name/enums.keys) were repaired by commits d79165b, bba6707, c2b9bc7, eb822a9 and their rows are gone. *)
Definition open_defect_tags : list string := [].

Definition is_open_defect (s : site) : bool := existsb (String.eqb (tag_of s)) open_defect_tags.

(* the side condition, with and without the guard that excludes the recorded defects *)
Definition site_ok_strict (s : site) : bool :=
  negb (shape_eqb (classification s) Unclassified) && order_safe (classification s).
Definition site_ok (s : site) : bool :=
  negb (shape_eqb (classification s) Unclassified) && (order_safe (classification s) || is_open_defect s).

Definition unclassified_sites (l : list site) : list site :=
  filter (fun s => shape_eqb (classification s) Unclassified) l.
Definition unsafe_sites (l : list site) : list site :=
  filter (fun s => negb (order_safe (classification s))) l.
