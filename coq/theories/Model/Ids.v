(* Model/Ids.v -- executable model of how names become numbers (property C20):
   ANM sprite ids (compile-time constants of gather_sprite_id_exprs vs the ids write_entry writes),
   ANM script / old-ECL sub / STD object references (= position), MSG script tables (densify,
   sparsify, offsets by name), old-ECL timeline indices.  Definitions only; parameterised by the
   generated [idtable] (gen/ids.py). *)
From TV Require Import Base.I32.
Open Scope Z_scope.

Inductive seqop := SeqAdd | SeqSub | SeqUnrec.
Inductive posrule := PosIndex | PosUnrec.
Inductive densrule := DensGetOrDefault | DensUnrec.
Inductive tlrule := TlAutoCountsAutos | TlUnrec.

Record idtable := {
  it_const_base0 : option Z;      (* sequential_int_exprs(sp!(0.into())) before the first entry *)
  it_const_k0 : option Z;         (* (0..) *)
  it_const_op : seqop;            (* <e> + i *)
  it_const_restart : bool;        (* an explicit id restarts the sequence from that expression; one sequence for all entries *)
  it_writer_next0 : option Z;     (* let mut next_auto_sprite_id = 0 *)
  it_writer_step : option Z;      (* *next_auto_sprite_id = sprite_id + 1 *)
  it_writer_carry : bool;         (* the counter persists from one entry to the next *)
  it_writer_wraps : bool;         (* `sprite_id + 1` (false: overflow panics in a debug build) or `sprite_id.wrapping_add(1)` (true) *)
  it_script_const : posrule;
  it_sub_const : posrule;
  it_std_object : posrule;
  it_msg_densify : densrule;
  it_msg_offsets : bool;
  it_timeline : tlrule
}.

Definition E_DUP : nat := 30.      (* duplicate script / redefinition *)
Definition E_AMBIG : nat := 31.    (* ambiguous value for enum const *)
Definition E_UNDEF : nat := 32.    (* name does not exist *)
Definition E_TIMELINE : nat := 33. (* negative / missing / duplicate timeline index *)

Definition getz (o : option Z) : outcome Z := match o with Some z => Ok z | None => Panic P_UNREC end.

Fixpoint omap {A B} (f : A -> outcome B) (l : list A) : outcome (list B) :=
  match l with
  | [] => Ok []
  | x :: t => do y <- f x; do r <- omap f t; Ok (y :: r)
  end.

Fixpoint index_of (n : nat) (l : list nat) : option nat :=
  match l with
  | [] => None
  | x :: t => if Nat.eqb x n then Some O else match index_of n t with Some i => Some (S i) | None => None end
  end.

Fixpoint has_dup (l : list nat) : bool :=
  match l with
  | [] => false
  | x :: t => existsb (Nat.eqb x) t || has_dup t
  end.

(* ------------------------------------------------------------------------------------------ *)
(* ANM sprites *)

(* a sprite of an entry: its name and the value of its explicit `id:` expression (an i32), if any *)
Record sprite_decl := { sd_name : nat; sd_id : option Z }.

Definition seq_apply (op : seqop) (b k : Z) : outcome Z :=
  match op with
  | SeqAdd => Ok (wrap32 (b + k))         (* const-evaluated `<e> + i` : wrapping i32 addition (C11) *)
  | SeqSub => Ok (wrap32 (b - k))
  | SeqUnrec => Panic P_UNREC
  end.

(* gather_sprite_id_exprs: the constant each sprite name is defined as *)
Fixpoint const_ids (op : seqop) (k0 : Z) (base k : Z) (l : list sprite_decl) : outcome (list (nat * Z)) :=
  match l with
  | [] => Ok []
  | s :: t =>
      let b := match sd_id s with Some e => e | None => base end in
      let k' := match sd_id s with Some _ => k0 | None => k end in
      do v <- seq_apply op b k';
      do r <- const_ids op k0 b (k' + 1) t;
      Ok ((sd_name s, v) :: r)
  end.

(* write_entry: sprite.id.unwrap_or(next); next = id + 1 in u32 (`+`: overflow panics in a debug build; wrapping_add: wraps) *)
Fixpoint written_ids (wraps : bool) (step next : Z) (l : list sprite_decl) : outcome (list Z) :=
  match l with
  | [] => Ok []
  | s :: t =>
      let id := match sd_id s with Some e => u32 e | None => next end in
      if negb wraps && (two32 <=? id + step) then Panic P_OVERFLOW
      else do r <- written_ids wraps step (u32 (id + step)) t; Ok (id :: r)
  end.

(* defer_equality_check: every redefinition of a name must have the same value *)
Definition consistent (l : list (nat * Z)) : bool :=
  forallb (fun p => forallb (fun q => negb (Nat.eqb (fst p) (fst q)) || (snd p =? snd q)) l) l.

Fixpoint lookup_const (n : nat) (l : list (nat * Z)) : option Z :=
  match l with
  | [] => None
  | (k, v) :: t => if Nat.eqb k n then Some v else lookup_const n t
  end.

Inductive use := USprite (n : nat) | UScript (n : nat).

Record anm_in := { ai_entries : list (list sprite_decl); ai_scripts : list nat; ai_uses : list use }.

Definition pos_const (r : posrule) (names : list nat) (n : nat) : outcome Z :=
  match r with
  | PosUnrec => Panic P_UNREC
  | PosIndex => match index_of n names with Some i => Ok (Z.of_nat i) | None => Err E_UNDEF end
  end.

(* truanm compile: (sprite ids written, in file order; values of the instruction arguments, as u32 bit patterns) *)
Definition compile_anm (T : idtable) (inp : anm_in) : outcome (list Z * list Z) :=
  let decls := concat (ai_entries inp) in
  if has_dup (ai_scripts inp) then Err E_DUP else
  if negb (it_const_restart T && it_writer_carry T) then Panic P_UNREC else
  do base0 <- getz (it_const_base0 T); do k0 <- getz (it_const_k0 T);
  do next0 <- getz (it_writer_next0 T); do step <- getz (it_writer_step T);
  do consts <- const_ids (it_const_op T) k0 base0 k0 decls;
  do args <- omap (fun u => match u with
                            | USprite n => match lookup_const n consts with Some v => Ok v | None => Err E_UNDEF end
                            | UScript n => pos_const (it_script_const T) (ai_scripts inp) n
                            end) (ai_uses inp);
  if negb (consistent consts) then Err E_AMBIG else
  do tbl <- written_ids (it_writer_wraps T) step next0 decls;
  Ok (tbl, map u32 args).

(* ------------------------------------------------------------------------------------------ *)
(* references by position: ANM scripts, old-ECL subs, STD objects *)

Definition compile_positions (r : posrule) (names uses : list nat) : outcome (list Z) :=
  if has_dup names then Err E_DUP else omap (pos_const r names) uses.

(* ------------------------------------------------------------------------------------------ *)
(* MSG script tables *)

Record tentry := { te_script : option nat; te_flags : Z }.      (* script: None = literal 0 *)
Record sparse := { sp_len : nat; sp_tbl : list (nat * tentry); sp_default : tentry }.

Fixpoint lookup_nat {A} (k : nat) (l : list (nat * A)) : option A :=
  match l with
  | [] => None
  | (k', v) :: t => if Nat.eqb k' k then Some v else lookup_nat k t
  end.

Definition densify (T : idtable) (s : sparse) : outcome (list tentry) :=
  match it_msg_densify T with
  | DensUnrec => Panic P_UNREC
  | DensGetOrDefault =>
      Ok (map (fun i => match lookup_nat i (sp_tbl s) with Some e => e | None => sp_default s end) (seq 0 (sp_len s)))
  end.

Definition onat_eqb (a b : option nat) : bool :=
  match a, b with Some x, Some y => Nat.eqb x y | None, None => true | _, _ => false end.
Definition tentry_eqb (a b : tentry) : bool := onat_eqb (te_script a) (te_script b) && (te_flags a =? te_flags b).

Definition count_entry (e : tentry) (l : list tentry) : nat := length (filter (tentry_eqb e) l).

Fixpoint dedup (l : list tentry) : list tentry :=
  match l with
  | [] => []
  | x :: t => if existsb (tentry_eqb x) t then dedup t else x :: dedup t
  end.

Fixpoint first_script_index (s : option nat) (l : list tentry) : nat :=
  match l with
  | [] => O
  | x :: t => if onat_eqb (te_script x) s then O else S (first_script_index s t)
  end.

Definition default_entry : tentry := {| te_script := None; te_flags := 0 |}.

(* sparsify_script_table (decompiler) *)
Definition sparsify (l : list tentry) : sparse :=
  let default := match dedup (filter (fun e => Nat.ltb 1 (count_entry e l)) l) with [e] => e | _ => default_entry end in
  let first := first_script_index (te_script default) l in
  {| sp_len := length l;
     sp_tbl := filter (fun ie : nat * tentry =>
                 negb (tentry_eqb (snd ie) default) ||
                 (Nat.eqb (fst ie) first && match te_script default with Some _ => true | None => false end))
               (combine (seq 0 (length l)) l);
     sp_default := default |}.

(* write_msg: scripts are laid out after the table in file order; a table entry holds the named script's offset *)
Fixpoint offsets_from (pos : Z) (scripts : list (nat * Z)) : list (nat * Z) :=
  match scripts with
  | [] => []
  | (n, size) :: t => (n, pos) :: offsets_from (pos + size) t
  end.

Definition msg_header_size (has_flags : bool) (len : nat) : Z := 4 + Z.of_nat len * (if has_flags then 8 else 4).

Definition compile_msg (T : idtable) (has_flags : bool) (s : sparse) (scripts : list (nat * Z)) : outcome (list (Z * Z)) :=
  if has_dup (map fst scripts) then Err E_DUP else
  if negb (it_msg_offsets T) then Panic P_UNREC else
  do dense <- densify T s;
  let offs := offsets_from (msg_header_size has_flags (length dense)) scripts in
  omap (fun e => let fl := if has_flags then te_flags e else 0 in
                 match te_script e with
                 | None => Ok (0, fl)
                 | Some n => match lookup_nat n offs with Some o => Ok (o, fl) | None => Err E_UNDEF end
                 end) dense.

(* ------------------------------------------------------------------------------------------ *)
(* old-ECL timeline indices: get_and_validate_timeline_indices *)

Fixpoint assign_timelines (next_auto : nat) (l : list (option Z)) : option (list nat) :=
  match l with
  | [] => Some []
  | Some z :: t => if z <? 0 then None
                   else match assign_timelines next_auto t with Some r => Some (Z.to_nat z :: r) | None => None end
  | None :: t => match assign_timelines (S next_auto) t with Some r => Some (next_auto :: r) | None => None end
  end.

Definition timeline_indices (T : idtable) (numbers : list (option Z)) : outcome (list nat) :=
  match it_timeline T with
  | TlUnrec => Panic P_UNREC
  | TlAutoCountsAutos =>
      match assign_timelines O numbers with
      | None => Err E_TIMELINE
      | Some idxs =>
          let expected := match idxs with [] => O | _ => S (fold_right Nat.max O idxs) end in
          if negb (Nat.eqb (length (nodup Nat.eq_dec idxs)) expected) then Err E_TIMELINE
          else if has_dup idxs then Err E_TIMELINE
          else Ok idxs
      end
  end.
