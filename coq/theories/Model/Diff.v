(* Model/Diff.v -- executable model of difficulty labels and difficulty switches (property C14).

     [define_flag], [define_flag_from_mapfile], [default_defs]   src/context/diff_flags.rs  DiffFlagDefs
     [parse_label]        DiffFlagDefs::parse_diff_string
     [mask_to_label]      DiffFlagDefs::mask_to_diff_label
     [bits_of]            src/bitset.rs  IntoIter32 (ascending set bits)
     [select_case], [eval_arg]   src/diff_switch_utils.rs select_diff_switch_case,
                                 src/llir/lower.rs select_diff_for_lower_arg
     [case_ranges]        DiffSwitchMeta::update / explicit_case_bitmasks
     [elaborate]          src/llir/lower.rs elaborate_diff_switches

   NUM_BITS, the flag-name character ranges and the built-in digit names come from the source through
   Gen/DiffFlags.v (gen/diffflags.py).  Definitions only; proofs are in Proofs/Diff.v. *)
From TV Require Import Base.I32 Gen.DiffFlags.
From Coq Require Import NArith.
Open Scope N_scope.

Definition P_ASSERT : nat := 7.          (* assert!(..) failed *)
Definition E_FLAG_INDEX : nat := 40.     (* "difficulty flag index out of range" *)
Definition E_FLAG_DEF : nat := 41.       (* "invalid difficulty flag definition" *)
Definition E_UNKNOWN_FLAG : nat := 42.   (* "unknown difficulty flag" *)
Definition E_BAD_CHAR : nat := 43.       (* "invalid character in difficulty string" *)
Definition E_FLAG_NAME_TAKEN : nat := 44. (* "difficulty flag name is already the name of flag N" (fix c14-flag-name-repoint) *)

Definition NUM_BITS : nat := gen_num_bits.
Definition ALL_BITS : N := 2 ^ N.of_nat NUM_BITS - 1.

(* characters are code points *)
Definition chr := N.
Definition CH_MINUS : chr := fst (fst gen_special_chars).
Definition CH_PLUS : chr := snd (fst gen_special_chars).
Definition CH_STAR : chr := snd gen_special_chars.

Definition is_flag_char (c : chr) : bool :=
  existsb (fun r => (fst r <=? c) && (c <=? snd r)) gen_flag_char_ranges.

(* BitSet32 restricted to what this code uses *)
Definition bit (m : N) (i : nat) : bool := N.testbit m (N.of_nat i).
Definition set_bit (m : N) (i : nat) (v : bool) : N :=
  if v then N.setbit m (N.of_nat i) else N.clearbit m (N.of_nat i).
Definition complement (m : N) : N := N.ldiff ALL_BITS m.          (* complement(NUM_BITS) *)
Definition bits_of (m : N) : list nat := filter (bit m) (seq 0 NUM_BITS).   (* iteration; all iterated sets are within NUM_BITS *)

(* BTreeMap<char, FlagIndex> and BTreeMap<FlagIndex, char> as association lists (insert = cons,
   lookup = first match) *)
Record flagdefs := {
  fd_enable : N;                      (* flag_default_enable *)
  fd_by_name : list (chr * nat);
  fd_by_flag : list (nat * chr) }.

Fixpoint lookup_name (l : list (chr * nat)) (c : chr) : option nat :=
  match l with [] => None | (k, v) :: r => if k =? c then Some v else lookup_name r c end.
Fixpoint lookup_flag (l : list (nat * chr)) (b : nat) : option chr :=
  match l with [] => None | (k, v) :: r => if Nat.eqb k b then Some v else lookup_flag r b end.

Definition by_name (fd : flagdefs) (c : chr) : option nat := lookup_name (fd_by_name fd) c.
Definition by_flag (fd : flagdefs) (b : nat) : option chr := lookup_flag (fd_by_flag fd) b.

Definition define_flag (fd : flagdefs) (name : chr) (index : nat) (enable : bool) : outcome flagdefs :=
  if negb (Nat.ltb index NUM_BITS) then Panic P_ASSERT
  else if negb (is_flag_char name) then Panic P_ASSERT
  else Ok {| fd_enable := set_bit (fd_enable fd) index enable;
             fd_by_name := (name, index) :: fd_by_name fd;
             fd_by_flag := (index, name) :: fd_by_flag fd |}.

(* a definition that gives bit [i] the name [c] does not re-point [c] if no *other* bit currently prints as [c] *)
Definition no_repointb (fd : flagdefs) (c : chr) (i : nat) : bool :=
  forallb (fun b => Nat.eqb b i || match by_flag fd b with Some c' => negb (c' =? c) | None => true end) (seq 0 NUM_BITS).

(* present in the source iff gen_repoint_check (read by gen/diffflags.py) *)
Definition repoint_guard (fd : flagdefs) (c : chr) (i : nat) (k : outcome flagdefs) : outcome flagdefs :=
  if gen_repoint_check && negb (no_repointb fd c i) then Err E_FLAG_NAME_TAKEN else k.

(* a `!difficulty_flags` line of a mapfile: `<index> <two characters>` *)
Definition define_flag_from_mapfile (fd : flagdefs) (index : Z) (str : list chr) : outcome flagdefs :=
  if negb ((0 <=? index)%Z && (index <? Z.of_nat NUM_BITS)%Z) then Err E_FLAG_INDEX
  else match str with
       | [name; pm] =>
           (* str.len() != 2 (bytes): both characters must be single-byte *)
           if negb ((name <? 128) && (pm <? 128)) then Err E_FLAG_DEF
           else if negb (is_flag_char name) then Err E_FLAG_DEF
           else if pm =? CH_MINUS then repoint_guard fd name (Z.to_nat index) (define_flag fd name (Z.to_nat index) false)
           else if pm =? CH_PLUS then repoint_guard fd name (Z.to_nat index) (define_flag fd name (Z.to_nat index) true)
           else Err E_FLAG_DEF
       | _ => Err E_FLAG_DEF
       end.

Definition empty_defs : flagdefs := {| fd_enable := 0; fd_by_name := []; fd_by_flag := [] |}.

Fixpoint define_all (fd : flagdefs) (ops : list (chr * nat * bool)) : outcome flagdefs :=
  match ops with
  | [] => Ok fd
  | (c, i, e) :: r => do fd' <- define_flag fd c i e; define_all fd' r
  end.

(* Default::default(): the digit names *)
Definition default_ops : list (chr * nat * bool) :=
  map (fun p => (snd p, fst p, false)) (combine (seq 0 (length gen_default_names)) gen_default_names).
Definition default_defs : outcome flagdefs := define_all empty_defs default_ops.

Fixpoint apply_mapfile_ops (fd : flagdefs) (ops : list (Z * list chr)) : outcome flagdefs :=
  match ops with
  | [] => Ok fd
  | (i, s) :: r => do fd' <- define_flag_from_mapfile fd i s; apply_mapfile_ops fd' r
  end.

Definition difficulty_bits (fd : flagdefs) : N := complement (fd_enable fd).
Definition aux_bits (fd : flagdefs) : N := fd_enable fd.

Fixpoint parse_go (fd : flagdefs) (out : N) (en : bool) (s : list chr) : outcome N :=
  match s with
  | [] => Ok out
  | c :: r =>
      if c =? CH_MINUS then parse_go fd out false r
      else if c =? CH_PLUS then parse_go fd out true r
      else if c =? CH_STAR then parse_go fd (if en then ALL_BITS else 0) en r
      else if is_flag_char c then
        match by_name fd c with
        | Some i => parse_go fd (set_bit out i en) en r
        | None => Err E_UNKNOWN_FLAG
        end
      else Err E_BAD_CHAR
  end.

Definition parse_label (fd : flagdefs) (s : list chr) : outcome N := parse_go fd (fd_enable fd) true s.

Fixpoint names (fd : flagdefs) (l : list nat) : outcome (list chr) :=
  match l with
  | [] => Ok []
  | b :: r =>
      match by_flag fd b with
      | Some c => do rs <- names fd r; Ok (c :: rs)
      | None => Panic P_INDEX          (* self.by_flag[&bit] *)
      end
  end.

Definition mask_to_label (fd : flagdefs) (m : N) : outcome (list chr) :=
  let must_enable := N.land m (difficulty_bits fd) in
  let must_disable := N.land (complement m) (aux_bits fd) in
  do s1 <- (if must_enable =? difficulty_bits fd then Ok [CH_STAR] else names fd (bits_of must_enable));
  do s2 <- (if must_disable =? 0 then Ok [] else do n <- names fd (bits_of must_disable); Ok (CH_MINUS :: n));
  Ok (s1 ++ s2).

(* every bit prints as a name that parses back to that bit *)
Definition Consistent (fd : flagdefs) : Prop :=
  fd_enable fd <= ALL_BITS /\
  forall b, (b < NUM_BITS)%nat ->
    exists c, by_flag fd b = Some c /\ is_flag_char c = true /\ by_name fd c = Some b.

Definition consistentb (fd : flagdefs) : bool :=
  (fd_enable fd <=? ALL_BITS) &&
  forallb (fun b => match by_flag fd b with
                    | Some c => is_flag_char c && match by_name fd c with Some b' => Nat.eqb b' b | None => false end
                    | None => false end) (seq 0 NUM_BITS).

Definition no_repoint (fd : flagdefs) (c : chr) (i : nat) : Prop :=
  forall b, (b < NUM_BITS)%nat -> b <> i -> by_flag fd b <> Some c.
(* side conditions on the generated table that the proofs rely on *)
Fixpoint nodupb (l : list N) : bool :=
  match l with [] => true | x :: r => negb (existsb (N.eqb x) r) && nodupb r end.
Definition table_ok : bool :=
  gen_define_flag_recognised && gen_elaborate_recognised &&
  Nat.leb 1 gen_num_bits && Nat.leb gen_num_bits 32 &&
  Nat.eqb (length gen_default_names) gen_num_bits &&
  forallb is_flag_char gen_default_names && nodupb gen_default_names &&
  nodupb [CH_MINUS; CH_PLUS; CH_STAR] &&
  negb (is_flag_char CH_MINUS) && negb (is_flag_char CH_PLUS) && negb (is_flag_char CH_STAR).

(* ------------------------------------------------------------------------------------------ *)
(* difficulty switches *)

Inductive arg := AVal (v : Z) | ASw (cs : cases)
with cases := CNil | CSome (a : arg) (r : cases) | CNone (r : cases).

Scheme arg_mind := Induction for arg Sort Prop
with cases_mind := Induction for cases Sort Prop.
Combined Scheme arg_mutind from arg_mind, cases_mind.

Fixpoint clen (cs : cases) : nat :=
  match cs with CNil => O | CSome _ r | CNone r => S (clen r) end.

(* explicit positions of one switch, from position [i] *)
Fixpoint explicit_list (cs : cases) : list bool :=
  match cs with CNil => [] | CSome _ r => true :: explicit_list r | CNone r => false :: explicit_list r end.

(* select_diff_for_lower_arg: select_diff_switch_case looks backwards from [d] for the first present
   case (assert d < len; expect a present case), then recurses into a nested switch *)
Fixpoint eval_arg (a : arg) (d : nat) : outcome Z :=
  match a with
  | AVal v => Ok v
  | ASw cs => eval_cases cs d d (Panic P_EXPECT)
  end
with eval_cases (cs : cases) (k d : nat) (cur : outcome Z) : outcome Z :=
  match cs with
  | CNil => Panic P_ASSERT
  | CSome a r => match k with O => eval_arg a d | S k' => eval_cases r k' d (eval_arg a d) end
  | CNone r => match k with O => cur | S k' => eval_cases r k' d cur end
  end.

(* the intended meaning (what AstVm computes, Model/Expr.v EDiff): the same function; kept under its
   own name for the statements *)
Definition meaning (a : arg) (d : nat) : outcome Z := eval_arg a d.

Fixpoint orb_lists (a b : list bool) : list bool :=
  match a, b with
  | x :: r, y :: s => (x || y) :: orb_lists r s
  | [], l | l, [] => l
  end.

(* DiffSwitchMeta::update over the arguments: the explicit positions of the top-level switches, and --
   iff gen_nested_meta (fix c14-nested-diff-switch, read by gen/diffflags.py) -- of the switches nested
   inside their cases *)
Fixpoint expl_arg_deep (a : arg) : list bool :=
  match a with AVal _ => [] | ASw cs => orb_lists (explicit_list cs) (expl_cases_deep cs) end
with expl_cases_deep (cs : cases) : list bool :=
  match cs with
  | CNil => []
  | CSome a r => orb_lists (expl_arg_deep a) (expl_cases_deep r)
  | CNone r => expl_cases_deep r
  end.
Definition expl_arg (a : arg) : list bool :=
  if gen_nested_meta then expl_arg_deep a else match a with ASw cs => explicit_list cs | AVal _ => [] end.
Definition meta_of (args : list arg) : list bool :=
  fold_left (fun acc a => orb_lists acc (expl_arg a)) args [].

(* explicit_case_bitmasks: [start, stop) ranges between consecutive explicit positions *)
Fixpoint ranges_from (expl : list bool) (i : nat) (start : option nat) : list (nat * nat) :=
  match expl with
  | [] => match start with Some s => [(s, i)] | None => [] end
  | true :: r => match start with Some s => (s, i) :: ranges_from r (S i) (Some i) | None => ranges_from r (S i) (Some i) end
  | false :: r => ranges_from r (S i) start
  end.
Definition case_ranges (expl : list bool) : list (nat * nat) := ranges_from expl 0 None.

Definition range_mask (r : nat * nat) : N :=
  fold_left (fun m i => N.setbit m (N.of_nat i)) (seq (fst r) (snd r - fst r)) 0.

Fixpoint eval_args (args : list arg) (d : nat) : outcome (list Z) :=
  match args with
  | [] => Ok []
  | a :: r => do v <- eval_arg a d; do vs <- eval_args r d; Ok (v :: vs)
  end.

Fixpoint plain_args (args : list arg) : outcome (list Z) :=
  match args with
  | [] => Ok []
  | AVal v :: r => do vs <- plain_args r; Ok (v :: vs)
  | ASw _ :: _ => Panic P_EXPECT      (* "difficulty switch should be handled earlier!" *)
  end.

Fixpoint elab_ranges (fd : flagdefs) (m : N) (args : list arg) (rs : list (nat * nat)) : outcome (list (N * list Z)) :=
  match rs with
  | [] => Ok []
  | r :: rest =>
      let new_diff := N.land (N.land m (difficulty_bits fd)) (range_mask r) in
      if new_diff =? 0 then elab_ranges fd m args rest
      else do vs <- eval_args args (fst r);
           do more <- elab_ranges fd m args rest;
           Ok ((N.lor new_diff (N.land m (aux_bits fd)), vs) :: more)
  end.

(* one instruction statement with label mask [m]: the emitted copies (mask, argument values) *)
Definition elaborate (fd : flagdefs) (m : N) (args : list arg) : outcome (list (N * list Z)) :=
  let expl := meta_of args in
  if Nat.ltb (length expl) 2 then do vs <- plain_args args; Ok [(m, vs)]
  else elab_ranges fd m args (case_ranges expl).

(* flat switches: no switch inside a switch *)
Fixpoint flat_cases (cs : cases) : bool :=
  match cs with
  | CNil => true
  | CSome (AVal _) r => flat_cases r
  | CSome (ASw _) _ => false
  | CNone r => flat_cases r
  end.
Definition flat_arg (a : arg) : bool := match a with AVal _ => true | ASw cs => flat_cases cs end.

(* what validate_difficulty and the parser guarantee: every switch of the statement has [n] cases
   and its first case is present *)
Definition well_formed_arg (n : nat) (a : arg) : bool :=
  match a with
  | AVal _ => true
  | ASw cs => Nat.eqb (clen cs) n && match cs with CSome _ _ => true | _ => false end
  end.
