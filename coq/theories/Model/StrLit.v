(* Model/StrLit.v -- string literals in source text (C15, the text side of "compile and decompile").
     src/fmt.rs                     impl Format for ast::LitString   (escaping when a script is printed)
     src/parse/lalrparser_util.rs   parse_string_literal              (unescaping when it is read)
     src/parse/lexer.rs             the LitString token regex: quote, then any number of (a character other than
                                    backslash and quote | backslash followed by any character but newline), then quote
   The two escape tables are read from the source by gen/strescape.py into Gen/StrEscape.v.
   Executable definitions only. *)
From TV Require Import Base.I32.
Open Scope Z_scope.

Definition QUOTE : Z := 34.
Definition BACKSLASH : Z := 92.
Definition NEWLINE : Z := 10.

Record esc_table := {
  et_fmt : list (Z * Z);     (* character -> the letter written after the backslash *)
  et_parse : list (Z * Z)    (* letter after a backslash -> character *)
}.

Fixpoint zassoc1 (k : Z) (l : list (Z * Z)) : option Z :=
  match l with [] => None | (k', b) :: t => if k =? k' then Some b else zassoc1 k t end.

(* what the formatter writes between the quotes *)
Fixpoint escape (t : esc_table) (s : list Z) : list Z :=
  match s with
  | [] => []
  | c :: r => match zassoc1 c (et_fmt t) with
              | Some e => BACKSLASH :: e :: escape t r
              | None => c :: escape t r
              end
  end.

(* parse_string_literal on the characters between the quotes; None = "invalid escape character" error
   (or the assert!(!escape) at the end) *)
Fixpoint unescape (t : esc_table) (cs : list Z) (esc : bool) : option (list Z) :=
  match cs with
  | [] => if esc then None else Some []
  | c :: r =>
      if esc then
        match zassoc1 c (et_parse t) with
        | Some x => option_map (cons x) (unescape t r false)
        | None => None
        end
      else if c =? BACKSLASH then unescape t r true
      else option_map (cons c) (unescape t r false)
  end.

(* the lexer after the opening quote, up to and including the closing quote.
   Returns the body and the rest of the input. *)
Fixpoint lex_body (cs : list Z) : option (list Z * list Z) :=
  match cs with
  | [] => None
  | c :: r =>
      if c =? QUOTE then Some ([], r)
      else if c =? BACKSLASH then
        match r with
        | [] => None
        | d :: r' =>
            if d =? NEWLINE then None
            else match lex_body r' with Some (b, rest) => Some (c :: d :: b, rest) | None => None end
        end
      else match lex_body r with Some (b, rest) => Some (c :: b, rest) | None => None end
  end.

(* printing a string literal and reading it back *)
Definition print_literal (t : esc_table) (s : list Z) : list Z := QUOTE :: escape t s ++ [QUOTE].
Definition read_literal (t : esc_table) (cs : list Z) : option (list Z * list Z) :=
  match cs with
  | c :: r => if c =? QUOTE then
                match lex_body r with
                | Some (b, rest) => match unescape t b false with Some s => Some (s, rest) | None => None end
                | None => None
                end
              else None
  | [] => None
  end.

(* side condition on the tables: quote and backslash are escaped, every escape is undone by the parser,
   no escape letter is a newline *)
Definition table_ok (t : esc_table) : bool :=
  match zassoc1 QUOTE (et_fmt t), zassoc1 BACKSLASH (et_fmt t) with
  | Some _, Some _ =>
      forallb (fun p => match zassoc1 (snd p) (et_parse t) with Some c => c =? fst p | None => false end
                        && negb (snd p =? NEWLINE)) (et_fmt t)
  | _, _ => false
  end.
