(* Model/Typing.v -- the typing discipline that type_check (src/passes/type_check.rs) enforces on
   expressions, as far as the later constant passes rely on it ("type_check reports every type error,
   so later passes may panic on them").  The operator rules are read off the operator table: an operator
   is typable at a type iff the table has a non-type-error row for it.  Executable definitions only. *)
From TV Require Import Base.I32 Base.F32 Model.Ops Model.Expr.
Open Scope Z_scope.

Inductive ty := TInt | TFloat | TStr.

Definition ty_of (v : value) : ty := match v with VInt _ => TInt | VFloat _ => TFloat | VStr _ => TStr end.
Definition ty_eqb (a b : ty) : bool :=
  match a, b with TInt, TInt | TFloat, TFloat | TStr, TStr => true | _, _ => false end.
Definition sigil_ty (s : sigil) : ty := match s with SgInt => TInt | SgFloat => TFloat end.
Definition is_numeric (t : ty) : bool := match t with TStr => false | _ => true end.

Definition binop_ty (T : optable) (op : binop) (t : ty) : option ty :=
  match t with
  | TInt => match ot_bi T op with BI_typeerr | BI_unrec => None | _ => Some TInt end
  | TFloat => match ot_bf T op with
              | BF_add | BF_sub | BF_mul | BF_div | BF_rem => Some TFloat
              | BF_eq | BF_ne | BF_lt | BF_le | BF_gt | BF_ge => Some TInt
              | BF_typeerr | BF_unrec => None
              end
  | TStr => None
  end.

Definition unop_ty (T : optable) (op : unop) (t : ty) : option ty :=
  match t with
  | TInt => match ot_ui T op with
            | UI_neg | UI_not | UI_bitnot | UI_id => Some TInt
            | UI_tofloat => Some TFloat
            | UI_none => match sigil_of_unop op with Some s => Some (sigil_ty s) | None => None end
            | UI_typeerr | UI_unrec => None
            end
  | TFloat => match ot_uf T op with
              | UF_neg | UF_libm _ | UF_sqrt | UF_id => Some TFloat
              | UF_toint => Some TInt
              | UF_none => match sigil_of_unop op with Some s => Some (sigil_ty s) | None => None end
              | UF_typeerr | UF_unrec => None
              end
  | TStr => None
  end.

Section TC.
  Variable T : optable.
  Variable var_ty : nat -> option ty.   (* declared type of a named variable, const or enum const *)
  Variable reg_ty : Z -> ty.            (* default type of a raw register *)
  Variable call_ty : nat -> option ty.  (* return type of a callable *)
  Variable opaque_ty : nat -> ty.       (* offsetof/timeof/++/-- *)

  Fixpoint tc (e : expr) : option ty :=
    match e with
    | ELitI _ => Some TInt
    | ELitF _ => Some TFloat
    | ELitS _ => Some TStr
    | EReg sg r => Some (match sg with Some s => sigil_ty s | None => reg_ty r end)
    | EVar sg id =>
        match var_ty id with
        | Some t => match sg with
                    | None => Some t
                    | Some s => if is_numeric t then Some (sigil_ty s) else None
                    end
        | None => None
        end
    | EEnum id => var_ty id
    | EUn op x => match tc x with Some t => unop_ty T op t | None => None end
    | EBin a op b =>
        match tc a, tc b with
        | Some ta, Some tb => if ty_eqb ta tb then binop_ty T op ta else None
        | _, _ => None
        end
    | ETern c l r =>
        match tc c, tc l, tc r with
        | Some TInt, Some tl, Some tr => if ty_eqb tl tr then Some tl else None
        | _, _, _ => None
        end
    | EDiff cases =>
        (fix go (l : list (option expr)) (acc : option ty) : option ty :=
           match l with
           | [] => acc
           | None :: t => go t acc
           | Some x :: t =>
               match tc x, acc with
               | Some tx, None => go t (Some tx)
               | Some tx, Some ta => if ty_eqb tx ta then go t acc else None
               | None, _ => None
               end
           end) cases None
    | ECall f args =>
        if (fix go (l : list expr) : bool :=
              match l with [] => true | x :: t => match tc x with Some _ => go t | None => false end end) args
        then call_ty f else None
    | EOpaque n => Some (opaque_ty n)
    end.
End TC.

(* the side conditions on the operator table under which "well typed" excludes every panic of the
   constant passes: shift counts are masked, and the only rows that divide are the rows of / and % (which the
   passes guard against a zero divisor) *)
Definition table_ok (T : optable) : bool :=
  match ot_shift T with ShMasked => true | _ => false end &&
  forallb (fun op => match ot_bi T op with
                     | BI_wdiv | BI_wrem => match op with Div | Rem => true | _ => false end
                     | _ => true
                     end) all_binops.
