(* Model/DebugInfo.v -- model of the offset bookkeeping behind `--output-debug-info` (property C18):
   llir::lower::gather_label_info (the dummy-encoding pass that records instruction and label offsets),
   and the final encoding pass of lower_sub_ast_to_instrs.  Definitions only.

   An instruction's encoded size may depend on what was encoded before it (the TH12 MSG furigana
   quirk), so both passes thread an encoding state. *)
From TV Require Import Base.I32.
Open Scope Z_scope.

Section DebugInfo.
  Variable linstr : Type.                 (* LowerInstr *)
  Variable state : Type.                  (* ArgEncodingState *)
  Variable isize : linstr -> state -> Z.  (* instr_format.instr_size(encode_args(state, instr)) *)
  Variable step : linstr -> state -> state.
  Variable dummy : linstr -> linstr.      (* substitute_dummy_args: labels/timeof/locals replaced by 0 *)
  Variable resolve : linstr -> linstr.    (* encode_labels: labels/timeof replaced by their values *)

  Inductive lstmt :=
  | LInstr (i : linstr)
  | LLabel (name : nat) (time : Z)
  | LOther.                               (* RegAlloc / RegFree *)

  Record ginfo := mkG { g_instrs : list Z; g_labels : list (nat * Z * Z); g_end : Z }.

  (* gather_label_info: offset starts at initial_offset; each instruction records the current offset and
     advances it by the size of its dummy encoding; each label records the current offset and its time *)
  Fixpoint gather (code : list lstmt) (st : state) (off : Z) : ginfo :=
    match code with
    | [] => mkG [] [] off
    | LInstr i :: t =>
        let g := gather t (step (dummy i) st) (off + isize (dummy i) st) in
        mkG (off :: g_instrs g) (g_labels g) (g_end g)
    | LLabel n tm :: t =>
        let g := gather t st off in
        mkG (g_instrs g) ((n, tm, off) :: g_labels g) (g_end g)
    | LOther :: t => gather t st off
    end.

  (* the sizes of the instructions that the final pass emits, in emission order *)
  Fixpoint final_sizes (code : list lstmt) (st : state) : list Z :=
    match code with
    | [] => []
    | LInstr i :: t => isize (resolve i) st :: final_sizes t (step (resolve i) st)
    | _ :: t => final_sizes t st
    end.

  Fixpoint prefix_sums (off : Z) (l : list Z) : list Z :=
    match l with [] => [] | x :: t => off :: prefix_sums (off + x) t end.
  Definition total (l : list Z) : Z := fold_right Z.add 0 l.
End DebugInfo.

(* the concrete instance used by the correspondence: an instruction is its size in the written file *)
Inductive dstmt := DI (size : Z) | DL (time : Z).
Definition to_lstmt (k : nat) (d : dstmt) : lstmt Z :=
  match d with DI s => LInstr Z s | DL tm => LLabel Z k tm end.
Fixpoint to_lstmts (k : nat) (l : list dstmt) : list (lstmt Z) :=
  match l with [] => [] | d :: t => to_lstmt k d :: to_lstmts (S k) t end.
Definition gather_sizes (l : list dstmt) : ginfo :=
  gather Z unit (fun s _ => s) (fun _ u => u) (fun s => s) (to_lstmts 0 l) tt 0.
