(* Model/Ops.v -- operators of the truth expression language and the vocabulary of terms into
   which gen/optable.py translates the arms of BinOpKind::const_eval / UnOpKind::const_eval
   (src/passes/const_simplify.rs).  Executable definitions only. *)
From TV Require Import Base.I32 Base.F32.
Open Scope Z_scope.

Inductive binop :=
| Add | Sub | Mul | Div | Rem | Eq | Ne | Lt | Le | Gt | Ge
| BitOr | BitXor | BitAnd | LogicOr | LogicAnd | ShiftLeft | ShiftRightSigned | ShiftRightUnsigned.

Inductive unop :=
| Not | Neg | BitNot | Sin | Cos | Tan | Asin | Acos | Atan | Sqrt
| EncodeI | EncodeF | CastI | CastF.

Definition all_binops : list binop :=
  [Add; Sub; Mul; Div; Rem; Eq; Ne; Lt; Le; Gt; Ge; BitOr; BitXor; BitAnd; LogicOr; LogicAnd;
   ShiftLeft; ShiftRightSigned; ShiftRightUnsigned].
Definition all_unops : list unop :=
  [Not; Neg; BitNot; Sin; Cos; Tan; Asin; Acos; Atan; Sqrt; EncodeI; EncodeF; CastI; CastF].

Definition binop_eqb (a b : binop) : bool :=
  match a, b with
  | Add, Add | Sub, Sub | Mul, Mul | Div, Div | Rem, Rem | Eq, Eq | Ne, Ne | Lt, Lt | Le, Le
  | Gt, Gt | Ge, Ge | BitOr, BitOr | BitXor, BitXor | BitAnd, BitAnd | LogicOr, LogicOr
  | LogicAnd, LogicAnd | ShiftLeft, ShiftLeft | ShiftRightSigned, ShiftRightSigned
  | ShiftRightUnsigned, ShiftRightUnsigned => true
  | _, _ => false
  end.

Definition unop_eqb (a b : unop) : bool :=
  match a, b with
  | Not, Not | Neg, Neg | BitNot, BitNot | Sin, Sin | Cos, Cos | Tan, Tan | Asin, Asin
  | Acos, Acos | Atan, Atan | Sqrt, Sqrt | EncodeI, EncodeI | EncodeF, EncodeF
  | CastI, CastI | CastF, CastF => true
  | _, _ => false
  end.

(* how handle_shift_rhs treats the shift count *)
Inductive shamt := ShMasked (* x as u32 % 32 *) | ShRaw (* x as u32 *) | ShUnrec.

(* recognised right-hand sides, int x int *)
Inductive bi_term :=
| BI_wadd | BI_wsub | BI_wmul | BI_wdiv | BI_wrem
| BI_eq | BI_ne | BI_lt | BI_le | BI_gt | BI_ge
| BI_lor | BI_land | BI_xor | BI_and | BI_or
| BI_shl | BI_sar | BI_shru
| BI_typeerr | BI_unrec.

(* recognised right-hand sides, float x float *)
Inductive bf_term :=
| BF_add | BF_sub | BF_mul | BF_div | BF_rem
| BF_eq | BF_ne | BF_lt | BF_le | BF_gt | BF_ge
| BF_typeerr | BF_unrec.

Inductive ui_term := UI_neg | UI_not | UI_bitnot | UI_id | UI_tofloat | UI_none | UI_typeerr | UI_unrec.
Inductive uf_term := UF_neg | UF_libm (f : unop) | UF_sqrt | UF_toint | UF_id | UF_none | UF_typeerr | UF_unrec.

(* scalar values; floats by bit pattern; strings by code points *)
Inductive value := VInt (z : Z) | VFloat (bits : Z) | VStr (s : list Z).

Definition b2z (b : bool) : Z := if b then 1 else 0.

Definition shift_count (sh : shamt) (b : Z) : outcome Z :=
  match sh with
  | ShMasked => Ok (u32 b mod 32)
  | ShRaw => if u32 b <? 32 then Ok (u32 b) else Panic P_OVERFLOW
  | ShUnrec => Panic P_UNREC
  end.

Definition eval_bi (sh : shamt) (t : bi_term) (a b : Z) : outcome Z :=
  match t with
  | BI_wadd => Ok (wrap32 (a + b))
  | BI_wsub => Ok (wrap32 (a - b))
  | BI_wmul => Ok (wrap32 (a * b))
  | BI_wdiv => if b =? 0 then Panic P_DIV0 else Ok (wrap32 (Z.quot a b))
  | BI_wrem => if b =? 0 then Panic P_DIV0 else Ok (wrap32 (Z.rem a b))
  | BI_eq => Ok (b2z (a =? b))
  | BI_ne => Ok (b2z (negb (a =? b)))
  | BI_lt => Ok (b2z (a <? b))
  | BI_le => Ok (b2z (a <=? b))
  | BI_gt => Ok (b2z (b <? a))
  | BI_ge => Ok (b2z (b <=? a))
  | BI_lor => Ok (if a =? 0 then b else a)
  | BI_land => Ok (if a =? 0 then 0 else b)
  | BI_xor => Ok (Z.lxor a b)
  | BI_and => Ok (Z.land a b)
  | BI_or => Ok (Z.lor a b)
  | BI_shl => do s <- shift_count sh b; Ok (wrap32 (Z.shiftl a s))
  | BI_sar => do s <- shift_count sh b; Ok (Z.shiftr a s)
  | BI_shru => do s <- shift_count sh b; Ok (wrap32 (Z.shiftr (u32 a) s))
  | BI_typeerr => Panic P_TYPE
  | BI_unrec => Panic P_UNREC
  end.

Definition cmp_is (c : option comparison) (x : comparison) : bool :=
  match c, x with
  | Some Datatypes.Eq, Datatypes.Eq | Some Datatypes.Lt, Datatypes.Lt | Some Datatypes.Gt, Datatypes.Gt => true
  | _, _ => false
  end.

Definition eval_bf (t : bf_term) (a b : Z) : outcome value :=
  match t with
  | BF_add => Ok (VFloat (fadd a b))
  | BF_sub => Ok (VFloat (fsub a b))
  | BF_mul => Ok (VFloat (fmul a b))
  | BF_div => Ok (VFloat (fdiv a b))
  | BF_rem => Ok (VFloat (frem a b))
  | BF_eq => Ok (VInt (b2z (cmp_is (fcmp a b) Datatypes.Eq)))
  | BF_ne => Ok (VInt (b2z (negb (cmp_is (fcmp a b) Datatypes.Eq))))
  | BF_lt => Ok (VInt (b2z (cmp_is (fcmp a b) Datatypes.Lt)))
  | BF_le => Ok (VInt (b2z (cmp_is (fcmp a b) Datatypes.Lt || cmp_is (fcmp a b) Datatypes.Eq)))
  | BF_gt => Ok (VInt (b2z (cmp_is (fcmp a b) Datatypes.Gt)))
  | BF_ge => Ok (VInt (b2z (cmp_is (fcmp a b) Datatypes.Gt || cmp_is (fcmp a b) Datatypes.Eq)))
  | BF_typeerr => Panic P_TYPE
  | BF_unrec => Panic P_UNREC
  end.

(* The operator tables, as read from the source by the translator. *)
Record optable := {
  ot_shift : shamt;
  ot_bi : binop -> bi_term;
  ot_bf : binop -> bf_term;
  ot_ui : unop -> ui_term;
  ot_uf : unop -> uf_term;
}.

(* BinOpKind::const_eval *)
Definition binop_eval (T : optable) (op : binop) (a b : value) : outcome value :=
  match a, b with
  | VInt x, VInt y => do r <- eval_bi (ot_shift T) (ot_bi T op) x y; Ok (VInt r)
  | VFloat x, VFloat y => eval_bf (ot_bf T op) x y
  | _, _ => Panic P_TYPE
  end.

(* UnOpKind::const_eval : Ok None models Rust's `None` ("not a compile-time operation") *)
Section WithLibm.
  (* sin cos tan asin acos atan on binary32 bit patterns: uninterpreted *)
  Variable libm : unop -> Z -> Z.

  Definition unop_eval (T : optable) (op : unop) (b : value) : outcome (option value) :=
    match b with
    | VInt x =>
        match ot_ui T op with
        | UI_neg => Ok (Some (VInt (wrap32 (- x))))
        | UI_not => Ok (Some (VInt (b2z (x =? 0))))
        | UI_bitnot => Ok (Some (VInt (wrap32 (Z.lnot x))))
        | UI_id => Ok (Some (VInt x))
        | UI_tofloat => Ok (Some (VFloat (i2f x)))
        | UI_none => Ok None
        | UI_typeerr => Panic P_TYPE
        | UI_unrec => Panic P_UNREC
        end
    | VFloat x =>
        match ot_uf T op with
        | UF_neg => Ok (Some (VFloat (fneg x)))
        | UF_libm f => Ok (Some (VFloat (libm f x)))
        | UF_sqrt => Ok (Some (VFloat (fsqrt x)))
        | UF_toint => Ok (Some (VInt (f2i x)))
        | UF_id => Ok (Some (VFloat x))
        | UF_none => Ok None
        | UF_typeerr => Panic P_TYPE
        | UF_unrec => Panic P_UNREC
        end
    | VStr _ => Panic P_TYPE
    end.
End WithLibm.
