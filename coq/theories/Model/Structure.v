(* Model/Structure.v -- executable model of truth's control-flow reconstruction
   (src/passes/decompile_loop.rs: decompile_loop, decompile_if_else, decompile_break;
    src/passes/unused_labels.rs; composed as in src/passes/mod.rs: postprocess_decompiled)
   and of the meaning of a (partially) structured program: its flattening into labels and jumps
   (src/passes/desugar_blocks.rs) followed by the time pass, with every label resolved to the
   (position, time) it denotes -- [canon_of].  The flattening is fused with the resolution: [adv]
   gives the position after a statement as desugar_blocks lays it out, [lenv] the labels with their
   positions, [sem] the instruction stream (generated jumps of loops / cond chains / breaks carry their
   target position directly, so no generated label names are needed).  Corr/C07.v compares [canon_of]
   on every run with the stream obtained from the implementation's own desugar_blocks::run +
   time_and_difficulty::run.
   Executable definitions only; proofs are in Proofs/Struct*.v. *)
From TV Require Import Base.I32.
Open Scope nat_scope.

(* BinOpKind.  (Model/Ops.v has the same enumeration, but importing it loads Flocq's binary32, which the
   structuring passes have no use for and which dominates the run time of the correspondence shards.) *)
Inductive binop :=
| Add | Sub | Mul | Div | Rem | Eq | Ne | Lt | Le | Gt | Ge
| BitOr | BitXor | BitAnd | LogicOr | LogicAnd | ShiftLeft | ShiftRightSigned | ShiftRightUnsigned.
Definition all_binops : list binop :=
  [Add; Sub; Mul; Div; Rem; Eq; Ne; Lt; Le; Gt; Ge; BitOr; BitXor; BitAnd; LogicOr; LogicAnd;
   ShiftLeft; ShiftRightSigned; ShiftRightUnsigned].
Definition binop_eqb (a b : binop) : bool :=
  match a, b with
  | Add, Add | Sub, Sub | Mul, Mul | Div, Div | Rem, Rem | Eq, Eq | Ne, Ne | Lt, Lt | Le, Le
  | Gt, Gt | Ge, Ge | BitOr, BitOr | BitXor, BitXor | BitAnd, BitAnd | LogicOr, LogicOr
  | LogicAnd, LogicAnd | ShiftLeft, ShiftLeft | ShiftRightSigned, ShiftRightSigned
  | ShiftRightUnsigned, ShiftRightUnsigned => true
  | _, _ => false
  end.

(* ------------------------------------------------------------------------------------------ *)
(* syntax *)

(* a jump condition: `a <op> b` (operands are opaque, identified by a number), or anything else
   (e.g. the count-jump `--x`) *)
Inductive cond :=
| CBin (op : binop) (a b : nat)
| CCnt (op : binop) (a b : nat)    (* `--a op b`: how a count jump CountJmp(>) is raised (`--x > 0`); only that
                                      exact form, with `if`, can be compiled back *)
| COther (n : nat).
(* unconditional / `if (c)`.  The decompiler never produces `unless (c) goto`
   (JmpInfo::from_stmt is unimplemented!() for it), so it is not representable here. *)
Inductive jk := JU | JC (c : cond).
(* difficulty label of a statement (the mask), None = no label *)
Definition diff := option nat.

Inductive stmt :=
| SIns (d : diff) (i : nat) (refs : list nat)  (* any plain statement; refs = labels mentioned via offsetof/timeof *)
| SIntr (d : diff) (n : nat)                   (* interrupt[n]: *)
| SNo                                          (* StmtKind::NoInstruction (block bookend) *)
| SLabel (l : nat)
| STime (abs : bool) (t : Z)                   (* `t:` / `+t:` *)
| SJump (d : diff) (k : jk) (l : nat) (t : option Z)   (* [if (c)] goto l [@ t] *)
| SBreak (d : diff) (k : jk)                   (* [if (c)] break  -- innermost enclosing loop *)
| SLoop (k : jk) (body : list stmt)            (* loop { } (JU) / do { } while (c) (JC c) *)
| SChain (bs : list (cond * list stmt)) (els : option (list stmt)).   (* if (c) { } else if ... else { } *)

Definition is_nil {A} (l : list A) : bool := match l with [] => true | _ => false end.
Definition is_none {A} (o : option A) : bool := match o with None => true | _ => false end.

(* ------------------------------------------------------------------------------------------ *)
(* positions: (number of instructions before this point, time at this point) *)

Definition state := (nat * Z)%type.
Definition real (st : state) : state := (S (fst st), snd st).
Definition tick (abs : bool) (t : Z) (st : state) : state :=
  (fst st, if abs then t else wrap32 (snd st + t)%Z).

Section Lists.
  Context {A B : Type}.
  Variable advf : state -> A -> state.
  Fixpoint adv_l (st : state) (l : list A) : state :=
    match l with [] => st | x :: t => adv_l (advf st x) t end.
  Variable f : state -> A -> list B.
  Fixpoint cat_l (st : state) (l : list A) : list B :=
    match l with [] => [] | x :: t => f st x ++ cat_l (advf st x) t end.
End Lists.

Section Chain.
  Context {S B : Type}.                       (* S = list stmt *)
  Variable advb : state -> S -> state.
  (* position after the last cond block (= start of the else block, if any) *)
  Fixpoint chain_adv (en : bool) (st : state) (bs : list (cond * S)) : state :=
    match bs with
    | [] => st
    | (c, b) :: t =>
        let st2 := advb (real st) b in
        chain_adv en (if is_nil t && en then st2 else real st2) t
    end.
  Variable g : state -> S -> list B.             (* contents of a block placed at a position *)
  Variable hd : state -> cond -> state -> list B. (* the conditional jump over the block *)
  Variable tl : state -> list B.                 (* the jump to the very end *)
  Fixpoint chain_cat (en : bool) (st : state) (bs : list (cond * S)) : list B :=
    match bs with
    | [] => []
    | (c, b) :: t =>
        let st1 := real st in
        let st2 := advb st1 b in
        let last := is_nil t && en in
        let st3 := if last then st2 else real st2 in
        hd st c st3 ++ g st1 b ++ (if last then [] else tl st2) ++ chain_cat en st3 t
    end.
End Chain.

(* position after a statement, as laid out by desugar_blocks:
     loop { B }           =>   L: B; goto L
     do { B } while (c)   =>   L: B; if (c) goto L
     if (c1) { B1 } else if (c2) { B2 } else { B3 }
                          =>   unless (c1) goto s1; B1; goto end; s1: unless (c2) goto s2; B2; goto end; s2: B3; end:
     (no `goto end` after the final block when there is no else) *)
Fixpoint adv_s (st : state) (s : stmt) : state :=
  match s with
  | SIns _ _ _ | SIntr _ _ | SJump _ _ _ _ | SBreak _ _ => real st
  | SNo | SLabel _ => st
  | STime a t => tick a t st
  | SLoop _ b => real (adv_l adv_s st b)
  | SChain bs els =>
      let st' := chain_adv (adv_l adv_s) (is_none els) st bs in
      match els with None => st' | Some b => adv_l adv_s st' b end
  end.
Definition adv : state -> list stmt -> state := adv_l adv_s.

(* labels with the positions they denote, in text order *)
Fixpoint lenv_s (st : state) (s : stmt) : list (nat * state) :=
  match s with
  | SLabel l => [(l, st)]
  | SLoop _ b => cat_l adv_s lenv_s st b
  | SChain bs els =>
      chain_cat adv (cat_l adv_s lenv_s) (fun _ _ _ => []) (fun _ => []) (is_none els) st bs
      ++ match els with
         | None => []
         | Some b => cat_l adv_s lenv_s (chain_adv adv (is_none els) st bs) b
         end
  | _ => []
  end.
Definition lenv : state -> list stmt -> list (nat * state) := cat_l adv_s lenv_s.

(* ------------------------------------------------------------------------------------------ *)
(* canonical instruction stream *)

Definition env := nat -> option state.

Fixpoint lookup (l : list (nat * state)) (x : nat) : option state :=
  match l with
  | [] => None
  | (k, v) :: t => if Nat.eqb x k then Some v else lookup t x
  end.

Inductive cjk := KU | KIf (c : cond) | KUnless (c : cond).
Inductive cbody :=
| BIns (i : nat) (refs : list (option state))
| BIntr (n : nat)
| BJump (k : cjk) (tgt : option state) (expl : option Z).
(* (time of the instruction, difficulty, what) ; a jump target is (index of the target instruction, time of the label) *)
Definition citem := (Z * diff * cbody)%type.

Section Sem.
  Variable negcmp : binop -> option binop.    (* BinOpKind::negate_comparison, from Gen/StructTable.v *)
  (* can the compiler lower `unless (--a op b) goto`?  truth cannot (cntneg = false is the faithful
     model); the idealised setting cntneg = true is used to state what the passes do preserve *)
  Variable cntneg : bool.

  Definition neg_cond (c : cond) : option cond :=
    match c with
    | CBin op a b => match negcmp op with Some op' => Some (CBin op' a b) | None => None end
    | CCnt op a b => match negcmp op with Some op' => Some (CCnt op' a b) | None => None end
    | COther _ => None
    end.
  Definition k_if (k : jk) : cjk := match k with JU => KU | JC c => KIf c end.
  (* `unless (a op b)` is compiled as `if (a negop b)` (lower/stackless.rs) *)
  Definition k_unless (c : cond) : cjk :=
    match c with
    | CCnt _ _ _ =>
        if cntneg then match neg_cond c with Some c' => KIf c' | None => KUnless c end
        else KUnless c                  (* not recognised as a count jump: does not compile *)
    | _ => match neg_cond c with Some c' => KIf c' | None => KUnless c end
    end.

  Fixpoint sem_s (E : env) (brk : option state) (st : state) (s : stmt) : list citem :=
    match s with
    | SIns d i refs => [(snd st, d, BIns i (map E refs))]
    | SIntr d n => [(snd st, d, BIntr n)]
    | SNo | SLabel _ | STime _ _ => []
    | SJump d k l t => [(snd st, d, BJump (k_if k) (E l) t)]
    | SBreak d k => [(snd st, d, BJump (k_if k) brk None)]
    | SLoop k b =>
        let st2 := adv st b in
        cat_l adv_s (sem_s E (Some (real st2))) st b ++ [(snd st2, None, BJump (k_if k) (Some st) None)]
    | SChain bs els =>
        let en := is_none els in
        let stb := chain_adv adv en st bs in
        let ste := match els with None => stb | Some b => adv stb b end in
        chain_cat adv (cat_l adv_s (sem_s E brk))
                  (fun st c tgt => [(snd st, None, BJump (k_unless c) (Some tgt) None)])
                  (fun st => [(snd st, None, BJump KU (Some ste) None)]) en st bs
        ++ match els with None => [] | Some b => cat_l adv_s (sem_s E brk) stb b end
    end.
  Definition sem (E : env) (brk : option state) : state -> list stmt -> list citem :=
    cat_l adv_s (sem_s E brk).

  Definition st0 : state := (0, 0%Z).
  (* the meaning of a whole function body *)
  Definition canon_of (p : list stmt) : list citem := sem (lookup (lenv st0 p)) None st0 p.
End Sem.

(* ------------------------------------------------------------------------------------------ *)
(* predicates (boolean) *)

Definition simple_s (s : stmt) : bool :=
  match s with SBreak _ _ | SLoop _ _ | SChain _ _ => false | _ => true end.
(* what raise_middle_to_ast produces: no blocks, no breaks *)
Definition is_flat (p : list stmt) : bool := forallb simple_s p.

Fixpoint no_break_s (s : stmt) : bool :=
  match s with
  | SBreak _ _ => false
  | SLoop _ b => forallb no_break_s b
  | SChain bs els =>
      forallb (fun cb => forallb no_break_s (snd cb)) bs
      && match els with None => true | Some b => forallb no_break_s b end
  | _ => true
  end.
Definition no_break (p : list stmt) : bool := forallb no_break_s p.

(* no cond chain of p tests a (negated) count jump *)
Fixpoint no_cnt_chain_s (s : stmt) : bool :=
  match s with
  | SLoop _ b => forallb no_cnt_chain_s b
  | SChain bs els =>
      forallb (fun cb => match fst cb with CCnt _ _ _ => false | _ => true end && forallb no_cnt_chain_s (snd cb)) bs
      && match els with None => true | Some b => forallb no_cnt_chain_s b end
  | _ => true
  end.
Definition no_cnt_chain (p : list stmt) : bool := forallb no_cnt_chain_s p.

(* every label reference (goto destinations, offsetof/timeof), whole function, as get_label_refcounts *)
Fixpoint refs_s (s : stmt) : list nat :=
  match s with
  | SIns _ _ r => r
  | SJump _ _ l _ => [l]
  | SLoop _ b => flat_map refs_s b
  | SChain bs els =>
      flat_map (fun cb => flat_map refs_s (snd cb)) bs
      ++ match els with None => [] | Some b => flat_map refs_s b end
  | _ => []
  end.
Definition refs (p : list stmt) : list nat := flat_map refs_s p.
Definition refcount (p : list stmt) (l : nat) : nat := count_occ Nat.eq_dec (refs p) l.

Fixpoint size_s (s : stmt) : nat :=
  match s with
  | SLoop _ b => S (list_sum (map size_s b))
  | SChain bs els =>
      S (list_sum (map (fun cb => S (list_sum (map size_s (snd cb)))) bs)
         + match els with None => 0 | Some b => list_sum (map size_s b) end)
  | _ => 1
  end.
Definition size (p : list stmt) : nat := list_sum (map size_s p).

(* ------------------------------------------------------------------------------------------ *)
(* the passes *)

(* which preconditions the source currently checks (Gen/StructTable.v reads them out of
   decompile_loop.rs); the model follows the flags, the theorems need the essential ones *)
Record guards := {
  g_diff : bool;        (* JmpInfo::from_stmt: a difficulty-labelled jump is not a candidate *)
  g_loop_time : bool;   (* should_decompile_loop: jmp.time_arg.is_some() -> No *)
  g_loop_intr : bool;   (* should_decompile_loop: interrupt label between label and jump -> No *)
  g_if_time : bool;     (* _gather_cond_chain: if_jmp.time_arg.is_some() *)
  g_if_dir : bool;      (* ... if_jmp backwards *)
  g_if_rc : bool;       (* ... if_jmp.dest_refcount > 1 *)
  g_if_cnt : bool;      (* as_binop_cond: a count jump `--x > 0` is not a candidate (absent today: finding c07-count-jump-negation) *)
  g_un_time : bool;     (* ... uncond_jmp.time_arg.is_some() *)
  g_un_kind : bool;     (* ... !matches!(uncond_jmp.kind, Uncond) *)
  g_un_dir : bool;      (* ... uncond_jmp backwards *)
  g_end_same : bool;    (* ... all `goto end` go to the same label *)
  g_end_last : bool;    (* ... the final `if` of an else-less chain jumps to that label too *)
  g_else_order : bool;  (* ... end_label_index < else_start_index *)
  g_chain_intr : bool;  (* reject_potentially_confusing_cond_chain *)
  g_brk_time : bool;    (* decompile_break: only `goto` without time *)
  g_brk_same : bool;    (* decompile_break: cur_loop_id == jump_end_loop_id *)
}.
Definition guards_on : guards :=
  {| g_diff := true; g_loop_time := true; g_loop_intr := true; g_if_time := true; g_if_dir := true;
     g_if_rc := true; g_if_cnt := true; g_un_time := true; g_un_kind := true; g_un_dir := true; g_end_same := true; g_end_last := true;
     g_else_order := true; g_chain_intr := true; g_brk_time := true; g_brk_same := true |}.

(* get_label_info: index of the label statement within this block (HashMap collect: the last one wins) *)
Fixpoint label_index_from (blk : list stmt) (l : nat) (i : nat) (acc : option nat) : option nat :=
  match blk with
  | [] => acc
  | SLabel l' :: t => label_index_from t l (S i) (if Nat.eqb l l' then Some i else acc)
  | _ :: t => label_index_from t l (S i) acc
  end.
Definition label_index (blk : list stmt) (l : nat) : option nat := label_index_from blk l 0 None.

Fixpoint intr_indices_from (blk : list stmt) (i : nat) : list nat :=
  match blk with
  | [] => []
  | SIntr _ _ :: t => i :: intr_indices_from t (S i)
  | _ :: t => intr_indices_from t (S i)
  end.
Definition intr_indices (blk : list stmt) : list nat := intr_indices_from blk 0.

Record jinfo := { j_dest : nat; j_rc : nat; j_time : option Z; j_kind : jk }.

(* JmpInfo::from_stmt *)
Definition jmp_of (G : guards) (linfo : nat -> option nat) (rc : nat -> nat) (s : stmt) : option jinfo :=
  match s with
  | SJump d k l t =>
      if g_diff G && negb (is_none d) then None else
      match linfo l with
      | Some dest => Some {| j_dest := dest; j_rc := rc l; j_time := t; j_kind := k |}
      | None => None
      end
  | _ => None
  end.

Fixpoint find_pos (x : nat) (l : list nat) (i : nat) : option nat :=
  match l with
  | [] => None
  | y :: t => if Nat.eqb x y then Some i else find_pos x t (S i)
  end.

(* ---- decompile_loop (LoopVisitor::visit_block on a flat function body) ---- *)

Definition loop_step (G : guards) (linfo : nat -> option nat) (intrs : list nat)
    (out : list (nat * stmt)) (i : nat) (s : stmt) : list (nat * stmt) :=
  let out1 := out ++ [(i, s)] in
  match jmp_of G linfo (fun _ => 0) s with
  | None => out1
  | Some j =>
      if g_loop_time G && negb (is_none (j_time j)) then out1
      else if i <? j_dest j then out1                        (* Direction::Forwards *)
      else match find_pos (j_dest j) (map fst out1) 0 with   (* out_stmt_indices.binary_search(&jmp.dest) *)
           | None => out1
           | Some pos =>
               if g_loop_intr G && existsb (fun x => (j_dest j <=? x) && (x <? i)) intrs then out1
               else
                 let body := removelast (map snd (skipn (S pos) out1)) in
                 firstn (S pos) out1 ++ [(i, SLoop (j_kind j) (SNo :: body ++ [SNo]))]
           end
  end.

Fixpoint loop_go (G : guards) (linfo : nat -> option nat) (intrs : list nat)
    (out : list (nat * stmt)) (i : nat) (rest : list stmt) : list (nat * stmt) :=
  match rest with
  | [] => out
  | s :: t => loop_go G linfo intrs (loop_step G linfo intrs out i s) (S i) t
  end.

Definition loop_pass (G : guards) (f : list stmt) : list stmt :=
  map snd (loop_go G (label_index f) (intr_indices f) [] 0 f).

(* ---- decompile_if_else ---- *)

Record cblock := { cb_cond : cond; cb_if : nat; cb_label : nat }.
Record chain_info := { ci_chain : list cblock; ci_else : option nat; ci_end : nat }.

Section IfElse.
  Variable negcmp : binop -> option binop.
  Variable G : guards.

  (* _gather_cond_chain; [ji] = BlockContext.jmp_info *)
  Fixpoint gather (fuel : nat) (ji : nat -> option jinfo) (src : nat) (known_end : option nat)
      (chain : list cblock) : option chain_info :=
    match fuel with
    | O => None
    | S fuel' =>
      match ji src with
      | None => None
      | Some ifj =>
        if g_if_time G && negb (is_none (j_time ifj)) then None
        else if g_if_dir G && negb (src <? j_dest ifj) then None
        else match j_kind ifj with
        | JU => None
        | JC c =>
          if g_if_cnt G && match c with CCnt _ _ _ => true | _ => false end then None else
          match neg_cond negcmp c with
          | None => None
          | Some nc =>
            let chain' := chain ++ [{| cb_cond := nc; cb_if := src; cb_label := j_dest ifj |}] in
            let uncond_src := j_dest ifj - 1 in
            match (if Nat.eqb src uncond_src then None else ji uncond_src) with
            | None =>
                match known_end with
                | Some e =>
                    if g_end_last G && negb (Nat.eqb (j_dest ifj) e) then None
                    else Some {| ci_chain := chain'; ci_else := None; ci_end := j_dest ifj |}
                | None => Some {| ci_chain := chain'; ci_else := None; ci_end := j_dest ifj |}
                end
            | Some uj =>
                if g_if_rc G && (1 <? j_rc ifj) then None
                else if g_un_time G && negb (is_none (j_time uj)) then None
                else if g_un_kind G && match j_kind uj with JU => false | JC _ => true end then None
                else if g_un_dir G && negb (uncond_src <? j_dest uj) then None
                else
                  let e := match known_end with Some e => e | None => j_dest uj end in
                  if g_end_same G && negb (Nat.eqb e (j_dest uj)) then None
                  else
                    let src' := j_dest ifj + 1 in
                    match ji src' with
                    | Some {| j_kind := JC _ |} => gather fuel' ji src' (Some e) chain'
                    | _ =>
                        if g_else_order G && (e <? src') then None
                        else Some {| ci_chain := chain'; ci_else := Some src'; ci_end := e |}
                    end
            end
          end
        end
      end
    end.

  Definition chain_start (info : chain_info) : nat :=
    match ci_chain info with cb :: _ => cb_if cb | [] => 0 end.

  (* gather_cond_chain = _gather_cond_chain + reject_potentially_confusing_cond_chain *)
  Definition gather_checked (fuel : nat) (ji : nat -> option jinfo) (intrs : list nat) (start : nat)
      : option chain_info :=
    match gather fuel ji start None [] with
    | None => None
    | Some info =>
        if g_chain_intr G && existsb (fun x => (chain_start info <=? x) && (x <? ci_end info)) intrs
        then None else Some info
    end.

  Definition slice (blk : list stmt) (a b : nat) : list stmt := firstn (b - a) (skipn a blk).

  (* the CondChain statement built by IfElseVisitor::visit_block *)
  Definition build_chain (blk : list stmt) (info : chain_info) : stmt :=
    let mk (cb : cblock) :=
      let inner := slice blk (cb_if cb) (cb_label cb) in
      let inner1 := if Nat.eqb (cb_label cb) (ci_end info)
                    then inner ++ [nth (cb_label cb) blk SNo]     (* the end label stays, inside the final block *)
                    else removelast inner in                      (* drop `goto end`; the skip label is dropped *)
      (cb_cond cb, SNo :: tl inner1 ++ [SNo]) in
    SChain (map mk (ci_chain info))
           (match ci_else info with
            | None => None
            | Some es => Some (SNo :: slice blk es (ci_end info) ++ [nth (ci_end info) blk SNo; SNo])
            end).

  Fixpoint ifelse_scan (fuel : nat) (blk : list stmt) (ji : nat -> option jinfo) (intrs : list nat)
      (index : nat) : list stmt :=
    match fuel with
    | O => skipn index blk
    | S fuel' =>
        if length blk <=? index then []
        else match gather_checked (length blk) ji intrs index with
             | None => nth index blk SNo :: ifelse_scan fuel' blk ji intrs (S index)
             | Some info => build_chain blk info :: ifelse_scan fuel' blk ji intrs (S (ci_end info))
             end
    end.

  Definition block_ji (rc : nat -> nat) (blk : list stmt) (i : nat) : option jinfo :=
    match nth_error blk i with
    | Some s => jmp_of G (label_index blk) rc s
    | None => None
    end.

  (* IfElseVisitor::visit_block: restructure this block, then the inner blocks (outside-in) *)
  Fixpoint ifelse_block (fuel : nat) (rc : nat -> nat) (blk : list stmt) : list stmt :=
    match fuel with
    | O => blk
    | S fuel' =>
        map (fun s =>
               match s with
               | SLoop k b => SLoop k (ifelse_block fuel' rc b)
               | SChain bs els =>
                   SChain (map (fun cb => (fst cb, ifelse_block fuel' rc (snd cb))) bs)
                          (match els with None => None | Some b => Some (ifelse_block fuel' rc b) end)
               | _ => s
               end)
            (ifelse_scan (S (length blk)) blk (block_ji rc blk) (intr_indices blk) 0)
    end.

  Definition ifelse_pass (p : list stmt) : list stmt := ifelse_block (S (size p)) (refcount p) p.
End IfElse.

(* ---- decompile_break ---- *)

(* gather_loop_end_labels: the labels immediately following a loop statement *)
Fixpoint end_labels (l : list stmt) : list nat :=
  match l with SLabel x :: t => x :: end_labels t | _ => [] end.

Section Break.
  Variable G : guards.
  (* [cur] = end labels of the innermost enclosing loop; [nxt] = end_labels of what follows s in its block.
     [allends] = every label that ends some loop (only consulted when the same-loop guard is off) *)
  Variable allends : list nat.

  Fixpoint break_s (cur : option (list nat)) (nxt : list nat) (s : stmt) : stmt :=
    match s with
    | SJump d k l t =>
        match cur with
        | None => s
        | Some ends =>
            if g_brk_time G && negb (is_none t) then s
            else if (if g_brk_same G then existsb (Nat.eqb l) ends else existsb (Nat.eqb l) allends)
                 then SBreak d k else s
        end
    | SLoop k b =>
        SLoop k ((fix go (b : list stmt) : list stmt :=
                    match b with [] => [] | x :: t => break_s (Some nxt) (end_labels t) x :: go t end) b)
    | SChain bs els =>
        let blk := fix go (b : list stmt) : list stmt :=
                     match b with [] => [] | x :: t => break_s cur (end_labels t) x :: go t end in
        SChain ((fix gob (bs : list (cond * list stmt)) :=
                   match bs with [] => [] | (c, b) :: t => (c, blk b) :: gob t end) bs)
               (match els with None => None | Some b => Some (blk b) end)
    | _ => s
    end.

  Fixpoint break_block (cur : option (list nat)) (b : list stmt) : list stmt :=
    match b with [] => [] | x :: t => break_s cur (end_labels t) x :: break_block cur t end.
End Break.

Fixpoint all_end_labels_s (nxt : list nat) (s : stmt) : list nat :=
  match s with
  | SLoop _ b =>
      nxt ++ (fix go (b : list stmt) := match b with [] => [] | x :: t => all_end_labels_s (end_labels t) x ++ go t end) b
  | SChain bs els =>
      let blk := fix go (b : list stmt) := match b with [] => [] | x :: t => all_end_labels_s (end_labels t) x ++ go t end in
      (fix gob (bs : list (cond * list stmt)) := match bs with [] => [] | (c, b) :: t => blk b ++ gob t end) bs
      ++ match els with None => [] | Some b => blk b end
  | _ => []
  end.
Fixpoint all_end_labels (b : list stmt) : list nat :=
  match b with [] => [] | x :: t => all_end_labels_s (end_labels t) x ++ all_end_labels t end.

Definition break_pass (G : guards) (p : list stmt) : list stmt :=
  break_block G (all_end_labels p) None p.

(* ---- unused_labels::run ---- *)

Section Unused.
  Variable rc : nat -> nat.
  Definition keep_s (s : stmt) : bool := match s with SLabel l => 0 <? rc l | _ => true end.
  Fixpoint unused_s (s : stmt) : stmt :=
    match s with
    | SLoop k b => SLoop k (filter keep_s (map unused_s b))
    | SChain bs els =>
        SChain (map (fun cb => (fst cb, filter keep_s (map unused_s (snd cb)))) bs)
               (match els with None => None | Some b => Some (filter keep_s (map unused_s b)) end)
    | _ => s
    end.
  Definition unused_block (b : list stmt) : list stmt := filter keep_s (map unused_s b).
End Unused.
Definition unused_pass (p : list stmt) : list stmt := unused_block (refcount p) p.

(* ---- postprocess_decompiled (decompile_options.blocks) ---- *)

Inductive spass := PLoop | PIfElse | PBreak | PUnused.
Definition run_pass (negcmp : binop -> option binop) (G : guards) (q : spass) (p : list stmt) : list stmt :=
  match q with
  | PLoop => loop_pass G p
  | PIfElse => ifelse_pass negcmp G p
  | PBreak => break_pass G p
  | PUnused => unused_pass p
  end.
Definition structure_with (negcmp : binop -> option binop) (G : guards) (order : list spass) (p : list stmt) : list stmt :=
  fold_left (fun p q => run_pass negcmp G q p) order p.

