(* Model/Diag.v -- the error plumbing of truth (src/error.rs, src/diagnostic.rs): functions report
   failure by emitting a diagnostic and returning the `ErrorReported` token; `ErrorFlag` and
   `collect_with_recovery` keep going after a failure to gather more diagnostics; the exit status of the
   process is the `Result` of the entry point (src/cli_def.rs wrap_exit_code).
   `emit` returns the token whatever the severity of the diagnostic, so "failure iff an error-severity
   diagnostic was printed" is a discipline on the emit sites, not a consequence of the types.
   Executable definitions only. *)
From TV Require Import Base.I32.
Open Scope Z_scope.

Inductive sev := SError | SWarning | SInfo.

(* what an emit site does with the token *)
Inductive disp := DUsed      (* returned in an Err / stored in an ErrorFlag: the computation fails *)
                | DIgnored.  (* `.ignore()`: the computation carries on *)

Inductive comp :=
| COk                                   (* Ok(value) *)
| CEmit (s : sev) (d : disp)            (* emit(diag of severity s), token used or ignored *)
| CSeq (a b : comp)                     (* a?; b *)
| CRecover (items : list comp)          (* items.map(..).collect_with_recovery() *)
| CFlag (items : list comp).            (* let mut errors = ErrorFlag::new(); for .. { if let Err(e) = item { errors.set(e) } } errors.into_result(..) *)

(* result: success?, and the diagnostics printed, in order *)
Fixpoint run (c : comp) : bool * list sev :=
  match c with
  | COk => (true, [])
  | CEmit s DUsed => (false, [s])
  | CEmit s DIgnored => (true, [s])
  | CSeq a b =>
      let (oa, la) := run a in
      if oa then let (ob, lb) := run b in (ob, la ++ lb) else (false, la)
  | CRecover items | CFlag items =>
      (fix go (l : list comp) : bool * list sev :=
         match l with
         | [] => (true, [])
         | x :: t => let (ox, lx) := run x in let (ot, lt) := go t in (ox && ot, lx ++ lt)
         end) items
  end.

Definition is_error (s : sev) : bool := match s with SError => true | _ => false end.

(* the discipline: an error diagnostic's token is used; a warning's or note's is ignored *)
Definition site_ok (s : sev) (d : disp) : bool :=
  match s, d with
  | SError, DUsed => true
  | SWarning, DIgnored | SInfo, DIgnored => true
  | _, _ => false
  end.

Fixpoint disciplined (c : comp) : bool :=
  match c with
  | COk => true
  | CEmit s d => site_ok s d
  | CSeq a b => disciplined a && disciplined b
  | CRecover items | CFlag items =>
      (fix go (l : list comp) : bool := match l with [] => true | x :: t => disciplined x && go t end) items
  end.

(* the emit sites of the source, as classified by gen/emitsites.py: severity (None: not a literal macro),
   disposition *)
Definition sites_ok (sites : list (option sev * disp)) : bool :=
  forallb (fun p => match fst p with Some s => site_ok s (snd p) | None => true end) sites.
Definition bad_sites (sites : list (option sev * disp)) : list nat :=
  map fst (filter (fun p => negb (match fst (snd p) with Some s => site_ok s (snd (snd p)) | None => true end))
                  (combine (seq 0 (length sites)) sites)).
