(* Model/BlocksInst.v -- a concrete instance of [Blocks.lang]: integer expressions over
   registers and named locals (AstVm::eval on ints), instruction calls that are logged,
   assignments, compound assignments and declarations.  Executable definitions only. *)
From TV Require Import Base.I32 Model.Blocks.
Open Scope Z_scope.

Inductive bop := OAdd | OSub | OMul | OEq | ONe | OLt | OLe | OGt | OGe.

Inductive iexpr :=
| ILit (z : Z)
| IVar (v : Z)                          (* REG[v] for v >= 1000; local number v otherwise *)
| IBin (a : iexpr) (op : bop) (b : iexpr)
| IPreDec (v : Z).                      (* --v *)

Inductive isimple :=
| XCall (opcode : Z) (args : list iexpr)          (* ins_N(args); *)
| XAssign (v : Z) (e : iexpr)                     (* v = e; *)
| XOpAssign (v : Z) (op : bop) (e : iexpr)        (* v op= e; *)
| XDecl (inits : list (Z * option iexpr)).        (* int a = e, b; *)

Definition iregs := list (Z * Z).
Definition icall : Type := Z * Z * list Z.        (* real_time, opcode, args *)

Fixpoint rlookup (v : Z) (r : iregs) : option Z :=
  match r with [] => None | (k, z) :: t => if v =? k then Some z else rlookup v t end.

(* [wrap32] without the division when the argument is already in range (Proofs/BlocksInst.v: w32_eq) *)
Definition w32 (z : Z) : Z := if in_i32b z then z else wrap32 z.

(* registers hold i32 values *)
Definition ird (v : Z) (r : iregs) : outcome Z :=
  match rlookup v r with Some z => Ok (w32 z) | None => Panic P_UNINIT end.
(* HashMap::insert: replaces the binding *)
Fixpoint iwr (v : Z) (z : Z) (r : iregs) : iregs :=
  match r with
  | [] => [(v, z)]
  | (k, x) :: t => if v =? k then (v, z) :: t else (k, x) :: iwr v z t
  end.

Definition b2z (b : bool) : Z := if b then 1 else 0.
Definition bop_eval (op : bop) (a b : Z) : Z :=
  match op with
  | OAdd => w32 (a + b) | OSub => w32 (a - b) | OMul => w32 (a * b)
  | OEq => b2z (a =? b) | ONe => b2z (negb (a =? b))
  | OLt => b2z (a <? b) | OLe => b2z (a <=? b) | OGt => b2z (b <? a) | OGe => b2z (b <=? a)
  end.

Fixpoint ieval (e : iexpr) (r : iregs) : outcome (Z * iregs) :=
  match e with
  | ILit z => Ok (w32 z, r)
  | IVar v => do z <- ird v r; Ok (z, r)
  | IBin a op b =>
      do ar <- ieval a r;
      do br <- ieval b (snd ar);
      Ok (bop_eval op (fst ar) (fst br), snd br)
  | IPreDec v => do z <- ird v r; let z' := w32 (z - 1) in Ok (z', iwr v z' r)
  end.

Definition iconst (e : iexpr) : option Z :=
  match e with ILit z => Some (w32 z) | _ => None end.

Fixpoint ieval_list (es : list iexpr) (r : iregs) : outcome (list Z * iregs) :=
  match es with
  | [] => Ok ([], r)
  | e :: t => do er <- ieval e r; do tr <- ieval_list t (snd er); Ok (fst er :: fst tr, snd tr)
  end.

Fixpoint idecl (inits : list (Z * option iexpr)) (r : iregs) : outcome iregs :=
  match inits with
  | [] => Ok r
  | (v, None) :: t => idecl t r
  | (v, Some e) :: t => do er <- ieval e r; idecl t (iwr v (fst er) (snd er))
  end.

Definition iexec (x : isimple) (rt : Z) (r : iregs) : outcome (iregs * list icall) :=
  match x with
  | XCall op args => do ar <- ieval_list args r; Ok (snd ar, [(rt, op, fst ar)])
  | XAssign v e => do er <- ieval e r; Ok (iwr v (fst er) (snd er), [])
  | XOpAssign v op e =>
      do a <- ird v r;                      (* read_var_by_ast first, then the value *)
      do er <- ieval e r;
      Ok (iwr v (bop_eval op a (fst er)) (snd er), [])
  | XDecl inits => do r' <- idecl inits r; Ok (r', [])
  end.

Definition IL : lang :=
  {| expr := iexpr; var := Z; simple := isimple; rstate := iregs; call := icall;
     eval_int := ieval; const_int := iconst; rd := ird; wr := iwr; exec := iexec |}.
