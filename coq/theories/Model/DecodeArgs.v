(* Model/DecodeArgs.v -- decode_args_with_abi (src/llir/raise/early.rs): the length accounting of the
   blob -> argument list decoder, driven by the encodings of a signature; and the letter table of the
   signature parser (src/llir/abi.rs: int_from_attrs / other_from_attrs) as read by gen/abiletters.py.
   Executable definitions only. *)
From TV Require Import Base.I32 Model.BinScript.
Open Scope Z_scope.

Definition E_NOTENOUGH : nat := 16.   (* "not enough bytes in instruction" *)
Definition E_STRING : nat := 17.      (* string decoding error (Shift-JIS) *)
Definition P_UNREACH : nat := 11.     (* unreachable!() / panic!("unexpected integer size") *)

Inductive strsize := StrToBlobEnd | StrPascal | StrFixed (len : Z).

Inductive enc :=
| EncPad (size : Z)
| EncInt (size : Z) (arg0 : bool)
| EncFloat
| EncJump                 (* 'o' / 't': a dword *)
| EncStr (s : strsize).

(* state: read position and `remaining_len`; the blob itself for Pascal string lengths *)
Definition cursor_read (blob : list Z) (pos n : Z) : outcome (list Z) :=
  (* Cursor::read_exact(..).expect("already checked len") *)
  if pos + n <=? Z.of_nat (length blob)
  then Ok (firstn (Z.to_nat n) (skipn (Z.to_nat pos) blob))
  else Panic P_EXPECT.

Definition decrease_len (remaining amount : Z) : outcome Z :=
  if remaining <? amount then Err E_NOTENOUGH else Ok (remaining - amount).

Definition zmem (z : Z) (l : list Z) : bool := existsb (Z.eqb z) l.

Section Decode.
  (* Encoded::decode: Ok or a diagnostic, by whatever the encoding library does with the bytes *)
  Variable str_ok : list Z -> bool.
  (* the integer / padding sizes that decode_args_with_abi has a match arm for (gen/abiletters.py) *)
  Variable int_sizes pad_sizes : list Z.

  (* one argument: new (pos, remaining, extra_arg still available) *)
  Definition decode_one (blob : list Z) (e : enc) (st : Z * Z * bool) : outcome (Z * Z * bool) :=
    let '(pos, rem, extra) := st in
    match e with
    | EncPad size =>
        do rem' <- decrease_len rem size;
        if zmem size pad_sizes then do b <- cursor_read blob pos size; Ok (pos + size, rem', extra)
        else Panic P_UNREACH
    | EncInt size true =>
        if extra then Ok (pos, rem, false) else Panic P_EXPECT   (* pseudo_arg0.take().expect(..) *)
    | EncInt size false =>
        if zmem size int_sizes
        then do rem' <- decrease_len rem size; do b <- cursor_read blob pos size; Ok (pos + size, rem', extra)
        else Panic P_UNREACH                                       (* panic!("unexpected integer size") *)
    | EncFloat | EncJump =>
        do rem' <- decrease_len rem 4; do b <- cursor_read blob pos 4; Ok (pos + 4, rem', extra)
    | EncStr s =>
        do r <- match s with
                | StrToBlobEnd => Ok (pos, rem, rem)
                | StrPascal =>
                    do rem' <- decrease_len rem 4;
                    do b <- cursor_read blob pos 4;
                    Ok (pos + 4, rem', le_val b)
                | StrFixed len => Ok (pos, rem, len)
                end;
        let '(pos1, rem1, read_len) := r in
        do rem2 <- decrease_len rem1 read_len;
        do b <- cursor_read blob pos1 read_len;
        if str_ok b then Ok (pos1 + read_len, rem2, extra) else Err E_STRING
    end.

  Fixpoint decode_all (blob : list Z) (es : list enc) (st : Z * Z * bool) : outcome (Z * Z * bool) :=
    match es with
    | [] => Ok st
    | e :: t => do st' <- decode_one blob e st; decode_all blob t st'
    end.

  Definition decode_args (blob : list Z) (es : list enc) (has_extra : bool) : outcome unit :=
    do st <- decode_all blob es (0, Z.of_nat (length blob), has_extra); Ok tt.
End Decode.

(* ---- what the signature parser can produce ---- *)
(* InstrAbi::validate: arg0 only in first position; validate_against_language: arg0 only where the
   instruction format supplies an extra argument *)
Definition enc_ok (int_sizes pad_sizes : list Z) (e : enc) : bool :=
  match e with
  | EncPad s => zmem s pad_sizes && (0 <? s)
  | EncInt s _ => zmem s int_sizes && (0 <? s)
  | EncStr (StrFixed len) => 0 <=? len
  | _ => true
  end.
Definition is_arg0 (e : enc) : bool := match e with EncInt _ true => true | _ => false end.
Definition encs_valid (int_sizes pad_sizes : list Z) (es : list enc) (has_extra : bool) : bool :=
  forallb (enc_ok int_sizes pad_sizes) es &&
  match es with
  | [] => true
  | e :: t => (negb (is_arg0 e) || has_extra) && negb (existsb is_arg0 t)
  end.

(* the letter tables of the signature parser: (character code, size); every size must have a decoder arm *)
Definition letters_ok (int_sizes pad_sizes : list Z) (ints pads : list (Z * Z)) : bool :=
  forallb (fun p => enc_ok int_sizes pad_sizes (EncInt (snd p) false)) ints &&
  forallb (fun p => enc_ok int_sizes pad_sizes (EncPad (snd p))) pads.
