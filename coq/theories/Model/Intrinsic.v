(* Model/Intrinsic.v -- executable model of how the pieces of an intrinsic statement are placed into
   the argument list of its instruction.
     src/llir/intrinsic.rs         IntrinsicInstrAbiParts::from_abi and its find_and_remove_* helpers
     src/llir/lower/intrinsic.rs   IntrinsicBuilder::into_vec, populate_time_args
     src/llir/raise/early.rs       raise_intrinsic_parts (reads the pieces back by the same indices)
   Indices are positions in the signature INCLUDING padding; into_vec allocates [cd_place_with_padding].
   Intrinsics with a sub id (CallEosd, CallReg) are not modelled.  Executable definitions only. *)
From TV Require Import Base.I32 Model.Abi.
Open Scope Z_scope.

Inductive ikind :=
| IJmp | IInterruptLabel
| IAssignOp (ty : aty) | IBinOp (out_ty arg_ty : aty) | IUnOp (out_ty arg_ty : aty)
| ICountJmp | ICondJmp (ty : aty) | ICondJmp2A (ty : aty) | ICondJmp2B.

Inductive jorder := TimeLoc | LocTime | Loc.

Record parts := {
  ap_num : nat;                        (* num_instr_args: number of non-padding encodings *)
  ap_padding : list nat;               (* positions of padding *)
  ap_plain : list nat;
  ap_outputs : list (nat * bool);      (* true = OutputArgMode::FloatAsInt *)
  ap_jump : option (nat * jorder)
}.

(* what the lowering code hands to into_vec *)
Record builder := {
  b_jump : option (arg * option arg);  (* offset argument, explicit time argument *)
  b_plain : list arg;
  b_outputs : list arg
}.

Definition E_BADABI : nat := 32.

Definition ienc := (nat * enc)%type.

Fixpoint enumerate_from {A} (n : nat) (l : list A) : list (nat * A) :=
  match l with [] => [] | x :: t => (n, x) :: enumerate_from (S n) t end.

Fixpoint remove_first (f : ienc -> bool) (l : list ienc) : option ienc * list ienc :=
  match l with
  | [] => (None, [])
  | x :: t => if f x then (Some x, t) else let '(r, t') := remove_first f t in (r, x :: t')
  end.

Definition find_and_remove_jump (l : list ienc) : outcome (nat * jorder * list ienc) :=
  let '(o, l1) := remove_first (fun p => is_off (snd p)) l in
  let '(t, l2) := remove_first (fun p => is_time (snd p)) l1 in
  match o with
  | None => Err E_BADABI
  | Some (oi, _) =>
      match t with
      | Some (ti, _) =>
          if (ti =? oi + 1)%nat then Ok (oi, LocTime, l2)
          else if (ti + 1 =? oi)%nat then Ok (ti, TimeLoc, l2)
          else Err E_BADABI
      | None => Ok (oi, Loc, l2)
      end
  end.

Definition is_eint (e : enc) : bool := match e with EInt _ _ _ _ => true | _ => false end.
Definition is_efloat (e : enc) : bool := match e with EFloat _ => true | _ => false end.

Definition remove_out_arg (l : list ienc) (ty : aty) : outcome (nat * bool * list ienc) :=
  match l with
  | [] => Err E_BADABI
  | (i, e) :: t =>
      match ty with
      | TInt => if is_eint e then Ok (i, false, t) else Err E_BADABI
      | TFloat => if is_efloat e then Ok (i, false, t) else if is_eint e then Ok (i, true, t) else Err E_BADABI
      | TStr => Err E_BADABI
      end
  end.

Definition remove_plain_arg (l : list ienc) (ty : aty) : outcome (nat * list ienc) :=
  match l with
  | [] => Err E_BADABI
  | (i, e) :: t =>
      match ty with
      | TInt => if is_eint e then Ok (i, t) else Err E_BADABI
      | TFloat => if is_efloat e then Ok (i, t) else Err E_BADABI
      | TStr => Err E_BADABI
      end
  end.

Definition from_abi (k : ikind) (sig : list enc) : outcome parts :=
  let all := enumerate_from 0 sig in
  let pads := map fst (filter (fun p => is_pad (snd p)) all) in
  let l := filter (fun p => negb (is_pad (snd p))) all in
  let mk pl outs j := {| ap_num := length l; ap_padding := pads; ap_plain := pl; ap_outputs := outs; ap_jump := j |} in
  let fin (r : list ienc) (p : parts) : outcome parts := match r with [] => Ok p | _ => Err E_BADABI end in
  match k with
  | IJmp => do x <- find_and_remove_jump l; let '(i, o, r) := x in fin r (mk [] [] (Some (i, o)))
  | IInterruptLabel => do x <- remove_plain_arg l TInt; let '(i, r) := x in fin r (mk [i] [] None)
  | IAssignOp ty =>
      do x <- remove_out_arg l ty; let '(oi, m, r1) := x in
      do y <- remove_plain_arg r1 ty; let '(pi, r2) := y in fin r2 (mk [pi] [(oi, m)] None)
  | IBinOp oty aty_ =>
      do x <- remove_out_arg l oty; let '(oi, m, r1) := x in
      do y <- remove_plain_arg r1 aty_; let '(p1, r2) := y in
      do z <- remove_plain_arg r2 aty_; let '(p2, r3) := z in fin r3 (mk [p1; p2] [(oi, m)] None)
  | IUnOp oty aty_ =>
      do x <- remove_out_arg l oty; let '(oi, m, r1) := x in
      do y <- remove_plain_arg r1 aty_; let '(p1, r2) := y in fin r2 (mk [p1] [(oi, m)] None)
  | ICountJmp =>
      do x <- find_and_remove_jump l; let '(i, o, r1) := x in
      do y <- remove_out_arg r1 TInt; let '(oi, m, r2) := y in fin r2 (mk [] [(oi, m)] (Some (i, o)))
  | ICondJmp ty =>
      do x <- find_and_remove_jump l; let '(i, o, r1) := x in
      do y <- remove_plain_arg r1 ty; let '(p1, r2) := y in
      do z <- remove_plain_arg r2 ty; let '(p2, r3) := z in fin r3 (mk [p1; p2] [] (Some (i, o)))
  | ICondJmp2A ty =>
      do y <- remove_plain_arg l ty; let '(p1, r2) := y in
      do z <- remove_plain_arg r2 ty; let '(p2, r3) := z in fin r3 (mk [p1; p2] [] None)
  | ICondJmp2B => do x <- find_and_remove_jump l; let '(i, o, r) := x in fin r (mk [] [] (Some (i, o)))
  end.

(* out_args[index] = Some(value) with the bounds check and the `assert!(is_none())` *)
Fixpoint set_slot (l : list (option arg)) (i : nat) (v : arg) : outcome (list (option arg)) :=
  match l, i with
  | [], _ => Panic P_INDEX
  | Some _ :: _, O => Panic P_ASSERT
  | None :: t, O => Ok (Some v :: t)
  | x :: t, S j => do t' <- set_slot t j v; Ok (x :: t')
  end.

Fixpoint set_slots (l : list (option arg)) (ivs : list (nat * arg)) : outcome (list (option arg)) :=
  match ivs with
  | [] => Ok l
  | (i, v) :: t => do l' <- set_slot l i v; set_slots l' t
  end.

(* the integer value of a float given by its bits, when it is an integer (register ids stored as floats) *)
Definition f32_int_value (bits : Z) : option Z :=
  let s := bits / 2 ^ 31 in
  let e := (bits / 2 ^ 23) mod 256 in
  let m := bits mod 2 ^ 23 in
  let sg (z : Z) := if s =? 0 then z else - z in
  if (e =? 0) && (m =? 0) then Some 0
  else if e <? 127 then None
  else if 150 <=? e then (if e <? 158 then Some (sg ((2 ^ 23 + m) * 2 ^ (e - 150))) else None)
  else if (2 ^ 23 + m) mod 2 ^ (150 - e) =? 0 then Some (sg ((2 ^ 23 + m) / 2 ^ (150 - e))) else None.

(* LowerArg::with_float_reg_encoded_as_int *)
Definition float_reg_as_int (a : arg) : outcome arg :=
  if negb (a_reg a) then Panic P_EXPECT
  else match a_val a with
       | AInt z => Ok a
       | AFloat b => match f32_int_value b with Some z => Ok (mkarg (AInt z) true) | None => Panic P_ASSERT end
       | AStr _ => Panic P_TYPE
       end.

Fixpoint zip_outputs (vals : list arg) (infos : list (nat * bool)) : outcome (list (nat * arg)) :=
  match vals, infos with
  | v :: vt, (i, m) :: it =>
      do v' <- (if m then float_reg_as_int v else Ok v);
      do r <- zip_outputs vt it; Ok ((i, v') :: r)
  | _, _ => Ok []
  end.

Fixpoint collect_slots (l : list (option arg)) (i : nat) (skip : list nat) : outcome (list arg) :=
  match l with
  | [] => Ok []
  | x :: t =>
      if existsb (Nat.eqb i) skip then collect_slots t (S i) skip
      else match x with
           | None => Panic P_EXPECT
           | Some v => do r <- collect_slots t (S i) skip; Ok (v :: r)
           end
  end.

(* IntrinsicBuilder::into_vec; [timeof] is the time of the destination label, used when the goto has no
   explicit time *)
Definition into_vec (cd : codec) (p : parts) (b : builder) (timeof : arg) : outcome (list arg) :=
  if negb (Bool.eqb (match b_jump b with Some _ => true | None => false end)
                    (match ap_jump p with Some _ => true | None => false end)) then Panic P_ASSERT
  else if negb (length (b_plain b) =? length (ap_plain p))%nat then Panic P_ASSERT
  else if negb (length (b_outputs b) =? length (ap_outputs p))%nat then Panic P_ASSERT
  else
    let n := if cd_place_with_padding cd then (ap_num p + length (ap_padding p))%nat else ap_num p in
    let out0 := repeat (@None arg) n in
    do out1 <- match b_jump b, ap_jump p with
               | Some (label_arg, time), Some (i, order) =>
                   let time_arg := match time with Some t => t | None => timeof end in
                   let mine := match order with
                               | LocTime => [label_arg; time_arg]
                               | TimeLoc => [time_arg; label_arg]
                               | Loc => [label_arg]
                               end in
                   set_slots out0 (map (fun q => ((i + fst q)%nat, snd q)) (enumerate_from 0 mine))
               | _, _ => Ok out0
               end;
    do out2 <- set_slots out1 (combine (ap_plain p) (b_plain b));
    do outs <- zip_outputs (b_outputs b) (ap_outputs p);
    do out3 <- set_slots out2 outs;
    collect_slots out3 0 (if cd_place_with_padding cd then ap_padding p else []).

(* lowering of one intrinsic statement to its raw instruction (labels already resolved to numbers) *)
Definition lower_intrinsic (cd : codec) (k : ikind) (sig : list enc) (b : builder) : outcome (bytes * Z * option Z) :=
  do p <- from_abi k sig;
  do args <- into_vec cd p b (mkarg (AInt 0) false);
  do x <- encode_args (fun _ => None) cd true sig args None;
  let '(r, _) := x in Ok (r_blob r, r_mask r, r_extra r).

(* raise_intrinsic_parts: the pieces read back by index from the decoded argument list (which includes
   padding values) *)
Definition raise_parts (p : parts) (args : list arg) : option builder :=
  let get i := nth_error args i in
  let all_some {A} (l : list (option A)) : option (list A) :=
    fold_right (fun x acc => match x, acc with Some v, Some r => Some (v :: r) | _, _ => None end) (Some []) l in
  match all_some (map get (ap_plain p)), all_some (map (fun q => get (fst q)) (ap_outputs p)) with
  | Some pl, Some outs =>
      match ap_jump p with
      | None => Some {| b_jump := None; b_plain := pl; b_outputs := outs |}
      | Some (i, order) =>
          let j := match order with
                   | LocTime => match get i, get (S i) with Some o, Some t => Some (o, Some t) | _, _ => None end
                   | TimeLoc => match get (S i), get i with Some o, Some t => Some (o, Some t) | _, _ => None end
                   | Loc => match get i with Some o => Some (o, None) | None => None end
                   end in
          match j with
          | Some jj => Some {| b_jump := Some jj; b_plain := pl; b_outputs := outs |}
          | None => None
          end
      end
  | _, _ => None
  end.
