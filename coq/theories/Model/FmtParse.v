(* Model/FmtParse.v -- specification of the expression grammar of src/parse/lalrparser.lalrpop
   (Expr and everything below it) as a precedence-climbing parser over the model tokens, and of
   the literal helpers of src/parse/lalrparser_util.rs.  The generated LALR(1) tables are tied by
   correspondence (model parser vs the real parser on printed and on mutated texts). *)
From TV Require Import Base.I32 Model.Fmt Model.FmtLex.
Open Scope Z_scope.

Definition E_PARSE : nat := 51.       (* any parse diagnostic *)
Definition P_QUOTES : nat := 33.      (* the assert_eq!/assert! on the quotes and the pending escape *)

(* ------------------------------------------------------------------------------------------ *)
(* parse_u32_literal + `as i32` *)

Definition digit_val (r : Z) (c : ascii) : option Z :=
  let n := Z.of_N (N_of_ascii c) in
  let v := if (48 <=? n) && (n <=? 57) then Some (n - 48)
           else if (97 <=? n) && (n <=? 102) then Some (n - 87)
           else if (65 <=? n) && (n <=? 70) then Some (n - 55)
           else None in
  match v with Some d => if d <? r then Some d else None | None => None end.

Fixpoint digits_val (r : Z) (s : string) (acc : Z) : option Z :=
  match s with
  | EmptyString => Some acc
  | String c t => match digit_val r c with Some d => digits_val r t (acc * r + d) | None => None end
  end.

(* uN::from_str_radix on an unsigned digit string: empty, invalid digit and overflow are errors *)
Definition from_str_radix (bound r : Z) (s : string) : outcome Z :=
  match s with
  | EmptyString => Err E_PARSE
  | _ => match digits_val r s 0 with
         | Some v => if v <? bound then Ok v else Err E_PARSE
         | None => Err E_PARSE
         end
  end.

Definition parse_int_text (s : string) : outcome Z :=
  let r :=
    match s with
    | String "0"%char (String c t) =>
        if is_x c then from_str_radix two32 16 t
        else if is_b c then from_str_radix two32 2 t
        else from_str_radix two32 10 s
    | _ => from_str_radix two32 10 s
    end in
  do v <- r; Ok (wrap32 v).

(* parse_string_literal: the text includes the quotes *)
Fixpoint unescape (s : string) : outcome string :=
  match s with
  | EmptyString => Ok EmptyString
  | String c r =>
      if Ascii.eqb c "\"%char then
        match r with
        | EmptyString => Panic P_QUOTES                 (* assert!(!escape) *)
        | String e r2 =>
            let k := fun (x : ascii) => do t <- unescape r2; Ok (String x t) in
            if Ascii.eqb e "0"%char then k "000"%char
            else if Ascii.eqb e """"%char then k """"%char
            else if Ascii.eqb e "\"%char then k "\"%char
            else if Ascii.eqb e "n"%char then k "010"%char
            else if Ascii.eqb e "r"%char then k "013"%char
            else Err E_PARSE                             (* invalid escape character *)
        end
      else do t <- unescape r; Ok (String c t)
  end.

Fixpoint drop_last (s : string) : option (string * ascii) :=
  match s with
  | EmptyString => None
  | String c EmptyString => Some (EmptyString, c)
  | String c r => match drop_last r with Some (b, l) => Some (String c b, l) | None => None end
  end.

Definition parse_string_literal (s : string) : outcome string :=
  match s with
  | String """"%char r =>
      match drop_last r with
      | Some (body, l) => if Ascii.eqb l """"%char then unescape body else Panic P_QUOTES
      | None => Panic P_QUOTES
      end
  | _ => Panic P_QUOTES
  end.

(* ------------------------------------------------------------------------------------------ *)
(* the operator precedence table: ExprBinOpOr ... ExprBinOpMulLike, lowest precedence first *)

Definition tiers : list (list string) :=
  [["||"]; ["&&"]; ["|"]; ["^"]; ["&"]; ["=="; "!="]; [">"; "<"; ">="; "<="]; ["<<"; ">>"; ">>>"];
   ["+"; "-"]; ["*"; "/"; "%"]]%string.

Definition left_unops : list string := ["-"; "~"; "!"]%string.
(* FuncUnOpKeyword: token text -> operator *)
Definition func_unops : list (string * string) :=
  [("sin", "sin"); ("cos", "cos"); ("tan", "tan"); ("asin", "asin"); ("acos", "acos"); ("atan", "atan");
   ("sqrt", "sqrt"); ("_S", "$"); ("_f", "%"); ("$", "$"); ("%", "%"); ("int", "int"); ("float", "float")]%string.
Definition label_props : list string := ["offsetof"; "timeof"]%string.
(* IdentStr: contextual keywords *)
Definition contextual : list string := ["mapfile"; "entry"; "anim"; "ecli"; "script"; "default"; "case"]%string.
Definition pseudo_kinds : list string := ["pop"; "mask"; "blob"; "arg0"; "nargs"]%string.

Fixpoint assoc_str (k : string) (l : list (string * string)) : option string :=
  match l with [] => None | (a, b) :: t => if String.eqb k a then Some b else assoc_str k t end.

Definition ident_of (t : token) : option string :=
  match t with
  | TIdent s => Some s
  | TFix s => if mem_str s contextual then Some s else None
  | _ => None
  end.

Definition can_start_expr (t : token) : bool :=
  match t with
  | TFix s => mem_str s ["("; "-"; "~"; "!"; "++"; "--"; "$"; "%"; "REG"; "offsetof"; "timeof"]%string
              || negb (is_none (assoc_str s func_unops)) || mem_str s contextual
  | TDiff _ => false
  | _ => true
  end.

Definition parser := list token -> outcome (fexpr * list token).

Definition is_fix (s : string) (t : token) : bool := match t with TFix x => String.eqb x s | _ => false end.
Definition next_is (s : string) (ts : list token) : bool := match ts with t :: _ => is_fix s t | [] => false end.

Definition expect (s : string) (ts : list token) : outcome (list token) :=
  match ts with t :: r => if is_fix s t then Ok r else Err E_PARSE | [] => Err E_PARSE end.

(* RawInsIdent: ins_ followed by a canonically formatted u16 *)
Definition parse_ins (s : string) : outcome Z :=
  let num := drop 4 s in
  let canonical := match num with
                   | String "0"%char EmptyString => true
                   | String c _ => is_digit c && negb (Ascii.eqb c "0"%char)
                                   && (let (d, rest) := span is_digit num in String.eqb rest "")
                   | EmptyString => false
                   end in
  if canonical then from_str_radix 65536 10 num else Err E_PARSE.

(* Var: VarSigil VarName *)
Definition pvar (ts : list token) : outcome (fvar * list token) :=
  let (sg, r) := if next_is "$" ts then (Some SgI, tl ts) else if next_is "%" ts then (Some SgF, tl ts) else (None, ts) in
  match r with
  | [] => Err E_PARSE
  | t :: r1 =>
      if is_fix "REG" t then
        (* "REG" "[" OptionalMinus LitIntUnsigned "]" *)
        if next_is "[" r1 then
          let r2 := tl r1 in
          let (neg, r3) := if next_is "-" r2 then (true, tl r2) else (false, r2) in
          match r3 with
          | TInt s :: r4 =>
              if next_is "]" r4 then
                do x <- parse_int_text s; Ok (VReg sg (if neg then wrap32 (x * -1) else x), tl r4)
              else Err E_PARSE
          | _ => Err E_PARSE
          end
        else Err E_PARSE
      else match ident_of t with Some n => Ok (VNamed sg n, r1) | None => Err E_PARSE end
  end.

Section Parse.
Variable pf : string -> Z.      (* the f32 bits LitFloatUnsigned computes from a FLOAT / FLOAT_RAD token *)

Section Term.
Variable pe : parser.           (* Expr, for nested positions *)

(* "(" SeparatedTrailing<Either<PseudoArg, Expr>, ","> ")"  after the "(" *)
Fixpoint pargs (n : nat) (ts : list token) (acc : list (option string * fexpr)) : outcome (list (option string * fexpr) * list token) :=
  match n with
  | O => OutOfFuel
  | S n' =>
      if next_is ")" ts then Ok (rev acc, tl ts)
      else
        do item <-
          (if next_is "@" ts then
             match tl ts with
             | k :: r1 =>
                 if next_is "=" r1 then
                   match ident_of k with
                   | Some kind =>
                       do p <- pe (tl r1); let '(v, r') := p in
                       if mem_str kind pseudo_kinds then Ok (Some kind, v, r') else Err E_PARSE
                   | None => Err E_PARSE
                   end
                 else do p <- pe ts; let '(v, r') := p in Ok (None, v, r')
             | [] => do p <- pe ts; let '(v, r') := p in Ok (None, v, r')
             end
           else do p <- pe ts; let '(v, r') := p in Ok (None, v, r'));
        let '(k, v, r) := item in
        if next_is "," r then pargs n' (tl r) ((k, v) :: acc)
        else if next_is ")" r then Ok (rev ((k, v) :: acc), tl r)
        else Err E_PARSE
  end.

(* ExprCallParenArgsWithPseudos: the pseudo-args must come first *)
Fixpoint split_args (l : list (option string * fexpr)) : outcome (list (string * fexpr) * list fexpr) :=
  match l with
  | [] => Ok ([], [])
  | (Some k, v) :: t => do r <- split_args t; let '(ps, args) := r in Ok ((k, v) :: ps, args)
  | (None, v) :: t =>
      if forallb (fun kv => is_none (fst kv)) t then Ok ([], v :: map snd t) else Err E_PARSE
  end.

Definition pcall (n : cname) (ts : list token) : outcome (fexpr * list token) :=
  do a <- pargs (S (List.length ts)) ts []; let '(items, r) := a in
  do s <- split_args items; let '(ps, args) := s in
  Ok (FCall n ps args, r).

(* what may follow a Var in ExprTerm *)
Definition after_var (v : fvar) (r : list token) : outcome (fexpr * list token) :=
  if next_is "++" r then Ok (FXcr false true v, tl r)
  else if next_is "--" r then Ok (FXcr false false v, tl r)
  else if next_is "[" r then Err E_PARSE         (* "array indexing is not a thing, sorry" *)
  else Ok (FVar v, r).

Definition pterm (ts : list token) : outcome (fexpr * list token) :=
  match ts with
  | [] => Err E_PARSE
  | t :: r =>
      let as_var := do p <- pvar ts; let '(v, r') := p in after_var v r' in
      match t with
      | TInt s => do v <- parse_int_text s; Ok (FLitI v (IF true RDec), r)
      | TFloat s => Ok (FLitF (pf s), r)
      | TRad s => Ok (FLitF (pf s), r)
      | TStr s => do x <- parse_string_literal s; Ok (FLitS x, r)
      | TDiff _ => Err E_PARSE
      | TInstr s => if next_is "(" r then do op <- parse_ins s; pcall (CIns op) (tl r) else Err E_PARSE
      | TIdent n =>
          if next_is "(" r then pcall (CNormal n) (tl r)
          else if next_is "." r then
            match tl r with
            | b :: r2 => match ident_of b with Some b' => Ok (FEnum n b', r2) | None => Err E_PARSE end
            | [] => Err E_PARSE
            end
          else as_var
      | TFix s =>
          if String.eqb s "(" then do p <- pe r; let '(e, r') := p in do r'' <- expect ")" r'; Ok (e, r'')
          else if String.eqb s "++" then do p <- pvar r; let '(v, r') := p in Ok (FXcr true true v, r')
          else if String.eqb s "--" then do p <- pvar r; let '(v, r') := p in Ok (FXcr true false v, r')
          else if next_is "(" r then
            match assoc_str s func_unops with
            | Some op => do p <- pe (tl r); let '(e, r2) := p in do r3 <- expect ")" r2; Ok (FUn op e, r3)
            | None =>
                if mem_str s label_props then
                  match tl r with
                  | l :: r1 => if next_is ")" r1
                               then match ident_of l with Some lab => Ok (FLabelProp s lab, tl r1) | None => Err E_PARSE end
                               else Err E_PARSE
                  | [] => Err E_PARSE
                  end
                else match ident_of t with Some n => pcall (CNormal n) (tl r) | None => Err E_PARSE end
            end
          else if next_is "." r then
            match ident_of t with
            | Some a =>
                match tl r with
                | b :: r2 => match ident_of b with Some b' => Ok (FEnum a b', r2) | None => Err E_PARSE end
                | [] => Err E_PARSE
                end
            | None => as_var
            end
          else as_var
      end
  end.

(* LeftUnOp<OpLeftUnary, ExprTerm>: at most one prefix operator *)
Definition punary (ts : list token) : outcome (fexpr * list token) :=
  match ts with
  | TFix s :: r =>
      if mem_str s left_unops then do p <- pterm r; let '(x, r') := p in Ok (FUn s x, r')
      else pterm ts
  | _ => pterm ts
  end.

(* LeftBinOp<Op, NextTier> *)
Fixpoint binloop (next : parser) (ops : list string) (m : nat) (a : fexpr) (ts : list token) : outcome (fexpr * list token) :=
  match m with
  | O => OutOfFuel
  | S m' =>
      match ts with
      | TFix s :: r =>
          if mem_str s ops then do p <- next r; let '(b, r') := p in binloop next ops m' (FBin a s b) r'
          else Ok (a, ts)
      | _ => Ok (a, ts)
      end
  end.

Definition bintier (next : parser) (ops : list string) : parser :=
  fun ts => do p <- next ts; let '(a, r) := p in binloop next ops (S (List.length r)) a r.

Fixpoint tiers_from (tl : list (list string)) (base : parser) : parser :=
  match tl with [] => base | ops :: tl' => bintier (tiers_from tl' base) ops end.

Definition nocolon : parser := tiers_from tiers punary.

End Term.

Definition tern_rest (rhs : parser) (c : fexpr) (r1 : list token) : outcome (fexpr * list token) :=
  do p <- rhs r1; let '(l, r2) := p in
  do r3 <- expect ":" r2;
  do q <- rhs r3; let '(rr, r4) := q in
  Ok (FTern c l rr, r4).

(* (":" ExprNoColon?)+ *)
Fixpoint diff_loop (nc : parser) (m : nat) (acc : list (option fexpr)) (ts : list token) : outcome (fexpr * list token) :=
  match m with
  | O => OutOfFuel
  | S m' =>
      if next_is ":" ts then
        let r := tl ts in
        match r with
        | t :: _ =>
            if can_start_expr t then do p <- nc r; let '(x, r') := p in diff_loop nc m' (Some x :: acc) r'
            else diff_loop nc m' (None :: acc) r
        | [] => diff_loop nc m' (None :: acc) r
        end
      else Ok (FDiff (rev acc), ts)
  end.

Fixpoint pexpr (n : nat) (ts : list token) : outcome (fexpr * list token) :=
  match n with
  | O => OutOfFuel
  | S n' =>
      do p <- nocolon (pexpr n') ts; let '(a, r) := p in
      if next_is "?" r then tern_rest (trhs n') a (tl r)
      else if next_is ":" r then diff_loop (nocolon (pexpr n')) (S (List.length r)) [Some a] r
      else Ok (a, r)
  end
with trhs (n : nat) (ts : list token) : outcome (fexpr * list token) :=
  match n with
  | O => OutOfFuel
  | S n' =>
      do p <- nocolon (pexpr n') ts; let '(x, r) := p in
      if next_is "?" r then tern_rest (trhs n') x (tl r)
      else Ok (x, r)
  end.

Definition parse_tokens (ts : list token) : outcome fexpr :=
  do p <- pexpr (S (List.length ts)) ts; let '(e, r) := p in
  match r with [] => Ok e | _ => Err E_PARSE end.

Definition parse_text (s : string) : outcome fexpr :=
  do ts <- lex s; parse_tokens ts.

End Parse.
