(* Model/Abi.v -- executable model of instruction-argument encoding and decoding.

   Rust sources restated here (truth, /repo):
     src/llir/abi.rs            ArgEncoding, StringArgSize, AcceleratingByteMask, validate,
                                contributes_to_param_mask, is_always_immediate, int_from_attrs
     src/llir/lower.rs          encode_args (LowerArgs::Known case, no @arg0/@mask pseudo-arguments)
     src/llir/raise/early.rs    decode_args_with_abi (RegisterEncodingStyle::ByParamMask),
                                raise_raw_ins_args (padding check + removal)
     src/io.rs                  Encoded::{null_pad, apply_xor_mask, trim_first_nul, encode_fixed_size},
                                BinWrite::write_cstring, BinRead::{read_cstring_blockwise, read_cstring_exact}
   The per-arm facts (byte widths, signedness, cast kind, amounts passed to decrease_len, which
   encodings take a mask bit, which string sizes get an eager NUL, ...) are NOT written here: they
   are read from the Rust source by gen/argcodec.py into Gen/ArgCodec.v as a [codec] record, and the
   functions below interpret that record.  Executable definitions only. *)
From TV Require Import Base.I32.
Open Scope Z_scope.

Definition bytes := list Z.                 (* each element in [0,256) *)

(* ---- panic / error / warning tags (only the class Ok/Err/Panic is compared with the code) ---- *)
Definition P_ASSERT : nat := 7.     (* assert!/assert_eq! *)
Definition P_UNREACH : nat := 8.    (* unreachable!() / panic!("unexpected integer size") *)
Definition E_NOREG : nat := 20.     (* non-constant expression in language without registers *)
Definition E_RANGE : nat := 21.     (* integer argument out of range (checked cast) *)
Definition E_ENCODING : nat := 22.  (* string encoding error *)
Definition E_TOOLARGE : nat := 23.  (* string argument too large for buffer *)
Definition E_SHORT : nat := 24.     (* not enough bytes in instruction *)
Definition E_DECODING : nat := 25.  (* could not read string using encoding *)
Definition E_TOOMANY : nat := 27.   (* too many arguments in instruction *)
Definition E_TOOLONG : nat := 28.   (* string is too long (encode_fixed_size) *)
Definition E_ARGCOUNT : nat := 29.  (* provided arg count does not match mapfile *)
Definition E_REGBIT : nat := 30.    (* unexpected register bit / non-integer float register *)
(* warnings *)
Definition W_IMMREG : nat := 1.     (* non-constant expression in immediate argument *)
Definition W_NONPARAM : nat := 2.   (* non-constant expression in non-parameter *)
Definition W_LEFTOVER : nat := 3.   (* unexpected leftover bytes *)
Definition W_MASKBITS : nat := 4.   (* unused mask bits *)
Definition W_NONUL : nat := 5.      (* missing null terminator will be appended to string *)
Definition W_TRUNC : nat := 6.      (* string will be truncated at first null *)
Definition W_PADNZ : nat := 7.      (* ignoring nonzero data found in padding *)

(* ---- little-endian integers ---- *)
Fixpoint le_bytes (n : nat) (v : Z) : bytes :=
  match n with O => [] | S k => (v mod 256) :: le_bytes k (v / 256) end.
Fixpoint le_val (l : bytes) : Z :=
  match l with [] => 0 | b :: t => b + 256 * le_val t end.

Definition zlen {A} (l : list A) : Z := Z.of_nat (length l).

(* value range of an n-byte integer type *)
Definition int_lo (n : nat) (signed : bool) : Z := if signed then - 2 ^ (8 * Z.of_nat n - 1) else 0.
Definition int_hi (n : nat) (signed : bool) : Z :=
  if signed then 2 ^ (8 * Z.of_nat n - 1) - 1 else 2 ^ (8 * Z.of_nat n) - 1.
Definition in_range (n : nat) (signed : bool) (v : Z) : bool :=
  (int_lo n signed <=? v) && (v <=? int_hi n signed).
(* reading n bytes as iN / uN *)
Definition interp (n : nat) (signed : bool) (u : Z) : Z :=
  if signed then (if u <? 2 ^ (8 * Z.of_nat n - 1) then u else u - 2 ^ (8 * Z.of_nat n)) else u.

(* ---- the vocabulary of Gen/ArgCodec.v ---- *)
Inductive cast :=
| CastNone      (* the i32 is written as is *)
| CastTrunc     (* `as _` *)
| CastChecked   (* a range check that reports an error *)
| CastUnrec.

(* one arm of `match *enc` in encode_args for ArgEncoding::Integer { size, format: { signed }, arg0: false } *)
Record enc_arm := { ea_size : Z; ea_signed : bool; ea_wbytes : nat; ea_wsigned : bool; ea_cast : cast }.
(* one arm of `match *enc` in decode_args_with_abi: decrease_len amount, read width, read type *)
Record dec_arm := { da_size : Z; da_signed : bool; da_len : Z; da_rbytes : nat; da_rsigned : bool }.

Record codec := {
  (* int_from_attrs: format character -> (size, signed) *)
  cd_chars : list (Z * (Z * bool));
  cd_arg0_maxsize : Z;                   (* '(arg0)' accepted for sizes 1..this *)
  cd_pad_chars : list (Z * Z);           (* other_from_attrs: '_' -> 4, '-' -> 1 *)
  (* encode_args *)
  cd_enc : list enc_arm;
  cd_enc_jump : nat * bool * cast;       (* JumpOffset | JumpTime: write width, signedness, cast *)
  cd_enc_pad : list (Z * nat);           (* Padding { size } -> bytes of zeros written *)
  cd_enc_float : nat;                    (* write_f32 *)
  cd_arg0 : nat * bool * cast;           (* raw::ExtraArg = i16 and the cast used to fill it *)
  (* decode_args_with_abi *)
  cd_dec : list dec_arm;
  cd_dec_jump : Z * nat * bool;
  cd_dec_pad : list (Z * (nat * bool));  (* Padding { size } -> read width; decrease_len uses size *)
  cd_dec_float : Z * nat;
  cd_dec_arg0_signed : bool;             (* `extra_arg as _` : i16 -> i32 *)
  (* parameter mask *)
  cd_mask_bits : Z;                      (* raw::ParamMask = u16 *)
  cd_pad_in_mask : bool;                 (* does Padding contribute to the param mask *)
  cd_dec_arg0_in_mask : bool;            (* decode shifts the mask for an arg0 parameter (it does) *)
  (* is_always_immediate: String, JumpOffset, JumpTime, Padding, Integer{imm}, Float{imm} *)
  cd_imm_str : bool; cd_imm_off : bool; cd_imm_time : bool; cd_imm_pad : bool; cd_imm_int : bool; cd_imm_float : bool;
  (* strings: which size specs get the eager NUL (ToBlobEnd, Pascal, Fixed, Fixed nulless) *)
  cd_nul_block : bool; cd_nul_pascal : bool; cd_nul_fixed : bool; cd_nul_nulless : bool;
  cd_pascal_prefix : nat;                (* write_u32(encoded.len()) *)
  (* defect switches: true = the repaired behaviour *)
  cd_bs_checked : bool;                  (* string_from_attrs rejects bs=0 *)
  cd_nulless_furibug_rejected : bool;    (* string_from_attrs rejects nulless together with furibug *)
  cd_mask_overflow_checked : bool;       (* encode_args reports a register argument for which the mask has no bit left *)
  cd_place_with_padding : bool;          (* IntrinsicBuilder::into_vec allocates for indices that count padding *)
  cd_match_skips_padding : bool          (* call arguments are matched against non-defaulted parameters only *)
}.

(* ---- signatures ---- *)
Inductive ssize := SFixed (len : Z) (nulless : bool) | SBlock (bs : Z) | SPascal (bs : Z).

Inductive enc :=
| EInt (size : Z) (signed : bool) (imm : bool) (arg0 : bool)   (* ty_color and radix are display-only *)
| EOff | ETime
| EPad (size : Z)
| EFloat (imm : bool)
| EStr (sz : ssize) (m v a : Z) (furibug : bool).

Definition is_pad (e : enc) : bool := match e with EPad _ => true | _ => false end.
Definition is_arg0 (e : enc) : bool := match e with EInt _ _ _ true => true | _ => false end.
Definition is_blockstr (e : enc) : bool := match e with EStr (SBlock _) _ _ _ _ => true | _ => false end.
Definition is_str (e : enc) : bool := match e with EStr _ _ _ _ _ => true | _ => false end.

Definition contributes (cd : codec) (e : enc) : bool :=
  match e with EPad _ => cd_pad_in_mask cd | _ => true end.

Definition always_imm (cd : codec) (e : enc) : bool :=
  match e with
  | EStr _ _ _ _ _ => cd_imm_str cd
  | EOff => cd_imm_off cd
  | ETime => cd_imm_time cd
  | EPad _ => cd_imm_pad cd
  | EInt _ _ imm _ => cd_imm_int cd && imm
  | EFloat imm => cd_imm_float cd && imm
  end.

(* a signature as written in a mapfile: format characters with their attributes *)
Inductive sparam :=
| PInt (c : Z) (imm arg0 : bool)                 (* S s U u C c b n N E ; hex/enum are display-only *)
| PFloat (imm : bool)                            (* f *)
| POff | PTime                                   (* o t *)
| PPad (c : Z)                                   (* _ - *)
| PStr (sz : ssize) (m v a : Z) (furibug : bool) (* z m p with bs=/len=/nulless/mask=/furibug *).

Fixpoint zassoc {B} (k : Z) (l : list (Z * B)) : option B :=
  match l with [] => None | (k', b) :: t => if k =? k' then Some b else zassoc k t end.

Definition bs_of (sz : ssize) : option Z :=
  match sz with SBlock bs | SPascal bs => Some bs | SFixed _ _ => None end.

(* arg_encoding_from_attrs; None = the mapfile line is rejected *)
Definition enc_of_param (cd : codec) (p : sparam) : option enc :=
  match p with
  | PInt c imm arg0 =>
      match zassoc c (cd_chars cd) with
      | Some (size, signed) =>
          if arg0 && negb ((1 <=? size) && (size <=? cd_arg0_maxsize cd)) then None
          else Some (EInt size signed imm arg0)
      | None => None
      end
  | PFloat imm => Some (EFloat imm)
  | POff => Some EOff
  | PTime => Some ETime
  | PPad c => match zassoc c (cd_pad_chars cd) with Some s => Some (EPad s) | None => None end
  | PStr sz m v a f =>
      match sz with
      | SBlock bs | SPascal bs => if cd_bs_checked cd && (bs =? 0) then None else Some (EStr sz m v a f)
      | SFixed _ nulless => if cd_nulless_furibug_rejected cd && nulless && f then None else Some (EStr sz m v a f)
      end
  end.

Fixpoint encs_of_params (cd : codec) (ps : list sparam) : option (list enc) :=
  match ps with
  | [] => Some []
  | p :: t => match enc_of_param cd p, encs_of_params cd t with
              | Some e, Some es => Some (e :: es)
              | _, _ => None
              end
  end.

Fixpoint count_if {A} (f : A -> bool) (l : list A) : Z :=
  match l with [] => 0 | x :: t => (if f x then 1 else 0) + count_if f t end.

Definition is_off (e : enc) : bool := match e with EOff => true | _ => false end.
Definition is_time (e : enc) : bool := match e with ETime => true | _ => false end.

(* abi.rs validate() *)
Definition validate (sig : list enc) : bool :=
  (count_if is_off sig <=? 1) && (count_if is_time sig <=? 1)
  && negb ((count_if is_time sig =? 1) && (count_if is_off sig =? 0))
  && negb (existsb is_arg0 (tl sig))
  && negb (existsb is_blockstr (tl (rev sig))).

(* InstrAbi::parse followed by validate_against_language *)
Definition abi_of_params (cd : codec) (lang_has_arg0 : bool) (ps : list sparam) : option (list enc) :=
  match encs_of_params cd ps with
  | Some sig =>
      if validate sig && (negb (existsb is_arg0 (firstn 1 sig)) || lang_has_arg0) then Some sig else None
  | None => None
  end.

(* ---- argument values ---- *)
Inductive aval := AInt (z : Z) | AFloat (bits : Z) | AStr (s : list Z).   (* strings: code points *)
Record arg := mkarg { a_val : aval; a_reg : bool }.

Definition expect_int (a : arg) : outcome Z := match a_val a with AInt z => Ok z | _ => Panic P_TYPE end.
Definition expect_float (a : arg) : outcome Z := match a_val a with AFloat b => Ok b | _ => Panic P_TYPE end.
Definition expect_string (a : arg) : outcome (list Z) := match a_val a with AStr s => Ok s | _ => Panic P_TYPE end.

(* ---- xor mask (AcceleratingByteMask) ---- *)
Fixpoint mask_stream (n : nat) (m v a : Z) : bytes :=
  match n with
  | O => []
  | S k => m :: mask_stream k ((m + v) mod 256) ((v + a) mod 256) a
  end.
Fixpoint xor_bytes (l ms : bytes) : bytes :=
  match l, ms with
  | b :: t, m :: mt => Z.lxor b m :: xor_bytes t mt
  | _, _ => l
  end.
Definition apply_mask (l : bytes) (m v a : Z) : bytes := xor_bytes l (mask_stream (length l) m v a).

(* ---- Encoded helpers (io.rs) ---- *)
Definition zeros (n : Z) : bytes := repeat 0 (Z.to_nat n).

(* Encoded::null_pad: adds at least one NUL, up to a multiple of block_size; `%` by zero panics *)
Definition null_pad (l : bytes) (bs : Z) : outcome bytes :=
  if bs =? 0 then Panic P_DIV0
  else let min_size := zlen l + 1 in
       let r := min_size mod bs in
       let final := if r =? 0 then min_size else min_size + bs - r in
       Ok (l ++ zeros (final - zlen l)).

(* Vec::resize to a given length (pads with NUL or truncates) *)
Definition resize (l : bytes) (n : Z) : bytes :=
  if zlen l <=? n then l ++ zeros (n - zlen l) else firstn (Z.to_nat n) l.

Fixpoint index_of_nul (l : bytes) : option nat :=
  match l with
  | [] => None
  | b :: t => if b =? 0 then Some O else option_map S (index_of_nul t)
  end.
Definition all_zero (l : bytes) : bool := forallb (fun b => b =? 0) l.

(* Encoded::trim_first_nul: result and warnings *)
Definition trim_first_nul (l : bytes) (warn_on_data : bool) : bytes * list nat :=
  match index_of_nul l with
  | None => (l, [W_NONUL])
  | Some i => (firstn i l, if warn_on_data && negb (all_zero (skipn i l)) then [W_TRUNC] else [])
  end.

Section WithSjis.
(* Shift-JIS of encoding_rs; None = unmappable / malformed *)
Variable sjis_enc : list Z -> option bytes.
Variable sjis_dec : bytes -> option (list Z).

(* ---- encode_args ---- *)
Definition find_enc_arm (cd : codec) (size : Z) (signed : bool) : option enc_arm :=
  find (fun a => (ea_size a =? size) && Bool.eqb (ea_signed a) signed) (cd_enc cd).
Definition find_dec_arm (cd : codec) (size : Z) (signed : bool) : option dec_arm :=
  find (fun a => (da_size a =? size) && Bool.eqb (da_signed a) signed) (cd_dec cd).

Definition write_int (n : nat) (signed : bool) (c : cast) (v : Z) : outcome bytes :=
  match c with
  | CastNone | CastTrunc => Ok (le_bytes n v)
  | CastChecked => if in_range n signed v then Ok (le_bytes n v) else Err E_RANGE
  | CastUnrec => Panic P_UNREC
  end.

(* the bytes appended to the string before padding, in the order of the code *)
Definition string_field (cd : codec) (sz : ssize) (m v a : Z) (furibug : bool) (s : list Z)
    (st : option bytes) : outcome (bytes * option bytes) :=
  match sjis_enc s with
  | None => Err E_ENCODING
  | Some e0 =>
      let nul := match sz with
                 | SBlock _ => cd_nul_block cd | SPascal _ => cd_nul_pascal cd
                 | SFixed _ false => cd_nul_fixed cd | SFixed _ true => cd_nul_nulless cd
                 end in
      let e1 := if nul then e0 ++ [0] else e0 in
      let '(e2, st1) := if furibug then match st with Some fb => (e1 ++ fb, None) | None => (e1, None) end
                        else (e1, st) in
      do e3 <- match sz with
               | SBlock bs | SPascal bs =>
                   if bs =? 0 then Panic P_DIV0
                   else if zlen e2 mod bs =? 0 then Ok e2 else null_pad e2 bs
               | SFixed len _ => if len <? zlen e2 then Err E_TOOLARGE else Ok (resize e2 len)
               end;
      let e4 := apply_mask e3 m v a in
      let st2 := if furibug && match s with 124 :: _ => true | _ => false end then Some e4 else st1 in
      let pre := match sz with SPascal _ => le_bytes (cd_pascal_prefix cd) (zlen e4) | _ => [] end in
      Ok (pre ++ e4, st2)
  end.

Record encres := mkres { r_blob : bytes; r_mask : Z; r_extra : option Z; r_warn : list nat }.

(* one non-padding field: bytes and new furigana state *)
Definition encode_field (cd : codec) (e : enc) (a : arg) (st : option bytes) : outcome (bytes * option bytes) :=
  match e with
  | EInt _ _ _ true => Panic P_UNREACH
  | EPad _ => Panic P_UNREACH
  | EOff | ETime =>
      let '(n, sg, c) := cd_enc_jump cd in
      do v <- expect_int a; do b <- write_int n sg c v; Ok (b, st)
  | EInt size signed _ false =>
      match find_enc_arm cd size signed with
      | None => Panic P_UNREACH
      | Some arm => do v <- expect_int a; do b <- write_int (ea_wbytes arm) (ea_wsigned arm) (ea_cast arm) v; Ok (b, st)
      end
  | EFloat _ => do b <- expect_float a; Ok (le_bytes (cd_enc_float cd) b, st)
  | EStr sz m v acc furibug => do s <- expect_string a; string_field cd sz m v acc furibug s st
  end.

(* the `for enc in arg_encodings_iter` loop; [bit] is current_param_mask_bit.
   Result: blob, mask bits set by this suffix, warnings, furigana state, final value of the bit. *)
Fixpoint enc_loop (cd : codec) (sig : list enc) (args : list arg) (bit : Z) (st : option bytes)
  : outcome (bytes * Z * list nat * option bytes * Z) :=
  match sig with
  | [] => Ok ([], 0, [], st, bit)
  | EPad size :: sig' =>
      match zassoc size (cd_enc_pad cd) with
      | None => Panic P_UNREACH
      | Some n =>
          do r <- enc_loop cd sig' args bit st;
          let '(b, m, w, st', bit') := r in Ok (le_bytes n 0 ++ b, m, w, st', bit')
      end
  | e :: sig' =>
      match args with
      | [] => Panic P_EXPECT
      | a :: args' =>
          if cd_mask_overflow_checked cd && a_reg a && contributes cd e && (bit =? 0) then Err E_TOOMANY else
          let arg_bit := if a_reg a then bit else 0 in
          let '(m0, w0, bit1) :=
            if contributes cd e then
              if always_imm cd e && negb (arg_bit =? 0) then (0, [W_IMMREG], (bit * 2) mod 2 ^ cd_mask_bits cd)
              else (arg_bit, [], (bit * 2) mod 2 ^ cd_mask_bits cd)
            else (0, if negb (arg_bit =? 0) then [W_NONPARAM] else [], bit) in
          do f <- encode_field cd e a st;
          let '(b0, st1) := f in
          do r <- enc_loop cd sig' args' bit1 st1;
          let '(b, m, w, st', bit') := r in Ok (b0 ++ b, Z.lor m0 m, w0 ++ w, st', bit')
      end
  end.

Definition encode_args (cd : codec) (has_regs : bool) (sig : list enc) (args : list arg) (st : option bytes)
  : outcome (encres * option bytes) :=
  if negb has_regs && existsb a_reg args then Err E_NOREG
  else
    do h <- match sig with
            | EInt _ _ _ true :: sig' =>
                match args with
                | [] => Panic P_EXPECT
                | a :: args' =>
                    if a_reg a then Panic P_ASSERT
                    else let '(n, sg, c) := cd_arg0 cd in
                         do v <- expect_int a; do b <- write_int n sg c v;
                         Ok (sig', args', Some (interp n sg (le_val b)))
                end
            | _ => Ok (sig, args, None)
            end;
    let '(sig1, args1, extra) := h in
    if zlen sig1 <? zlen args1 then Panic P_ASSERT
    else
      do r <- enc_loop cd sig1 args1 1 st;
      let '(b, m, w, st', _) := r in
      Ok (mkres b m extra w, st').

(* ---- decode_args_with_abi ---- *)
Definition take (n : nat) (l : bytes) : outcome (bytes * bytes) :=
  if (length l <? n)%nat then Panic P_EXPECT else Ok (firstn n l, skipn n l).

Definition decrease_len (remaining amount : Z) : outcome Z :=
  if remaining <? amount then Err E_SHORT else Ok (remaining - amount).

Definition read_int (n : nat) (signed : bool) (l : bytes) : outcome (Z * bytes) :=
  do p <- take n l; let '(h, t) := p in Ok (wrap32 (interp n signed (le_val h)), t).

(* state of the decoding loop: unread bytes, remaining_len, param_mask, pseudo_arg0 *)
Definition dstate := (bytes * Z * Z * option Z)%type.

Definition decode_string (cd : codec) (sz : ssize) (m v a : Z) (furibug : bool) (rest : bytes) (remaining : Z)
  : outcome (list Z * list nat * bytes * Z) :=
  do hdr <- match sz with
            | SBlock _ => Ok (remaining, rest, remaining)
            | SPascal _ =>
                do rem1 <- decrease_len remaining (Z.of_nat (cd_pascal_prefix cd));
                do p <- take (cd_pascal_prefix cd) rest; let '(h, t) := p in Ok (le_val h, t, rem1)
            | SFixed len _ => Ok (len, rest, remaining)
            end;
  let '(read_len, rest1, rem1) := hdr in
  do rem2 <- decrease_len rem1 read_len;
  do p <- take (Z.to_nat read_len) rest1;
  let '(raw, rest2) := p in
  let un := apply_mask raw m v a in
  let un1 := match sz with
             | SFixed _ true => match index_of_nul un with None => un ++ [0] | Some _ => un end
             | _ => un
             end in
  let '(trimmed, w) := trim_first_nul un1 (negb furibug) in
  match sjis_dec trimmed with
  | None => Err E_DECODING
  | Some s => Ok (s, w, rest2, rem2)
  end.

Definition decode_field (cd : codec) (e : enc) (d : dstate) : outcome (arg * list nat * dstate) :=
  let '(rest, remaining, mask, extra) := d in
  match e with
  | EPad size =>
      do rem1 <- decrease_len remaining size;
      match zassoc size (cd_dec_pad cd) with
      | None => Panic P_UNREACH
      | Some (n, sg) => do p <- read_int n sg rest; let '(v, rest1) := p in
                        Ok (mkarg (AInt v) false, [], (rest1, rem1, mask, extra))
      end
  | _ =>
      let '(can_be_param, mask1) :=
        if contributes cd e && (negb (is_arg0 e) || cd_dec_arg0_in_mask cd)
        then (negb (always_imm cd e) && (Z.land mask 1 =? 1), Z.shiftr mask 1)
        else (false, mask) in
      do r <- match e with
              | EPad _ => Panic P_UNREACH
              | EInt _ _ _ true =>
                  match extra with
                  | None => Panic P_EXPECT
                  | Some x => Ok (AInt x, [], (rest, remaining, mask1, None))
                  end
              | EOff | ETime =>
                  let '(len, n, sg) := cd_dec_jump cd in
                  do rem1 <- decrease_len remaining len;
                  do p <- read_int n sg rest; let '(v, rest1) := p in
                  Ok (AInt v, [], (rest1, rem1, mask1, extra))
              | EInt size signed _ false =>
                  match find_dec_arm cd size signed with
                  | None => Panic P_UNREACH
                  | Some arm =>
                      do rem1 <- decrease_len remaining (da_len arm);
                      do p <- read_int (da_rbytes arm) (da_rsigned arm) rest; let '(v, rest1) := p in
                      Ok (AInt v, [], (rest1, rem1, mask1, extra))
                  end
              | EFloat _ =>
                  let '(len, n) := cd_dec_float cd in
                  do rem1 <- decrease_len remaining len;
                  do p <- take n rest; let '(h, rest1) := p in
                  Ok (AFloat (le_val h), [], (rest1, rem1, mask1, extra))
              | EStr sz m v a furibug =>
                  do q <- decode_string cd sz m v a furibug rest remaining;
                  let '(s, w, rest1, rem1) := q in
                  Ok (AStr s, w, (rest1, rem1, mask1, extra))
              end;
      let '(val, w, d1) := r in
      Ok (mkarg val can_be_param, w, d1)
  end.

Fixpoint dec_loop (cd : codec) (sig : list enc) (d : dstate) : outcome (list arg * list nat * dstate) :=
  match sig with
  | [] => Ok ([], [], d)
  | e :: sig' =>
      do r <- decode_field cd e d;
      let '(a, w, d1) := r in
      do r2 <- dec_loop cd sig' d1;
      let '(args, w2, d2) := r2 in
      Ok (a :: args, w ++ w2, d2)
  end.

(* decode_args_with_abi: decoded arguments INCLUDING padding values, warnings, leftover pseudo_arg0 *)
Definition decode_args (cd : codec) (sig : list enc) (r : encres) : outcome (list arg * list nat * option Z) :=
  do x <- dec_loop cd sig (r_blob r, zlen (r_blob r), r_mask r, r_extra r);
  let '(args, w, (rest, _, mask, extra)) := x in
  let w1 := match rest with [] => [] | _ => [W_LEFTOVER] end in
  let w2 := if negb (mask =? 0) then [W_MASKBITS] else [] in
  Ok (args, w ++ w1 ++ w2, extra).

(* raise_raw_ins_args: nonzero padding warning, padding removed *)
Fixpoint drop_padding (sig : list enc) (args : list arg) : list arg :=
  match sig, args with
  | e :: sig', a :: args' => if is_pad e then drop_padding sig' args' else a :: drop_padding sig' args'
  | _, _ => []
  end.
Fixpoint padding_nonzero (sig : list enc) (args : list arg) : bool :=
  match sig, args with
  | e :: sig', a :: args' =>
      (is_pad e && match a_val a with AInt 0 => false | _ => true end) || padding_nonzero sig' args'
  | _, _ => false
  end.

(* raise_arg_to_reg: a register stored as a float must be an integer (`x == x.round()`); by bit pattern *)
Definition f32_is_integral (bits : Z) : bool :=
  let e := (bits / 2 ^ 23) mod 256 in
  let m := bits mod 2 ^ 23 in
  if (e =? 255) && negb (m =? 0) then false                (* NaN *)
  else if 150 <=? e then true                             (* |x| >= 2^23, infinities *)
  else if e <? 127 then (e =? 0) && (m =? 0)               (* |x| < 1: only zero *)
  else m mod 2 ^ (150 - e) =? 0.
Definition bad_float_reg (a : arg) : bool :=
  a_reg a && match a_val a with AFloat b => negb (f32_is_integral b) | _ => false end.

(* what `ins_N(...)` shows after decompilation: arguments without padding, warnings *)
Definition decode_call (cd : codec) (sig : list enc) (r : encres) : outcome (list arg * list nat) :=
  do x <- decode_args cd sig r;
  let '(args, w, _) := x in
  if negb (length args =? length sig)%nat then Err E_ARGCOUNT
  else if existsb bad_float_reg args then Err E_REGBIT
  else Ok (drop_padding sig args, w ++ (if padding_nonzero sig args then [W_PADNZ] else [])).

(* ---- metadata strings (C15) ---- *)
(* BinWrite::write_cstring / BinRead::read_cstring_blockwise *)
Definition write_cstring (l : bytes) (bs : Z) : outcome bytes := null_pad l bs.

Fixpoint strip_trailing_nuls_rev (r : bytes) : bytes :=
  match r with 0 :: t => strip_trailing_nuls_rev t | _ => r end.
Definition strip_trailing_nuls (l : bytes) : bytes := rev (strip_trailing_nuls_rev (rev l)).

(* reads blocks until one ends in NUL; fuel = number of blocks available *)
Fixpoint read_blocks (fuel : nat) (bs : nat) (acc input : bytes) : outcome (bytes * bytes) :=
  match fuel with
  | O => Err E_SHORT                       (* read_exact fails at end of input *)
  | S k =>
      if (length input <? bs)%nat then Err E_SHORT
      else let acc' := acc ++ firstn bs input in
           match last acc' 1 with
           | 0 => Ok (acc', skipn bs input)
           | _ => read_blocks k bs acc' (skipn bs input)
           end
  end.
Definition read_cstring_blockwise (bs : Z) (input : bytes) : outcome (bytes * bytes) :=
  if bs =? 0 then Panic P_ASSERT
  else do r <- read_blocks (S (length input)) (Z.to_nat bs) [] input;
       let '(acc, rest) := r in Ok (strip_trailing_nuls acc, rest).

(* Encoded::encode_fixed_size / read_cstring_exact (STD 128-byte names, mission 64-byte lines) *)
Definition encode_fixed_size (s : list Z) (buf : Z) : outcome bytes :=
  match sjis_enc s with
  | None => Err E_ENCODING
  | Some e => if buf <=? zlen e then Err E_TOOLONG else Ok (resize e buf)
  end.
Definition read_cstring_exact (n : Z) (input : bytes) : outcome (bytes * list nat * bytes) :=
  do p <- match take (Z.to_nat n) input with Panic _ => Err E_SHORT | x => x end;
  let '(h, rest) := p in
  let '(t, w) := trim_first_nul h true in Ok (t, w, rest).

(* whole paths: source string -> file bytes -> string *)
Definition write_path (s : list Z) (bs : Z) : outcome bytes :=
  match sjis_enc s with None => Err E_ENCODING | Some e => write_cstring e bs end.
Definition read_path (bs : Z) (input : bytes) : outcome (list Z * bytes) :=
  do r <- read_cstring_blockwise bs input;
  let '(b, rest) := r in
  match sjis_dec b with None => Err E_DECODING | Some s => Ok (s, rest) end.
Definition write_name (s : list Z) (buf : Z) : outcome bytes := encode_fixed_size s buf.
Definition read_name (buf : Z) (input : bytes) : outcome (list Z * list nat * bytes) :=
  do r <- read_cstring_exact buf input;
  let '(b, w, rest) := r in
  match sjis_dec b with None => Err E_DECODING | Some s => Ok (s, w, rest) end.

End WithSjis.

(* ---- how a call `ins_N(args...)` is checked against the signature ----
   abi_to_signature (abi.rs), type_check.rs check_expr_call, const_simplify.rs validate_call_const_args,
   defs.rs Signature::{min_args, match_params_to_args} *)
Inductive aty := TInt | TFloat | TStr.
Definition aty_eqb (a b : aty) : bool :=
  match a, b with TInt, TInt | TFloat, TFloat | TStr, TStr => true | _, _ => false end.
Definition ty_of_enc (e : enc) : aty :=
  match e with EFloat _ => TFloat | EStr _ _ _ _ _ => TStr | _ => TInt end.
Definition ty_of_arg (a : arg) : aty :=
  match a_val a with AInt _ => TInt | AFloat _ => TFloat | AStr _ => TStr end.
(* reg_ok of abi_to_signature *)
Definition reg_ok (e : enc) : bool :=
  match e with EInt _ _ _ true => false | EOff | ETime | EPad _ => false | _ => true end.

Definition nonpad (sig : list enc) : list enc := filter (fun e => negb (is_pad e)) sig.
Definition matched_params (cd : codec) (sig : list enc) : list enc :=
  if cd_match_skips_padding cd then nonpad sig else sig.

(* zip of parameters and arguments (stops at the shorter list) *)
Fixpoint check_pairs (ps : list enc) (args : list arg) : bool :=
  match ps, args with
  | p :: ps', a :: args' =>
      aty_eqb (ty_of_enc p) (ty_of_arg a) && (reg_ok p || negb (a_reg a)) && check_pairs ps' args'
  | _, _ => true
  end.

Definition check_call (cd : codec) (sig : list enc) (args : list arg) : bool :=
  (length (nonpad sig) =? length args)%nat && check_pairs (matched_params cd sig) args.

Definition E_CALL : nat := 31.      (* wrong number of arguments / type error / argument must be constant *)
