(* Model/Lower.v -- the stack-less lowerer (src/llir/lower/stackless.rs, lower/intrinsic.rs,
   llir/intrinsic.rs `alternatives`): flat statements with expressions  |->  a stream of intrinsic
   instructions, labels and RegAlloc/RegFree markers.  Executable definitions only.
   The recursion of the Rust functions is mirrored one to one, on explicit fuel. *)
From TV Require Import Base.I32 Base.F32 Model.Ops Model.Expr.
Open Scope Z_scope.

Inductive ty := TInt | TFloat.
Definition ty_eqb (a b : ty) : bool := match a, b with TInt, TInt | TFloat, TFloat => true | _, _ => false end.
Definition ty_of_sigil (s : sigil) : ty := match s with SgInt => TInt | SgFloat => TFloat end.
Definition sigil_of_ty (t : ty) : sigil := match t with TInt => SgInt | TFloat => SgFloat end.

(* a storage location: two variables alias iff they have the same lvar (AliasableId) *)
Inductive lvar := VReg (r : Z) | VLoc (d : nat).
Definition lvar_eqb (a b : lvar) : bool :=
  match a, b with
  | VReg x, VReg y => x =? y
  | VLoc x, VLoc y => Nat.eqb x y
  | _, _ => false
  end.

(* ast::Var *)
Record var := mkvar { v_sg : option sigil; v_id : lvar }.

Definition var_expr (v : var) : expr :=
  match v_id v with VReg r => EReg (v_sg v) r | VLoc d => EVar (v_sg v) d end.

(* assignment operators: None is plain `=` *)
Definition assignop := option binop.

Inductive label := LUser (n : nat) | LGen (kind : nat) (n : nat).
Definition GK_TERN_FALSE : nat := 0.
Definition GK_TERN_END : nat := 1.
Definition GK_SKIP : nat := 2.

(* LowerArg (the part that matters before encoding) *)
Inductive targ :=
| TImm (v : value)
| TVar (t : ty) (x : lvar)                 (* Raw(from_reg(reg, read_ty)) / Local { def_id, storage_ty } *)
| TDiff (cases : list (option targ))
| TOffsetOf (l : label)
| TTimeOf (l : label).

Inductive kw := KwIf | KwUnless.
Definition kw_negate (k : kw) : kw := match k with KwIf => KwUnless | KwUnless => KwIf end.

(* intrinsic instructions, at the level of IntrinsicInstrKind *)
Inductive tinstr :=
| IAssignOp (aop : assignop) (t : ty) (dst src : targ)
| IBinOp (op : binop) (t : ty) (dst a b : targ)
| IUnOp (op : unop) (t : ty) (dst a : targ)
| ICondJmp (op : binop) (t : ty) (a b : targ) (l : label) (time : option Z)
| ICmp (t : ty) (a b : targ)
| ICmpJmp (op : binop) (l : label) (time : option Z)
| ICountJmp (op : binop) (x : targ) (l : label) (time : option Z)
| IJmp (l : label) (time : option Z)
| IInterrupt (n : Z)
| ICall (opcode : Z) (args : list targ).

(* LowerStmt; [time], [mask] = TimeAndDifficulty of the originating statement *)
Inductive lstmt :=
| LInstr (time : Z) (mask : Z) (i : tinstr)
| LLabel (time : Z) (l : label)
| LAlloc (d : nat) (t : ty)
| LFree (d : nat).

(* conditions of conditional jumps: CountJmpKind::of_cond recognises `--v`, `--v != 0`, `--v > 0` *)
Inductive cond :=
| CPredec (v : var)                 (* --v         : PredecNeZero *)
| CPredecCmp (v : var) (op : binop) (* --v op 0    : op = Ne -> PredecNeZero, Gt -> PredecGtZero *)
| CExpr (e : expr).

(* flat source statements (after desugar_blocks) *)
Inductive sstmt :=
| SAssign (v : var) (aop : assignop) (e : expr)
| SDecl (t : ty) (vars : list (nat * option expr))
| SCondJmp (k : kw) (c : cond) (l : label) (time : option Z)
| SJmp (l : label) (time : option Z)
| SLabel (l : label)
| SCall (opcode : Z) (args : list expr)
| SScopeEnd (d : nat)
| SInterrupt (e : expr)
| SNop.

Definition E_UNSUPPORTED : nat := 10.
Definition E_NONCONST_INTERRUPT : nat := 11.
Definition E_STRING_TEMP : nat := 12.

(* which intrinsics the language has (IntrinsicInstrs), abstractly *)
Inductive ikind :=
| KJmp | KInterrupt
| KAssignOp (aop : assignop) (t : ty)
| KBinOp (op : binop) (t : ty)
| KUnOp (op : unop) (t : ty)
| KCountJmp (op : binop)
| KCondJmp (op : binop) (t : ty)
| KCmp (t : ty)
| KCmpJmp (op : binop).

Section Lower.
  Variable avail : ikind -> bool.       (* intrinsic_instrs.get_opcode_opt(kind).is_some() *)
  Variable auto_casts : bool.           (* hooks.has_auto_casts() *)
  Variable rty : Z -> ty.               (* inherent type of a register *)
  Variable lty : nat -> ty.             (* declared type of a source local *)

  (* types of locals: source locals by [lty]; temporaries record their type at allocation *)
  Definition tenv := list (nat * ty).
  Definition loc_ty (te : tenv) (d : nat) : ty :=
    match assoc te d with Some t => t | None => lty d end.

  Definition var_read_ty (te : tenv) (v : var) : ty :=
    match v_sg v with
    | Some s => ty_of_sigil s
    | None => match v_id v with VReg r => rty r | VLoc d => loc_ty te d end
    end.

  (* ast::Expr::compute_ty, on the numeric fragment *)
  Definition is_arith (op : binop) : bool :=
    match op with Add | Sub | Mul | Div | Rem => true | _ => false end.
  Definition is_comparison (op : binop) : bool :=
    match op with Eq | Ne | Lt | Le | Gt | Ge => true | _ => false end.

  Fixpoint ety (te : tenv) (e : expr) : ty :=
    match e with
    | ELitI _ => TInt
    | ELitF _ => TFloat
    | ELitS _ => TInt
    | EReg sg r => var_read_ty te (mkvar sg (VReg r))
    | EVar sg d => var_read_ty te (mkvar sg (VLoc d))
    | EEnum _ => TInt
    | EUn op x =>
        match op with
        | Neg => ety te x
        | Not | BitNot => TInt
        | Sin | Cos | Tan | Asin | Acos | Atan | Sqrt => TFloat
        | EncodeI | CastI => TInt
        | EncodeF | CastF => TFloat
        end
    | EBin a op _ => if is_arith op then ety te a else TInt
    | ETern _ l _ => ety te l
    | EDiff cases => match cases with Some c :: _ => ety te c | _ => TInt end
    | ECall _ _ => TInt
    | EOpaque _ => TInt
    end.

  (* UnOpKind::as_ty_sigil_with_auto_cast / as_ty_sigil / is_cast_of_type *)
  Definition as_sigil_auto (op : unop) : option sigil :=
    match op with EncodeI | CastI => Some SgInt | EncodeF | CastF => Some SgFloat | _ => None end.
  Definition is_cast_of_type (op : unop) (t : ty) : bool :=
    match op, t with CastI, TInt | CastF, TFloat => true | _, _ => false end.

  Inductive eclass :=
  | Simple (a : targ) (t : ty)
  | Elab (tmp_expr : expr) (tmp_ty read_ty : ty).

  (* classify_expr (difficulty switches: all-simple switches are simple) *)
  Fixpoint classify (te : tenv) (e : expr) : eclass :=
    match e with
    | ELitI z => Simple (TImm (VInt z)) TInt
    | ELitF b => Simple (TImm (VFloat b)) TFloat
    | ELitS s => Simple (TImm (VStr s)) TInt
    | EReg sg r => let t := var_read_ty te (mkvar sg (VReg r)) in Simple (TVar t (VReg r)) t
    | EVar sg d => let t := var_read_ty te (mkvar sg (VLoc d)) in Simple (TVar t (VLoc d)) t
    | EUn op b =>
        match as_sigil_auto op with
        | Some sg =>
            let tmp_ty := ety te b in
            let easy := auto_casts || (match sigil_of_unop op with Some _ => true | None => false end)
                        || is_cast_of_type op tmp_ty in
            if easy then Elab b tmp_ty (ty_of_sigil sg) else Elab e (ety te e) (ety te e)
        | None => Elab e (ety te e) (ety te e)
        end
    | EDiff cases =>
        let fix go (l : list (option expr)) (acc : list (option targ)) (t : option ty) : option (list (option targ) * option ty) :=
          match l with
          | [] => Some (rev acc, t)
          | None :: rest => go rest (None :: acc) t
          | Some c :: rest =>
              match classify te c with
              | Simple a tc => go rest (Some a :: acc) (Some tc)
              | Elab _ _ _ => None
              end
          end in
        match go cases [] None with
        | Some (lowered, Some t) => Simple (TDiff lowered) t
        | _ => Elab e (ety te e) (ety te e)
        end
    | _ => Elab e (ety te e) (ety te e)
    end.

  (* expr_uses_var *)
  Fixpoint uses_var (x : lvar) (e : expr) : bool :=
    match e with
    | EReg _ r => lvar_eqb x (VReg r)
    | EVar _ d => lvar_eqb x (VLoc d)
    | EUn _ a => uses_var x a
    | EBin a _ b => uses_var x a || uses_var x b
    | ETern c l r => uses_var x c || uses_var x l || uses_var x r
    | EDiff cases => existsb (fun c => match c with Some a => uses_var x a | None => false end) cases
    | ECall _ args => existsb (uses_var x) args
    | _ => false
    end.

  (* alternatives::discover_alternatives *)
  Inductive alt_unop := AUIntrinsic | AUViaConstBinOp (a : value) (op : binop).
  Definition alt_unop_for (op : unop) (t : ty) : option alt_unop :=
    if avail (KUnOp op t) then Some AUIntrinsic
    else match op with
         | Neg => if avail (KBinOp Mul t)
                  then Some (AUViaConstBinOp (match t with TInt => VInt (-1) | TFloat => VFloat F_NEG_ONE end) Mul)
                  else None
         | BitNot => match t with
                     | TInt => if avail (KBinOp Sub TInt) then Some (AUViaConstBinOp (VInt (-1)) Sub) else None
                     | TFloat => None
                     end
         | _ => None
         end.

  Inductive alt_assign := AAIntrinsic | AAViaBinOp (op : binop).
  Definition alt_assign_for (aop : assignop) (t : ty) : option alt_assign :=
    if avail (KAssignOp aop t) then Some AAIntrinsic
    else match aop with
         | Some b => if avail (KBinOp b t) then Some (AAViaBinOp b) else None
         | None => None
         end.

  Inductive alt_condjmp := ACIntrinsic | ACTwoPart.
  Definition alt_condjmp_for (op : binop) (t : ty) : option alt_condjmp :=
    if avail (KCondJmp op t) then Some ACIntrinsic
    else if avail (KCmp t) && avail (KCmpJmp op) then Some ACTwoPart
    else None.

  Definition negate_comparison (op : binop) : option binop :=
    match op with
    | Eq => Some Ne | Ne => Some Eq | Le => Some Gt | Ge => Some Lt | Lt => Some Ge | Gt => Some Le
    | _ => None
    end.

  (* lowering state: gensym counter, types of live temporaries, current (time, mask) *)
  Record lst := mklst { g : nat; te : tenv }.

  Definition res := outcome (list lstmt * lst).
  Definition ret (code : list lstmt) (s : lst) : res := Ok (code, s).
  Definition seq (a : res) (k : lst -> res) : res :=
    match a with
    | Ok (c1, s1) => match k s1 with Ok (c2, s2) => Ok (c1 ++ c2, s2) | Err t => Err t | Panic t => Panic t | OutOfFuel => OutOfFuel end
    | Err t => Err t | Panic t => Panic t | OutOfFuel => OutOfFuel
    end.

  Section Stmt.
    Variable time : Z.
    Variable mask : Z.

    Definition instr (i : tinstr) (s : lst) : res := ret [LInstr time mask i] s.
    Definition need (k : ikind) (i : tinstr) (s : lst) : res :=
      if avail k then instr i s else Err E_UNSUPPORTED.

    (* lower_var_to_arg *)
    Definition var_arg (s : lst) (v : var) : targ * ty :=
      let t := var_read_ty (te s) v in (TVar t (v_id v), t).

    (* allocate_temporary: the temporary's DefId is the gensym counter *)
    Definition alloc_temp (t : ty) (s : lst) : nat * var * lst :=
      let d := g s in
      (d, mkvar (Some (sigil_of_ty t)) (VLoc d), mklst (S (g s)) ((d, t) :: te s)).

    (* lower_assign_op_intrinsic *)
    Definition assign_intrinsic (v : var) (aop : assignop) (a : targ) (ta : ty) (s : lst) : res :=
      let '(dst, tv) := var_arg s v in
      if negb (ty_eqb tv ta) then Panic P_TYPE
      else match alt_assign_for aop tv with
           | None => Err E_UNSUPPORTED
           | Some AAIntrinsic => instr (IAssignOp aop tv dst a) s
           | Some (AAViaBinOp b) => instr (IBinOp b tv dst dst a) s
           end.

    (* lower_assign_direct_unop_intrinsic *)
    Definition unop_intrinsic (dst : targ) (op : unop) (b : targ) (tb : ty) (s : lst) : res :=
      match alt_unop_for op tb with
      | None => Err E_UNSUPPORTED
      | Some AUIntrinsic => instr (IUnOp op tb dst b) s
      | Some (AUViaConstBinOp a bop) => instr (IBinOp bop tb dst (TImm a) b) s
      end.

    (* lower_cond_jump_intrinsic *)
    Definition condjmp_intrinsic (a : targ) (ta : ty) (op : binop) (b : targ) (tb : ty)
               (l : label) (jt : option Z) (s : lst) : res :=
      if negb (ty_eqb ta tb) then Panic P_TYPE
      else match alt_condjmp_for op ta with
           | None => Err E_UNSUPPORTED
           | Some ACIntrinsic => instr (ICondJmp op ta a b l jt) s
           | Some ACTwoPart => seq (instr (ICmp ta a b) s) (instr (ICmpJmp op l jt))
           end.

    Definition read_as (v : var) (t : ty) : expr :=
      var_expr (mkvar (Some (sigil_of_ty t)) (v_id v)).

    Definition gen_label (kind : nat) (s : lst) : label * lst :=
      (LGen kind (g s), mklst (S (g s)) (te s)).

    (* The mutually recursive lowering functions, on fuel.  [which] selects the function:
       this keeps one structurally recursive definition. *)
    Inductive call :=
    | CAssignOp (v : var) (aop : assignop) (rhs : expr)                       (* lower_assign_op *)
    | CBinop (v : var) (a : expr) (op : binop) (b : expr)                     (* lower_assign_direct_binop *)
    | CUnop (v : var) (op : unop) (b : expr)                                  (* lower_assign_direct_unop *)
    | CTernary (v : var) (c l r : expr)                                       (* lower_assign_direct_ternary *)
    | CCondNonCount (k : kw) (e : expr) (l : label) (jt : option Z)           (* lower_cond_jump_non_count *)
    | CCondCmp (k : kw) (a : expr) (op : binop) (b : expr) (l : label) (jt : option Z)  (* lower_cond_jump_comparison *)
    | CCondLogic (k : kw) (a : expr) (op : binop) (b : expr) (l : label) (jt : option Z). (* lower_cond_jump_logic_binop *)

    Fixpoint lower (fuel : nat) (c : call) (s : lst) {struct fuel} : res :=
      match fuel with
      | O => OutOfFuel
      | S f =>
          (* define_temporary = allocate_temporary + compute_temporary_expr *)
          let define_temp (tmp_expr : expr) (tmp_ty read_ty : ty) (s : lst)
              (k : nat -> expr -> lst -> res) : res :=
            let '(d, tv, s1) := alloc_temp tmp_ty s in
            seq (ret [LAlloc d tmp_ty] s1) (fun s2 =>
            seq (lower f (CAssignOp tv None tmp_expr) s2) (fun s3 =>
            k d (read_as tv read_ty) s3)) in
          let undefine (d : nat) (s : lst) : res := ret [LFree d] s in
          match c with
          | CAssignOp v aop rhs =>
              match classify (te s) rhs with
              | Simple a ta => assign_intrinsic v aop a ta s
              | Elab tmp_expr tmp_ty read_ty =>
                  if negb (ty_eqb read_ty tmp_ty) then
                    define_temp tmp_expr tmp_ty read_ty s (fun d tmp_as_expr s1 =>
                    seq (lower f (CAssignOp v aop tmp_as_expr) s1) (undefine d))
                  else
                    match aop, tmp_expr with
                    | None, EBin a op b => lower f (CBinop v a op b) s
                    | None, EUn op b => lower f (CUnop v op b) s
                    | None, EDiff _ => Err E_UNSUPPORTED   (* stage: difficulty switches, see Model/Diff *)
                    | None, ETern c l r => lower f (CTernary v c l r) s
                    | None, _ => Err E_UNSUPPORTED
                    | Some _, _ =>
                        define_temp tmp_expr tmp_ty read_ty s (fun d tmp_as_expr s1 =>
                        seq (lower f (CAssignOp v aop tmp_as_expr) s1) (undefine d))
                    end
              end
          | CBinop v a op b =>
              let ty_rhs := if is_arith op then ety (te s) a else TInt in
              match classify (te s) a with
              | Elab ea tmp_ty read_ty =>
                  if ty_eqb tmp_ty ty_rhs && ty_eqb tmp_ty read_ty && negb (uses_var (v_id v) b) then
                    seq (lower f (CAssignOp v None ea) s) (fun s1 =>
                    lower f (CBinop v (read_as v read_ty) op b) s1)
                  else
                    define_temp ea tmp_ty read_ty s (fun d tmp_as_expr s1 =>
                    seq (lower f (CBinop v tmp_as_expr op b) s1) (undefine d))
              | Simple la ta =>
                  match classify (te s) b with
                  | Elab eb tmp_ty read_ty =>
                      if ty_eqb tmp_ty ty_rhs && ty_eqb tmp_ty read_ty && negb (uses_var (v_id v) a) then
                        seq (lower f (CAssignOp v None eb) s) (fun s1 =>
                        lower f (CBinop v a op (read_as v read_ty)) s1)
                      else
                        define_temp eb tmp_ty read_ty s (fun d tmp_as_expr s1 =>
                        seq (lower f (CBinop v a op tmp_as_expr) s1) (undefine d))
                  | Simple lb tb =>
                      let '(dst, tv) := var_arg s v in
                      if negb (ty_eqb tv ty_rhs) then Panic P_TYPE
                      else need (KBinOp op ta) (IBinOp op ta dst la lb) s
                  end
              end
          | CUnop v op b =>
              let ty_rhs := ety (te s) (EUn op b) in
              match classify (te s) b with
              | Elab eb tmp_ty read_ty =>
                  if ty_eqb tmp_ty ty_rhs && ty_eqb tmp_ty read_ty then
                    seq (lower f (CAssignOp v None eb) s) (fun s1 =>
                    lower f (CUnop v op (read_as v read_ty)) s1)
                  else
                    define_temp eb tmp_ty read_ty s (fun d tmp_as_expr s1 =>
                    seq (lower f (CUnop v op tmp_as_expr) s1) (undefine d))
              | Simple lb tb =>
                  let '(dst, tv) := var_arg s v in
                  if negb (ty_eqb tv ty_rhs) then Panic P_TYPE
                  else unop_intrinsic dst op lb tb s
              end
          | CTernary v c l r =>
              let '(false_label, s1) := gen_label GK_TERN_FALSE s in
              let '(end_label, s2) := gen_label GK_TERN_END s1 in
              seq (lower f (CCondNonCount KwUnless c false_label None) s2) (fun s3 =>
              seq (lower f (CAssignOp v None l) s3) (fun s4 =>
              seq (need KJmp (IJmp end_label None) s4) (fun s5 =>
              seq (ret [LLabel time false_label] s5) (fun s6 =>
              seq (lower f (CAssignOp v None r) s6) (fun s7 =>
              ret [LLabel time end_label] s7)))))
          | CCondNonCount k e l jt =>
              match e with
              | EBin a op b =>
                  if is_comparison op then lower f (CCondCmp k a op b l jt) s
                  else match op with
                       | LogicAnd | LogicOr => lower f (CCondLogic k a op b l jt) s
                       | _ => if negb (ty_eqb (ety (te s) e) TInt) then Panic P_TYPE
                              else lower f (CCondCmp k e Ne (ELitI 0) l jt) s
                       end
              | EUn Not b => lower f (CCondNonCount (kw_negate k) b l jt) s
              | _ => if negb (ty_eqb (ety (te s) e) TInt) then Panic P_TYPE
                     else lower f (CCondCmp k e Ne (ELitI 0) l jt) s
              end
          | CCondCmp k a op b l jt =>
              match classify (te s) a, classify (te s) b with
              | Elab ea tmp_ty read_ty, _ =>
                  define_temp ea tmp_ty read_ty s (fun d var_expr s1 =>
                  seq (lower f (CCondCmp k var_expr op b l jt) s1) (undefine d))
              | Simple _ _, Elab eb tmp_ty read_ty =>
                  define_temp eb tmp_ty read_ty s (fun d var_expr s1 =>
                  seq (lower f (CCondCmp k a op var_expr l jt) s1) (undefine d))
              | Simple la ta, Simple lb tb =>
                  match (match k with KwIf => Some op | KwUnless => negate_comparison op end) with
                  | None => Panic P_EXPECT
                  | Some op' => condjmp_intrinsic la ta op' lb tb l jt s
                  end
              end
          | CCondLogic k a op b l jt =>
              match (match k, op with
                     | KwIf, LogicOr | KwUnless, LogicAnd => Some true
                     | KwIf, LogicAnd | KwUnless, LogicOr => Some false
                     | _, _ => None
                     end) with
              | None => Panic P_EXPECT
              | Some true =>
                  seq (lower f (CCondNonCount k a l jt) s) (fun s1 =>
                  lower f (CCondNonCount k b l jt) s1)
              | Some false =>
                  let '(skip, s1) := gen_label GK_SKIP s in
                  seq (lower f (CCondNonCount (kw_negate k) a skip None) s1) (fun s2 =>
                  seq (lower f (CCondNonCount (kw_negate k) b skip None) s2) (fun s3 =>
                  seq (need KJmp (IJmp l jt) s3) (fun s4 =>
                  ret [LLabel time skip] s4)))
              end
          end
      end.

    (* lower_count_jump_intrinsic *)
    Definition lower_count_jump (k : kw) (v : var) (op : binop) (l : label) (jt : option Z) (s : lst) : res :=
      if negb (avail (KCountJmp op)) then Err E_UNSUPPORTED
      else
        let '(x, tv) := var_arg s v in
        if negb (ty_eqb tv TInt) then Panic P_TYPE
        else match k with
             | KwIf => instr (ICountJmp op x l jt) s
             | KwUnless =>
                 let '(skip, s1) := gen_label GK_SKIP s in
                 seq (instr (ICountJmp op x skip None) s1) (fun s2 =>
                 seq (need KJmp (IJmp l jt) s2) (fun s3 =>
                 ret [LLabel time skip] s3))
             end.

    (* lower_instruction: complex arguments go through temporaries, freed in reverse order *)
    Fixpoint lower_args (fuel : nat) (args : list expr) (s : lst) : outcome (list lstmt * list targ * list nat * lst) :=
      match args with
      | [] => Ok ([], [], [], s)
      | e :: rest =>
          match classify (te s) e with
          | Simple a _ =>
              match lower_args fuel rest s with
              | Ok (c, la, ds, s') => Ok (c, a :: la, ds, s')
              | Err t => Err t | Panic t => Panic t | OutOfFuel => OutOfFuel
              end
          | Elab tmp_expr tmp_ty read_ty =>
              let '(d, tv, s1) := alloc_temp tmp_ty s in
              match lower fuel (CAssignOp tv None tmp_expr) s1 with
              | Ok (c1, s2) =>
                  match lower_args fuel rest s2 with
                  | Ok (c, la, ds, s') => Ok (LAlloc d tmp_ty :: c1 ++ c, TVar read_ty (VLoc d) :: la, d :: ds, s')
                  | Err t => Err t | Panic t => Panic t | OutOfFuel => OutOfFuel
                  end
              | Err t => Err t | Panic t => Panic t | OutOfFuel => OutOfFuel
              end
          end
      end.

    Definition lower_stmt (fuel : nat) (st : sstmt) (s : lst) : res :=
      match st with
      | SAssign v aop e => lower fuel (CAssignOp v aop e) s
      | SDecl t vars =>
          (fix go (vs : list (nat * option expr)) (s : lst) : res :=
             match vs with
             | [] => ret [] s
             | (d, init) :: rest =>
                 seq (ret [LAlloc d t] s) (fun s1 =>
                 seq (match init with
                      | Some e => lower fuel (CAssignOp (mkvar None (VLoc d)) None e) s1
                      | None => ret [] s1
                      end) (go rest))
             end) vars s
      | SCondJmp k (CPredec v) l jt => lower_count_jump k v Ne l jt s
      | SCondJmp k (CPredecCmp v op) l jt =>
          match op with
          | Ne => lower_count_jump k v Ne l jt s
          | Gt => lower_count_jump k v Gt l jt s
          | _ => Err E_UNSUPPORTED
          end
      | SCondJmp k (CExpr e) l jt => lower fuel (CCondNonCount k e l jt) s
      | SJmp l jt => need KJmp (IJmp l jt) s
      | SLabel l => ret [LLabel time l] s
      | SCall opcode args =>
          match lower_args fuel args s with
          | Ok (c, la, ds, s') => Ok (c ++ [LInstr time mask (ICall opcode la)] ++ map LFree (rev ds), s')
          | Err t => Err t | Panic t => Panic t | OutOfFuel => OutOfFuel
          end
      | SScopeEnd d => ret [LFree d] s
      | SInterrupt e =>
          match e with
          | ELitI n => need KInterrupt (IInterrupt n) s
          | _ => Err E_NONCONST_INTERRUPT
          end
      | SNop => ret [] s
      end.
  End Stmt.
End Lower.
