(* Model/RegAlloc.v -- executable model of the register allocator of the stackless lowerer
   (src/llir/lower/stackless.rs: assign_registers, get_explicitly_used_regs, each_lower_arg,
   PersistentState::finish).  Definitions only; proofs are in Proofs/RegAlloc*.v.

   The statement stream ([lstmt]) is the private `LowerStmt` of src/llir/lower.rs.  The allocator
   walks it once: RegAlloc pops a register of the local's type from the per-type free list,
   RegFree pushes it back, every `LowerArg::Local` inside an instruction (also inside a difficulty
   switch) is replaced by the register currently bound to that local. *)
From TV Require Import Base.I32.
Open Scope Z_scope.

(* ScalarType *)
Inductive ty := TInt | TFloat | TString.

Definition ty_eqb (a b : ty) : bool :=
  match a, b with TInt, TInt | TFloat, TFloat | TString, TString => true | _, _ => false end.

(* SimpleArg: a register (id, type its id is encoded as) or an immediate (int value / f32 bits) *)
Inductive sarg := SReg (r : Z) (sty : ty) | SImm (v : Z).

(* LowerArg *)
Inductive larg :=
| Raw (a : sarg)
| Local (d : N) (sty : ty)
| DiffSwitch (cases : list (option larg))
| ALabel (l : N)
| ATimeOf (l : N).

(* LowerArgs *)
Inductive largs := Known (l : list larg) | Blob.

(* LowerStmt; of LowerInstr only opcode, time, difficulty mask and args matter here *)
Inductive lstmt :=
| Instr (op time diff : Z) (args : largs)
| Label (l : N)
| RegAlloc (d : N)
| RegFree (d : N).

(* HowBadIsIt *)
Inductive howbad := ThisFunction | WaterElf.

Definition E_TOO_COMPLEX : nat := 50.  (* "script too complex to compile" *)
Definition E_ANTI_SUB : nat := 51.     (* "scratch registers are disabled in this script" *)
Definition E_ANTI_FILE : nat := 52.    (* "scratch registers are disabled in this entire file" *)
Definition P_ASSERT : nat := 7.        (* assert!(..) failed *)

(* ---------------------------------------------------------------------------------------- *)
(* small list utilities *)

Definition memZ (x : Z) (l : list Z) : bool := existsb (Z.eqb x) l.
Definition memN (x : N) (l : list N) : bool := existsb (N.eqb x) l.

Fixpoint lookup (d : N) (l : list (N * Z)) : option Z :=
  match l with
  | [] => None
  | (k, v) :: t => if N.eqb d k then Some v else lookup d t
  end.

Fixpoint remove_key (d : N) (l : list (N * Z)) : list (N * Z) :=
  match l with
  | [] => []
  | (k, v) :: t => if N.eqb d k then remove_key d t else (k, v) :: remove_key d t
  end.

(* IdMap::insert *)
Definition insert (d : N) (r : Z) (l : list (N * Z)) : list (N * Z) := (d, r) :: remove_key d l.

Definition removeZ (x : Z) (l : list Z) : list Z := filter (fun y => negb (Z.eqb x y)) l.
Definition addZ (x : Z) (l : list Z) : list Z := if memZ x l then l else x :: l.

(* ---------------------------------------------------------------------------------------- *)
(* registers named by the code *)

(* SimpleArg::get_reg_id *)
Definition sarg_reg (a : sarg) : list Z := match a with SReg r _ => [r] | SImm _ => [] end.

(* get_explicitly_used_regs before commit 4000fd0 (defect #3): only top-level `LowerArg::Raw` *)
Definition explicit_arg_top (a : larg) : list Z :=
  match a with Raw s => sarg_reg s | _ => [] end.

(* get_explicitly_used_regs (since 4000fd0): every Raw argument, also inside difficulty switches *)
Fixpoint explicit_arg_deep (a : larg) : list Z :=
  match a with
  | Raw s => sarg_reg s
  | DiffSwitch cs =>
      (fix go (l : list (option larg)) : list Z :=
         match l with
         | [] => []
         | None :: t => go t
         | Some x :: t => explicit_arg_deep x ++ go t
         end) cs
  | _ => []
  end.

Definition explicit_stmt (f : larg -> list Z) (x : lstmt) : list Z :=
  match x with
  | Instr _ _ _ (Known args) => flat_map f args
  | _ => []
  end.

Definition explicit_regs_top (code : list lstmt) : list Z := flat_map (explicit_stmt explicit_arg_top) code.
Definition explicit_regs_deep (code : list lstmt) : list Z := flat_map (explicit_stmt explicit_arg_deep) code.

(* the version in force is selected by what gen/regs.py finds in the source (the theorems of
   Props/C05.v need the second one) *)
Definition explicit_regs_sel (deep : bool) : list lstmt -> list Z :=
  if deep then explicit_regs_deep else explicit_regs_top.

(* ---------------------------------------------------------------------------------------- *)
(* configuration and allocator state *)

Record cfg := {
  general : ty -> list Z;              (* hooks.general_use_regs() *)
  anti : Z -> option howbad;           (* hooks.instr_disables_scratch_regs(opcode) *)
  params : list (option N * Z);        (* this_sub_info.param_registers(..): (name's DefId, register) *)
  tyof : N -> option ty;               (* ctx.defs.var_inherent_ty(def_id).as_known_ty() *)
  explicit : list lstmt -> list Z;     (* get_explicitly_used_regs *)
}.

Record pools := { p_int : list Z; p_float : list Z; p_string : list Z }.

Definition getp (p : pools) (t : ty) : list Z :=
  match t with TInt => p_int p | TFloat => p_float p | TString => p_string p end.
Definition setp (p : pools) (t : ty) (l : list Z) : pools :=
  match t with
  | TInt => {| p_int := l; p_float := p_float p; p_string := p_string p |}
  | TFloat => {| p_int := p_int p; p_float := l; p_string := p_string p |}
  | TString => {| p_int := p_int p; p_float := p_float p; p_string := l |}
  end.
Definition all_free (p : pools) : list Z := p_int p ++ p_float p ++ p_string p.

Record st := {
  locals : list (N * Z);     (* local_regs *)
  implicit : list Z;         (* keys of implicitly_used_regs *)
  free : pools;              (* remaining_scratch_regs_by_ty; head = the register popped next *)
  used_scratch : bool;       (* has_used_scratch.is_some() *)
  anti_sub : bool;           (* has_anti_scratch_ins.is_some() *)
  anti_file : bool;          (* an ItsWaterElf instruction was seen in this sub *)
}.

Definition param_regs (c : cfg) : list Z := map snd (params c).

Fixpoint named_params (ps : list (option N * Z)) : list (N * Z) :=
  match ps with
  | [] => []
  | (Some d, r) :: t => (d, r) :: named_params t
  | (None, _) :: t => named_params t
  end.

Definition named_param_regs (c : cfg) : list Z := map snd (named_params (params c)).

(* keys of clashing_names_for_regs *)
Definition clash (c : cfg) (E : list Z) : list Z := E ++ named_param_regs c.

Definition init (c : cfg) (code : list lstmt) : st :=
  let E := explicit c code in
  let P := param_regs c in
  let keep := filter (fun r => negb (memZ r E) && negb (memZ r P)) in
  {| locals := fold_left (fun acc p => insert (fst p) (snd p) acc) (named_params (params c)) [];
     implicit := fold_left (fun acc r => addZ r acc) P [];
     free := {| p_int := keep (general c TInt); p_float := keep (general c TFloat);
                p_string := keep (general c TString) |};
     used_scratch := false; anti_sub := false; anti_file := false |}.

(* SimpleArg::from_reg *)
Definition from_reg (r : Z) (sty : ty) : outcome larg :=
  match sty with TString => Panic P_EXPECT | _ => Ok (Raw (SReg r sty)) end.

(* the closure passed to each_lower_arg *)
Fixpoint subst_arg (L : list (N * Z)) (a : larg) : outcome larg :=
  match a with
  | Local d sty => match lookup d L with None => Panic P_INDEX | Some r => from_reg r sty end
  | DiffSwitch cs =>
      do cs' <- (fix go (l : list (option larg)) : outcome (list (option larg)) :=
                   match l with
                   | [] => Ok []
                   | None :: t => do t' <- go t; Ok (None :: t')
                   | Some x :: t => do x' <- subst_arg L x; do t' <- go t; Ok (Some x' :: t')
                   end) cs;
      Ok (DiffSwitch cs')
  | _ => Ok a
  end.

Fixpoint subst_args (L : list (N * Z)) (l : list larg) : outcome (list larg) :=
  match l with
  | [] => Ok []
  | a :: t => do a' <- subst_arg L a; do t' <- subst_args L t; Ok (a' :: t')
  end.

Definition step (c : cfg) (K : list Z) (s : st) (x : lstmt) : outcome (st * lstmt) :=
  match x with
  | RegAlloc d =>
      match tyof c d with
      | None => Panic P_EXPECT
      | Some t =>
          match getp (free s) t with
          | [] => Err E_TOO_COMPLEX
          | r :: rest =>
              if memN d (map fst (locals s)) then Panic P_ASSERT
              else if memZ r K then Panic P_ASSERT
              else Ok ({| locals := (d, r) :: locals s; implicit := addZ r (implicit s);
                          free := setp (free s) t rest; used_scratch := true;
                          anti_sub := anti_sub s; anti_file := anti_file s |}, RegAlloc d)
          end
      end
  | RegFree d =>
      match tyof c d with
      | None => Panic P_EXPECT
      | Some t =>
          match lookup d (locals s) with
          | None => Panic P_EXPECT
          | Some r =>
              if memZ r (implicit s)
              then Ok ({| locals := remove_key d (locals s); implicit := removeZ r (implicit s);
                          free := setp (free s) t (r :: getp (free s) t);
                          used_scratch := used_scratch s; anti_sub := anti_sub s;
                          anti_file := anti_file s |}, RegFree d)
              else Panic P_ASSERT
          end
      end
  | Instr op time diff args =>
      let s' := match anti c op with
                | None => s
                | Some ThisFunction =>
                    {| locals := locals s; implicit := implicit s; free := free s;
                       used_scratch := used_scratch s; anti_sub := true; anti_file := anti_file s |}
                | Some WaterElf =>
                    {| locals := locals s; implicit := implicit s; free := free s;
                       used_scratch := used_scratch s; anti_sub := anti_sub s; anti_file := true |}
                end in
      match args with
      | Known l => do l' <- subst_args (locals s) l; Ok (s', Instr op time diff (Known l'))
      | Blob => Ok (s', x)
      end
  | Label _ => Ok (s, x)
  end.

Fixpoint run (c : cfg) (K : list Z) (s : st) (code : list lstmt) : outcome (st * list lstmt) :=
  match code with
  | [] => Ok (s, [])
  | x :: t =>
      do r <- step c K s x;
      do r' <- run c K (fst r) t;
      Ok (fst r', snd r :: snd r')
  end.

(* assign_registers: the final state carries the two flags handed to PersistentState *)
Definition assign_registers (c : cfg) (code : list lstmt) : outcome (st * list lstmt) :=
  do r <- run c (clash c (explicit c code)) (init c code) code;
  if anti_sub (fst r) && used_scratch (fst r) then Err E_ANTI_SUB else Ok r.

(* a whole file: every sub is lowered (errors are collected, compilation continues), then
   Lowerer::finish reports the file-wide anti-scratch conflict *)
Definition file_flags (rs : list (outcome (st * list lstmt))) : bool * bool :=
  fold_left (fun acc r => match r with
                          | Ok (s, _) => (fst acc || anti_file s, snd acc || used_scratch s)
                          | _ => acc
                          end) rs (false, false).

Definition all_ok {A} (rs : list (outcome A)) : bool :=
  forallb (fun r => match r with Ok _ => true | _ => false end) rs.

Definition assign_file (cs : list (cfg * list lstmt)) : outcome (list (list lstmt)) :=
  let rs := map (fun p => assign_registers (fst p) (snd p)) cs in
  if existsb (fun r => is_panic r) rs then Panic P_ASSERT
  else if negb (all_ok rs) then Err E_TOO_COMPLEX
  else let fl := file_flags rs in
       if fst fl && snd fl then Err E_ANTI_FILE
       else Ok (flat_map (fun r => match r with Ok (_, o) => [o] | _ => [] end) rs).

(* ---------------------------------------------------------------------------------------- *)
(* syntactic occurrence of a register in the stream (the property's "mentioned anywhere") *)

Inductive arg_mentions (r : Z) : larg -> Prop :=
| am_raw : forall sty, arg_mentions r (Raw (SReg r sty))
| am_switch : forall cs a, In (Some a) cs -> arg_mentions r a -> arg_mentions r (DiffSwitch cs).

Definition mentioned (code : list lstmt) (r : Z) : Prop :=
  exists op time diff args a, In (Instr op time diff (Known args)) code /\ In a args /\ arg_mentions r a.

(* no register inside a difficulty switch *)
Definition switch_has_reg (a : larg) : bool :=
  match a with
  | DiffSwitch cs => negb (match explicit_arg_deep a with [] => true | _ => false end)
  | _ => false
  end.

Definition stmt_switch_free (x : lstmt) : bool :=
  match x with
  | Instr _ _ _ (Known args) => forallb (fun a => negb (switch_has_reg a)) args
  | _ => true
  end.

Definition switch_reg_free (code : list lstmt) : bool := forallb stmt_switch_free code.

(* no Local left *)
Fixpoint arg_no_local (a : larg) : bool :=
  match a with
  | Local _ _ => false
  | DiffSwitch cs =>
      (fix go (l : list (option larg)) : bool :=
         match l with
         | [] => true
         | None :: t => go t
         | Some x :: t => arg_no_local x && go t
         end) cs
  | _ => true
  end.

Definition stmt_no_local (x : lstmt) : bool :=
  match x with
  | Instr _ _ _ (Known args) => forallb arg_no_local args
  | _ => true
  end.

(* ---------------------------------------------------------------------------------------- *)
(* the relation between the allocator's input and output stream: same statements in the same
   order, same opcode / time / difficulty, every argument unchanged except that a Local became
   a register of the same storage type *)

Definition sarg_eqb (a b : sarg) : bool :=
  match a, b with
  | SReg r t, SReg r' t' => (r =? r') && ty_eqb t t'
  | SImm v, SImm v' => v =? v'
  | _, _ => false
  end.

Fixpoint arg_refines (a a' : larg) : bool :=
  match a, a' with
  | Raw s, Raw s' => sarg_eqb s s'
  | Local _ sty, Raw (SReg _ sty') => ty_eqb sty sty'
  | DiffSwitch cs, DiffSwitch cs' =>
      (fix go (l l' : list (option larg)) : bool :=
         match l, l' with
         | [], [] => true
         | None :: t, None :: t' => go t t'
         | Some x :: t, Some x' :: t' => arg_refines x x' && go t t'
         | _, _ => false
         end) cs cs'
  | ALabel l, ALabel l' => N.eqb l l'
  | ATimeOf l, ATimeOf l' => N.eqb l l'
  | _, _ => false
  end.

Fixpoint forall2b {A B} (f : A -> B -> bool) (l : list A) (l' : list B) : bool :=
  match l, l' with
  | [], [] => true
  | x :: t, y :: t' => f x y && forall2b f t t'
  | _, _ => false
  end.

Definition stmt_refines (x x' : lstmt) : bool :=
  match x, x' with
  | Instr op time diff (Known l), Instr op' time' diff' (Known l') =>
      (op =? op') && (time =? time') && (diff =? diff') && forall2b arg_refines l l'
  | Instr op time diff Blob, Instr op' time' diff' Blob =>
      (op =? op') && (time =? time') && (diff =? diff')
  | Label l, Label l' => N.eqb l l'
  | RegAlloc d, RegAlloc d' => N.eqb d d'
  | RegFree d, RegFree d' => N.eqb d d'
  | _, _ => false
  end.

Definition is_alloc (x : lstmt) : bool := match x with RegAlloc _ => true | _ => false end.

Definition howbad_eqb (a b : howbad) : bool :=
  match a, b with ThisFunction, ThisFunction | WaterElf, WaterElf => true | _, _ => false end.

Definition is_anti (c : cfg) (k : howbad) (x : lstmt) : bool :=
  match x with
  | Instr op _ _ _ => match anti c op with Some k' => howbad_eqb k k' | None => false end
  | _ => false
  end.

(* OldeExportedSub::param_registers: the n-th parameter of a type gets that type's n-th register *)
Fixpoint param_registers (preg : ty -> Z -> option Z) (ps : list (option N * ty)) (ni nf : Z)
  : option (list (option N * Z)) :=
  match ps with
  | [] => Some []
  | (d, t) :: rest =>
      let n := match t with TInt => ni | _ => nf end in
      match preg t n with
      | None => None       (* assert!(number < max_params_per_type) / unreachable!() *)
      | Some r =>
          match param_registers preg rest (match t with TInt => ni + 1 | _ => ni end)
                                          (match t with TInt => nf | _ => nf + 1 end) with
          | Some l => Some ((d, r) :: l)
          | None => None
          end
      end
  end.

Fixpoint nodupb (l : list Z) : bool :=
  match l with [] => true | x :: t => negb (memZ x t) && nodupb t end.

(* side conditions on a configuration: no register is in two pools or twice in one; distinct
   parameters live in distinct registers *)
Definition cfg_ok (c : cfg) : Prop :=
  NoDup (general c TInt ++ general c TFloat ++ general c TString) /\ NoDup (param_regs c).
