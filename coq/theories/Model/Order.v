(* Model/Order.v -- property C19 (output is a deterministic function of the inputs).

   truth is single-threaded; the only run-to-run variation is the iteration order of randomly
   seeded std HashMap/HashSet (IdMap = HashMap, src/resolve/mod.rs).  A hash-map iteration hands
   its consumer the entries of the map -- a list with pairwise distinct keys -- in an arbitrary
   order: a different launch hands it a permutation of the same list.  This file gives every
   *consumer shape* found in the code as an executable function of that list.  Determinism of a
   site is then: its consumer takes equal values on permutations (Proofs/OrderPerm.v).

   Definitions only; no proofs here. *)
From Coq Require Import String List ZArith Bool.
Import ListNotations.
Open Scope Z_scope.

(* ------------------------------------------------------------------------------------------ *)
(* an iteration site as found by gen/hashiter.py (Gen/HashIter.v lists them)                   *)

Record site := mk_site {
  s_file : string;     (* path under src/ *)
  s_fn : string;       (* enclosing impl::fn chain *)
  s_kind : string;     (* for | iter | keys | values | into_iter | drain | ... | call | arg:extend | fmt-debug *)
  s_header : string;   (* normalised text of the loop header / receiver chain: the line-independent key *)
  s_ord : nat;         (* n-th occurrence of the same (file, fn, kind, header) *)
  s_decl : string;     (* digest of the declared types of every hashy name the header mentions *)
  s_stmt : string;     (* digest of the whole statement (for a `for`: header and body) *)
  s_fnd : string       (* digest of the whole enclosing fn *)
}.

(* ------------------------------------------------------------------------------------------ *)
(* consumer shapes                                                                             *)

Inductive shape :=
| Unclassified
  (* the scanner over-approximates by name; the iterated value is a Vec / slice / IndexMap / BTreeMap / EnumMap *)
| NotHash
  (* the iterator is returned to the caller; every call of that fn is a site of its own (kind "call") *)
| ReturnedIterator
  (* the container is Debug-printed only in the message of a panic! that reports an internal bug; a run that
     does not panic (property C04) prints nothing here *)
| BugPanicMessage
  (* entries are inserted, in iteration order, into an ordered map (BTreeMap) whose in-order contents are used *)
| CollectOrdered
  (* entries are pushed to a Vec that is sorted by key before it is used *)
| CollectThenSort
  (* entries become labels of ONE diagnostic; the renderer (codespan) lays labels out by source position *)
| SortedByRenderer
  (* any / all / contains: a fold with boolean or / and *)
| AnyAll
  (* a fold with an operation for which the order of two consecutive entries does not matter (count, sum, max) *)
| CommFold
  (* minimum for a total order on the entries (ties broken by the key) *)
| MinByTotalKey
  (* entries are collected into another hash map (or set), which is then only looked up by key *)
| CollectHash
  (* one output item (diagnostic, queue element, id allocation) per entry, in iteration order *)
| EmitInIterationOrder
  (* the first entry, in iteration order, that satisfies a predicate decides the output (`?` / early return) *)
| FirstErrorWins
  (* Iterator::min_by_key on a key with ties: the first minimal entry in iteration order wins *)
| MinByKeyFirstWins.

Definition shape_eqb (a b : shape) : bool :=
  match a, b with
  | Unclassified, Unclassified | NotHash, NotHash | ReturnedIterator, ReturnedIterator
  | BugPanicMessage, BugPanicMessage
  | CollectOrdered, CollectOrdered | CollectThenSort, CollectThenSort | SortedByRenderer, SortedByRenderer
  | AnyAll, AnyAll | CommFold, CommFold | MinByTotalKey, MinByTotalKey | CollectHash, CollectHash
  | EmitInIterationOrder, EmitInIterationOrder | FirstErrorWins, FirstErrorWins
  | MinByKeyFirstWins, MinByKeyFirstWins => true
  | _, _ => false
  end.

(* which shapes are claimed to be invariant under permutation of the iteration.  [Unclassified] is not. *)
Definition order_safe (sh : shape) : bool :=
  match sh with
  | NotHash | ReturnedIterator | BugPanicMessage | CollectOrdered | CollectThenSort | SortedByRenderer
  | AnyAll | CommFold | MinByTotalKey | CollectHash => true
  | Unclassified | EmitInIterationOrder | FirstErrorWins | MinByKeyFirstWins => false
  end.

(* ------------------------------------------------------------------------------------------ *)
(* generic building blocks (any element type)                                                  *)

Section Generic.
  Context {A : Type}.

  (* insertion into a list sorted by [leb] (BTreeMap::insert with distinct keys; Vec::sort) *)
  Fixpoint insert (leb : A -> A -> bool) (x : A) (l : list A) : list A :=
    match l with
    | [] => [x]
    | y :: t => if leb x y then x :: y :: t else y :: insert leb x t
    end.

  (* slice::sort_by_key *)
  Definition isort (leb : A -> A -> bool) (l : list A) : list A := fold_right (insert leb) [] l.

  (* `for e in map { btree.insert(e) }` *)
  Definition collect_ordered (leb : A -> A -> bool) (l : list A) : list A :=
    fold_left (fun m e => insert leb e m) l [].

  (* Iterator::min_by: `match compare(best, e) { Greater => e, _ => best }` -- the earlier one is kept on ties *)
  Definition min_by (leb : A -> A -> bool) (l : list A) : option A :=
    fold_left (fun best e => match best with
                             | None => Some e
                             | Some b => if leb b e then Some b else Some e
                             end) l None.
End Generic.

(* ------------------------------------------------------------------------------------------ *)
(* the consumers, over concrete entries                                                        *)

(* an entry of a hash map: (key, payload).  Keys of one map are pairwise distinct. *)
Definition entry := (Z * Z)%type.

(* what a piece of code does with ONE entry is deterministic; these per-entry functions are arbitrary *)
Record params := mk_params {
  render : entry -> Z;          (* the output item produced for an entry (a diagnostic, a queue element ...) *)
  span : entry -> Z;            (* the source position the renderer sorts labels by *)
  pred : entry -> bool;         (* the test of any/all/find *)
  dist : entry -> Z;            (* the key of min_by_key *)
  step : Z -> entry -> Z;       (* the operation of a fold *)
  init : Z
}.

(* the fold operation does not care about the order of two consecutive entries *)
Definition step_commutes (p : params) : Prop := forall a x y, step p (step p a x) y = step p (step p a y) x.

Definition key_leb (a b : entry) : bool := fst a <=? fst b.
Definition span_leb (p : params) (a b : entry) : bool := span p a <=? span p b.
(* (distance, key) lexicographically: a total order on entries with distinct keys *)
Definition lex_leb (p : params) (a b : entry) : bool :=
  (dist p a <? dist p b) || ((dist p a =? dist p b) && (fst a <=? fst b)).
Definition dist_leb (p : params) (a b : entry) : bool := dist p a <=? dist p b.

Fixpoint assoc (k : Z) (l : list entry) : option Z :=
  match l with
  | [] => None
  | (k', v) :: t => if k =? k' then Some v else assoc k t
  end.

(* what can be observed of a consumer's result *)
Inductive obs :=
| ONone                              (* nothing depends on a hash order here *)
| OList (l : list Z)                 (* an ordered sequence of output items *)
| OBool (b : bool)
| ONum (z : Z)
| OOpt (e : option entry)
| OMap (f : Z -> option Z).          (* a container that is only looked up by key *)

Definition obs_eq (a b : obs) : Prop :=
  match a, b with
  | ONone, ONone => True
  | OList x, OList y => x = y
  | OBool x, OBool y => x = y
  | ONum x, ONum y => x = y
  | OOpt x, OOpt y => x = y
  | OMap f, OMap g => forall k, f k = g k
  | _, _ => False
  end.

Definition consumer (p : params) (sh : shape) (l : list entry) : obs :=
  match sh with
  | Unclassified => OList (map (render p) l)       (* nothing is known: assume the worst *)
  | NotHash => ONone
  | ReturnedIterator => ONone
  | BugPanicMessage => ONone
  | CollectOrdered => OList (map (render p) (collect_ordered key_leb l))
  | CollectThenSort => OList (map (render p) (isort key_leb l))
  | SortedByRenderer => OList (map (render p) (isort (span_leb p) l))
  | AnyAll => OBool (existsb (pred p) l)
  | CommFold => ONum (fold_left (step p) l (init p))
  | MinByTotalKey => OOpt (min_by (lex_leb p) l)
  | CollectHash => OMap (fun k => assoc k l)
  | EmitInIterationOrder => OList (map (render p) l)
  | FirstErrorWins => OList (match find (pred p) l with Some e => [render p e] | None => [] end)
  | MinByKeyFirstWins => OOpt (min_by (dist_leb p) l)
  end.
