(* Model/Fmt.v -- executable model of truth's code formatter (src/fmt.rs).

   Text is a Coq [string] of bytes (UTF-8).  The only characters the formatter and the string
   literal parser treat specially are ASCII, and every byte of a multi-byte UTF-8 sequence is
   >= 0x80, so the byte-level loops below coincide with the Rust `char`-level loops.

   Contents: tokens; the AST the formatter prints (expressions, statements, items, meta);
   literal printing (every IntFormat, f32 with INF/NAN, string escapes); the translation of the
   AST into a layout document [doc]; and [render], the Formatter state machine (line buffer,
   indentation, labels, suppress_blank_line, and try_inline's outermost-only backtracking
   between the inline and the block layout of comma separated lists).

   Executable definitions only; no proofs. *)
From Coq Require Export String Ascii.
From TV Require Import Base.I32 Gen.FmtTables.
Open Scope Z_scope.

Notation "a ^^ b" := (String.append a b) (right associativity, at level 60).

(* ------------------------------------------------------------------------------------------ *)
(* tokens (src/parse/lexer.rs): fixed-text tokens are identified by their text *)

Inductive token :=
| TFix (s : string)      (* punctuation and keywords, #[token("...")] *)
| TStr (s : string)      (* LitString, text includes the quotes *)
| TFloat (s : string)    (* LitFloat *)
| TRad (s : string)      (* LitRad  rad(...) *)
| TInt (s : string)      (* LitInt *)
| TDiff (s : string)     (* DifficultyStr *)
| TInstr (s : string)    (* Instr  ins_... *)
| TIdent (s : string).   (* Ident *)

Definition text (t : token) : string :=
  match t with TFix s | TStr s | TFloat s | TRad s | TInt s | TDiff s | TInstr s | TIdent s => s end.

Definition token_eqb (a b : token) : bool :=
  match a, b with
  | TFix x, TFix y | TStr x, TStr y | TFloat x, TFloat y | TRad x, TRad y | TInt x, TInt y
  | TDiff x, TDiff y | TInstr x, TInstr y | TIdent x, TIdent y => String.eqb x y
  | _, _ => false
  end.

(* the word-shaped fixed tokens of lexer.rs *)
Definition keywords : list string :=
  ["anim"; "ecli"; "meta"; "sub"; "script"; "entry"; "var"; "int"; "float"; "string"; "void";
   "const"; "inline"; "insdef"; "return"; "goto"; "loop"; "if"; "else"; "unless"; "do"; "while";
   "times"; "break"; "switch"; "case"; "default"; "interrupt"; "async"; "global"; "pragma";
   "mapfile"; "image_source"; "offsetof"; "timeof"; "sin"; "cos"; "tan"; "asin"; "acos"; "atan";
   "sqrt"; "_S"; "_f"; "REG"]%string.

(* the other fixed tokens *)
Definition puncts : list string :=
  [","; "?"; ":"; ";"; "["; "]"; "{"; "}"; "("; ")"; "@"; "..."; "."; "="; "+"; "-"; "*"; "/";
   "%"; "^"; "|"; "&"; "~"; "+="; "-="; "*="; "/="; "%="; "^="; "|="; "&="; "=="; "!="; "<";
   "<="; ">"; ">="; "<<"; ">>"; ">>>"; "<<="; ">>="; ">>>="; "!"; "||"; "&&"; "--"; "++"; "$";
   "#"]%string.

Fixpoint mem_str (s : string) (l : list string) : bool :=
  match l with [] => false | x :: t => String.eqb s x || mem_str s t end.

Fixpoint prefixb (p s : string) : bool :=
  match p, s with
  | EmptyString, _ => true
  | String a p', String b s' => Ascii.eqb a b && prefixb p' s'
  | _, _ => false
  end.

(* the token a maximal identifier-shaped word lexes to: keyword > ins_* > identifier *)
Definition word_tok (w : string) : token :=
  if mem_str w keywords then TFix w
  else if prefixb "ins_" w then TInstr w
  else TIdent w.

(* ------------------------------------------------------------------------------------------ *)
(* the AST (src/ast/mod.rs, src/ast/meta.rs) without spans and resolution ids.
   Operators and keywords are carried as their source text. *)

Inductive sigil := SgI | SgF.
Inductive fvar := VNamed (sg : option sigil) (name : string) | VReg (sg : option sigil) (r : Z).
Inductive cname := CNormal (s : string) | CIns (opcode : Z).
Inductive radix := RDec | RHex | RBin | RBool.
Inductive intfmt := IF (signed : bool) (r : radix).

Inductive fexpr :=
| FTern (c l r : fexpr)
| FBin (a : fexpr) (op : string) (b : fexpr)
| FUn (op : string) (x : fexpr)
| FXcr (pre inc : bool) (v : fvar)
| FVar (v : fvar)
| FCall (n : cname) (pseudos : list (string * fexpr)) (args : list fexpr)
| FDiff (cases : list (option fexpr))
| FLitI (v : Z) (f : intfmt)
| FLitF (bits : Z)
| FLitS (s : string)
| FLabelProp (kw label : string)
| FEnum (en id : string).

Inductive jump := JGoto (dest : string) (time : option Z) | JBreak.

Inductive fmeta :=
| MScalar (e : fexpr)
| MObject (fields : list (string * fmeta))
| MArray (xs : list fmeta)
| MVariant (name : string) (fields : list (string * fmeta)).

Inductive stmt := Stmt (diff_label : option string) (k : stmtkind)
with stmtkind :=
| SItem (i : item)
| SJump (j : jump)
| SReturn (v : option fexpr)
| SCondJump (kw : string) (c : fexpr) (j : jump)
| SLoop (b : list stmt)
| SCondChain (cbs : list (string * fexpr * list stmt)) (els : option (list stmt))
| SWhile (do_ : bool) (c : fexpr) (b : list stmt)
| STimes (clobber : option fvar) (count : fexpr) (b : list stmt)
| SExpr (e : fexpr)
| SBlock (b : list stmt)
| SAssign (v : fvar) (op : string) (e : fexpr)
| SDecl (ty : string) (vars : list (fvar * option fexpr))
| SCallSub (at_ : bool) (async_ : option (option fexpr)) (func : string) (args : list fexpr)
| SLabel (l : string)
| SInterrupt (e : fexpr)
| SAbsTime (t : Z)
| SRelTime (delta : fexpr) (comment : option Z)
| SNoInstr                       (* NoInstruction / ScopeEnd: prints nothing *)
with item :=
| IFunc (qual : option string) (ty ident : string) (params : list (string * option string)) (code : option (list stmt))
| IScript (number : option Z) (ident : string) (code : list stmt)
| IMeta (kw : string) (fields : list (string * fmeta))
| IConst (ty : string) (vars : list (fvar * fexpr)).

Inductive sfile := File (mapfiles image_sources : list string) (items : list item).

(* ------------------------------------------------------------------------------------------ *)
(* numbers *)

Definition digit_char (d : Z) : ascii :=
  match d with
  | 0 => "0" | 1 => "1" | 2 => "2" | 3 => "3" | 4 => "4" | 5 => "5" | 6 => "6" | 7 => "7"
  | 8 => "8" | 9 => "9" | 10 => "a" | 11 => "b" | 12 => "c" | 13 => "d" | 14 => "e" | _ => "f"
  end%char.

Definition str1 (c : ascii) : string := String c EmptyString.

(* positional notation without leading zeros; 32 digits are enough for every u32 in any radix *)
Fixpoint to_digits (fuel : nat) (r n : Z) : string :=
  match fuel with
  | O => str1 (digit_char (n mod r))
  | S f => if n <? r then str1 (digit_char n) else to_digits f r (n / r) ^^ str1 (digit_char (n mod r))
  end.
Definition digits (r n : Z) : string := to_digits 32 r n.

(* `{}` of an i32 *)
Definition dec_i32 (v : Z) : string := if v <? 0 then "-" ^^ digits 10 (- v) else digits 10 v.

(* ------------------------------------------------------------------------------------------ *)
(* layout documents *)

Inductive doc :=
| DT (t : token)                 (* append a token's text to the line *)
| DS (n : nat)                   (* append n spaces *)
| DC (s : string)                (* append comment text *)
| DNl                            (* next_line *)
| DIndent | DDedent
| DLabel (body : doc)            (* fmt_label *)
| DSuppBlank                     (* suppress_blank_line *)
| DIntrPre                       (* InterruptLabel: next_line unless the previous line was an interrupt *)
| DIntrPost                      (* state.prev_line_was_interrupt = true *)
| DSeq (l : list doc)
| DList (op cl : token) (items : list doc)    (* fmt_comma_separated *)
| DPanic (tag : nat).                         (* expect()/assert! in a Format impl *)

Definition fx (s : string) : doc := DT (TFix s).
Definition wd (s : string) : doc := DT (word_tok s).
Definition sp1 : doc := DS 1.

Fixpoint sep_by {A} (sep : list A) (ls : list (list A)) : list A :=
  match ls with
  | [] => []
  | [x] => x
  | x :: t => x ++ sep ++ sep_by sep t
  end.

(* ------------------------------------------------------------------------------------------ *)
(* what the formatter writes *)

Inductive oitem :=
| OT (t : token)       (* token text *)
| OTrail               (* the "," that the block layout writes after the last item of a list *)
| OS (n : nat)         (* n spaces *)
| OC (s : string)      (* comment text *)
| ONl.                 (* "\n" *)


Fixpoint spaces (n : nat) : string := match n with O => EmptyString | S k => String " " (spaces k) end.

Definition otext (o : oitem) : string :=
  match o with OT t => text t | OTrail => "," | OS n => spaces n | OC s => s | ONl => String "010" EmptyString end.

Fixpoint concat_text (l : list oitem) : string :=
  match l with [] => EmptyString | o :: r => otext o ^^ concat_text r end.


(* the inline layout of an expression document: what the formatter writes when the line is wide enough *)
Fixpoint flat (d : doc) : list oitem :=
  match d with
  | DT t => [OT t]
  | DS n => [OS n]
  | DC s => [OC s]
  | DSeq l => flat_map flat l
  | DList op cl items => OT op :: sep_by [OT (TFix ","); OS 1] (map flat items) ++ [OT cl]
  | DLabel b => flat b
  | _ => []
  end.


Definition nextc (s : string) : option ascii := match s with String c _ => Some c | EmptyString => None end.
(* first character of the inline text of a document list: `stringify(x).chars().next()` *)
Definition first_char_docs (l : list doc) : option ascii := nextc (concat_text (flat (DSeq l))).

(* ------------------------------------------------------------------------------------------ *)
(* literal printing (Expr::LitInt / LitFloat / LitString arms and the Format impls for i32, f32, LitString) *)

(* "-" is its own token: a negative literal prints as the two tokens `-` `digits` *)
Definition signed_toks (prefix : string) (r : Z) (v : Z) : list doc :=
  if v <? 0 then [fx "-"; DT (TInt (prefix ^^ digits r (u32 (- v))))]   (* wrapping_neg, then the bits of the i32 *)
  else [DT (TInt (prefix ^^ digits r v))].

Definition pp_int (f : intfmt) (v : Z) : list doc :=
  match f with
  | IF true RDec => signed_toks "" 10 v
  | IF false RDec => [DT (TInt (digits 10 (u32 v)))]
  | IF false RHex => [DT (TInt ("0x" ^^ digits 16 (u32 v)))]
  | IF true RHex => signed_toks "0x" 16 v
  | IF false RBin => [DT (TInt ("0b" ^^ digits 2 (u32 v)))]
  | IF true RBin => signed_toks "0b" 2 v
  | IF signed RBool =>
      if v =? 0 then [wd "false"]
      else if v =? 1 then [wd "true"]
      else if signed then signed_toks "" 10 v
      else [DT (TInt ("0x" ^^ digits 16 (u32 v)))]
  end.

(* f32 by bit pattern *)
Definition f_sign (b : Z) : bool := 2147483648 <=? b.
Definition f_abs (b : Z) : Z := b mod 2147483648.
Definition f_is_inf (b : Z) : bool := f_abs b =? 2139095040.
Definition f_is_nan (b : Z) : bool := 2139095040 <? f_abs b.

Fixpoint has_dot (s : string) : bool :=
  match s with EmptyString => false | String c r => Ascii.eqb c "."%char || has_dot r end.

(* [fd]: Rust's `Display` for the finite non-negative f32 with the given bits (shortest text that
   round-trips, never in exponent notation).  A parameter here, a Section hypothesis in the proofs. *)
Definition pp_float (fd : Z -> string) (b : Z) : list doc :=
  if f_is_nan b then [wd "NAN"]
  else
    let body := if f_is_inf b then wd "INF"
                else let s := fd (f_abs b) in DT (TFloat (if has_dot s then s else s ^^ ".0")) in
    if f_sign b then [fx "-"; body] else [body].

Definition escape_char (c : ascii) : string :=
  if Ascii.eqb c "000"%char then "\0"
  else if Ascii.eqb c """"%char then "\"""
  else if Ascii.eqb c "\"%char then "\\"
  else if Ascii.eqb c "010"%char then "\n"
  else if Ascii.eqb c "013"%char then "\r"
  else str1 c.

Fixpoint escape (s : string) : string :=
  match s with EmptyString => EmptyString | String c r => escape_char c ^^ escape r end.

Definition print_string (s : string) : string := """" ^^ escape s ^^ """".
Definition pp_str (s : string) : doc := DT (TStr (print_string s)).

(* ------------------------------------------------------------------------------------------ *)
(* expressions: fmt_optional_parens / SuppressParens.  [sup] says whether the expression sits
   directly in a position that suppresses the parentheses. *)

Definition pp_sigil (sg : option sigil) : list doc :=
  match sg with None => [] | Some SgI => [fx "$"] | Some SgF => [fx "%"] end.

Definition pp_reg (r : Z) : list doc :=
  [wd "REG"; fx "["] ++ signed_toks "" 10 r ++ [fx "]"].

Definition pp_var (v : fvar) : list doc :=
  match v with
  | VNamed sg n => pp_sigil sg ++ [wd n]
  | VReg sg r => pp_sigil sg ++ pp_reg r
  end.

Definition pp_cname (n : cname) : doc :=
  match n with CNormal s => wd s | CIns op => wd ("ins_" ^^ digits 10 op) end.

Definition paren (sup : bool) (d : list doc) : list doc :=
  if sup then d else [fx "("] ++ d ++ [fx ")"].

Definition prefix_unops : list string := ["-"; "!"; "~"]%string.

Definition is_none {A} (o : option A) : bool := match o with None => true | Some _ => false end.
Definition head_none {A} (l : list (option A)) : bool := match l with None :: _ => true | _ => false end.
Definition last_none {A} (l : list (option A)) : bool := head_none (rev l).

(* the word-shaped function-style operators are words; `$` and `%` are punctuation *)
Definition fn_tok (op : string) : doc :=
  if String.eqb op "$" || String.eqb op "%" then fx op else wd op.

(* operand_fuses_with_prefix_op (present in src/fmt.rs iff gen_unop_guard): the operand's text starts with `-`,
   or the operator is `!` and it starts with a character of a difficulty string *)
Definition fuses (op : string) (c : option ascii) : bool :=
  match c with
  | Some c => Ascii.eqb c "-"%char
              || (String.eqb op "!" && mem_str (str1 c) ["*"; "E"; "N"; "H"; "L"; "W"; "X"; "Y"; "Z"; "O"; "4"; "5"; "6"; "7"]%string)
  | None => false
  end.

Section Expr.
Variable fd : Z -> string.

Fixpoint pp (sup : bool) (e : fexpr) : list doc :=
  match e with
  | FTern c l r =>
      paren sup (pp false c ++ [sp1; fx "?"; sp1] ++ pp false l ++ [sp1; fx ":"; sp1] ++ pp false r)
  | FBin a op b => paren sup (pp false a ++ [sp1; fx op; sp1] ++ pp false b)
  | FUn op x =>
      if mem_str op prefix_unops then
        paren sup (if gen_unop_guard && fuses op (first_char_docs (pp false x))
                   then [fx op; fx "("] ++ pp true x ++ [fx ")"]      (* operand_fuses_with_prefix_op *)
                   else fx op :: pp false x)
      else [fn_tok op; fx "("] ++ pp true x ++ [fx ")"]
  | FXcr pre inc v =>
      let o := fx (if inc then "++" else "--") in
      if pre then o :: pp_var v else pp_var v ++ [o]
  | FVar v => pp_var v
  | FCall n ps args =>
      [pp_cname n;
       DList (TFix "(") (TFix ")")
         (map (fun p => DSeq ([fx "@"; wd (fst p); fx "="] ++ pp false (snd p))) ps
          ++ map (fun a => DSeq (pp false a)) args)]
  | FDiff cs =>
      paren sup
        ((if head_none cs then [sp1] else [])
         ++ sep_by [sp1; fx ":"; sp1] (map (fun c => match c with Some x => pp false x | None => [] end) cs)
         ++ (if last_none cs then [sp1] else []))
  | FLitI v f => pp_int f v
  | FLitF b => pp_float fd b
  | FLitS s => [pp_str s]
  | FLabelProp kw l => [wd kw; fx "("; wd l; fx ")"]
  | FEnum a b => [wd a; fx "."; wd b]
  end.

End Expr.

(* ------------------------------------------------------------------------------------------ *)
(* meta, statements, items, files *)

Definition is_digit (c : ascii) : bool := let n := N_of_ascii c in (48 <=? n)%N && (n <=? 57)%N.

(* meta keys are identifiers or canonically formatted integers *)
Definition key_tok (k : string) : token :=
  match k with String c _ => if is_digit c then TInt k else word_tok k | EmptyString => word_tok k end.

Definition P_NOIF : nat := 30.     (* expect("no if's in if-chain?!") *)
Definition P_LABEL : nat := 31.    (* "Tried to write nested labels" / "Detected line break in label" *)
Definition P_INDENT : nat := 32.   (* "Attempted to change indent mid-line" / in a label / dedent past 0 *)

Section Docs.
Variable fd : Z -> string.

Definition ppe := pp fd.

Fixpoint meta_doc (m : fmeta) : doc :=
  let fields := fun (fs : list (string * fmeta)) =>
    DList (TFix "{") (TFix "}") (map (fun kv => DSeq [DT (key_tok (fst kv)); fx ":"; sp1; meta_doc (snd kv)]) fs) in
  match m with
  | MScalar e => DSeq (ppe false e)
  | MObject fs => fields fs
  | MArray xs => DList (TFix "[") (TFix "]") (map meta_doc xs)
  | MVariant n fs => DSeq [wd n; sp1; fields fs]
  end.

Definition fields_doc (fs : list (string * fmeta)) : doc := meta_doc (MObject fs).

Definition jump_doc (j : jump) : list doc :=
  match j with
  | JGoto d t => [wd "goto"; sp1; wd d]
                 ++ match t with Some t => [sp1; fx "@"; sp1] ++ signed_toks "" 10 t | None => [] end
  | JBreak => [wd "break"]
  end.

Definition is_noinstr (s : stmt) : bool := match s with Stmt _ SNoInstr => true | _ => false end.

(* CondBlock *)
Definition cond_head (kw : string) (c : fexpr) : list doc :=
  [wd kw; sp1; fx "("] ++ ppe true c ++ [fx ")"; sp1].

Fixpoint stmt_doc (s : stmt) : doc :=
  let block := fun (b : list stmt) =>
    DSeq ([fx "{"; DNl; DIndent]
          ++ flat_map (fun s => if is_noinstr s then [] else [stmt_doc s; DNl]) b
          ++ [DDedent; fx "}"]) in
  match s with
  | Stmt dl k =>
    DSeq ((match dl with Some l => [fx "{"; pp_str l; fx "}"; fx ":"; DS 2] | None => [] end) ++
    match k with
    | SItem i => [item_doc i]
    | SJump j => jump_doc j ++ [fx ";"]
    | SReturn v => [wd "return"] ++ match v with Some e => sp1 :: ppe false e | None => [] end ++ [fx ";"]
    | SCondJump kw c j => cond_head kw c ++ jump_doc j ++ [fx ";"]
    | SLoop b => [wd "loop"; sp1; block b]
    | SCondChain cbs els =>
        match cbs with
        | [] => [DPanic P_NOIF]
        | _ => sep_by [sp1; wd "else"; sp1]
                 (map (fun cb => match cb with (kw, c, b) => cond_head kw c ++ [block b] end) cbs)
               ++ match els with Some b => [sp1; wd "else"; sp1; block b] | None => [] end
        end
    | SWhile true c b => [wd "do"; sp1; block b; sp1; wd "while"; sp1; fx "("] ++ ppe true c ++ [fx ")"; fx ";"]
    | SWhile false c b => [wd "while"; sp1; fx "("] ++ ppe true c ++ [fx ")"; sp1; block b]
    | STimes cl n b =>
        [wd "times"; fx "("] ++ match cl with Some v => pp_var v ++ [sp1; fx "="; sp1] | None => [] end
        ++ ppe true n ++ [fx ")"; sp1; block b]
    | SExpr e => ppe false e ++ [fx ";"]
    | SBlock b => [block b]
    | SAssign v op e => pp_var v ++ [sp1; fx op; sp1] ++ ppe true e ++ [fx ";"]
    | SDecl ty vars =>
        [wd ty; sp1]
        ++ sep_by [fx ","] (map (fun ve => pp_var (fst ve) ++ match snd ve with Some e => [sp1; fx "="; sp1] ++ ppe false e | None => [] end) vars)
        ++ [fx ";"]
    | SCallSub at_ async_ f args =>
        [if at_ then fx "@" else DS 0; wd f; DList (TFix "(") (TFix ")") (map (fun a => DSeq (ppe false a)) args)]
        ++ match async_ with
           | Some None => [sp1; wd "async"]
           | Some (Some e) => [sp1; wd "async"; sp1] ++ ppe false e
           | None => []
           end
        ++ [fx ";"]
    | SLabel l => [DLabel (DSeq [wd l; fx ":"]); DSuppBlank]
    | SInterrupt e => [DIntrPre; DLabel (DSeq ([wd "interrupt"; fx "["] ++ ppe false e ++ [fx "]"; fx ":"])); DSuppBlank; DIntrPost]
    | SAbsTime t => [DLabel (DSeq (signed_toks "" 10 t ++ [fx ":"])); DSuppBlank]
    | SRelTime d c =>
        [DLabel (DSeq ([fx "+"]
                       ++ (if gen_unop_guard && match first_char_docs (ppe false d) with Some c => Ascii.eqb c "+"%char | None => false end
                           then [fx "("] ++ ppe true d ++ [fx ")"] else ppe false d)
                       ++ [fx ":"]
                       ++ match c with Some t => [sp1; DC ("// " ^^ dec_i32 t)] | None => [] end));
         DSuppBlank]
    | SNoInstr => [DSuppBlank]
    end)
  end
with item_doc (i : item) : doc :=
  let block := fun (b : list stmt) =>
    DSeq ([fx "{"; DNl; DIndent]
          ++ flat_map (fun s => if is_noinstr s then [] else [stmt_doc s; DNl]) b
          ++ [DDedent; fx "}"]) in
  match i with
  | IFunc q ty name params code =>
      DSeq (match q with Some q => [wd q; sp1] | None => [] end
            ++ [wd ty; sp1; wd name;
                DList (TFix "(") (TFix ")")
                  (map (fun p => DSeq ([wd (fst p)] ++ match snd p with Some n => [sp1; wd n] | None => [] end)) params)]
            ++ match code with None => [fx ";"] | Some b => [sp1; block b] end
            ++ [DNl])
  | IScript num name code =>
      DSeq ([wd "script"; sp1] ++ match num with Some n => signed_toks "" 10 n ++ [sp1] | None => [] end
            ++ [wd name; sp1; block code; DNl])
  | IMeta kw fs => DSeq [wd kw; sp1; fields_doc fs; DNl]
  | IConst ty vars =>
      DSeq ([wd "const"; sp1; wd ty; sp1]
            ++ sep_by [fx ","; sp1] (map (fun ve => pp_var (fst ve) ++ [sp1; fx "="; sp1] ++ ppe false (snd ve)) vars)
            ++ [fx ";"])
  end.

Definition file_doc (f : sfile) : doc :=
  match f with
  | File maps imgs items =>
      DSeq (flat_map (fun m => [fx "#"; wd "pragma"; sp1; wd "mapfile"; sp1; pp_str m; DNl]) maps
            ++ flat_map (fun m => [fx "#"; wd "pragma"; sp1; wd "image_source"; sp1; pp_str m; DNl]) imgs
            ++ (match maps, imgs with [], [] => [] | _, _ => [DNl] end)
            ++ sep_by [DNl; DNl] (map (fun i => [item_doc i]) items))
  end.

End Docs.

(* ------------------------------------------------------------------------------------------ *)
(* the Formatter state machine *)

Definition olen (o : oitem) : nat :=
  match o with OT t => String.length (text t) | OTrail => 1 | OS n => n | OC s => String.length s | ONl => 1 end.
Definition items_len (l : list oitem) : nat := fold_right (fun o n => (olen o + n)%nat) O l.

Record fstate := mkF {
  f_out : list oitem;       (* lines already written, most recent first *)
  f_line : list oitem;      (* line_buffer, most recent first *)
  f_pending : bool;         (* pending_data *)
  f_indent : nat;
  f_islabel : bool;
  f_depth : nat;            (* inline_depth *)
  f_supp : bool;            (* suppress_blank_line *)
  f_previntr : bool         (* state.prev_line_was_interrupt *)
}.

Inductive res :=
| ROk (st : fstate)
| RBack (st : fstate)     (* Err(LineBreakRequired) propagating to the outermost try_inline *)
| RPanic (tag : nat)
| RUnsup.                 (* outside the model: a label inside a comma separated list *)

Definition rbind (r : res) (k : fstate -> res) : res := match r with ROk st => k st | _ => r end.

Definition set_line (st : fstate) (l : list oitem) : fstate :=
  mkF (f_out st) l (f_pending st) (f_indent st) (f_islabel st) (f_depth st) (f_supp st) (f_previntr st).
Definition set_depth (st : fstate) (d : nat) : fstate :=
  mkF (f_out st) (f_line st) (f_pending st) (f_indent st) (f_islabel st) d (f_supp st) (f_previntr st).

(* append_to_line / append_display_to_line *)
Definition app_item (o : oitem) (st : fstate) : fstate :=
  mkF (f_out st) (o :: f_line st) true (f_indent st) (f_islabel st) (f_depth st) (f_supp st) (f_previntr st).

Definition indent_items (n : nat) : list oitem := match n with O => [] | _ => [OS n] end.

Definition next_line (st : fstate) : res :=
  if Nat.ltb 0 (f_depth st) then RBack st
  else if f_supp st && negb (f_pending st) then
    ROk (mkF (f_out st) (f_line st) (f_pending st) (f_indent st) (f_islabel st) (f_depth st) false (f_previntr st))
  else
    let line := if f_pending st then f_line st else [] in
    ROk (mkF (ONl :: line ++ f_out st) (indent_items (f_indent st)) false (f_indent st) false (f_depth st) (f_supp st) false).

Definition add_indent (up : bool) (st : fstate) : res :=
  if f_pending st || f_islabel st then RPanic P_INDENT
  else if up then
    let n := (f_indent st + 4)%nat in
    ROk (mkF (f_out st) (indent_items n) false n false (f_depth st) (f_supp st) (f_previntr st))
  else if Nat.ltb (f_indent st) 4 then RPanic P_INDENT
  else
    let n := (f_indent st - 4)%nat in
    ROk (mkF (f_out st) (indent_items n) false n false (f_depth st) (f_supp st) (f_previntr st)).

Definition check_long (target : nat) (st : fstate) : res :=
  if Nat.ltb 0 (f_depth st) && Nat.ltb target (items_len (f_line st)) then RBack st else ROk st.

Section Run.
Variable target : nat.      (* config.target_width *)

Fixpoint run (d : doc) (st : fstate) {struct d} : res :=
  let seq := fix seq (l : list doc) (st : fstate) : res :=
    match l with [] => ROk st | x :: r => rbind (run x st) (seq r) end in
  match d with
  | DT t => ROk (app_item (OT t) st)
  | DS n => ROk (app_item (OS n) st)
  | DC s => ROk (app_item (OC s) st)
  | DNl => next_line st
  | DIndent => add_indent true st
  | DDedent => add_indent false st
  | DSuppBlank =>
      ROk (mkF (f_out st) (f_line st) (f_pending st) (f_indent st) (f_islabel st) (f_depth st) true (f_previntr st))
  | DIntrPre => if f_previntr st then ROk st else next_line st
  | DIntrPost =>
      ROk (mkF (f_out st) (f_line st) (f_pending st) (f_indent st) (f_islabel st) (f_depth st) (f_supp st) true)
  | DPanic tag => RPanic tag
  | DSeq l => seq l st
  | DLabel body =>
      if f_islabel st then RPanic P_LABEL
      else if Nat.ltb 0 (f_depth st) then RUnsup
      else if f_pending st then rbind (run body st) (fun st => ROk (app_item (OS 1) st))
      else
        rbind (run body (mkF (f_out st) [] (f_pending st) (f_indent st) true (f_depth st) (f_supp st) (f_previntr st)))
              (fun st => if f_islabel st then next_line st else RPanic P_LABEL)
  | DList op cl items =>
      let inline_items := fix go (first : bool) (l : list doc) (st : fstate) : res :=
        match l with
        | [] => ROk st
        | x :: r =>
            let st := if first then st else app_item (OS 1) (app_item (OT (TFix ",")) st) in
            rbind (run x st) (fun st => rbind (check_long target st) (go false r))
        end in
      let block_items := fix go (l : list doc) (st : fstate) : res :=
        match l with
        | [] => ROk st
        | x :: r =>
            rbind (run x st) (fun st =>
              rbind (next_line (app_item (match r with [] => OTrail | _ => OT (TFix ",") end) st)) (go r))
        end in
      let d0 := f_depth st in
      let attempt :=
        rbind (inline_items true items (app_item (OT op) (set_depth st (S d0))))
              (fun st => check_long target (app_item (OT cl) st)) in
      match attempt with
      | ROk st' => ROk (set_depth st' d0)
      | RBack st' =>
          match d0 with
          | O =>
              (* backtrack: truncate the line buffer, write the block layout *)
              let st1 := app_item (OT op) (set_line (set_depth st' O) (f_line st)) in
              rbind (next_line st1) (fun st =>
              rbind (add_indent true st) (fun st =>
              rbind (block_items items st) (fun st =>
              rbind (add_indent false st) (fun st => ROk (app_item (OT cl) st)))))
          | _ => RBack (set_depth st' d0)
          end
      | r => r
      end
  end.

End Run.

Definition init_state : fstate := mkF [] [] false O false O false false.

(* Formatter::with_config + fmt + into_inner.  Config::max_columns(w) computes w - 1 on a usize. *)
Definition render_items (w : nat) (d : doc) : outcome (list oitem) :=
  match w with
  | O => Panic P_OVERFLOW
  | S target =>
      match run target d init_state with
      | ROk st => Ok (rev ((if f_pending st then f_line st else []) ++ f_out st))
      | RBack _ => Err 40       (* "Failed to backtrack for conditional block formatting" *)
      | RPanic t => Panic t
      | RUnsup => Err 41
      end
  end.

Definition render (w : nat) (d : doc) : outcome string :=
  match render_items w d with Ok l => Ok (concat_text l) | Err t => Err t | Panic t => Panic t | OutOfFuel => OutOfFuel end.

(* the tokens of an output, with and without the optional trailing commas *)
Fixpoint otoks (l : list oitem) : list token :=
  match l with [] => [] | OT t :: r => t :: otoks r | OTrail :: r => TFix "," :: otoks r | _ :: r => otoks r end.
Fixpoint otoks_nt (l : list oitem) : list token :=
  match l with [] => [] | OT t :: r => t :: otoks_nt r | _ :: r => otoks_nt r end.

(* the tokens of a document (inline layout, no trailing commas) *)
Fixpoint dtoks (d : doc) : list token :=
  match d with
  | DT t => [t]
  | DLabel b => dtoks b
  | DSeq l => flat_map dtoks l
  | DList op cl items => op :: sep_by [TFix ","] (map dtoks items) ++ [cl]
  | _ => []
  end.

Definition print_expr (fd : Z -> string) (sup : bool) (e : fexpr) : string := concat_text (flat (DSeq (pp fd sup e))).
Definition expr_toks (fd : Z -> string) (sup : bool) (e : fexpr) : list token := otoks (flat (DSeq (pp fd sup e))).

(* print_int as text *)
Definition print_int (f : intfmt) (v : Z) : string := concat_text (flat (DSeq (pp_int f v))).
