(* Model/Stream.v -- the instruction-stream core of decompile and of compile, assembled from the
   models of the argument codec (C12, Model/Abi.v), the difficulty labels (C14, Model/Diff.v) and
   the time labels (C13, Model/Time.v).  Executable definitions only. *)
From TV Require Import Base.I32 Model.Abi Model.Diff Model.Time.
Open Scope Z_scope.

(* a raw instruction as it sits in the binary, with the signature the mapfile gives its opcode *)
Record rinstr := mkri { ri_time : Z; ri_mask : N; ri_sig : list enc; ri_res : encres }.

(* what the decompiled text says about one instruction: difficulty label and argument list *)
Record dinstr := mkdi { di_label : list chr; di_sig : list enc; di_args : list Abi.arg }.

Definition E_LOSSY : nat := 40.     (* decompile printed a warning that information is lost *)

Section Stream.
  Variable sjis_enc : list Z -> option bytes.
  Variable sjis_dec : bytes -> option (list Z).
  Variable cd : codec.
  Variable has_regs : bool.
  Variable fd : flagdefs.

  Definition decompile_instr (ri : rinstr) : outcome dinstr :=
    do lbl <- mask_to_label fd (ri_mask ri);
    do aw <- decode_call sjis_dec cd (ri_sig ri) (ri_res ri);
    match snd aw with
    | [] => Ok (mkdi lbl (ri_sig ri) (fst aw))
    | _ => Err E_LOSSY
    end.

  Definition compile_instr (time : Z) (di : dinstr) : outcome rinstr :=
    do m <- parse_label fd (di_label di);
    do rs <- encode_args sjis_enc cd has_regs (di_sig di) (di_args di) None;
    Ok (mkri time m (di_sig di) (fst rs)).

  Fixpoint omap {A B} (f : A -> outcome B) (l : list A) : outcome (list B) :=
    match l with
    | [] => Ok []
    | x :: t => do y <- f x; do t' <- omap f t; Ok (y :: t')
    end.

  Fixpoint ozip {A B C} (f : A -> B -> outcome C) (la : list A) (lb : list B) : outcome (list C) :=
    match la, lb with
    | [], [] => Ok []
    | a :: ta, b :: tb => do c <- f a b; do t <- ozip f ta tb; Ok (c :: t)
    | _, _ => Panic P_INDEX
    end.

  (* times of the instruction statements recorded by the time pass *)
  Fixpoint rec_times (l : list rec) : list Z :=
    match l with
    | [] => []
    | (TInstr _, t) :: r => t :: rec_times r
    | _ :: r => rec_times r
    end.

  (* decompile: time labels for the whole script (jumps = target index and time argument of every
     jump instruction) + label and arguments per instruction *)
  Definition decompile_script (jumps : list (nat * option Z)) (is : list rinstr)
    : outcome (list estmt * list dinstr) :=
    do es <- decompile_labels (script_einstrs (map ri_time is) jumps);
    do ds <- omap decompile_instr is;
    Ok (es, ds).

  (* compile: the time pass gives each instruction statement its time; labels and arguments are
     parsed / encoded per instruction *)
  Definition compile_script (x : list estmt * list dinstr) : outcome (list rinstr) :=
    do r <- time_pass (to_stmts (fst x));
    ozip compile_instr (rec_times r) (snd x).
End Stream.
