(* Model/Labels.v -- jump targets of a decoded script: `gather_instr_offsets`, `gather_jump_time_args`,
   `generate_offset_labels`, `generate_label_at_offset` (src/llir/raise/early.rs) and the later
   `offset_labels[&x]` / `.get(&x)` lookups of the raising passes.  Executable definitions only. *)
From TV Require Import Base.I32 Model.BinScript.
Open Scope Z_scope.

Definition E_BADJUMP : nat := 13.   (* "an instruction has a bad jump offset!" *)

(* argument encodings, as far as jumps are concerned (llir::ArgEncoding) *)
Inductive jenc := JOffset | JTime | JOther.

(* an instruction after decode_args: offset in the script, time, decoded integer arguments with their encodings *)
Record einstr := mkEI { ei_offset : Z; ei_time : Z; ei_encs : list jenc; ei_args : list Z }.

(* InstrAbi::validate: at most one 'o', at most one 't', and a 't' needs an 'o' *)
Definition count_enc (e : jenc) (l : list jenc) : nat :=
  length (filter (fun x => match x, e with JOffset, JOffset | JTime, JTime | JOther, JOther => true | _, _ => false end) l).
Definition abi_valid (l : list jenc) : bool :=
  (count_enc JOffset l <=? 1)%nat && (count_enc JTime l <=? 1)%nat &&
  negb (Nat.eqb (count_enc JTime l) 1 && Nat.eqb (count_enc JOffset l) 0).

(* extract_jump_args_by_signature: a fold, the LAST 'o' / 't' argument wins *)
Fixpoint last_arg (e : jenc) (encs : list jenc) (args : list Z) (acc : option Z) : option Z :=
  match encs, args with
  | c :: encs', a :: args' =>
      last_arg e encs' args' (match c, e with JOffset, JOffset | JTime, JTime => Some a | _, _ => acc end)
  | _, _ => acc
  end.

(* IntrinsicInstrAbiParts (remove_first_where) and raise_raw_ins_args (.find): the FIRST 'o' argument *)
Fixpoint first_arg (e : jenc) (encs : list jenc) (args : list Z) : option Z :=
  match encs, args with
  | c :: encs', a :: args' =>
      match c, e with
      | JOffset, JOffset | JTime, JTime => Some a
      | _, _ => first_arg e encs' args'
      end
  | _, _ => None
  end.

(* the jump of an instruction: (destination offset, time argument) *)
Definition extract_jump (k : dlkind) (i : einstr) : outcome (option (Z * option Z)) :=
  match last_arg JOffset (ei_encs i) (ei_args i) None with
  | None => Ok None
  | Some bits =>
      do o <- decode_label k (ei_offset i) (u32 bits);
      Ok (Some (o, last_arg JTime (ei_encs i) (ei_args i) None))
  end.

(* BTreeMap<offset, BTreeSet<Option<time>>> as an association list sorted by key; sets as duplicate-free lists *)
Definition opt_eqb (a b : option Z) : bool :=
  match a, b with Some x, Some y => x =? y | None, None => true | _, _ => false end.
Definition set_add (t : option Z) (s : list (option Z)) : list (option Z) :=
  if existsb (opt_eqb t) s then s else t :: s.
Fixpoint map_add (o : Z) (t : option Z) (m : list (Z * list (option Z))) : list (Z * list (option Z)) :=
  match m with
  | [] => [(o, [t])]
  | (o', s) :: m' =>
      if o <? o' then (o, [t]) :: m
      else if o =? o' then (o', set_add t s) :: m'
      else (o', s) :: map_add o t m'
  end.

Fixpoint gather_jumps (k : dlkind) (script : list einstr) (m : list (Z * list (option Z))) : outcome (list (Z * list (option Z))) :=
  match script with
  | [] => Ok m
  | i :: rest =>
      do j <- extract_jump k i;
      gather_jumps k rest (match j with Some (o, t) => map_add o t m | None => m end)
  end.

(* gather_instr_offsets: n + 1 offsets *)
Fixpoint gather_offsets (sizes : list Z) (cur : Z) : list Z :=
  match sizes with [] => [cur] | s :: t => cur :: gather_offsets t (cur + s) end.

(* slice::binary_search on a strictly increasing slice = the unique index of the element *)
Fixpoint find_index (x : Z) (l : list Z) (n : nat) : option nat :=
  match l with [] => None | y :: t => if x =? y then Some n else find_index x t (S n) end.

Inductive lname := LAt (off : Z) | LBefore (off : Z).       (* label_<off> / label_<off>r *)
Record label := mkLabel { l_time : Z; l_name : lname }.

(* generate_label_at_offset *)
Definition gen_label (prev next : Z * Z) (targs : list (option Z)) : label :=
  let ts := fold_right (fun t s => set_add (Some (match t with Some x => x | None => snd next end)) s) [] targs in
  if (snd prev <? snd next) && Nat.eqb (length ts) 1 &&
     match ts with [Some t] => t =? snd prev | _ => false end
  then mkLabel (snd prev) (LBefore (fst prev))
  else mkLabel (snd next) (LAt (fst next)).

Definition idx {A} (l : list A) (n : nat) : outcome A :=
  match nth_error l n with Some a => Ok a | None => Panic P_INDEX end.

Fixpoint generate_offset_labels (script : list einstr) (offsets : list Z) (jumps : list (Z * list (option Z)))
  : outcome (list (Z * label)) :=
  match jumps with
  | [] => Ok []
  | (o, targs) :: rest =>
      match find_index o offsets 0 with
      | None => Err E_BADJUMP
      | Some di =>
          do dest <- match nth_error script di with
                     | Some i => Ok i
                     | None => match last (map Some script) None with Some i => Ok i | None => Panic P_EXPECT end
                     end;
          do noff <- idx offsets di;
          do prev <- match di with
                     | O => Ok (0, 0)
                     | S p => do po <- idx offsets p; do pi <- idx script p; Ok (po, ei_time pi)
                     end;
          do ls <- generate_offset_labels script offsets rest;
          Ok ((o, gen_label prev (noff, ei_time dest) targs) :: ls)
      end
  end.

Fixpoint assoc_z {A} (l : list (Z * A)) (k : Z) : option A :=
  match l with [] => None | (k', v) :: t => if k =? k' then Some v else assoc_z t k end.

(* raise_intrinsic_parts: `&self.offset_labels[&label_offset]` for the 'o' argument found through the ABI parts *)
Definition lookup_jump_label (k : dlkind) (ls : list (Z * label)) (i : einstr) : outcome (option label) :=
  match first_arg JOffset (ei_encs i) (ei_args i) with
  | None => Ok None
  | Some bits =>
      do o <- decode_label k (ei_offset i) (u32 bits);
      match assoc_z ls o with Some l => Ok (Some l) | None => Panic P_INDEX end
  end.

(* the whole label pass of early_raise_instrs for one script *)
Definition label_pass (k : dlkind) (script : list einstr) (sizes : list Z) : outcome (list (Z * label)) :=
  do jumps <- gather_jumps k script [];
  generate_offset_labels script (gather_offsets sizes 0) jumps.

(* ... followed by the lookup for every instruction *)
Fixpoint lookups (k : dlkind) (ls : list (Z * label)) (script : list einstr) : outcome unit :=
  match script with
  | [] => Ok tt
  | i :: rest => do r <- lookup_jump_label k ls i; lookups k ls rest
  end.

Definition label_pass_and_lookups (k : dlkind) (script : list einstr) (sizes : list Z) : outcome unit :=
  do ls <- label_pass k script sizes; lookups k ls script.
