(* Model/Resolve.v -- C10: executable model of truth's name resolution
   (src/resolve/mod.rs `resolve_names::Visitor` + `RibStacks::resolve`, src/passes/resolution.rs
   `assign_languages`).  Definitions only.

   The rib stack is a list of ribs, innermost first.  Ribs of the two namespaces (variables,
   functions) live in two stacks.  The global ribs the implementation starts with (mapfile aliases
   per language, builtin consts, enum consts) are not materialised: [global_var]/[global_fun]
   walk them in the order of the generated table [gen_initial_ribs]. *)
From TV Require Import Base.I32 Model.ResolveSyntax Gen.RibTable.
Open Scope Z_scope.

(* ---- small helpers ---- *)

Definition tag_eqb (a b : ribtag) : bool :=
  match a, b with
  | TLocals, TLocals | TParams, TParams | TLocalBarrier, TLocalBarrier | TItems, TItems
  | TMapfile, TMapfile | TEnumConsts, TEnumConsts | TBuiltinConsts, TBuiltinConsts | TDummyRoot, TDummyRoot => true
  | _, _ => false
  end.

(* RibKind::holds_locals / RibKind::local_barrier_cause, read from the source on every run *)
Definition holds_locals (k : ribtag) : bool := existsb (tag_eqb k) gen_holds_locals.
Definition is_barrier (k : ribtag) : bool := existsb (tag_eqb k) gen_barriers.

Fixpoint assoc {A} (x : ident) (l : list (ident * A)) : option A :=
  match l with
  | [] => None
  | (y, a) :: t => if x =? y then Some a else assoc x t
  end.

Fixpoint memz (x : Z) (l : list Z) : bool :=
  match l with [] => false | y :: t => (x =? y) || memz x t end.

(* ---- ribs ---- *)

Record rib := Rib { rkind : ribtag; rents : list (ident * def) }.
Definition stack := list rib.

Inductive lres := LFound (d : def) | LHidden (d : def) | LNone.

(* RibStacks::resolve restricted to the ribs pushed while walking the program:
   a rib that is a barrier sets [crossed]; the first rib that has the name decides;
   if it holds locals and a barrier has been crossed the use is an error. *)
Fixpoint lookup (st : stack) (x : ident) (crossed : bool) : lres :=
  match st with
  | [] => LNone
  | r :: rest =>
      let crossed' := crossed || is_barrier (rkind r) in
      match assoc x (rents r) with
      | Some d => if holds_locals (rkind r) && crossed' then LHidden d else LFound d
      | None => lookup rest x crossed'
      end
  end.

(* ---- global names ---- *)

Definition has_reg (g : genv) (l : lang) (x : ident) : bool :=
  existsb (fun p => (fst p =? l) && (snd p =? x)) (ge_regs g).

Fixpoint ins_opcode_in (ins : list (lang * ident * Z)) (l : lang) (x : ident) : option Z :=
  match ins with
  | [] => None
  | (l', x', op) :: t => if (l' =? l) && (x' =? x) then Some op else ins_opcode_in t l x
  end.
Definition ins_opcode (g : genv) := ins_opcode_in (ge_ins g).

Definition sigt := list (option ident * bool).   (* per parameter: enum colour, has a default *)

Fixpoint sig_in (sigs : list (lang * Z * sigt)) (l : lang) (op : Z) : option sigt :=
  match sigs with
  | [] => None
  | (l', op', s) :: t => if (l' =? l) && (op' =? op) then Some s else sig_in t l op
  end.
Definition sig_of (g : genv) := sig_in (ge_sigs g).

Definition enum_declared (g : genv) (e : ident) : bool := existsb (fun p => fst p =? e) (ge_enums g).
Definition enum_has (g : genv) (e x : ident) : bool :=
  existsb (fun p => (fst p =? e) && memz x (snd p)) (ge_enums g).
(* the enums that define a const named x *)
Definition enums_with (g : genv) (x : ident) : list ident :=
  map fst (filter (fun p => memz x (snd p)) (ge_enums g)).

(* Visitor::resolve_unqualified_enum_const *)
Definition enum_unqualified (g : genv) (colour : option ident) (x : ident) : res :=
  let by_uniqueness :=
    match enums_with g x with
    | [e] => ROk (DEnum e x)
    | _ => RAmbiguous
    end in
  match colour with
  | Some e => if enum_has g e x then ROk (DEnum e x) else by_uniqueness
  | None => by_uniqueness
  end.

(* Visitor::resolve_qualified_enum_const *)
Definition enum_qualified (g : genv) (e x : ident) : res :=
  if enum_declared g e then (if enum_has g e x then ROk (DEnum e x) else RNoConst) else RNoEnum.

(* the initial ribs of the variable namespace, innermost first *)
Fixpoint global_var_in (ribs : list gribtag) (g : genv) (al : option lang) (colour : option ident) (x : ident) : res :=
  match ribs with
  | [] => RUnknown
  | GEnumConsts :: t =>
      match enums_with g x with
      | [] => global_var_in t g al colour x
      | _ => enum_unqualified g colour x
      end
  | GBuiltinConsts :: t => if memz x (ge_builtins g) then ROk (DBuiltin x) else global_var_in t g al colour x
  | GRegAliases :: t =>
      match al with
      | Some l => if has_reg g l x then ROk (DReg l x) else global_var_in t g al colour x
      | None => global_var_in t g al colour x
      end
  | GInsAliases :: t => global_var_in t g al colour x
  end.
Definition global_var := global_var_in (rev gen_initial_ribs).

Fixpoint global_fun_in (ribs : list gribtag) (g : genv) (al : option lang) (x : ident) : res :=
  match ribs with
  | [] => RUnknown
  | GInsAliases :: t =>
      match al with
      | Some l => match ins_opcode g l x with Some _ => ROk (DIns l x) | None => global_fun_in t g al x end
      | None => global_fun_in t g al x
      end
  | _ :: t => global_fun_in t g al x
  end.
Definition global_fun := global_fun_in (rev gen_initial_ribs).

(* ---- one use ---- *)

Definition of_lres (r : lres) (otherwise : res) : res :=
  match r with LFound d => ROk d | LHidden d => RBarrier d | LNone => otherwise end.

Definition lookup_fun (g : genv) (lf : ident -> lres) (al : option lang) (x : ident) : res :=
  of_lres (lf x) (global_fun g al x).

Definition lookup_var (g : genv) (lv : ident -> lres) (al : option lang) (colour : option ident) (x : ident) : res :=
  of_lres (lv x) (global_var g al colour x).

(* the signature the implementation finds for a call *)
Definition callee_sig (g : genv) (lf : ident -> lres) (al : option lang) (c : callee) : option sigt :=
  match c with
  | CRaw op => match al with Some l => sig_of g l op | None => None end
  | CNamed o =>
      match lookup_fun g lf al (oname o) with
      | ROk (DFunc _ n) => Some (repeat (None, false) n)
      | ROk (DIns l x) => match ins_opcode g l x with Some op => sig_of g l op | None => None end
      | _ => None
      end
  end.

(* Signature::match_params_to_args: the parameters that are zipped with the arguments; parameters
   with a default (instruction padding) are left out when the generated flag says so *)
Definition matched (s : sigt) : sigt :=
  if gen_zip_skips_padding then filter (fun p => negb (snd p)) s else s.

(* visit_call_args_with_signature_info: with a signature, an argument is visited if it is zipped
   with a parameter, or by the extra loop over the remaining arguments, which (generated
   [gen_excess_mode]) does not exist / starts after as many arguments as there are parameters /
   starts after the matched ones.  Findings c10-excess-args, c10-padding-gap. *)
Definition arg_visited (s : sigt) (pos : nat) : bool :=
  Nat.ltb pos (length (matched s))
  || match gen_excess_mode with
     | ExNone => false
     | ExAfterParams => Nat.leb (length s) pos
     | ExAfterMatched => true
     end.

Fixpoint visited (g : genv) (lf : ident -> lres) (al : option lang) (gs : list guard) : bool :=
  match gs with
  | [] => true
  | gd :: outer =>
      visited g lf al outer &&
      match callee_sig g lf al (g_callee gd) with
      | Some s => arg_visited s (g_pos gd)
      | None => true
      end
  end.

(* the top of ty_color_stack: pushed (even when None) for every argument matched with a parameter;
   an argument that is not matched with a parameter sees the colour of its surroundings *)
Fixpoint colour (g : genv) (lf : ident -> lres) (al : option lang) (gs : list guard) : option ident :=
  match gs with
  | [] => None
  | gd :: outer =>
      match callee_sig g lf al (g_callee gd) with
      | Some s => if Nat.ltb (g_pos gd) (length (matched s)) then fst (nth (g_pos gd) (matched s) (None, false)) else colour g lf al outer
      | None => colour g lf al outer
      end
  end.

Definition resolve_use (g : genv) (lv lf : ident -> lres) (al : option lang) (u : use) : res :=
  if visited g lf al (u_guards u) then
    match u_kind u with
    | UVar => lookup_var g lv al (colour g lf al (u_guards u)) (oname (u_occ u))
    | UFun => lookup_fun g lf al (oname (u_occ u))
    | UEnumQ e => enum_qualified g e (oname (u_occ u))
    end
  else RSkipped.

Definition use_event (g : genv) (lv lf : ident -> lres) (al : option lang) (u : use) : event :=
  EvRes (oid (u_occ u)) (resolve_use g lv lf al u).

(* ---- declarations ---- *)

(* add_to_rib_with_redefinition_check: the new entry replaces the old one; a diagnostic is emitted *)
Definition declare (ents : list (ident * def)) (o : occ) (d : def) : list event * list (ident * def) :=
  (EvRes (oid o) (ROk d) :: (match assoc (oname o) ents with Some _ => [EvRedef (oid o)] | None => [] end),
   (oname o, d) :: ents).

Fixpoint declare_all (mk : occ -> def) (ents : list (ident * def)) (os : list occ) : list event * list (ident * def) :=
  match os with
  | [] => ([], ents)
  | o :: t =>
      let '(e1, ents1) := declare ents o (mk o) in
      let '(e2, ents2) := declare_all mk ents1 t in
      (e1 ++ e2, ents2)
  end.

Fixpoint block_items (b : block) : list item :=
  match b with
  | BNil => []
  | BCons (SItem i) t => i :: block_items t
  | BCons _ t => block_items t
  end.

Definition const_occs (its : list item) : list occ :=
  flat_map (fun i => match i with IConst vars => map fst vars | _ => [] end) its.
Definition func_occs (its : list item) : list (occ * nat) :=
  flat_map (fun i => match i with
                     | IFunc _ f ps _ | IFuncDecl _ f ps => [(f, length ps)]
                     | _ => [] end) its.

Definition mk_const (o : occ) : def := DConst (oid o).
Definition mk_local (o : occ) : def := DLocal (oid o).
Definition mk_param (o : occ) : def := DParam (oid o).

Fixpoint declare_funcs (ents : list (ident * def)) (fs : list (occ * nat)) : list event * list (ident * def) :=
  match fs with
  | [] => ([], ents)
  | (f, n) :: t =>
      let '(e1, ents1) := declare ents f (DFunc (oid f) n) in
      let '(e2, ents2) := declare_funcs ents1 t in
      (e1 ++ e2, ents2)
  end.

(* add_item_to_scope over the items of a block (or of the file) *)
Definition declare_items (its : list item) : list event * list (ident * def) * list (ident * def) :=
  let '(ec, cents) := declare_all mk_const [] (const_occs its) in
  let '(ef, fents) := declare_funcs [] (func_occs its) in
  (ec ++ ef, cents, fents).

(* assign_languages: the language a name is looked up with *)
Definition func_lang (fl : lang) (q : fqual) : option lang :=
  match q with QConst => None | _ => Some fl end.

(* ---- the visitor ---- *)

Section Visit.
  Variable g : genv.
  Variables fl sl : lang.        (* language of functions / of scripts *)

  Definition uses_events (cv cf : stack) (al : option lang) (us : list use) : list event :=
    map (use_event g (fun x => lookup cv x false) (fun x => lookup cf x false) al) us.

  (* StmtKind::Declaration: the initialiser is resolved before the name is added to the Locals rib *)
  Fixpoint decl_events (locals : list (ident * def)) (cv cf : stack) (al : option lang)
           (vars : list (occ * list use)) : list event * list (ident * def) :=
    match vars with
    | [] => ([], locals)
    | (o, init) :: t =>
        let e0 := uses_events (Rib TLocals locals :: cv) cf al init in
        let '(e1, locals1) := declare locals o (mk_local o) in
        let '(e2, locals2) := decl_events locals1 cv cf al t in
        (e0 ++ e1 ++ e2, locals2)
    end.

  Definition const_events (cv cf : stack) (vars : list (occ * list use)) : list event :=
    flat_map (fun v => uses_events (Rib TLocalBarrier [] :: cv) cf None (snd v)) vars.

  (* [visit_stmts locals cv cf al b]: the statements of a block whose Locals rib currently holds
     [locals]; [cv]/[cf] are the ribs below it (the block's Items rib first) *)
  Fixpoint visit_stmts (locals : list (ident * def)) (cv cf : stack) (al : option lang) (b : block) {struct b} : list event :=
    match b with
    | BNil => []
    | BCons s rest =>
        match s with
        | SUses us => uses_events (Rib TLocals locals :: cv) cf al us ++ visit_stmts locals cv cf al rest
        | SDecl vars =>
            let '(e, locals') := decl_events locals cv cf al vars in
            e ++ visit_stmts locals' cv cf al rest
        | SBlock b' =>
            let '(e, cents, fents) := declare_items (block_items b') in
            e ++ visit_stmts [] (Rib TItems cents :: Rib TLocals locals :: cv) (Rib TItems fents :: cf) al b'
              ++ visit_stmts locals cv cf al rest
        | SItem i => visit_item (Rib TLocals locals :: cv) cf i ++ visit_stmts locals cv cf al rest
        end
    end
  with visit_item (cv cf : stack) (i : item) {struct i} : list event :=
    match i with
    | IConst vars => const_events cv cf vars
    | IFunc q f ps body =>
        let '(ep, pents) := declare_all mk_param [] ps in
        let '(e, cents, fents) := declare_items (block_items body) in
        ep ++ e ++ visit_stmts [] (Rib TItems cents :: Rib TParams pents :: Rib TLocalBarrier [] :: cv)
                               (Rib TItems fents :: cf) (func_lang fl q) body
    | IFuncDecl q f ps => map (fun p => EvRes (oid p) RSkipped) ps
    | IScript b =>
        let '(e, cents, fents) := declare_items (block_items b) in
        e ++ visit_stmts [] (Rib TItems cents :: cv) (Rib TItems fents :: cf) (Some sl) b
    | IMeta us => uses_events cv cf None us
    end.

  (* Visitor::visit_block *)
  Definition visit_block (cv cf : stack) (al : option lang) (b : block) : list event :=
    let '(e, cents, fents) := declare_items (block_items b) in
    e ++ visit_stmts [] (Rib TItems cents :: cv) (Rib TItems fents :: cf) al b.

  Definition resolve (p : prog) : list event :=
    match p with
    | PFile items =>
        let '(e, cents, fents) := declare_items items in
        e ++ flat_map (visit_item [Rib TItems cents] [Rib TItems fents]) items
    | PBlock b => visit_block [] [] (Some fl) b
    end.
End Visit.

(* ---- reading the result ---- *)

(* the index of the declaring occurrence, for definitions made by the program *)
Definition user_id (d : def) : option Z :=
  match d with DLocal i | DParam i | DConst i | DFunc i _ => Some i | _ => None end.

Definition is_error (r : res) : bool :=
  match r with ROk _ | RSkipped => false | _ => true end.

Definition event_is_error (e : event) : bool :=
  match e with EvRes _ r => is_error r | EvRedef _ => true end.

Definition errors (evs : list event) : list event := filter event_is_error evs.

Definition is_res (e : event) : bool := match e with EvRes _ _ => true | EvRedef _ => false end.
Definition res_events (evs : list event) : list event := filter is_res evs.
Definition redef_events (evs : list event) : list event := filter (fun e => negb (is_res e)) evs.

(* resolve_names returns Ok iff no diagnostic was emitted; then the table maps every visited
   occurrence to its definition *)
Definition E_RESOLVE : nat := 10.
Definition resolve_outcome (g : genv) (fl sl : lang) (p : prog) : outcome (list event) :=
  let evs := resolve g fl sl p in
  match errors evs with [] => Ok evs | _ => Err E_RESOLVE end.

Fixpoint find_res (id : Z) (evs : list event) : option res :=
  match evs with
  | [] => None
  | EvRes i r :: t => if i =? id then Some r else find_res id t
  | _ :: t => find_res id t
  end.
