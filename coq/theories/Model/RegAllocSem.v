(* Model/RegAllocSem.v -- glue between the lowering model (Model/Lower.v: `lstmt` over `targ`, with
   locals) and the register-allocator model (Model/RegAlloc.v: `lstmt` over `larg`).  Definitions only.

   The two models describe the same Rust type `LowerStmt` at different levels of detail: Lower.v keeps
   the intrinsic kind and typed immediates (it needs the semantics), RegAlloc.v keeps opcode / time /
   difficulty and the bare argument list (it needs registers only).  [conv_stmt] forgets from the first
   to the second.  [regify] replays the allocator of RegAlloc.v (its [step]) over a Lower.v stream and
   performs the substitution Local -> register on the Lower.v representation. *)
From TV Require Import Base.I32 Base.F32 Model.Ops Model.Expr.
From TV Require Model.Lower Model.LowerSem Model.RegAlloc.
Open Scope Z_scope.

Module L := TV.Model.Lower.
Module LS := TV.Model.LowerSem.
Module RA := TV.Model.RegAlloc.

Definition conv_ty (t : L.ty) : RA.ty := match t with L.TInt => RA.TInt | L.TFloat => RA.TFloat end.

(* immediates carry no register: any code will do *)
Definition imm_code (v : value) : Z := match v with VInt z => z | VFloat b => b | VStr _ => 0 end.

Fixpoint conv_arg (a : L.targ) : RA.larg :=
  match a with
  | L.TImm v => RA.Raw (RA.SImm (imm_code v))
  | L.TVar t (L.VReg r) => RA.Raw (RA.SReg r (conv_ty t))
  | L.TVar t (L.VLoc d) => RA.Local (N.of_nat d) (conv_ty t)
  | L.TDiff cs =>
      RA.DiffSwitch ((fix go (l : list (option L.targ)) : list (option RA.larg) :=
                        match l with
                        | [] => []
                        | None :: t => None :: go t
                        | Some x :: t => Some (conv_arg x) :: go t
                        end) cs)
  | L.TOffsetOf _ => RA.ALabel 0
  | L.TTimeOf _ => RA.ATimeOf 0
  end.

(* the variable-bearing arguments of an intrinsic instruction, outputs first *)
Definition instr_args (i : L.tinstr) : list L.targ :=
  match i with
  | L.IAssignOp _ _ dst src => [dst; src]
  | L.IBinOp _ _ dst a b => [dst; a; b]
  | L.IUnOp _ _ dst a => [dst; a]
  | L.ICondJmp _ _ a b _ _ => [a; b]
  | L.ICmp _ a b => [a; b]
  | L.ICmpJmp _ _ _ => []
  | L.ICountJmp _ x _ _ => [x]
  | L.IJmp _ _ => []
  | L.IInterrupt _ => []
  | L.ICall _ args => args
  end.

Section Conv.
  (* the opcode the intrinsic table gives an instruction (only consulted for the scratch-forbidding check) *)
  Variable opc : L.tinstr -> Z.

  Definition conv_stmt (x : L.lstmt) : RA.lstmt :=
    match x with
    | L.LInstr time mask i => RA.Instr (opc i) time mask (RA.Known (map conv_arg (instr_args i)))
    | L.LLabel _ _ => RA.Label 0
    | L.LAlloc d _ => RA.RegAlloc (N.of_nat d)
    | L.LFree d => RA.RegFree (N.of_nat d)
    end.

  (* Local -> the register currently bound to it *)
  Fixpoint subst_targ (Lc : list (N * Z)) (a : L.targ) : option L.targ :=
    match a with
    | L.TVar t (L.VLoc d) =>
        match RA.lookup (N.of_nat d) Lc with Some r => Some (L.TVar t (L.VReg r)) | None => None end
    | L.TDiff cs =>
        match (fix go (l : list (option L.targ)) : option (list (option L.targ)) :=
                 match l with
                 | [] => Some []
                 | None :: t => match go t with Some t' => Some (None :: t') | None => None end
                 | Some x :: t =>
                     match subst_targ Lc x with
                     | Some x' => match go t with Some t' => Some (Some x' :: t') | None => None end
                     | None => None
                     end
                 end) cs with
        | Some cs' => Some (L.TDiff cs')
        | None => None
        end
    | _ => Some a
    end.

  Fixpoint subst_targs (Lc : list (N * Z)) (l : list L.targ) : option (list L.targ) :=
    match l with
    | [] => Some []
    | a :: t =>
        match subst_targ Lc a with
        | Some a' => match subst_targs Lc t with Some t' => Some (a' :: t') | None => None end
        | None => None
        end
    end.

  Definition subst_instr (Lc : list (N * Z)) (i : L.tinstr) : option L.tinstr :=
    match i with
    | L.IAssignOp aop t dst src =>
        match subst_targs Lc [dst; src] with Some [d'; s'] => Some (L.IAssignOp aop t d' s') | _ => None end
    | L.IBinOp op t dst a b =>
        match subst_targs Lc [dst; a; b] with Some [d'; a'; b'] => Some (L.IBinOp op t d' a' b') | _ => None end
    | L.IUnOp op t dst a =>
        match subst_targs Lc [dst; a] with Some [d'; a'] => Some (L.IUnOp op t d' a') | _ => None end
    | L.ICondJmp op t a b l tm =>
        match subst_targs Lc [a; b] with Some [a'; b'] => Some (L.ICondJmp op t a' b' l tm) | _ => None end
    | L.ICmp t a b =>
        match subst_targs Lc [a; b] with Some [a'; b'] => Some (L.ICmp t a' b') | _ => None end
    | L.ICountJmp op x l tm =>
        match subst_targs Lc [x] with Some [x'] => Some (L.ICountJmp op x' l tm) | _ => None end
    | L.ICall o args =>
        match subst_targs Lc args with Some args' => Some (L.ICall o args') | None => None end
    | L.ICmpJmp _ _ _ | L.IJmp _ _ | L.IInterrupt _ => Some i
    end.

  (* the allocator of Model/RegAlloc.v replayed over a Lower.v stream *)
  Fixpoint regify (c : RA.cfg) (K : list Z) (s : RA.st) (code : list L.lstmt)
    : outcome (RA.st * list L.lstmt) :=
    match code with
    | [] => Ok (s, [])
    | x :: t =>
        do r <- RA.step c K s (conv_stmt x);
        do x' <- match x with
                 | L.LInstr time mask i =>
                     match subst_instr (RA.locals s) i with
                     | Some i' => Ok (L.LInstr time mask i')
                     | None => Panic P_INDEX
                     end
                 | _ => Ok x
                 end;
        do r' <- regify c K (fst r) t;
        Ok (fst r', x' :: snd r')
    end.

  Definition assign_registers_l (c : RA.cfg) (code : list L.lstmt) : outcome (RA.st * list L.lstmt) :=
    let rcode := map conv_stmt code in
    do r <- regify c (RA.clash c (RA.explicit c rcode)) (RA.init c rcode) code;
    if RA.anti_sub (fst r) && RA.used_scratch (fst r) then Err RA.E_ANTI_SUB else Ok r.
End Conv.

(* ---------------------------------------------------------------------------------------- *)
(* initialised-before-read: the locals an instruction reads have been written since they were
   allocated (LowerSem gives a fresh local a default value; a register holds whatever was in it) *)

Definition arg_locals (a : L.targ) : list nat :=
  match a with L.TVar _ (L.VLoc d) => [d] | _ => [] end.

(* what exec_pure reads / writes *)
Definition instr_reads (i : L.tinstr) : list L.targ :=
  match i with
  | L.IAssignOp None _ _ src => [src]
  | L.IAssignOp (Some _) _ dst src => [dst; src]
  | L.IBinOp _ _ _ a b => [a; b]
  | L.IUnOp _ _ _ a => [a]
  | _ => []
  end.

Definition instr_write (i : L.tinstr) : list L.targ :=
  match i with
  | L.IAssignOp _ _ dst _ | L.IBinOp _ _ dst _ _ | L.IUnOp _ _ dst _ => [dst]
  | _ => []
  end.

Definition mem_nat (d : nat) (l : list nat) : bool := existsb (Nat.eqb d) l.
Definition remove_nat (d : nat) (l : list nat) : list nat := filter (fun x => negb (Nat.eqb d x)) l.

Fixpoint init_ok (I : list nat) (code : list L.lstmt) : bool :=
  match code with
  | [] => true
  | L.LInstr _ _ i :: t =>
      forallb (fun d => mem_nat d I) (flat_map arg_locals (instr_reads i)) &&
      init_ok (flat_map arg_locals (instr_write i) ++ I) t
  | L.LAlloc d _ :: t => init_ok (remove_nat d I) t
  | L.LFree d :: t => init_ok (remove_nat d I) t
  | L.LLabel _ _ :: t => init_ok I t
  end.
