(* Model/Pixel.v -- executable model of truth's texture handling (property C17):
   src/image/color.rs (pixel formats, as expression trees produced by gen/pixel.py),
   src/formats/anm/image_io.rs (extract = pad by the offsets, load = crop by the same),
   src/formats/anm/mod.rs (image sources, SoftOption precedence, finalize_entry_texture).
   Definitions only; everything is parameterised by the generated [pixtable]. *)
From TV Require Import Base.I32 Base.F32.
Open Scope Z_scope.

(* ------------------------------------------------------------------------------------------ *)
(* expression trees of color.rs *)

Inductive pvar := VIn | VR | VG | VB | VA | VX | VIN | VOUT.
Inductive pop := OShl | OShr | OAnd | OOr | OAdd | OSub | OMul.

(* [PBin op w a b]: the Rust operator at integer width [w] (u8/u16/u32) *)
Inductive pexpr :=
| PVar (v : pvar)
| PLit (z : Z)
| PBin (op : pop) (w : Z) (a b : pexpr)
| PCast (bits : Z) (e : pexpr)                 (* `e as uN` *)
| PCbd (i o : Z) (e : pexpr)                   (* change_bit_depth::<i, o>(e) *)
| PUnrec.                                      (* the translator did not understand the source *)

Inductive fop := FOAdd | FOSub | FOMul.
Inductive fexpr :=
| FLit (bits : Z)
| FOfInt (e : pexpr)                           (* `e as f32` for a u8 *)
| FBin (op : fop) (a b : fexpr)
| FUnrec.

Record chans := { c_red : pexpr; c_green : pexpr; c_blue : pexpr; c_alpha : pexpr }.

Inductive cformat := Argb8888 | Rgb565 | Argb4444 | Gray8.

Record pixtable := {
  pt_cbd_down : pexpr; pt_cbd_up : pexpr;
  pt_dec565 : chans; pt_enc565 : pexpr;
  pt_dec4444 : chans; pt_enc4444 : pexpr;
  pt_decG : chans; pt_encG : fexpr;
  pt_dec8888_be : list pvar; pt_enc8888_be : list pvar;
  pt_fmt_num : cformat -> Z; pt_bpp : cformat -> Z;
  pt_transcoders : bool
}.

Definition env := pvar -> Z.

Definition pop_eval (op : pop) (w x y : Z) : outcome Z :=
  match op with
  | OShl => if (y <? 0) || (w <=? y) then Panic P_OVERFLOW else Ok ((x * 2 ^ y) mod 2 ^ w)
  | OShr => if (y <? 0) || (w <=? y) then Panic P_OVERFLOW else Ok (x / 2 ^ y)
  | OAnd => Ok (Z.land x y)
  | OOr => Ok (Z.lor x y)
  | OAdd => if 2 ^ w <=? x + y then Panic P_OVERFLOW else Ok (x + y)
  | OSub => if x - y <? 0 then Panic P_OVERFLOW else Ok (x - y)
  | OMul => if 2 ^ w <=? x * y then Panic P_OVERFLOW else Ok (x * y)
  end.

Section Eval.
  Variable cbd : Z -> Z -> Z -> outcome Z.
  Fixpoint peval_gen (rho : env) (e : pexpr) : outcome Z :=
    match e with
    | PVar v => Ok (rho v)
    | PLit z => Ok z
    | PBin op w a b =>
        do x <- peval_gen rho a; do y <- peval_gen rho b; pop_eval op w x y
    | PCast bits a => do x <- peval_gen rho a; Ok (x mod 2 ^ bits)
    | PCbd i o a => do x <- peval_gen rho a; cbd i o x
    | PUnrec => Panic P_UNREC
    end.
End Eval.

Definition env0 : env := fun _ => 0.
Definition env_set (rho : env) (v : pvar) (z : Z) : env :=
  fun v' => match v, v' with
            | VIn, VIn | VR, VR | VG, VG | VB, VB | VA, VA | VX, VX | VIN, VIN | VOUT, VOUT => z
            | _, _ => rho v'
            end.

(* fn change_bit_depth<const IN, const OUT>(x: u8): assert!(OUT <= IN * 2); if OUT <= IN {down} else {up} *)
Definition cbd_of (T : pixtable) (i o x : Z) : outcome Z :=
  let rho := env_set (env_set (env_set env0 VX x) VIN i) VOUT o in
  if o <=? i * 2 then
    peval_gen (fun _ _ _ => Panic P_UNREC) rho (if o <=? i then pt_cbd_down T else pt_cbd_up T)
  else Panic P_EXPECT.

Definition peval (T : pixtable) : env -> pexpr -> outcome Z := peval_gen (cbd_of T).

(* Rust `f as u8` on f32: truncate toward zero, saturate, NaN -> 0 *)
Definition f2u8 (f : Z) : Z :=
  let v := f2i f in if v <? 0 then 0 else if 255 <? v then 255 else v.

Fixpoint feval (T : pixtable) (rho : env) (e : fexpr) : outcome Z :=
  match e with
  | FLit b => Ok b
  | FOfInt a => do x <- peval T rho a; Ok (i2f x)
  | FBin op a b =>
      do x <- feval T rho a; do y <- feval T rho b;
      Ok (match op with FOAdd => fadd x y | FOSub => fsub x y | FOMul => fmul x y end)
  | FUnrec => Panic P_UNREC
  end.

(* ------------------------------------------------------------------------------------------ *)
(* pixels *)

Record comps := { red : Z; green : Z; blue : Z; alpha : Z }.

Definition env_in (p : Z) : env := env_set env0 VIn p.
Definition env_comps (c : comps) : env :=
  env_set (env_set (env_set (env_set env0 VR (red c)) VG (green c)) VB (blue c)) VA (alpha c).

Definition dec_chans (T : pixtable) (cs : chans) (p : Z) : outcome comps :=
  do b <- peval T (env_in p) (c_blue cs);
  do g <- peval T (env_in p) (c_green cs);
  do r <- peval T (env_in p) (c_red cs);
  do a <- peval T (env_in p) (c_alpha cs);
  Ok {| red := r; green := g; blue := b; alpha := a |}.

Definition dec565 T := dec_chans T (pt_dec565 T).
Definition enc565 T (c : comps) := peval T (env_comps c) (pt_enc565 T).
Definition dec4444 T := dec_chans T (pt_dec4444 T).
Definition enc4444 T (c : comps) := peval T (env_comps c) (pt_enc4444 T).
Definition decG T := dec_chans T (pt_decG T).
Definition encG T (c : comps) : outcome Z := do f <- feval T (env_comps c) (pt_encG T); Ok (f2u8 f).

(* Argb8888(u32): [a0; a1; a2; a3] = to_be_bytes, bound to the names of the generated order *)
Definition be_byte (p : Z) (k : nat) : Z := (p / 2 ^ (8 * (3 - Z.of_nat k))) mod 256.

Fixpoint index_of (v : pvar) (l : list pvar) (k : nat) : option nat :=
  match l with
  | [] => None
  | x :: t => if (match v, x with VR, VR | VG, VG | VB, VB | VA, VA => true | _, _ => false end)
              then Some k else index_of v t (S k)
  end.

Definition dec8888 (T : pixtable) (p : Z) : outcome comps :=
  let get v := match index_of v (pt_dec8888_be T) 0 with Some k => Ok (be_byte p k) | None => Panic P_UNREC end in
  if negb (Nat.eqb (length (pt_dec8888_be T)) 4) then Panic P_UNREC else
  do r <- get VR; do g <- get VG; do b <- get VB; do a <- get VA;
  Ok {| red := r; green := g; blue := b; alpha := a |}.

Definition comp_of (c : comps) (v : pvar) : Z :=
  match v with VR => red c | VG => green c | VB => blue c | VA => alpha c | _ => 0 end.

Definition enc8888 (T : pixtable) (c : comps) : outcome Z :=
  match pt_enc8888_be T with
  | [v0; v1; v2; v3] =>
      if match index_of VR [v0;v1;v2;v3] 0, index_of VG [v0;v1;v2;v3] 0, index_of VB [v0;v1;v2;v3] 0, index_of VA [v0;v1;v2;v3] 0 with
         | Some _, Some _, Some _, Some _ => true | _, _, _, _ => false end
      then Ok (comp_of c v0 * 2 ^ 24 + comp_of c v1 * 2 ^ 16 + comp_of c v2 * 2 ^ 8 + comp_of c v3)
      else Panic P_UNREC
  | _ => Panic P_UNREC
  end.

Definition dec_px (T : pixtable) (f : cformat) : Z -> outcome comps :=
  match f with Argb8888 => dec8888 T | Rgb565 => dec565 T | Argb4444 => dec4444 T | Gray8 => decG T end.
Definition enc_px (T : pixtable) (f : cformat) : comps -> outcome Z :=
  match f with Argb8888 => enc8888 T | Rgb565 => enc565 T | Argb4444 => enc4444 T | Gray8 => encG T end.

(* ------------------------------------------------------------------------------------------ *)
(* byte strings: ColorBytes::decode / encode (little-endian reads and writes) *)

Definition bytes := list Z.

Fixpoint le_value (bs : list Z) : Z :=
  match bs with [] => 0 | b :: t => b + 256 * le_value t end.

Fixpoint le_bytes (n : nat) (v : Z) : list Z :=
  match n with O => [] | S n' => v mod 256 :: le_bytes n' (v / 256) end.

Fixpoint omap {A B} (f : A -> outcome B) (l : list A) : outcome (list B) :=
  match l with
  | [] => Ok []
  | x :: t => do y <- f x; do r <- omap f t; Ok (y :: r)
  end.

(* the first [h] consecutive groups of [w] elements: pixels of a byte string, rows of a w x h buffer *)
Fixpoint rows_of {A} (w h : nat) (l : list A) : list (list A) :=
  match h with O => [] | S h' => firstn w l :: rows_of w h' (skipn w l) end.

Definition bpp_nat (T : pixtable) (f : cformat) : nat := Z.to_nat (pt_bpp T f).

(* fn decode(bytes): assert_eq!(bytes.len() % BYTES_PER_PIXEL, 0); (0..len / BPP).map(read one colour) *)
Definition decode_bytes (T : pixtable) (f : cformat) (bs : bytes) : outcome (list comps) :=
  let n := bpp_nat T f in
  if Nat.eqb n 0 then Panic P_DIV0 else
  if negb (Nat.eqb (Nat.modulo (length bs) n) 0) then Panic P_EXPECT else
  omap (fun ch => dec_px T f (le_value ch)) (rows_of n (Nat.div (length bs) n) bs).

Definition encode_bytes (T : pixtable) (f : cformat) (cs : list comps) : outcome bytes :=
  do l <- omap (fun c => do p <- enc_px T f c; Ok (le_bytes (bpp_nat T f) p)) cs;
  Ok (concat l).

(* ColorFormat::transcode_to_argb_8888 / transcode_from_argb_8888 *)
Definition to_argb (T : pixtable) (f : cformat) (bs : bytes) : outcome bytes :=
  if negb (pt_transcoders T) then Panic P_UNREC else
  match f with
  | Argb8888 => Ok bs
  | _ => do cs <- decode_bytes T f bs; encode_bytes T Argb8888 cs
  end.

Definition from_argb (T : pixtable) (f : cformat) (bs : bytes) : outcome bytes :=
  if negb (pt_transcoders T) then Panic P_UNREC else
  match f with
  | Argb8888 => Ok bs
  | _ => do cs <- decode_bytes T Argb8888 bs; encode_bytes T f cs
  end.

Definition all_formats : list cformat := [Argb8888; Rgb565; Argb4444; Gray8].

Definition format_of_num (T : pixtable) (n : Z) : option cformat :=
  find (fun f => pt_fmt_num T f =? n) all_formats.

(* ------------------------------------------------------------------------------------------ *)
(* images: rows of 4-byte pixels *)

Definition pixel := (Z * Z * Z * Z)%type.          (* the four bytes in buffer order *)
Record image := { iw : nat; ih : nat; irows : list (list pixel) }.

Definition swap02 (p : pixel) : pixel := let '(a, b, c, d) := p in (c, b, a, d).   (* BGRA <-> RGBA *)
Definition image_map (f : pixel -> pixel) (im : image) : image :=
  {| iw := iw im; ih := ih im; irows := map (map f) (irows im) |}.

Definition white : pixel := (255, 255, 255, 255).

Fixpoint px_of_bytes (fuel : nat) (bs : bytes) : list pixel :=
  match fuel with
  | O => []
  | S fuel' => match bs with a :: b :: c :: d :: t => (a, b, c, d) :: px_of_bytes fuel' t | _ => [] end
  end.
Definition bytes_of_px (l : list pixel) : bytes :=
  flat_map (fun p : pixel => let '(a, b, c, d) := p in [a; b; c; d]) l.

(* output image of (w + ox) x (h + oy), filled with 0xFF, the content copied to (ox, oy) *)
Definition pad (ox oy w : nat) (rows : list (list pixel)) : list (list pixel) :=
  repeat (repeat white (ox + w)) oy ++ map (fun r => repeat white ox ++ r) rows.

(* sub_image(ox, oy, w, h).to_image() *)
Definition crop {A} (ox oy w h : nat) (rows : list (list A)) : list (list A) :=
  map (fun r => firstn w (skipn ox r)) (firstn h (skipn oy rows)).

(* a texture as stored in a THTX section *)
Record texture := { t_w : nat; t_h : nat; t_fmt : Z; t_data : bytes }.

(* image_io::produce_image_from_entry *)
Definition produce_image (T : pixtable) (ox oy : nat) (t : texture) : outcome image :=
  match format_of_num T (t_fmt t) with
  | None => Err 20%nat                          (* "cannot transcode from unknown color format" *)
  | Some f =>
      (* "image data has .. bytes, but a WxH image of color format F needs .." *)
      if negb (Nat.eqb (length (t_data t)) (bpp_nat T f * t_w t * t_h t)) then Err 27%nat else
      do argb <- to_argb T f (t_data t);
      if (length argb <? 4 * t_w t * t_h t)%nat then Panic P_EXPECT   (* from_raw(..).expect("size error?!") *)
      else
        let content := rows_of (t_w t) (t_h t) (px_of_bytes (length argb) argb) in
        Ok (image_map swap02 {| iw := t_w t + ox; ih := t_h t + oy; irows := pad ox oy (t_w t) content |})
  end.

(* the bound on the padded image (fix d8a7ff5: at most b pixels, checked after the content was decoded);
   `bound` is read from the source by gen/texfmt.py: Some b on a tree with the fix, None before it *)
Definition over_bound (bound : option Z) (ox oy : nat) (t : texture) : bool :=
  match bound with
  | Some b => (b <? Z.of_nat (t_w t + ox) * Z.of_nat (t_h t + oy))%Z
  | None => false
  end.
Definition extract_image (bound : option Z) (T : pixtable) (ox oy : nat) (t : texture) : outcome image :=
  match format_of_num T (t_fmt t) with
  | None => Err 20%nat
  | Some f =>
      if negb (Nat.eqb (length (t_data t)) (bpp_nat T f * t_w t * t_h t)) then Err 27%nat
      else if over_bound bound ox oy t then Err 28%nat       (* "makes an unreasonably large image" *)
      else produce_image T ox oy t
  end.

(* ------------------------------------------------------------------------------------------ *)
(* SoftOption, working entries, image sources *)

Inductive soft (A : Type) := Missing | Soft (a : A) | Explicit (a : A).
Arguments Missing {A}. Arguments Soft {A} a. Arguments Explicit {A} a.

Definition set_soft {A} (s : soft A) (v : A) : soft A :=
  match s with Explicit _ => s | _ => Soft v end.
Definition set_soft_if_missing {A} (s : soft A) (v : A) : soft A :=
  match s with Missing => Soft v | _ => s end.
Definition into_option {A} (s : soft A) : option A :=
  match s with Missing => None | Soft a => Some a | Explicit a => Some a end.

Record wspecs := {
  s_w : soft nat; s_h : soft nat; s_fmt : soft Z; s_has : soft bool;
  s_ox : soft nat; s_oy : soft nat
}.

Section Sources.
  Variable pngfile : Type.

  Inductive loaded :=
  | LNone
  | LAnm (t : texture)                (* TextureFromSource::FromAnmFile *)
  | LImg (f : pngfile).               (* TextureFromSource::FromImage: the file found at that moment *)

  Record wentry := { we_path : nat; we_specs : wspecs; we_loaded : loaded }.

  (* an entry of an ANM file used as image source *)
  Record sentry := { se_path : nat; se_ox : nat; se_oy : nat; se_tex : option texture }.

  Inductive source :=
  | SAnm (es : list sentry)
  | SDir (files : list (nat * pngfile)).

  (* update_entry_from_anm_image_source (texture-relevant fields) *)
  Definition update_from_anm (d : wentry) (s : sentry) : wentry :=
    let sp := we_specs d in
    let sp1 := {| s_w := match se_tex s with Some t => set_soft (s_w sp) (t_w t) | None => s_w sp end;
                  s_h := match se_tex s with Some t => set_soft (s_h sp) (t_h t) | None => s_h sp end;
                  s_fmt := match se_tex s with Some t => set_soft (s_fmt sp) (t_fmt t) | None => s_fmt sp end;
                  s_has := set_soft (s_has sp) (match se_tex s with Some _ => true | None => false end);
                  s_ox := set_soft (s_ox sp) (se_ox s);
                  s_oy := set_soft (s_oy sp) (se_oy s) |} in
    {| we_path := we_path d; we_specs := sp1;
       we_loaded := match se_tex s with Some t => LAnm t | None => we_loaded d end |}.

  (* the per-path queues of apply_anm_image_source: the first remaining source entry with that path *)
  Fixpoint pop_path (p : nat) (q : list sentry) : option (sentry * list sentry) :=
    match q with
    | [] => None
    | s :: t => if Nat.eqb (se_path s) p then Some (s, t)
                else match pop_path p t with Some (x, t') => Some (x, s :: t') | None => None end
    end.

  Fixpoint apply_anm (q : list sentry) (ds : list wentry) : list wentry :=
    match ds with
    | [] => []
    | d :: t => match pop_path (we_path d) q with
                | Some (s, q') => update_from_anm d s :: apply_anm q' t
                | None => d :: apply_anm q t
                end
    end.

  Fixpoint lookup_file (p : nat) (fs : list (nat * pngfile)) : option pngfile :=
    match fs with
    | [] => None
    | (k, f) :: t => if Nat.eqb k p then Some f else lookup_file p t
    end.

  (* image_io::update_entry_from_directory_source *)
  Definition update_from_dir (fs : list (nat * pngfile)) (d : wentry) : wentry :=
    match lookup_file (we_path d) fs with
    | Some f => {| we_path := we_path d; we_specs := we_specs d; we_loaded := LImg f |}
    | None => d
    end.

  Definition apply_source (ds : list wentry) (s : source) : list wentry :=
    match s with
    | SAnm es => apply_anm es ds
    | SDir fs => map (update_from_dir fs) ds
    end.

  Definition apply_sources (srcs : list source) (ds : list wentry) : list wentry :=
    fold_left apply_source srcs ds.

  (* ---------------------------------------------------------------------------------------- *)
  (* finalize_entry_texture *)

  Variable png_dec : pngfile -> option image.      (* image::open(..) then .into_rgba8() *)
  Variable T : pixtable.

  Definition E_NODATA : nat := 21.       (* no bitmap data available *)
  Definition E_TOOSMALL : nat := 22.     (* image too small for an offset *)
  Definition E_WRONGDIMS : nat := 23.    (* wrong image dimensions *)
  Definition E_DIMS_MISMATCH : nat := 24.   (* provided dimensions do not match image source *)
  Definition E_FORMAT : nat := 25.       (* cannot transcode from/into unknown color format *)
  Definition E_IMGOPEN : nat := 26.      (* image::open failed *)

  (* validate_explicit_img_dimensions: an explicit dimension must equal the texture's *)
  Definition check_dim (user : soft nat) (tex : nat) : outcome unit :=
    match user with
    | Missing => Ok tt
    | Soft u => if Nat.eqb u tex then Ok tt else Panic P_EXPECT    (* unreachable!() *)
    | Explicit u => if Nat.eqb u tex then Ok tt else Err E_DIMS_MISMATCH
    end.

  Definition opt_z (o : option Z) : Z := match o with Some z => z | None => 0 end.

  (* validate_and_transcode_texture_for_entry *)
  Definition validate_and_transcode (sp : wspecs) (t : texture) : outcome bytes :=
    do u1 <- check_dim (s_w sp) (t_w t);
    do u2 <- check_dim (s_h sp) (t_h t);
    match into_option (s_fmt sp) with
    | None => Panic P_EXPECT
    | Some dest =>
        if dest =? t_fmt t then Ok (t_data t)
        else match format_of_num T (t_fmt t), format_of_num T dest with
             | Some sf, Some df => do a <- to_argb T sf (t_data t); from_argb T df a
             | _, _ => Err E_FORMAT
             end
    end.

  Definition opt_nat (o : option nat) : nat := match o with Some n => n | None => O end.

  (* image_io::load_img_file_for_entry; returns the updated specs and the 8888 texture (None when has_data: false) *)
  Definition load_img (sp : wspecs) (f : pngfile) : outcome (wspecs * option texture) :=
    match png_dec f with
    | None => Err E_IMGOPEN
    | Some rgba =>
        let ox := opt_nat (into_option (s_ox sp)) in
        let oy := opt_nat (into_option (s_oy sp)) in
        if (iw rgba <? ox)%nat || (ih rgba <? oy)%nat then Err E_TOOSMALL else
        let sp' := {| s_w := set_soft (s_w sp) (iw rgba - ox)%nat; s_h := set_soft (s_h sp) (ih rgba - oy)%nat;
                      s_fmt := s_fmt sp; s_has := s_has sp; s_ox := s_ox sp; s_oy := s_oy sp |} in
        let dw := opt_nat (into_option (s_w sp')) in
        let dh := opt_nat (into_option (s_h sp')) in
        if negb (Nat.eqb (iw rgba) (dw + ox) && Nat.eqb (ih rgba) (dh + oy)) then Err E_WRONGDIMS else
        match into_option (s_has sp) with
        | Some true =>
            let bgra := image_map swap02 rgba in
            let data := bytes_of_px (concat (crop ox oy dw dh (irows bgra))) in
            Ok (sp', Some {| t_w := dw; t_h := dh; t_fmt := pt_fmt_num T Argb8888; t_data := data |})
        | _ => Ok (sp', None)
        end
    end.

  (* finalize_entry (defaults) + finalize_entry_texture: the THTX section written for the entry *)
  Definition finalize_entry (e : wentry) : outcome (option texture) :=
    let sp0 := we_specs e in
    let sp := {| s_w := s_w sp0; s_h := s_h sp0;
                 s_fmt := set_soft_if_missing (s_fmt sp0) (pt_fmt_num T Argb8888);
                 s_has := set_soft_if_missing (s_has sp0) true;
                 s_ox := set_soft_if_missing (s_ox sp0) O; s_oy := set_soft_if_missing (s_oy sp0) O |} in
    do r <- match we_loaded e with
            | LNone => Ok (sp, None)
            | LAnm t => do d <- validate_and_transcode sp t; Ok (sp, Some d)
            | LImg f =>
                do r <- load_img sp f;
                match snd r with
                | Some t => do d <- validate_and_transcode (fst r) t; Ok (fst r, Some d)
                | None => Ok (fst r, None)
                end
            end;
    let sp' := fst r in
    match into_option (s_has sp') with
    | Some true =>
        match snd r with
        | Some d => Ok (Some {| t_w := opt_nat (into_option (s_w sp')); t_h := opt_nat (into_option (s_h sp'));
                                t_fmt := opt_z (into_option (s_fmt sp')); t_data := d |})
        | None => Err E_NODATA
        end
    | _ => Ok None
    end.

  Definition finalize (ds : list wentry) : outcome (list (option texture)) := omap finalize_entry ds.

  (* truanm compile: sources in order (pragmas, then -i), then finalize *)
  Definition compile_textures (srcs : list source) (ds : list wentry) : outcome (list (option texture)) :=
    finalize (apply_sources srcs ds).
End Sources.

Arguments LNone {pngfile}.
Arguments LAnm {pngfile} t.
Arguments LImg {pngfile} f.
Arguments SAnm {pngfile} es.
Arguments SDir {pngfile} files.
