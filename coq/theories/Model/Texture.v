(* Model/Texture.v -- `truanm extract`: produce_image_from_entry (src/formats/anm/image_io.rs),
   ColorFormat::transcode_to_argb_8888 / ColorBytes::decode (src/image/color.rs) and
   image::ImageBuffer::from_raw (buffer length check), as far as sizes are concerned.
   Executable definitions only. *)
From TV Require Import Base.I32 Model.BinScript.
Open Scope Z_scope.

Definition E_FORMAT : nat := 14.    (* "cannot transcode from unknown color format" *)
Definition E_TEXSIZE : nat := 15.   (* the size guard (fixes/anm-extract-size-check.diff) *)
Definition P_ALLOC : nat := 10.     (* allocation beyond the address-space limit: the process aborts *)

(* a row of the colour format table: format number, bytes per pixel, "transcoding to ARGB8888 is the identity" *)
Record cfmt := mkCF { cf_num : Z; cf_bpp : Z; cf_ident : bool }.

Record tex := mkTex { t_fmt : Z; t_w : Z; t_h : Z; t_len : Z; t_ox : Z; t_oy : Z }.

Fixpoint find_fmt (tbl : list cfmt) (n : Z) : option cfmt :=
  match tbl with [] => None | c :: t => if cf_num c =? n then Some c else find_fmt t n end.

Definition ALLOC_LIMIT : Z := 2 ^ 31.

(* ColorBytes::decode asserts that the length is a multiple of the pixel size; Argb8888::encode gives 4 bytes per pixel *)
Definition transcode_len (c : cfmt) (len : Z) : outcome Z :=
  if cf_ident c then Ok len
  else if len mod cf_bpp c =? 0 then Ok (len / cf_bpp c * 4) else Panic P_ASSERT.

(* ImageBuffer::from_raw(w, h, buf).expect("size error?!") *)
Definition from_raw (w h len : Z) : outcome unit :=
  if 4 * w * h <=? len then Ok tt else Panic P_EXPECT.

Definition E_TEXBOUND : nat := 16.  (* "unreasonably large image" (fix d8a7ff5) *)

(* the padded output image: `bound` = Some b after fix d8a7ff5 (checked additions, at most b pixels), None before it *)
Definition output_image (bound : option Z) (t : tex) : outcome unit :=
  let ow := t_w t + t_ox t in
  let oh := t_h t + t_oy t in
  match bound with
  | Some b =>
      if (two32 <=? ow) || (two32 <=? oh) || (b <? ow * oh) then Err E_TEXBOUND
      else if ALLOC_LIMIT <? 4 * ow * oh then Panic P_ALLOC
      else from_raw ow oh (4 * ow * oh)
  | None =>
      if (two32 <=? ow) || (two32 <=? oh) then Panic P_OVERFLOW      (* u32 addition *)
      else if USIZE <=? 4 * ow * oh then Panic P_OVERFLOW             (* usize multiplication *)
      else if ISIZE_MAX <? 4 * ow * oh then Panic P_CAPACITY
      else if ALLOC_LIMIT <? 4 * ow * oh then Panic P_ALLOC
      else from_raw ow oh (4 * ow * oh)
  end.

Definition produce_image (tbl : list cfmt) (guard : bool) (bound : option Z) (t : tex) : outcome unit :=
  match find_fmt tbl (t_fmt t) with
  | None => Err E_FORMAT
  | Some c =>
      if guard && negb (t_len t =? cf_bpp c * t_w t * t_h t) then Err E_TEXSIZE else
      do alen <- transcode_len c (t_len t);
      do r <- from_raw (t_w t) (t_h t) alen;
      output_image bound t
  end.

Definition tex_consistent (tbl : list cfmt) (t : tex) : Prop :=
  exists c, find_fmt tbl (t_fmt t) = Some c /\ 0 < cf_bpp c /\ (cf_ident c = true -> cf_bpp c = 4) /\
            t_len t = cf_bpp c * t_w t * t_h t.

Definition tex_in_range (t : tex) : Prop :=
  0 <= t_w t < 65536 /\ 0 <= t_h t < 65536 /\ 0 <= t_ox t /\ 0 <= t_oy t /\
  t_w t + t_ox t < two32 /\ t_h t + t_oy t < two32 /\
  4 * (t_w t + t_ox t) * (t_h t + t_oy t) <= ALLOC_LIMIT.

(* with the pixel bound only the texture's own dimensions and the signs matter *)
Definition tex_dims_ok (t : tex) : Prop :=
  0 <= t_w t < 65536 /\ 0 <= t_h t < 65536 /\ 0 <= t_ox t /\ 0 <= t_oy t.
Definition bound_ok (bound : option Z) : Prop := match bound with Some b => 0 <= b /\ 4 * b <= ALLOC_LIMIT | None => True end.
Definition tex_ok_for (bound : option Z) (t : tex) : Prop := match bound with Some _ => tex_dims_ok t | None => tex_in_range t end.
