(* Model/Time.v -- executable model of time labels (property C13).

   compile direction
     [tp_stmts]      src/passes/semantics/time_and_difficulty.rs  (Visitor + TimeAndDifficultyHelper:
                     one running time per root block, shared by nested blocks; `N:` sets, `+N:` adds
                     with wrapping_add; a statement first applies its own label, then records the time)
     [desugar]       the *positions* at which src/passes/desugar_blocks.rs inserts statements
                     (jumps, loop counters) when it flattens blocks; lowering then runs the same time
                     pass over the flat list (src/llir/lower.rs:201) and every instruction of a statement
                     carries the statement's time (stackless.rs: stmt_data passed to every lower_* call)
   decompile direction
     [label_at_offset]  src/llir/raise/early.rs  generate_label_at_offset
     [emit_one]         src/llir/raise/late.rs   LabelEmitter::emit_offset_and_time_labels_with
     [raise_goto_time]  src/llir/raise/early.rs:674   (`@ t` is dropped iff t = time of the label)
     [lower_goto_time]  src/llir/lower/intrinsic.rs populate_time_args (missing `@ t` = timeof(label))

   Definitions only; proofs are in Proofs/Time.v. *)
From TV Require Import Base.I32 Gen.TimeLabels.
Open Scope Z_scope.

(* tie 1: gen/timelabels.py reads the shape of the rules out of the source (Gen/TimeLabels.v); the
   definitions below hard-code that shape, and [source_shape_ok] says the source still has it *)
Definition emit_rule_eqb (a b : emit_rule) : bool :=
  match a, b with
  | RuleCrossZero, RuleCrossZero | RuleDecreaseAbs, RuleDecreaseAbs | RuleIncreaseRel, RuleIncreaseRel => true
  | _, _ => false
  end.
Fixpoint rules_eqb (a b : list emit_rule) : bool :=
  match a, b with
  | [], [] => true
  | x :: r, y :: s => emit_rule_eqb x y && rules_eqb r s
  | _, _ => false
  end.
Definition source_shape_ok : bool :=
  gen_abs_sets && match gen_rel_rule with RelWrappingAdd => true | RelUnrec => false end &&
  (gen_root_start =? 0) && gen_label_applies_before_record &&
  (gen_emitter_start =? 0) && rules_eqb gen_emit_rules [RuleCrossZero; RuleDecreaseAbs; RuleIncreaseRel] &&
  gen_offset_label_placement && gen_r_label_rule && gen_goto_time_rule.

(* ------------------------------------------------------------------------------------------ *)
(* source statements, as far as time labels are concerned *)

Inductive tag :=
| TInstr (id : Z)     (* an instruction statement carrying a marker *)
| TLabel (id : Z)     (* `name:` *)
| TAux                (* any other statement (block statements, jumps, assignments, ...) *)
| TNone               (* a statement that lowers to nothing (NoInstruction bookends, ScopeEnd, const items) *)
| TTime.              (* a time label statement (it is a statement and gets a time, but lowers to nothing) *)

(* statements with blocks; [KCond e]: if/else-if chain, [e] = has a final else block *)
Inductive bkind := KBlock | KLoop | KDoWhile | KWhile | KTimes | KCond (has_else : bool).

Inductive stmt :=
| SAbs (t : Z)                     (* `N:`   ast::StmtKind::AbsTimeLabel *)
| SRel (d : Z)                     (* `+e:`  ast::StmtKind::RelTimeLabel, e const-evaluated to d *)
| SRelBad                          (* `+e:`  with e not a constant: diagnostic, time unchanged *)
| SLeaf (g : tag)                  (* statement without blocks *)
| SNest (k : bkind) (bs : blocks)  (* statement with blocks (visited in order by ast::walk_stmt) *)
| SFunc (b : stmts)                (* nested function item: its body is a new *root* block *)
with stmts := SNil | SCons (s : stmt) (r : stmts)
with blocks := BNil | BCons (b : stmts) (r : blocks).

Scheme stmt_mind := Induction for stmt Sort Prop
with stmts_mind := Induction for stmts Sort Prop
with blocks_mind := Induction for blocks Sort Prop.
Combined Scheme stmt_mutind from stmt_mind, stmts_mind, blocks_mind.

Definition rec : Type := (tag * Z)%type.       (* what the pass records for a statement *)

Definition stmt_tag (s : stmt) : tag := match s with SLeaf g => g | _ => TAux end.

(* Visitor::visit_stmt: enter_stmt (visit_stmt_shallow applies the statement's own time label),
   record, recurse (walk_stmt). Returns (running time afterwards, records in visiting order,
   no diagnostic was emitted). *)
Fixpoint tp_stmt (cur : Z) (s : stmt) : Z * list rec * bool :=
  match s with
  | SAbs t => (t, [(TTime, t)], true)
  | SRel d => let c := wrap32 (cur + d) in (c, [(TTime, c)], true)
  | SRelBad => (cur, [(TTime, cur)], false)
  | SLeaf g => (cur, [(g, cur)], true)
  | SNest _ bs => let '(c, r, ok) := tp_blocks cur bs in (c, (TAux, cur) :: r, ok)
  | SFunc b =>
      (* visit_root_block: time_stack.push(0) ... pop(): the outer running time is untouched *)
      let '(_, r, ok) := tp_stmts 0 b in (cur, (TAux, cur) :: r, ok)
  end
with tp_stmts (cur : Z) (l : stmts) : Z * list rec * bool :=
  match l with
  | SNil => (cur, [], true)
  | SCons s r =>
      let '(c1, r1, ok1) := tp_stmt cur s in
      let '(c2, r2, ok2) := tp_stmts c1 r in (c2, r1 ++ r2, ok1 && ok2)
  end
with tp_blocks (cur : Z) (bs : blocks) : Z * list rec * bool :=
  match bs with
  | BNil => (cur, [], true)
  | BCons b r =>
      (* visit_block: enter_block/exit_block only touch the difficulty stack *)
      let '(c1, r1, ok1) := tp_stmts cur b in
      let '(c2, r2, ok2) := tp_blocks c1 r in (c2, r1 ++ r2, ok1 && ok2)
  end.

Definition E_TIME_NONCONST : nat := 30.   (* "const evaluation error in time label" *)

(* time_and_difficulty::run: starts as if entering a root block (time 0) *)
Definition time_pass (l : stmts) : outcome (list rec) :=
  let '(_, r, ok) := tp_stmts 0 l in if ok then Ok r else Err E_TIME_NONCONST.

(* ------------------------------------------------------------------------------------------ *)
(* independent statement of the label rules over the pre-order listing of a program *)

Inductive flat := FAbs (t : Z) | FRel (d : Z) | FBad | FOther (g : tag) | FPush | FPop.

Fixpoint flatten_stmt (s : stmt) : list flat :=
  match s with
  | SAbs t => [FAbs t]
  | SRel d => [FRel d]
  | SRelBad => [FBad]
  | SLeaf g => [FOther g]
  | SNest _ bs => FOther TAux :: flatten_blocks bs
  | SFunc b => FOther TAux :: FPush :: flatten_stmts b ++ [FPop]
  end
with flatten_stmts (l : stmts) : list flat :=
  match l with SNil => [] | SCons s r => flatten_stmt s ++ flatten_stmts r end
with flatten_blocks (bs : blocks) : list flat :=
  match bs with BNil => [] | BCons b r => flatten_stmts b ++ flatten_blocks r end.

(* "scripts start at 0, `N:` sets the time, `+N:` adds to it, a statement without a label
   inherits the previous statement's time"; FPush/FPop delimit a nested function body *)
Fixpoint scan (cur : Z) (stk : list Z) (l : list flat) : list rec :=
  match l with
  | [] => []
  | FAbs t :: r => (TTime, t) :: scan t stk r
  | FRel d :: r => let c := wrap32 (cur + d) in (TTime, c) :: scan c stk r
  | FBad :: r => (TTime, cur) :: scan cur stk r
  | FOther g :: r => (g, cur) :: scan cur stk r
  | FPush :: r => scan 0 (cur :: stk) r
  | FPop :: r => match stk with c :: s => scan c s r | [] => [] end
  end.

(* ------------------------------------------------------------------------------------------ *)
(* block desugaring: where statements are inserted (desugar_blocks.rs, Desugarer::desugar_block).
   The inserted statements (conditional/unconditional jumps, counter assignment) are TAux leaves;
   labels inserted by the desugarer produce no instruction and are omitted. *)

Fixpoint app_stmts (a b : stmts) : stmts :=
  match a with SNil => b | SCons s r => SCons s (app_stmts r b) end.

Definition aux1 : stmts := SCons (SLeaf TAux) SNil.

Fixpoint ds_stmt (s : stmt) : stmts :=
  match s with
  | SNest k bs =>
      match k with
      | KBlock => ds_blocks_plain bs
      | KLoop | KDoWhile => app_stmts (ds_blocks_plain bs) aux1             (* body; goto / if (c) goto *)
      | KWhile | KTimes => app_stmts aux1 (app_stmts (ds_blocks_plain bs) aux1)  (* entry test / counter; body; back jump *)
      | KCond e => ds_cond e bs
      end
  | SFunc b => SCons (SFunc b) SNil        (* inner functions are not flattened into the outer body *)
  | other => SCons other SNil
  end
with ds_stmts (l : stmts) : stmts :=
  match l with SNil => SNil | SCons s r => app_stmts (ds_stmt s) (ds_stmts r) end
with ds_blocks_plain (bs : blocks) : stmts :=
  match bs with BNil => SNil | BCons b r => app_stmts (ds_stmts b) (ds_blocks_plain r) end
with ds_cond (e : bool) (bs : blocks) : stmts :=
  (* if (c1) {b1} else if (c2) {b2} ... [else {bn}]:
       `unless (ci) goto skip_i;  bi;  goto veryend;  skip_i:`  for every conditional block
       (the `goto veryend` is omitted after the last conditional block when there is no else) *)
  match bs with
  | BNil => SNil
  | BCons b BNil =>
      if e then ds_stmts b                                     (* the else block *)
      else app_stmts aux1 (ds_stmts b)                         (* final conditional block, no else *)
  | BCons b r => app_stmts aux1 (app_stmts (ds_stmts b) (app_stmts aux1 (ds_cond e r)))
  end.

(* what is observable in the compiled script: marker instructions with their times, and maximal
   runs of other instructions with the times they carry (adjacent equal times merged, so the number
   of instructions a statement lowers to does not matter) *)
Inductive item := IMark (id : Z) (t : Z) | IAux (t : Z).

Fixpoint items_of (l : list rec) : list item :=
  match l with
  | [] => []
  | (TInstr id, t) :: r => IMark id t :: items_of r
  | (TLabel _, _) :: r => items_of r
  | (TTime, _) :: r => items_of r
  | (TNone, _) :: r => items_of r
  | (TAux, t) :: r => IAux t :: items_of r
  end.

Fixpoint norm (l : list item) : list item :=
  match l with
  | IAux t :: r =>
      match norm r with
      | IAux t' :: r' => if t =? t' then IAux t' :: r' else IAux t :: IAux t' :: r'
      | r' => IAux t :: r'
      end
  | x :: r => x :: norm r
  | [] => []
  end.

(* compile = desugar blocks, run the time pass over the flat list, lower each statement *)
Definition compile_items (l : stmts) : outcome (list item) :=
  let d := ds_stmts l in
  do rs <- time_pass d; Ok (norm (items_of rs)).

(* ------------------------------------------------------------------------------------------ *)
(* decompile direction *)

Definition P_IMPOSSIBLE_LABEL : nat := 31.   (* panic!("impossible time for label ...") *)

Record lab := { l_id : Z; l_time : Z }.

(* generate_label_at_offset: prev/next instruction times, the jump time arguments used with this
   offset (None = the jump has no time argument).  Result: (is the "..r" label, time_label) *)
Definition label_at_offset (prev_time next_time : Z) (time_args : list (option Z)) : bool * Z :=
  let args := map (fun x => match x with Some t => t | None => next_time end) time_args in
  if (prev_time <? next_time) && forallb (fun t => t =? prev_time) args && negb (match args with [] => true | _ => false end)
  then (true, prev_time) else (false, next_time).

Inductive estmt := ELabel (id : Z) | EAbs (t : Z) | ERel (d : Z) | EInstr (id : Z).

(* emit_offset_and_time_labels_with for one instruction; [prev] = LabelEmitter.prev_time *)
Definition emit_one (prev : Z) (lbl : option lab) (time : Z) : outcome (list estmt) :=
  let put (l : option lab) (t : Z) : list estmt * option lab :=
    match l with
    | Some lb => if l_time lb =? t then ([ELabel (l_id lb)], None) else ([], l)
    | None => ([], None)
    end in
  let '(e1, l1) := put lbl prev in
  let e2 :=
    if time =? prev then []
    else if (prev <? 0) && (0 <=? time) then
      EAbs 0 :: (if 0 <? time then [ERel time] else [])
    else if time <? prev then [EAbs time]
    else [ERel (wrap32 (time - prev))] in
  let '(e3, l3) := put l1 time in
  match l3 with
  | Some _ => Panic P_IMPOSSIBLE_LABEL
  | None => Ok (e1 ++ e2 ++ e3)
  end.

(* one element per RaiseInstr: time, the label at its offset, and its marker
   ([None] for the trailing End pseudo-instruction, which raises to no statement) *)
Definition einstr : Type := (Z * option lab * option Z)%type.

Fixpoint emit_labels (prev : Z) (l : list einstr) : outcome (list estmt) :=
  match l with
  | [] => Ok []
  | (time, lbl, mk) :: r =>
      do e <- emit_one prev lbl time;
      do er <- emit_labels time r;
      Ok (e ++ match mk with Some id => [EInstr id] | None => [] end ++ er)
  end.

Definition decompile_labels (l : list einstr) : outcome (list estmt) := emit_labels 0 l.

(* the emitted statements as source statements *)
Fixpoint to_stmts (l : list estmt) : stmts :=
  match l with
  | [] => SNil
  | ELabel id :: r => SCons (SLeaf (TLabel id)) (to_stmts r)
  | EAbs t :: r => SCons (SAbs t) (to_stmts r)
  | ERel d :: r => SCons (SRel d) (to_stmts r)
  | EInstr id :: r => SCons (SLeaf (TInstr id)) (to_stmts r)
  end.

(* what decompilation has to reproduce: the label (if any) at its time_label, then the instruction *)
Fixpoint expected_recs (l : list einstr) : list rec :=
  match l with
  | [] => []
  | (time, lbl, mk) :: r =>
      match lbl with Some lb => [(TLabel (l_id lb), l_time lb)] | None => [] end ++
      match mk with Some id => [(TInstr id, time)] | None => [] end ++ expected_recs r
  end.

Definition not_aux (r : rec) : bool := match fst r with TAux => false | _ => true end.
Definition not_time (r : rec) : bool := match fst r with TTime => false | _ => true end.

(* labels are placeable: their time_label is the previous or the current instruction's time *)
Fixpoint placeable (prev : Z) (l : list einstr) : Prop :=
  match l with
  | [] => True
  | (time, lbl, _) :: r =>
      match lbl with Some lb => l_time lb = prev \/ l_time lb = time | None => True end /\ placeable time r
  end.

Fixpoint times_in_i32 (l : list einstr) : Prop :=
  match l with [] => True | (time, _, _) :: r => in_i32 time /\ times_in_i32 r end.

(* jump time arguments *)
Definition raise_goto_time (arg : Z) (label_time : Z) : option Z :=
  if arg =? label_time then None else Some arg.
Definition lower_goto_time (g : option Z) (label_time : Z) : Z :=
  match g with Some t => t | None => label_time end.

(* labels for a whole script from its jump table: [jumps] lists (target index, time argument);
   index = length means the end of the script (early.rs generate_offset_labels) *)
Definition nth_time (times : list Z) (i : nat) : Z := nth i times 0.

(* label ids stand for label names: 2*i for `label_<offset of instruction i>`, 2*k+1 for
   `label_<offset of instruction k>r`.  The "r" label of target i is named after the previous
   instruction i-1; for target 0 there is no previous instruction and the plain name `label_0` is
   used (early.rs generate_label_at_offset, `prev_offset == next_offset`; fix 3f82254). *)
Definition label_id (is_r : bool) (i : nat) : Z :=
  if is_r then match i with O => 0 | S k => 2 * Z.of_nat k + 1 end else 2 * Z.of_nat i.

Definition label_for (times : list Z) (jumps : list (nat * option Z)) (i : nat) : option lab :=
  let args := map snd (filter (fun j => Nat.eqb (fst j) i) jumps) in
  match args with
  | [] => None
  | _ =>
      let n := length times in
      let next := if Nat.ltb i n then nth_time times i else nth_time times (n - 1) in
      let prev := match i with O => 0 | S k => nth_time times k end in
      let '(is_r, t) := label_at_offset prev next args in
      Some {| l_id := label_id is_r i; l_time := t |}
  end.

Fixpoint script_einstrs_from (times all : list Z) (jumps : list (nat * option Z)) (i : nat) : list einstr :=
  match times with
  | [] =>
      (* the End pseudo-instruction: time of the end label, else of the last instruction, else 0 *)
      let lb := label_for all jumps i in
      let t := match lb with Some l => l_time l | None => match i with O => 0 | S k => nth_time all k end end in
      [(t, lb, None)]
  | t :: r => (t, label_for all jumps i, Some (Z.of_nat i)) :: script_einstrs_from r all jumps (S i)
  end.

Definition script_einstrs (times : list Z) (jumps : list (nat * option Z)) : list einstr :=
  script_einstrs_from times times jumps 0.
