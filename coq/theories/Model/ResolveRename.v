(* Model/ResolveRename.v -- C10: renaming of scope trees, and executable checkers for the side
   conditions of the renaming theorem (well-formed tree, consistent renaming).  Definitions only. *)
From TV Require Import Base.I32 Model.ResolveSyntax Gen.RibTable Model.Resolve.
Open Scope Z_scope.

(* ---- renaming the syntax ---- *)

Section Rename.
  Variable rho : Z -> ident.

  Definition ren_occ (o : occ) : occ := Occ (rho (oid o)) (oid o).
  Definition ren_callee (c : callee) : callee := match c with CNamed o => CNamed (ren_occ o) | CRaw op => CRaw op end.
  Definition ren_guard (gd : guard) : guard := Guard (ren_callee (g_callee gd)) (g_pos gd).
  Definition ren_use (u : use) : use := Use (u_kind u) (ren_occ (u_occ u)) (map ren_guard (u_guards u)).
  Definition ren_vars (vars : list (occ * list use)) : list (occ * list use) :=
    map (fun v => (ren_occ (fst v), map ren_use (snd v))) vars.

  Fixpoint ren_stmt (s : stmt) : stmt :=
    match s with
    | SUses us => SUses (map ren_use us)
    | SDecl vars => SDecl (ren_vars vars)
    | SBlock b => SBlock (ren_block b)
    | SItem i => SItem (ren_item i)
    end
  with ren_block (b : block) : block :=
    match b with BNil => BNil | BCons s t => BCons (ren_stmt s) (ren_block t) end
  with ren_item (i : item) : item :=
    match i with
    | IConst vars => IConst (ren_vars vars)
    | IFunc q f ps body => IFunc q (ren_occ f) (map ren_occ ps) (ren_block body)
    | IFuncDecl q f ps => IFuncDecl q (ren_occ f) (map ren_occ ps)
    | IScript b => IScript (ren_block b)
    | IMeta us => IMeta (map ren_use us)
    end.

  Definition ren_prog (p : prog) : prog :=
    match p with PFile its => PFile (map ren_item its) | PBlock b => PBlock (ren_block b) end.

End Rename.

Definition item_ids (its : list item) : list Z := map oid (const_occs its) ++ map (fun fn => oid (fst fn)) (func_occs its).
Definition item_occs (its : list item) : list occ := const_occs its ++ map fst (func_occs its).

Definition occ_eq_dec : forall a b : occ, {a = b} + {a <> b}.
Proof. decide equality; apply Z.eq_dec. Defined.
Definition callee_eq_dec : forall a b : callee, {a = b} + {a <> b}.
Proof. decide equality; [apply occ_eq_dec | apply Z.eq_dec]. Defined.
Definition guard_eq_dec : forall a b : guard, {a = b} + {a <> b}.
Proof. decide equality; [apply Nat.eq_dec | apply callee_eq_dec]. Defined.
Definition ukind_eq_dec : forall a b : ukind, {a = b} + {a <> b}.
Proof. decide equality; apply Z.eq_dec. Defined.
Definition use_eq_dec : forall a b : use, {a = b} + {a <> b}.
Proof. decide equality; [apply (list_eq_dec guard_eq_dec) | apply occ_eq_dec | apply ukind_eq_dec]. Defined.

Definition inb_use (u : use) (us : list use) : bool := if in_dec use_eq_dec u us then true else false.

Section Check.
  Variable nm : Z -> ident.

  Definition occ_okb (o : occ) : bool := nm (oid o) =? oname o.

  Fixpoint guards_okb (us : list use) (gs : list guard) : bool :=
    match gs with
    | [] => true
    | gd :: outer =>
        match g_callee gd with
        | CNamed oc => occ_okb oc && inb_use (Use UFun oc outer) us
        | CRaw _ => true
        end && guards_okb us outer
    end.
  Definition uses_okb (us : list use) : bool :=
    forallb (fun u => occ_okb (u_occ u) && guards_okb us (u_guards u)) us.

  Fixpoint nodup_afterb (S l : list Z) : bool :=
    match l with [] => true | x :: t => negb (memz x S) && nodup_afterb (x :: S) t end.

  Fixpoint wf_declsb (S : list Z) (vars : list (occ * list use)) : bool :=
    match vars with
    | [] => true
    | (o, init) :: t => uses_okb init && occ_okb o && negb (memz (oid o) S) && wf_declsb (oid o :: S) t
    end.

  Definition entry_okb (S : list Z) (its : list item) : bool :=
    nodup_afterb S (item_ids its) && forallb occ_okb (item_occs its).

  Fixpoint wf_stmtsb (S : list Z) (b : block) : bool :=
    match b with
    | BNil => true
    | BCons s rest =>
        match s with
        | SUses us => uses_okb us && wf_stmtsb S rest
        | SDecl vars => wf_declsb S vars && wf_stmtsb (rev (map (fun v => oid (fst v)) vars) ++ S) rest
        | SBlock b' => (entry_okb S (block_items b') && wf_stmtsb (rev (item_ids (block_items b')) ++ S) b') && wf_stmtsb S rest
        | SItem i => wf_itemb S i && wf_stmtsb S rest
        end
    end
  with wf_itemb (S : list Z) (i : item) : bool :=
    match i with
    | IConst vars => forallb (fun v => uses_okb (snd v)) vars
    | IFunc q f ps body =>
        nodup_afterb S (map oid ps) && forallb occ_okb ps
        && entry_okb (rev (map oid ps) ++ S) (block_items body)
        && wf_stmtsb (rev (item_ids (block_items body)) ++ rev (map oid ps) ++ S) body
    | IFuncDecl q f ps => true
    | IScript b => entry_okb S (block_items b) && wf_stmtsb (rev (item_ids (block_items b)) ++ S) b
    | IMeta us => uses_okb us
    end.

  Definition wf_progb (p : prog) : bool :=
    match p with
    | PFile its => entry_okb [] its && forallb (wf_itemb (rev (item_ids its))) its
    | PBlock b => entry_okb [] (block_items b) && wf_stmtsb (rev (item_ids (block_items b))) b
    end.

End Check.

(* ---- consistency of a renaming, decided ---- *)

Section Cons.
  Variables sigma rho nm : Z -> ident.

  Definition consb (id : Z) (r : res) : bool :=
    match r with
    | ROk d | RBarrier d => match user_id d with Some i => rho id =? sigma i | None => rho id =? nm id end
    | RSkipped => true
    | _ => rho id =? nm id
    end.
  Definition consistentb (evs : list event) : bool :=
    forallb (fun e => match e with EvRes id r => consb id r | EvRedef _ => true end) evs.

End Cons.

(* the spelling table of a program: index -> spelling of the occurrence with that index *)
Fixpoint table_nm (t : list (Z * ident)) (id : Z) : ident :=
  match t with [] => 0 | (i, x) :: r => if id =? i then x else table_nm r id end.

Definition occ_pair (o : occ) : Z * ident := (oid o, oname o).
Definition callee_occs (c : callee) : list occ := match c with CNamed o => [o] | CRaw _ => [] end.
Definition use_occs (u : use) : list occ := u_occ u :: flat_map (fun gd => callee_occs (g_callee gd)) (u_guards u).
Definition vars_occs (vars : list (occ * list use)) : list occ :=
  flat_map (fun v => fst v :: flat_map use_occs (snd v)) vars.

Fixpoint stmt_occs (s : stmt) : list occ :=
  match s with
  | SUses us => flat_map use_occs us
  | SDecl vars => vars_occs vars
  | SBlock b => block_occs b
  | SItem i => item_all_occs i
  end
with block_occs (b : block) : list occ :=
  match b with BNil => [] | BCons s t => stmt_occs s ++ block_occs t end
with item_all_occs (i : item) : list occ :=
  match i with
  | IConst vars => vars_occs vars
  | IFunc _ f ps body => f :: ps ++ block_occs body
  | IFuncDecl _ f ps => f :: ps
  | IScript b => block_occs b
  | IMeta us => flat_map use_occs us
  end.

Definition prog_occs (p : prog) : list occ :=
  match p with PFile its => flat_map item_all_occs its | PBlock b => block_occs b end.

Definition prog_nm (p : prog) : Z -> ident := table_nm (map occ_pair (prog_occs p)).
