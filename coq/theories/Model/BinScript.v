(* Model/BinScript.v -- reading the instructions of a script from bytes: the per-format `read_instr`
   (src/formats/**: `impl InstrFormat for ..`), driven by the table that gen/instrfmt.py reads out of the
   source, and the script loop `read_instrs` (src/llir/mod.rs).  Also `decode_label` of the language hooks.
   Executable definitions only. *)
From TV Require Import Base.I32.
Open Scope Z_scope.

Definition P_ASSERT : nat := 8.     (* assert!/assert_eq! failed *)
Definition P_CAPACITY : nat := 9.   (* `vec![0; n]` with n > isize::MAX: "capacity overflow" *)
Definition E_EOF : nat := 10.       (* "failed to fill whole buffer" / "incomplete word" *)
Definition E_BADSIZE : nat := 11.   (* "bad instruction size (a < b)" *)
Definition E_PASTEND : nat := 12.   (* "script read past expected end" *)

Inductive fld := FU8 | FI8 | FU16 | FI16 | FU32 | FI32.

Definition fld_bytes (f : fld) : nat :=
  match f with FU8 | FI8 => 1 | FU16 | FI16 => 2 | FU32 | FI32 => 4 end%nat.
Definition fld_signed (f : fld) : bool :=
  match f with FI8 | FI16 | FI32 => true | _ => false end.

(* little endian; a byte is taken modulo 256, so the functions are total on lists of integers *)
Fixpoint le_val (l : list Z) : Z :=
  match l with [] => 0 | b :: t => b mod 256 + 256 * le_val t end.

Definition decode_fld (f : fld) (l : list Z) : Z :=
  let v := le_val l in
  let m := 256 ^ Z.of_nat (fld_bytes f) in
  if fld_signed f then (if m / 2 <=? v then v - m else v) else v.

Definition take_bytes (n : nat) (bs : list Z) : option (list Z * list Z) :=
  if (n <=? length bs)%nat then Some (firstn n bs, skipn n bs) else None.

(* how the length of the argument blob is obtained from the header *)
Inductive size_rule :=
| SzArgsize (i : nat)        (* read_byte_vec(field i)                                       *)
| SzCheckedSub (i : nat)     (* field i .checked_sub(header size) or an error diagnostic     *)
| SzUncheckedSub (i : nat)   (* field i - header size: arithmetic overflow panic in debug    *)
| SzAssert12 (i : nat)       (* assert_eq!(field i, 12); read_byte_vec(12)                   *)
| SzCheckedEq12 (i : nat)    (* if field i != 12 { error diagnostic }; read_byte_vec(12)     *)
| SzUnrec (i : nat).         (* the translator did not recognise the source                  *)

Inductive tkind := TNone | TTerminal | TMaybe.

Inductive fmtname := FAnm06 | FAnm07 | FStd06 | FStd10 | FMsg | FEcl06 | FTl06 | FTl08 | FEcl10.

Record ifmt := {
  f_hdr : Z;                        (* instr_header_size() *)
  f_fields : list fld;              (* the header reads, in order *)
  f_eof_first : bool;               (* the first read is read_i16_or_eof: clean EOF gives ReadInstr::EndOfFile *)
  f_time : nat; f_opcode : nat; f_mask : option nat;   (* which field is the time / opcode / parameter mask *)
  f_size : size_rule;
  f_term_pos : nat;                 (* the terminal test happens when this many fields have been read;
                                       length fields + 1 = after the argument blob *)
  f_term_cond : list (nat * Z);     (* conjunction: field i has raw value v *)
  f_term_kind : tkind;
  f_has_terminal : bool;
}.

Definition fmt_unrec : ifmt :=
  {| f_hdr := 0; f_fields := []; f_eof_first := false; f_time := 0; f_opcode := 0; f_mask := None;
     f_size := SzUnrec 0; f_term_pos := 0; f_term_cond := []; f_term_kind := TNone; f_has_terminal := true |}.

Record rinstr := mkRI { ri_time : Z; ri_opcode : Z; ri_mask : Z; ri_args : list Z }.

Inductive rkind := RInstr (i : rinstr) | RMaybe (i : rinstr) | RTerminal | REof.

Definition cond_holds (vals : list Z) (c : list (nat * Z)) : bool :=
  forallb (fun p => nth (fst p) vals 0 =? snd p) c.

(* the `if .. { return Ok(ReadInstr::Terminal) }` in the middle of the header *)
Definition early_term (F : ifmt) (vals : list Z) : bool :=
  match f_term_kind F with
  | TTerminal => Nat.eqb (f_term_pos F) (length vals) && cond_holds vals (f_term_cond F)
  | _ => false
  end.

(* None: terminal instruction recognised before the end of the header *)
Fixpoint read_hdr (F : ifmt) (fs : list fld) (vals : list Z) (bs : list Z) : outcome (option (list Z) * list Z) :=
  if early_term F vals then Ok (None, bs) else
  match fs with
  | [] => Ok (Some vals, bs)
  | f :: fs' =>
      match take_bytes (fld_bytes f) bs with
      | None => Err E_EOF
      | Some (l, rest) => read_hdr F fs' (vals ++ [decode_fld f l]) rest
      end
  end.

Definition USIZE : Z := 2 ^ 64.
Definition ISIZE_MAX : Z := 2 ^ 63 - 1.
(* `x as usize` *)
Definition as_usize (v : Z) : Z := if v <? 0 then v + USIZE else v.

Definition args_size (F : ifmt) (vals : list Z) : outcome Z :=
  match f_size F with
  | SzArgsize i => Ok (as_usize (nth i vals 0))
  | SzCheckedSub i =>
      let s := as_usize (nth i vals 0) in
      if s <? f_hdr F then Err E_BADSIZE else Ok (s - f_hdr F)
  | SzUncheckedSub i =>
      let s := as_usize (nth i vals 0) in
      if s <? f_hdr F then Panic P_OVERFLOW else Ok (s - f_hdr F)
  | SzAssert12 i => if nth i vals 0 =? 12 then Ok 12 else Panic P_ASSERT
  | SzCheckedEq12 i => if nth i vals 0 =? 12 then Ok 12 else Err E_BADSIZE
  | SzUnrec _ => Panic P_UNREC
  end.

(* BinRead::read_byte_vec: `vec![0; len]` then read_exact *)
Definition read_byte_vec (n : Z) (bs : list Z) : outcome (list Z * list Z) :=
  if ISIZE_MAX <? n then Panic P_CAPACITY
  else match take_bytes (Z.to_nat n) bs with
       | None => Err E_EOF
       | Some p => Ok p
       end.

Definition mk_instr (F : ifmt) (vals : list Z) (args : list Z) : rinstr :=
  {| ri_time := nth (f_time F) vals 0;
     ri_opcode := nth (f_opcode F) vals 0 mod 65536;
     ri_mask := match f_mask F with Some i => nth i vals 0 | None => 0 end;
     ri_args := args |}.

Definition read_instr (F : ifmt) (bs : list Z) : outcome (rkind * list Z) :=
  if f_eof_first F && match bs with [] => true | _ => false end then Ok (REof, bs) else
  do h <- read_hdr F (f_fields F) [] bs;
  match h with
  | (None, rest) => Ok (RTerminal, rest)
  | (Some vals, rest) =>
      do n <- args_size F vals;
      do a <- read_byte_vec n rest;
      let i := mk_instr F vals (fst a) in
      if Nat.eqb (f_term_pos F) (S (length (f_fields F))) && cond_holds vals (f_term_cond F) then
        match f_term_kind F with
        | TTerminal => Ok (RTerminal, snd a)
        | TMaybe => Ok (RMaybe i, snd a)
        | TNone => Ok (RInstr i, snd a)
        end
      else Ok (RInstr i, snd a)
  end.

Definition instr_size (F : ifmt) (i : rinstr) : Z := f_hdr F + Z.of_nat (length (ri_args i)).

(* llir::read_instrs.  [acc] is reversed; [pt] is `possible_terminal` *)
Fixpoint read_instrs (F : ifmt) (fuel : nat) (bs : list Z) (cur : Z) (endo : option Z)
         (pt : option rinstr) (acc : list rinstr) {struct fuel} : outcome (list rinstr) :=
  match fuel with
  | O => OutOfFuel
  | S fuel' =>
      let at_end := match endo with
                    | Some e => if cur <? e then 0 else if cur =? e then 1 else 2
                    | None => 0
                    end in
      if at_end =? 1 then Ok (rev acc)
      else if at_end =? 2 then Err E_PASTEND
      else
        do r <- read_instr F bs;
        match r with
        | (REof, _) => Ok (rev acc)
        | (RTerminal, _) => Ok (rev acc)
        | (RInstr i, rest) =>
            let acc' := match pt with Some p => p :: acc | None => acc end in
            read_instrs F fuel' rest (cur + instr_size F i) endo None (i :: acc')
        | (RMaybe i, rest) =>
            let acc' := match pt with Some p => p :: acc | None => acc end in
            read_instrs F fuel' rest (cur + instr_size F i) endo (Some i) acc'
        end
  end.

(* a whole script: the fuel is an upper bound proved sufficient in Proofs/ReadTotal.v *)
Definition read_script (F : ifmt) (bs : list Z) (endo : option Z) : outcome (list rinstr) :=
  read_instrs F (S (length bs)) bs 0 endo None [].

(* ---- side conditions on a format table row ---- *)
Definition fld_unsigned (f : fld) : bool := negb (fld_signed f).

Definition size_safe (F : ifmt) : bool :=
  match f_size F with
  | SzArgsize i | SzCheckedSub i =>
      match nth_error (f_fields F) i with Some f => fld_unsigned f | None => false end
  | SzCheckedEq12 _ => true
  | _ => false
  end.

Definition fmt_wf (F : ifmt) : bool :=
  match f_fields F with [] => false | _ => true end.

(* ---- LanguageHooks::decode_label ---- *)
Inductive dlkind :=
| DL_abs             (* bits as u64 *)
| DL_rel             (* (cur as i64 + (bits as i32 as i64)) as u64 *)
| DL_mul20_u32       (* (bits * 20) as u64 : the product is computed in u32 *)
| DL_mul20_wide      (* bits as u64 * 20 *)
| DL_unrec.

Definition decode_label (k : dlkind) (cur bits : Z) : outcome Z :=
  match k with
  | DL_abs => Ok bits
  | DL_rel => Ok ((cur + wrap32 bits) mod USIZE)
  | DL_mul20_u32 => if bits * 20 <? two32 then Ok (bits * 20) else Panic P_OVERFLOW
  | DL_mul20_wide => Ok (bits * 20)
  | DL_unrec => Panic P_UNREC
  end.

Definition dl_safe (k : dlkind) : bool :=
  match k with DL_abs | DL_rel | DL_mul20_wide => true | _ => false end.
