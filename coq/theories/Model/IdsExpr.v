(* Model/IdsExpr.v -- C20, ANM at the level of source expressions: a sprite's `id:` is an expression over
   `const` items.  Two different evaluators of truth give it a meaning:
     * the id WRITTEN is the meta field after the const-simplification pass (Model/Expr.v: simplify,
       passes/const_simplify.rs), which must have become an integer literal;
     * the VALUE OF THE SPRITE NAME is the DFS evaluator (Model/Expr.v: ceval, context/consts.rs) applied to
       the expression `<id expr> + i` that gather_sprite_id_exprs builds.
   Definitions only. *)
From TV Require Import Base.I32 Base.F32 Model.Ops Model.Expr Model.Ids.
Open Scope Z_scope.

Record sprite_src := { ss_name : nat; ss_id : option expr }.

(* a script item: its name and its explicit number, `script 7 name { }` *)
Record script_src := { sc_name : nat; sc_number : option Z }.

(* a use of a name.  Sprite and script names live in one namespace (two enums: AnmSprite, AnmScript):
     XSprite / XScript : an instruction argument whose signature names the enum (`n` / `N`): the name is looked up in that
                         enum first, else in the other one ("suspicious use of enum .." warning);
     XPlain            : a position without an enum (`const int W = name;`, a plain `S` argument): a name that belongs
                         to both enums is an error ("ambiguous enum const .. belongs to multiple enums") *)
Inductive use_src := XSprite (n : nat) | XScript (n : nat) | XPlain (n : nat).

Definition E_AMBIG_ENUM : nat := 36.

Definition resolve_use (consts : list (nat * Z)) (names : list nat) (u : use_src) : outcome Z :=
  let as_sprite n := lookup_const n consts in
  let as_script n := match index_of n names with Some i => Some (Z.of_nat i) | None => None end in
  match u with
  | XSprite n => match as_sprite n, as_script n with Some v, _ => Ok v | None, Some i => Ok i | None, None => Err E_UNDEF end
  | XScript n => match as_script n, as_sprite n with Some i, _ => Ok i | None, Some v => Ok v | None, None => Err E_UNDEF end
  | XPlain n => match as_sprite n, as_script n with
                | Some _, Some _ => Err E_AMBIG_ENUM
                | Some v, None => Ok v
                | None, Some i => Ok i
                | None, None => Err E_UNDEF
                end
  end.

Record anm_src := {
  as_consts : list (nat * expr);                (* `const int K = ...;` items, by DefId *)
  as_entries : list (list sprite_src);
  as_scripts : list script_src;                 (* in file order, across entries *)
  as_uses : list use_src
}.

Definition E_NONLIT : nat := 34.    (* the id did not simplify to an integer literal / const of the wrong type *)
Definition E_SCRIPTNUM : nat := 35. (* script number out of range *)

Section S.
  Variable OT : optable.
  Variable libm : unop -> Z -> Z.
  Variable fuel : nat.

  (* the id written: const_simplify on the meta field, then u32::from_meta *)
  Definition written_value (cache : list (nat * value)) (e : expr) : outcome Z :=
    do e' <- simplify OT libm (assoc cache) e;
    match e' with ELitI w => Ok w | _ => Err E_NONLIT end.

  (* the value of the name: Evaluator::_const_eval on `<e> + k` *)
  Definition const_value (dl : list (nat * expr)) (e : expr) (k : Z) : outcome Z :=
    do v <- ceval OT libm (assoc dl) fuel [] (EBin e Add (ELitI k));
    match v with VInt z => Ok z | _ => Err E_NONLIT end.

  Fixpoint const_ids_src (dl : list (nat * expr)) (k0 : Z) (base : expr) (k : Z) (l : list sprite_src)
    : outcome (list (nat * Z)) :=
    match l with
    | [] => Ok []
    | s :: t =>
        let b := match ss_id s with Some e => e | None => base end in
        let k' := match ss_id s with Some _ => k0 | None => k end in
        do v <- const_value dl b k';
        do r <- const_ids_src dl k0 b (k' + 1) t;
        Ok ((ss_name s, v) :: r)
    end.

  Fixpoint written_ids_src (cache : list (nat * value)) (wraps : bool) (step next : Z) (l : list sprite_src)
    : outcome (list Z) :=
    match l with
    | [] => Ok []
    | s :: t =>
        do id <- match ss_id s with Some e => do w <- written_value cache e; Ok (u32 w) | None => Ok next end;
        if negb wraps && (two32 <=? id + step) then Panic P_OVERFLOW
        else do r <- written_ids_src cache wraps step (u32 (id + step)) t; Ok (id :: r)
    end.

  (* gather_script_ids: the number in the script table is the explicit one, else the previous + 1
     (checked: "script number out of range" after i32::MAX) *)
  Fixpoint script_numbers (next : option Z) (l : list script_src) : outcome (list Z) :=
    match l with
    | [] => Ok []
    | s :: t =>
        do id <- match sc_number s, next with
                 | Some n, _ => Ok n
                 | None, Some a => Ok a
                 | None, None => Err E_SCRIPTNUM
                 end;
        do r <- script_numbers (if id + 1 <=? I32_MAX then Some (id + 1) else None) t;
        Ok (id :: r)
    end.

  (* truanm compile: (sprite ids written; script numbers written; argument values as u32 bit patterns) *)
  Definition compile_anm_src (T : idtable) (inp : anm_src) : outcome (list Z * list Z * list Z) :=
    let decls := concat (as_entries inp) in
    let names := map sc_name (as_scripts inp) in
    do nums <- script_numbers (Some 0) (as_scripts inp);
    if has_dup names then Err E_DUP else
    if negb (it_const_restart T && it_writer_carry T) then Panic P_UNREC else
    do base0 <- getz (it_const_base0 T); do k0 <- getz (it_const_k0 T);
    do next0 <- getz (it_writer_next0 T); do step <- getz (it_writer_step T);
    match it_const_op T with
    | SeqAdd =>
        do cache <- eval_deferred OT libm (assoc (as_consts inp)) fuel (map fst (as_consts inp)) [];
        do consts <- const_ids_src (as_consts inp) k0 (ELitI base0) k0 decls;
        do args <- match it_script_const T with PosIndex => omap (resolve_use consts names) (as_uses inp) | PosUnrec => Panic P_UNREC end;
        if negb (consistent consts) then Err E_AMBIG else
        do tbl <- written_ids_src cache (it_writer_wraps T) step next0 decls;
        Ok (tbl, nums, map u32 args)
    | _ => Panic P_UNREC
    end.
End S.
