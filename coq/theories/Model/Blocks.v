(* Model/Blocks.v -- structured statements, their desugaring into labels and jumps
   (src/passes/desugar_blocks.rs: insert_scope_ends, convert_continue_and_break,
   Desugarer::desugar_block, fused into one function), statement times
   (src/passes/semantics/time_and_difficulty.rs) and the two semantics of AstVm (src/vm.rs):
   [run_block] for nested code and [frun]/[run_flat] for a flat statement list with labels and
   gotos.  Executable definitions only.

   The expression language, the register file and the "simple" (straight-line) statements are
   a parameter [lang]: block desugaring never looks inside them. *)
From TV Require Import Base.I32.
Open Scope Z_scope.

Inductive kw := KIf | KUnless.
Definition negate (k : kw) : kw := match k with KIf => KUnless | KUnless => KIf end.
Definition is_if (k : kw) : bool := match k with KIf => true | KUnless => false end.

(* alternatives::CountJmpKind : `if (--c) goto l` / `if (--c > 0) goto l` *)
Inductive flavour := PredecNeZero | PredecGtZero.

(* [Lax resets] is AstVm as written.  At three places the nested interpreter is at a point that
   the jump form reaches by falling through (entering the first block of an if-chain, leaving its
   last block, starting the first iteration of `times`); [resets = true]: it assigns `time` there
   all the same (vm.rs as found); [resets = false]: it does not (vm.rs with
   fixes/c06-astvm-time-reset.diff); gen/desugar_rules.py reads out of vm.rs which one it is.
   [Strict tg fl] is AstVm instrumented with the run-time conditions under which the nested
   interpreter and the jump form can differ; it returns [Err] instead of continuing when one of
   them is met: the two `times` conditions for flavour [fl], and, for [tg = true], the condition
   that an assignment at a fall-through point would change the time ([tg = false]: no such
   assignment is made, as in [Lax false]).  Proofs/BlocksSim.v: strict_lax. *)
Inductive mode := Lax (resets : bool) | Strict (tg : bool) (fl : flavour).

Definition E_NEGCOUNT : nat := 61.    (* `times(n)` without a named counter, n < 0 *)
Definition E_NEGCOUNTER : nat := 62.  (* `times(c = n)`, `--c > 0` flavour, counter below zero after the decrement *)
Definition E_TIMERESET : nat := 63.   (* AstVm assigns `time` where the jump form falls through, and the value differs *)
Definition P_NOLABEL : nat := 64.     (* goto to a label that does not exist at this level *)
Definition P_UNINIT : nat := 65.      (* read of uninitialized var *)
Definition P_BREAK : nat := 66.       (* "tried to break out of a loop, but wasn't in one" *)

Inductive tlabel := TAbs (t : Z) | TRel (d : Z).
(* TimeAndDifficultyHelper::visit_stmt_shallow *)
Definition tl_apply (l : tlabel) (t : Z) : Z :=
  match l with TAbs v => v | TRel d => wrap32 (t + d) end.

(* generated labels: gensym'd ones carry the gensym number, loop ends the LoopId *)
Inductive label :=
| LCondEnd (n : nat)      (* @cond_veryend#n *)
| LCond (n : nat)         (* @cond#n *)
| LTimesZero (n : nat)    (* @times_zero#n *)
| LLoop (n : nat)         (* @loop#n *)
| LLoopEnd (id : nat).    (* @loop_end#id *)

Definition label_eqb (a b : label) : bool :=
  match a, b with
  | LCondEnd x, LCondEnd y | LCond x, LCond y | LTimesZero x, LTimesZero y
  | LLoop x, LLoop y | LLoopEnd x, LLoopEnd y => Nat.eqb x y
  | _, _ => false
  end.

Inductive res := Normal | Break.

Record lang : Type := {
  expr : Type;
  var : Type;                      (* a variable that can be the named counter of `times` *)
  simple : Type;                   (* instruction calls, assignments, ... *)
  rstate : Type;                   (* AstVm::var_values *)
  call : Type;                     (* LoggedCall *)
  eval_int : expr -> rstate -> outcome (Z * rstate);   (* AstVm::eval_int (may write: ++/--) *)
  const_int : expr -> option Z;                        (* Expr::as_const_int *)
  rd : var -> rstate -> outcome Z;                     (* read_var_by_ast, int *)
  wr : var -> Z -> rstate -> rstate;                   (* write_var_by_ast *)
  exec : simple -> Z -> rstate -> outcome (rstate * list call)   (* given real_time *)
}.

Section Blocks.
  Variable L : lang.

  (* statements without nested code *)
  Inductive atom :=
  | ANop                                  (* StmtKind::NoInstruction (block bookends) *)
  | ATime (l : tlabel)                    (* AbsTimeLabel / RelTimeLabel *)
  | ASimple (x : simple L)
  | ADecl (ds : list nat) (x : simple L). (* Declaration of locals ds; x = its initialisers *)

  Inductive stmt :=
  | SAtom (a : atom)
  | SBreak (id : nat)                                  (* loop_id filled in by resolution *)
  | SCondBreak (k : kw) (c : expr L) (id : nat)
  | SBlock (b : block)
  | SCond (k : kw) (c : expr L) (b : block) (rest : chain)
  | SLoop (id : nat) (b : block)
  | SWhile (id : nat) (c : expr L) (b : block)
  | SDoWhile (id : nat) (c : expr L) (b : block)
  | STimes (id : nat) (clobber : option (var L)) (count : expr L) (b : block)
  with block := BNil | BCons (s : stmt) (b : block)
  with chain :=
  | CEnd
  | CElse (b : block)
  | CElif (k : kw) (c : expr L) (b : block) (rest : chain).

  Inductive fvar := FUser (v : var L) | FTemp (n : nat).   (* FTemp n: the gensym'd `count` local *)

  Inductive fcond :=
  | CExpr (e : expr L)
  | CIsZero (v : fvar)       (* v == 0 *)
  | CPredec (v : fvar)       (* --v *)
  | CPredecGt (v : fvar).    (* --v > 0 *)

  Inductive finstr :=
  | FAtom (a : atom)
  | FScopeEnd (d : nat)              (* inserted by insert_scope_ends *)
  | FDeclTemp (n : nat)              (* int count#n; *)
  | FScopeEndTemp (n : nat)
  | FSet (v : fvar) (e : expr L)     (* v = e; *)
  | FLabel (l : label)
  | FGoto (l : label)
  | FCondGoto (k : kw) (c : fcond) (l : label).

  (* ------------------------------------------------------------------------------------- *)
  (* statement times: one running counter over the whole body, in document order *)

  Definition atom_time (a : atom) (t : Z) : Z :=
    match a with ATime l => tl_apply l t | _ => t end.

  (* the time recorded for the statement itself *)
  Definition stmt_time (s : stmt) (t : Z) : Z :=
    match s with SAtom a => atom_time a t | _ => t end.

  (* the running time after the statement and everything nested in it *)
  Fixpoint stmt_after (s : stmt) (t : Z) {struct s} : Z :=
    match s with
    | SAtom a => atom_time a t
    | SBreak _ | SCondBreak _ _ _ => t
    | SBlock b => block_after b t
    | SCond _ _ b rest => chain_after rest (block_after b t)
    | SLoop _ b | SWhile _ _ b | SDoWhile _ _ b | STimes _ _ _ b => block_after b t
    end
  with block_after (b : block) (t : Z) {struct b} : Z :=
    match b with BNil => t | BCons s b' => block_after b' (stmt_after s t) end
  with chain_after (c : chain) (t : Z) {struct c} : Z :=
    match c with
    | CEnd => t
    | CElse b => block_after b t
    | CElif _ _ b rest => chain_after rest (block_after b t)
    end.

  (* Block::start_node_id / end_node_id looked up in the time table *)
  Definition start_time (b : block) (t : Z) : option Z :=
    match b with BNil => None | BCons s _ => Some (stmt_time s t) end.
  Fixpoint end_time (b : block) (t : Z) : option Z :=
    match b with
    | BNil => None
    | BCons s BNil => Some (stmt_time s t)
    | BCons s b' => end_time b' (stmt_after s t)
    end.
  (* StmtCondChain::last_block, its end time; [b] at [t] is the block before [c] *)
  Fixpoint chain_end_time (c : chain) (b : block) (t : Z) : option Z :=
    match c with
    | CEnd => end_time b t
    | CElse eb => end_time eb (block_after b t)
    | CElif _ _ b' rest => chain_end_time rest b' (block_after b t)
    end.

  Definition finstr_time (i : finstr) (t : Z) : Z :=
    match i with FAtom a => atom_time a t | _ => t end.
  Fixpoint code_after (c : list finstr) (t : Z) : Z :=
    match c with [] => t | i :: r => code_after r (finstr_time i t) end.

  (* the original statements with their times, in order: what [times_preserved] compares *)
  Fixpoint stmt_atoms (s : stmt) (t : Z) {struct s} : list (atom * Z) :=
    match s with
    | SAtom a => [(a, atom_time a t)]
    | SBreak _ | SCondBreak _ _ _ => []
    | SBlock b => block_atoms b t
    | SCond _ _ b rest => block_atoms b t ++ chain_atoms rest (block_after b t)
    | SLoop _ b | SWhile _ _ b | SDoWhile _ _ b | STimes _ _ _ b => block_atoms b t
    end
  with block_atoms (b : block) (t : Z) {struct b} : list (atom * Z) :=
    match b with BNil => [] | BCons s b' => stmt_atoms s t ++ block_atoms b' (stmt_after s t) end
  with chain_atoms (c : chain) (t : Z) {struct c} : list (atom * Z) :=
    match c with
    | CEnd => []
    | CElse b => block_atoms b t
    | CElif _ _ b rest => block_atoms b t ++ chain_atoms rest (block_after b t)
    end.
  Fixpoint code_atoms (c : list finstr) (t : Z) : list (atom * Z) :=
    match c with
    | [] => []
    | FAtom a :: r => (a, atom_time a t) :: code_atoms r (atom_time a t)
    | _ :: r => code_atoms r t
    end.

  (* ------------------------------------------------------------------------------------- *)
  (* desugaring *)

  (* insert_scope_ends: one ScopeEnd per local declared at this level, after the last statement *)
  Fixpoint scope_ends (b : block) : list finstr :=
    match b with
    | BNil => []
    | BCons (SAtom (ADecl ds _)) b' => map FScopeEnd ds ++ scope_ends b'
    | BCons _ b' => scope_ends b'
    end.

  Definition with_scope (r : list finstr * nat) (b : block) : list finstr * nat :=
    (fst r ++ scope_ends b, snd r).

  Definition count_cond (fl : flavour) (v : fvar) : fcond :=
    match fl with PredecNeZero => CPredec v | PredecGtZero => CPredecGt v end.

  (* "unless count is statically known to be nonzero, we need an initial zero test" *)
  Definition zero_test (c : option Z) : bool :=
    match c with None => true | Some z => z =? 0 end.

  (* an unconditional jump over the rest of the blocks, if necessary *)
  Definition jump_over (ve : label) (rest : chain) : list finstr :=
    match rest with CEnd => [] | _ => [FGoto ve] end.

  Variable fl : flavour.

  (* [g] is GensymContext::next_id.  Scope ends of a nested block are appended to its code
     (they were pushed into the block before it was desugared). *)
  Fixpoint desugar_stmt (s : stmt) (g : nat) {struct s} : list finstr * nat :=
    match s with
    | SAtom a => ([FAtom a], g)
    | SBreak id => ([FGoto (LLoopEnd id)], g)
    | SCondBreak k c id => ([FCondGoto k (CExpr c) (LLoopEnd id)], g)
    | SBlock b => with_scope (desugar_stmts b g) b
    | SCond k c b rest =>
        let ve := LCondEnd g in
        let skip := LCond (S g) in
        let r1 := with_scope (desugar_stmts b (S (S g))) b in
        let r2 := desugar_chain ve rest (snd r1) in
        (FCondGoto (negate k) (CExpr c) skip :: fst r1 ++ jump_over ve rest ++ [FLabel skip]
           ++ fst r2 ++ [FLabel ve], snd r2)
    | SLoop id b =>
        let r1 := with_scope (desugar_stmts b (S g)) b in
        (FLabel (LLoop g) :: fst r1 ++ [FGoto (LLoop g); FLabel (LLoopEnd id)], snd r1)
    | SDoWhile id c b =>
        let r1 := with_scope (desugar_stmts b (S g)) b in
        (FLabel (LLoop g) :: fst r1 ++ [FCondGoto KIf (CExpr c) (LLoop g); FLabel (LLoopEnd id)], snd r1)
    | SWhile id c b =>
        let r1 := with_scope (desugar_stmts b (S (S g))) b in
        (FCondGoto KUnless (CExpr c) (LCond g) :: FLabel (LLoop (S g)) :: fst r1
           ++ [FCondGoto KIf (CExpr c) (LLoop (S g)); FLabel (LCond g); FLabel (LLoopEnd id)], snd r1)
    | STimes id None count b =>
        let v := FTemp g in
        let r1 := with_scope (desugar_stmts b (S (S (S g)))) b in
        (FDeclTemp g :: FSet v count
           :: (if zero_test (const_int L count) then [FCondGoto KIf (CIsZero v) (LTimesZero (S g))] else [])
           ++ FLabel (LLoop (S (S g))) :: fst r1
           ++ [FCondGoto KIf (count_cond fl v) (LLoop (S (S g))); FLabel (LTimesZero (S g));
               FScopeEndTemp g; FLabel (LLoopEnd id)], snd r1)
    | STimes id (Some u) count b =>
        let v := FUser u in
        let r1 := with_scope (desugar_stmts b (S (S g))) b in
        (FSet v count
           :: (if zero_test (const_int L count) then [FCondGoto KIf (CIsZero v) (LTimesZero g)] else [])
           ++ FLabel (LLoop (S g)) :: fst r1
           ++ [FCondGoto KIf (count_cond fl v) (LLoop (S g)); FLabel (LTimesZero g);
               FLabel (LLoopEnd id)], snd r1)
    end
  with desugar_stmts (b : block) (g : nat) {struct b} : list finstr * nat :=
    match b with
    | BNil => ([], g)
    | BCons s b' =>
        let r1 := desugar_stmt s g in
        let r2 := desugar_stmts b' (snd r1) in
        (fst r1 ++ fst r2, snd r2)
    end
  with desugar_chain (ve : label) (c : chain) (g : nat) {struct c} : list finstr * nat :=
    match c with
    | CEnd => ([], g)
    | CElse b => with_scope (desugar_stmts b g) b
    | CElif k c b rest =>
        let skip := LCond g in
        let r1 := with_scope (desugar_stmts b (S g)) b in
        let r2 := desugar_chain ve rest (snd r1) in
        (FCondGoto (negate k) (CExpr c) skip :: fst r1 ++ jump_over ve rest ++ [FLabel skip] ++ fst r2,
         snd r2)
    end.

  Definition desugar_block (b : block) (g : nat) : list finstr * nat :=
    with_scope (desugar_stmts b g) b.

  (* passes::desugar_blocks::run on a function body *)
  Definition desugar (p : block) : list finstr := fst (desugar_block p 0).

  (* ------------------------------------------------------------------------------------- *)
  (* the VM state *)

  Record state := mkst { s_time : Z; s_rtime : Z; s_log : list (call L); s_regs : rstate L }.

  Definition set_time (t : Z) (st : state) : state :=
    mkst t (s_rtime st) (s_log st) (s_regs st).
  Definition set_regs (r : rstate L) (st : state) : state :=
    mkst (s_time st) (s_rtime st) (s_log st) r.

  (* "Wait" until this statement's time; the subtractions/additions are overflow-checked *)
  Definition wait (t : Z) (st : state) : outcome state :=
    if s_time st <? t then
      let d := t - s_time st in
      if in_i32b d && in_i32b (s_rtime st + d)
      then Ok (mkst t (s_rtime st + d) (s_log st) (s_regs st))
      else Panic P_OVERFLOW
    else Ok st.

  Definition exec_atom (a : atom) (st : state) : outcome state :=
    match a with
    | ANop | ATime _ => Ok st
    | ASimple x | ADecl _ x =>
        do rc <- exec L x (s_rtime st) (s_regs st);
        Ok (mkst (s_time st) (s_rtime st) (s_log st ++ snd rc) (fst rc))
    end.

  (* AstVm::eval_cond *)
  Definition eval_cond (c : expr L) (st : state) : outcome (bool * state) :=
    do zr <- eval_int L c (s_regs st);
    Ok (negb (fst zr =? 0), set_regs (snd zr) st).

  Definition check (m : mode) (b : bool) (tag : nat) : outcome unit :=
    match m with Lax _ => Ok tt | Strict _ _ => if b then Ok tt else Err tag end.

  (* a fall-through point: [t] is the time AstVm (as found) assigns, [t_now] the time the jump
     form has there *)
  Definition fall (m : mode) (t t_now : Z) (st : state) : outcome state :=
    match m with
    | Lax true => Ok (set_time t st)
    | Lax false | Strict false _ => Ok (set_time t_now st)
    | Strict true _ => if t_now =? t then Ok (set_time t st) else Err E_TIMERESET
    end.

  Definition expect_time (o : option Z) : outcome Z :=
    match o with Some t => Ok t | None => Panic P_EXPECT end.

  (* how a loop decides to go round again after its body finished normally *)
  Inductive loopkind :=
  | LKLoop                     (* loop { } *)
  | LKWhile (c : expr L)       (* while / do-while *)
  | LKCount (n : Z)            (* times(n): n = iterations left, including the one just finished *)
  | LKClobber (v : var L).     (* times(v = n) *)

  (* ------------------------------------------------------------------------------------- *)
  (* AstVm::_run on nested code.  [t] is the running statement time before the block / of the
     statement; [fuel] bounds the number of nested calls (AstVm: max_iterations). *)

  Fixpoint run_block (fuel : nat) (m : mode) (t : Z) (b : block) (st : state) {struct fuel}
    : outcome (res * state) :=
    match fuel with
    | O => OutOfFuel
    | S f =>
        match b with
        | BNil => Ok (Normal, st)
        | BCons s b' =>
            do st1 <- wait (stmt_time s t) st;
            do r <- run_stmt f m t s st1;
            match fst r with
            | Normal => run_block f m (stmt_after s t) b' (snd r)
            | Break => Ok (Break, snd r)
            end
        end
    end
  with run_stmt (fuel : nat) (m : mode) (t : Z) (s : stmt) (st : state) {struct fuel}
    : outcome (res * state) :=
    match fuel with
    | O => OutOfFuel
    | S f =>
        match s with
        | SAtom a => do st' <- exec_atom a st; Ok (Normal, st')
        | SBreak _ => Ok (Break, st)
        | SCondBreak k c _ =>
            do bs <- eval_cond c st;
            Ok (if Bool.eqb (fst bs) (is_if k) then Break else Normal, snd bs)
        | SBlock b => run_block f m t b st
        | SCond k c b rest => run_chain f m t true k c b rest st
        | SLoop _ b =>
            do ts <- expect_time (start_time b t);
            do te <- expect_time (end_time b t);
            do st' <- run_iter f m t b ts te LKLoop st;
            Ok (Normal, st')
        | SDoWhile _ c b =>
            do ts <- expect_time (start_time b t);
            do te <- expect_time (end_time b t);
            do st' <- run_iter f m t b ts te (LKWhile c) st;
            Ok (Normal, st')
        | SWhile _ c b =>
            do ts <- expect_time (start_time b t);
            do te <- expect_time (end_time b t);
            do bs <- eval_cond c st;
            if fst bs then
              do st' <- run_iter f m t b ts te (LKWhile c) (snd bs);
              Ok (Normal, st')
            else
              (* "in the zero-iterations case only, we jump over the loop and therefore need to fix the time" *)
              Ok (Normal, set_time te (snd bs))
        | STimes _ None count b =>
            do ts <- expect_time (start_time b t);
            do te <- expect_time (end_time b t);
            do zr <- eval_int L count (s_regs st);
            let st1 := set_regs (snd zr) (set_time te st) in
            let n := fst zr in
            if n =? 0 then Ok (Normal, st1)
            else
              do ck <- check m (0 <? n) E_NEGCOUNT;
              if n <? 0 then Ok (Normal, st1)      (* for _ in 0..count *)
              else
                do st2 <- fall m ts (s_time st) st1;
                do st' <- run_iter f m t b ts te (LKCount n) st2;
                Ok (Normal, st')
        | STimes _ (Some v) count b =>
            do ts <- expect_time (start_time b t);
            do te <- expect_time (end_time b t);
            do zr <- eval_int L count (s_regs st);
            let n := fst zr in
            let st1 := set_regs (wr L v n (snd zr)) (set_time te st) in
            if n =? 0 then Ok (Normal, st1)
            else
              do st2 <- fall m ts (s_time st) st1;
              do st' <- run_iter f m t b ts te (LKClobber v) st2;
              Ok (Normal, st')
        end
    end
  (* one cond block of an if/else-if/else chain; [t] = running time before block [b] *)
  with run_chain (fuel : nat) (m : mode) (t : Z) (first : bool) (k : kw) (c : expr L) (b : block)
                 (rest : chain) (st : state) {struct fuel} : outcome (res * state) :=
    match fuel with
    | O => OutOfFuel
    | S f =>
        do bs <- eval_cond c st;
        let st1 := snd bs in
        if Bool.eqb (fst bs) (is_if k) then
          do ts <- expect_time (start_time b t);
          do st2 <- (if first then fall m ts (s_time st1) st1 else Ok (set_time ts st1));
          do r <- run_block f m t b st2;
          match fst r with
          | Break => Ok (Break, snd r)
          | Normal =>
              do te <- expect_time (chain_end_time rest b t);
              do st' <- match rest with
                        | CEnd => fall m te (s_time (snd r)) (snd r)
                        | _ => Ok (set_time te (snd r))
                        end;
              Ok (Normal, st')
          end
        else
          match rest with
          | CEnd => do te <- expect_time (end_time b t); Ok (Normal, set_time te st1)
          | CElse eb =>
              let t1 := block_after b t in
              do ts <- expect_time (start_time eb t1);
              do r <- run_block f m t1 eb (set_time ts st1);
              match fst r with
              | Break => Ok (Break, snd r)
              | Normal =>
                  do te <- expect_time (end_time eb t1);
                  do st' <- fall m te (s_time (snd r)) (snd r);
                  Ok (Normal, st')
              end
          | CElif k' c' b' rest' => run_chain f m (block_after b t) false k' c' b' rest' st1
          end
    end
  (* one iteration of a loop body and the decision to repeat; result: the state after the loop *)
  with run_iter (fuel : nat) (m : mode) (t : Z) (b : block) (ts te : Z) (lk : loopkind) (st : state)
                {struct fuel} : outcome state :=
    match fuel with
    | O => OutOfFuel
    | S f =>
        do r <- run_block f m t b st;
        let st1 := snd r in
        match fst r with
        | Break => Ok (set_time te st1)
        | Normal =>
            match lk with
            | LKLoop => run_iter f m t b ts te lk (set_time ts st1)
            | LKWhile c =>
                do bs <- eval_cond c st1;
                if fst bs then run_iter f m t b ts te lk (set_time ts (snd bs)) else Ok (snd bs)
            | LKCount n =>
                if 1 <? n then run_iter f m t b ts te (LKCount (n - 1)) (set_time ts st1) else Ok st1
            | LKClobber v =>
                do x <- rd L v (s_regs st1);
                if in_i32b (x - 1) then     (* `x - 1`: overflow-checked *)
                  let st2 := set_regs (wr L v (x - 1) (s_regs st1)) st1 in
                  if x - 1 =? 0 then Ok st2
                  else
                    do ck <- check m (match m with Strict _ PredecGtZero => 0 <? x - 1 | _ => true end) E_NEGCOUNTER;
                    run_iter f m t b ts te lk (set_time ts st2)
                else Panic P_OVERFLOW
            end
        end
    end.

  (* AstVm::run on a function body *)
  Definition run_struct (fuel : nat) (m : mode) (p : block) (st : state) : outcome state :=
    do r <- run_block fuel m 0 p st;
    match fst r with Normal => Ok (snd r) | Break => Panic P_BREAK end.

  (* ------------------------------------------------------------------------------------- *)
  (* AstVm::_run on a flat list.  The position is the remaining suffix; a goto continues with
     what the label environment gives for the label: its time and the code after it. *)

  Definition temps := list (nat * Z).
  Fixpoint tget (n : nat) (tm : temps) : option Z :=
    match tm with [] => None | (k, z) :: r => if Nat.eqb n k then Some z else tget n r end.
  Fixpoint tset (n : nat) (z : Z) (tm : temps) : temps :=
    match tm with
    | [] => [(n, z)]
    | (k, x) :: r => if Nat.eqb n k then (n, z) :: r else (k, x) :: tset n z r
    end.

  Definition fstate : Type := state * temps.

  Definition rd_f (v : fvar) (fs : fstate) : outcome Z :=
    match v with
    | FUser u => rd L u (s_regs (fst fs))
    | FTemp n => match tget n (snd fs) with Some z => Ok z | None => Panic P_UNINIT end
    end.
  Definition wr_f (v : fvar) (z : Z) (fs : fstate) : fstate :=
    match v with
    | FUser u => (set_regs (wr L u z (s_regs (fst fs))) (fst fs), snd fs)
    | FTemp n => (fst fs, tset n z (snd fs))
    end.

  Definition eval_fcond (c : fcond) (fs : fstate) : outcome (bool * fstate) :=
    match c with
    | CExpr e => do bs <- eval_cond e (fst fs); Ok (fst bs, (snd bs, snd fs))
    | CIsZero v => do z <- rd_f v fs; Ok (z =? 0, fs)
    | CPredec v => do z <- rd_f v fs; let z' := wrap32 (z - 1) in Ok (negb (z' =? 0), wr_f v z' fs)
    | CPredecGt v => do z <- rd_f v fs; let z' := wrap32 (z - 1) in Ok (0 <? z', wr_f v z' fs)
    end.

  Definition fenv := label -> option (Z * list finstr).

  Fixpoint frun (fuel : nat) (env : fenv) (t : Z) (c : list finstr) (fs : fstate) {struct fuel}
    : outcome fstate :=
    match fuel with
    | O => OutOfFuel
    | S f =>
        match c with
        | [] => Ok fs
        | i :: rest =>
            let ti := finstr_time i t in
            do st1 <- wait ti (fst fs);
            let fs1 := (st1, snd fs) in
            (* try_goto: the time becomes the label's time *)
            let jump (l : label) (fs' : fstate) :=
              match env l with
              | None => Panic P_NOLABEL
              | Some (tl, cl) => frun f env tl cl (set_time tl (fst fs'), snd fs')
              end in
            match i with
            | FAtom a => do st2 <- exec_atom a st1; frun f env ti rest (st2, snd fs)
            | FScopeEnd _ | FDeclTemp _ | FScopeEndTemp _ | FLabel _ => frun f env ti rest fs1
            | FSet v e =>
                do zr <- eval_int L e (s_regs st1);
                frun f env ti rest (wr_f v (fst zr) (set_regs (snd zr) st1, snd fs))
            | FGoto l => jump l fs1
            | FCondGoto k c l =>
                do bf <- eval_fcond c fs1;
                if Bool.eqb (fst bf) (is_if k) then jump l (snd bf) else frun f env ti rest (snd bf)
            end
        end
    end.

  (* try_goto: the first label statement with that name, the time recorded for it, and the
     position after it *)
  Fixpoint find_label (c : list finstr) (t : Z) (l : label) : option (Z * list finstr) :=
    match c with
    | [] => None
    | i :: rest =>
        let ti := finstr_time i t in
        match i with
        | FLabel l' => if label_eqb l l' then Some (ti, rest) else find_label rest ti l
        | _ => find_label rest ti l
        end
    end.

  Definition run_flat (fuel : nat) (c : list finstr) (st : state) : outcome fstate :=
    frun fuel (find_label c 0) 0 c (st, []).

  (* ------------------------------------------------------------------------------------- *)
  (* what the parser and the resolution pass guarantee *)

  Definition first_nop (b : block) : bool :=
    match b with BCons (SAtom ANop) _ => true | _ => false end.
  Fixpoint last_nop (b : block) : bool :=
    match b with
    | BNil => false
    | BCons (SAtom ANop) BNil => true
    | BCons _ b' => last_nop b'
    end.
  Definition bookended (b : block) : bool := first_nop b && last_nop b.

  Definition cur_is (cur : option nat) (id : nat) : bool :=
    match cur with Some c => Nat.eqb c id | None => false end.

  (* every block has its NoInstruction bookends; every break names the innermost loop *)
  Fixpoint wf_stmt (cur : option nat) (s : stmt) {struct s} : bool :=
    match s with
    | SAtom _ => true
    | SBreak id | SCondBreak _ _ id => cur_is cur id
    | SBlock b => bookended b && wf_stmts cur b
    | SCond _ _ b rest => bookended b && wf_stmts cur b && wf_chain cur rest
    | SLoop id b | SWhile id _ b | SDoWhile id _ b | STimes id _ _ b =>
        bookended b && wf_stmts (Some id) b
    end
  with wf_stmts (cur : option nat) (b : block) {struct b} : bool :=
    match b with BNil => true | BCons s b' => wf_stmt cur s && wf_stmts cur b' end
  with wf_chain (cur : option nat) (c : chain) {struct c} : bool :=
    match c with
    | CEnd => true
    | CElse b => bookended b && wf_stmts cur b
    | CElif _ _ b rest => bookended b && wf_stmts cur b && wf_chain cur rest
    end.
  Definition wf_block (cur : option nat) (b : block) : bool := bookended b && wf_stmts cur b.

  Fixpoint loop_ids_stmt (s : stmt) {struct s} : list nat :=
    match s with
    | SAtom _ | SBreak _ | SCondBreak _ _ _ => []
    | SBlock b => loop_ids b
    | SCond _ _ b rest => loop_ids b ++ loop_ids_chain rest
    | SLoop id b | SWhile id _ b | SDoWhile id _ b | STimes id _ _ b => loop_ids b ++ [id]
    end
  with loop_ids (b : block) {struct b} : list nat :=
    match b with BNil => [] | BCons s b' => loop_ids_stmt s ++ loop_ids b' end
  with loop_ids_chain (c : chain) {struct c} : list nat :=
    match c with
    | CEnd => []
    | CElse b => loop_ids b
    | CElif _ _ b rest => loop_ids b ++ loop_ids_chain rest
    end.

  Fixpoint nodupb (l : list nat) : bool :=
    match l with [] => true | x :: r => negb (existsb (Nat.eqb x) r) && nodupb r end.

  Definition wf_prog (p : block) : bool := wf_block None p && nodupb (loop_ids p).

  (* time labels never go backwards ([t] = running statement time before the statement) *)
  Fixpoint mono_stmt (s : stmt) (t : Z) {struct s} : bool :=
    match s with
    | SAtom a => t <=? atom_time a t
    | SBreak _ | SCondBreak _ _ _ => true
    | SBlock b => mono_block b t
    | SCond _ _ b rest => mono_block b t && mono_chain rest (block_after b t)
    | SLoop _ b | SWhile _ _ b | SDoWhile _ _ b | STimes _ _ _ b => mono_block b t
    end
  with mono_block (b : block) (t : Z) {struct b} : bool :=
    match b with BNil => true | BCons s b' => mono_stmt s t && mono_block b' (stmt_after s t) end
  with mono_chain (c : chain) (t : Z) {struct c} : bool :=
    match c with
    | CEnd => true
    | CElse b => mono_block b t
    | CElif _ _ b rest => mono_block b t && mono_chain rest (block_after b t)
    end.

End Blocks.

Arguments ANop {L}. Arguments ATime {L} l. Arguments ASimple {L} x. Arguments ADecl {L} ds x.
Arguments SAtom {L} a. Arguments SBreak {L} id. Arguments SCondBreak {L} k c id.
Arguments SBlock {L} b. Arguments SCond {L} k c b rest. Arguments SLoop {L} id b.
Arguments SWhile {L} id c b. Arguments SDoWhile {L} id c b. Arguments STimes {L} id clobber count b.
Arguments BNil {L}. Arguments BCons {L} s b.
Arguments CEnd {L}. Arguments CElse {L} b. Arguments CElif {L} k c b rest.
Arguments FUser {L} v. Arguments FTemp {L} n.
Arguments CExpr {L} e. Arguments CIsZero {L} v. Arguments CPredec {L} v. Arguments CPredecGt {L} v.
Arguments FAtom {L} a. Arguments FScopeEnd {L} d. Arguments FDeclTemp {L} n.
Arguments FScopeEndTemp {L} n. Arguments FSet {L} v e. Arguments FLabel {L} l.
Arguments FGoto {L} l. Arguments FCondGoto {L} k c l.
Arguments mkst {L}. Arguments s_time {L}. Arguments s_rtime {L}. Arguments s_log {L}. Arguments s_regs {L}.
Arguments LKLoop {L}. Arguments LKWhile {L} c. Arguments LKCount {L} n. Arguments LKClobber {L} v.
