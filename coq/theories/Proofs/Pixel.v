(* Proofs/Pixel.v -- C17: pixel formats are lossless, transcoding a texture to ARGB_8888 and back is
   the identity on byte strings, crop undoes pad, and extract + compile reproduces a THTX section. *)
From TV Require Import Base.I32 Base.F32 Model.Pixel Gen.Pixel Proofs.PixelSweep.
Open Scope Z_scope.

(* ------------------------------------------------------------------------------------------ *)
(* generic list facts *)

Lemma skipn_exact {A} (l1 l2 : list A) : skipn (length l1) (l1 ++ l2) = l2.
Proof. induction l1; cbn; auto. Qed.

Lemma firstn_exact {A} (l1 l2 : list A) : firstn (length l1) (l1 ++ l2) = l1.
Proof. induction l1; cbn; f_equal; auto. Qed.

Lemma firstn_len {A} (l : list A) n : length l = n -> firstn n l = l.
Proof. intros <-. apply firstn_all. Qed.

Lemma rows_of_concat {A} n (chs : list (list A)) :
  Forall (fun c => length c = n) chs -> rows_of n (length chs) (concat chs) = chs.
Proof.
  induction 1 as [|c chs Hc _ IH]; cbn [rows_of concat length]; auto.
  subst n. now rewrite firstn_exact, skipn_exact, IH.
Qed.

Lemma rows_of_spec {A} n k : forall (l : list A), length l = (n * k)%nat ->
  concat (rows_of n k l) = l /\ Forall (fun c => length c = n) (rows_of n k l) /\ length (rows_of n k l) = k.
Proof.
  induction k as [|k IH]; intros l Hl; cbn [rows_of concat length].
  - rewrite Nat.mul_0_r in Hl. destruct l; [auto|discriminate].
  - assert (Hs : length (skipn n l) = (n * k)%nat) by (rewrite skipn_length; lia).
    destruct (IH _ Hs) as (E1 & E2 & E3).
    rewrite E1, firstn_skipn, E3. repeat split; auto.
    constructor; auto. rewrite firstn_length. lia.
Qed.

Lemma length_concat_const {A} n (chs : list (list A)) :
  Forall (fun c => length c = n) chs -> length (concat chs) = (n * length chs)%nat.
Proof. induction 1 as [|c chs Hc _ IH]; cbn [concat length]; [lia|]. rewrite app_length, IH. lia. Qed.

Lemma omap_Forall2 {A B} (g : A -> outcome B) l r :
  Forall2 (fun x y => g x = Ok y) l r -> omap g l = Ok r.
Proof. induction 1 as [|x y l r H _ IH]; cbn [omap]; auto. now rewrite H, IH. Qed.

Lemma Forall2_len {A B} (R : A -> B -> Prop) l r : Forall2 R l r -> length l = length r.
Proof. induction 1; cbn; auto. Qed.

Lemma omap_map {A B C} (g : B -> outcome C) (h : A -> B) l : omap g (map h l) = omap (fun x => g (h x)) l.
Proof. induction l; cbn [omap map]; auto. now rewrite IHl. Qed.

(* ------------------------------------------------------------------------------------------ *)
(* little-endian byte strings *)

Definition bytes_ok (bs : bytes) : Prop := Forall (fun b => 0 <= b < 256) bs.

Lemma le_bytes_length n : forall v, length (le_bytes n v) = n.
Proof. induction n; intros; cbn [le_bytes length]; auto. Qed.

Lemma le_value_range ch : bytes_ok ch -> 0 <= le_value ch < 256 ^ Z.of_nat (length ch).
Proof.
  induction 1 as [|b t Hb _ IH]; cbn [le_value length].
  - cbn. lia.
  - rewrite Nat2Z.inj_succ, Z.pow_succ_r by lia. lia.
Qed.

Lemma le_bytes_le_value ch : bytes_ok ch -> le_bytes (length ch) (le_value ch) = ch.
Proof.
  induction 1 as [|b t Hb Ht IH]; cbn [le_value length le_bytes]; auto.
  replace ((b + 256 * le_value t) mod 256) with b by lia.
  replace ((b + 256 * le_value t) / 256) with (le_value t) by lia.
  now rewrite IH.
Qed.

Lemma le_value_le_bytes n : forall v, 0 <= v < 256 ^ Z.of_nat n -> le_value (le_bytes n v) = v.
Proof.
  induction n as [|n IH]; intros v H.
  - cbn in *. lia.
  - cbn [le_bytes le_value]. rewrite Nat2Z.inj_succ, Z.pow_succ_r in H by lia.
    rewrite IH by lia. lia.
Qed.

(* ------------------------------------------------------------------------------------------ *)
(* transcoding a texture to ARGB_8888 and back *)

Definition chunk_ok (n : nat) (ch : list Z) : Prop := length ch = n /\ bytes_ok ch.

Lemma trip_lists f chs : f <> Argb8888 -> Forall (chunk_ok (bpp_nat T f)) chs ->
  exists cs qs,
    Forall2 (fun ch c => dec_px T f (le_value ch) = Ok c) chs cs /\
    Forall2 (fun c q => enc8888 T c = Ok q) cs qs /\
    Forall (fun q => 0 <= q < 2 ^ 32) qs /\
    Forall2 (fun q c => dec8888 T q = Ok c) qs cs /\
    Forall2 (fun c ch => enc_px T f c = Ok (le_value ch)) cs chs.
Proof.
  intros Hf. induction 1 as [|ch chs [Hl Hb] _ (cs & qs & A & B & C & D & E)].
  - exists [], []. repeat split; constructor.
  - assert (G : px_good f (le_value ch)).
    { apply good_all; auto. pose proof (le_value_range ch Hb) as R. rewrite Hl in R.
      unfold pixel_bound. unfold bpp_nat in R. destruct f; try congruence; exact R. }
    destruct G as (c & q & G1 & G2 & G3 & G4 & G5).
    exists (c :: cs), (q :: qs). repeat split; constructor; auto.
Qed.

Lemma encode_8888_ok cs qs : Forall2 (fun c q => enc8888 T c = Ok q) cs qs ->
  encode_bytes T Argb8888 cs = Ok (concat (map (le_bytes 4) qs)).
Proof.
  intros H. unfold encode_bytes.
  rewrite (omap_Forall2 _ cs (map (le_bytes 4) qs)); [reflexivity|].
  induction H as [|c q cs qs H _ IH]; cbn [map]; constructor; auto.
  cbn [enc_px]. rewrite H. reflexivity.
Qed.

Lemma decode_8888_ok qs cs : Forall (fun q => 0 <= q < 2 ^ 32) qs -> Forall2 (fun q c => dec8888 T q = Ok c) qs cs ->
  decode_bytes T Argb8888 (concat (map (le_bytes 4) qs)) = Ok cs.
Proof.
  intros R H. unfold decode_bytes.
  assert (L : Forall (fun c : list Z => length c = 4%nat) (map (le_bytes 4) qs)).
  { clear. induction qs; cbn [map]; constructor; auto. }
  change (bpp_nat T Argb8888) with 4%nat. cbn [Nat.eqb].
  rewrite (length_concat_const 4 _ L), map_length.
  replace (Nat.modulo (4 * length qs) 4) with O by (symmetry; rewrite Nat.mul_comm; apply Nat.mod_mul; lia).
  replace (Nat.div (4 * length qs) 4) with (length qs) by (symmetry; rewrite Nat.mul_comm; apply Nat.div_mul; lia).
  cbn [Nat.eqb negb].
  rewrite <- (map_length (le_bytes 4) qs) at 1. rewrite rows_of_concat by exact L.
  rewrite omap_map. apply omap_Forall2.
  clear L. induction H as [|q c qs cs H _ IH]; constructor.
  - inversion R; subst. cbn [dec_px]. rewrite le_value_le_bytes; auto.
  - inversion R; subst. auto.
Qed.

Lemma encode_back_ok f cs chs : Forall (chunk_ok (bpp_nat T f)) chs ->
  Forall2 (fun c ch => enc_px T f c = Ok (le_value ch)) cs chs ->
  encode_bytes T f cs = Ok (concat chs).
Proof.
  intros Hc H. unfold encode_bytes.
  rewrite (omap_Forall2 _ cs chs); [reflexivity|].
  induction H as [|c ch cs chs H _ IH]; constructor.
  - inversion Hc as [|? ? [Hl Hb] ?]; subst. rewrite H. cbn. rewrite <- Hl at 1. now rewrite le_bytes_le_value.
  - inversion Hc; subst. auto.
Qed.

Lemma bpp_pos f : (0 < bpp_nat T f)%nat.
Proof. destruct f; vm_compute; lia. Qed.

Lemma Forall_firstn {A} (P : A -> Prop) n : forall l, Forall P l -> Forall P (firstn n l).
Proof. induction n; intros l H; cbn [firstn]; [constructor|]. destruct H; constructor; auto. Qed.

Lemma Forall_skipn {A} (P : A -> Prop) n : forall l, Forall P l -> Forall P (skipn n l).
Proof. induction n; intros l H; cbn [skipn]; auto. destruct H; auto. Qed.

Lemma Forall_rows_ok n k : forall bs, bytes_ok bs -> length bs = (n * k)%nat -> Forall (chunk_ok n) (rows_of n k bs).
Proof.
  induction k as [|k IH]; intros bs Hb Hl; cbn [rows_of]; constructor.
  - split. { rewrite firstn_length. lia. } apply Forall_firstn. exact Hb.
  - apply IH. { apply Forall_skipn. exact Hb. } rewrite skipn_length. lia.
Qed.

(* the texture-level statement: both directions of ColorFormat::transcode_*_argb_8888 *)
Lemma transcode_lossless f bs k : bytes_ok bs -> length bs = (bpp_nat T f * k)%nat ->
  exists argb, to_argb T f bs = Ok argb /\ length argb = (4 * k)%nat /\ from_argb T f argb = Ok bs.
Proof.
  intros Hb Hl. destruct (match f with Argb8888 => true | _ => false end) eqn:E8.
  - destruct f; try discriminate. exists bs. unfold to_argb, from_argb. cbn. change (bpp_nat T Argb8888) with 4%nat in Hl. auto.
  - assert (Hf : f <> Argb8888) by (destruct f; congruence).
    pose proof (bpp_pos f) as Hn. set (n := bpp_nat T f) in *.
    destruct (rows_of_spec n k bs Hl) as (R1 & R2 & R3).
    pose proof (Forall_rows_ok n k bs Hb Hl) as Hc.
    destruct (trip_lists f (rows_of n k bs) Hf Hc) as (cs & qs & A & B & C & D & E).
    assert (Lcs : length cs = k) by (rewrite <- (Forall2_len _ _ _ A); exact R3).
    assert (Lqs : length qs = k) by (rewrite <- (Forall2_len _ _ _ B); exact Lcs).
    exists (concat (map (le_bytes 4) qs)).
    assert (Dec : decode_bytes T f bs = Ok cs).
    { unfold decode_bytes. fold n.
      destruct (Nat.eqb n 0) eqn:En; [apply Nat.eqb_eq in En; lia|].
      rewrite Hl. replace (Nat.modulo (n * k) n) with O by (symmetry; rewrite Nat.mul_comm; apply Nat.mod_mul; lia).
      replace (Nat.div (n * k) n) with k by (symmetry; rewrite Nat.mul_comm; apply Nat.div_mul; lia).
      cbn [Nat.eqb negb]. apply omap_Forall2. exact A. }
    split; [|split].
    + unfold to_argb. change (pt_transcoders T) with true. cbn [negb].
      destruct f; try congruence; rewrite Dec; cbn [obind]; apply encode_8888_ok; exact B.
    + rewrite (length_concat_const 4).
      * now rewrite map_length, Lqs.
      * clear. induction qs; cbn [map]; constructor; auto.
    + unfold from_argb. change (pt_transcoders T) with true. cbn [negb].
      destruct f; try congruence; rewrite (decode_8888_ok qs cs C D); cbn [obind];
        rewrite (encode_back_ok _ cs _ Hc E); now rewrite R1.
Qed.

(* ------------------------------------------------------------------------------------------ *)
(* images: crop undoes pad, for every size and offset *)

Lemma texture_roundtrip ox oy w h (rows : list (list pixel)) :
  length rows = h -> Forall (fun r => length r = w) rows ->
  crop ox oy w h (pad ox oy w rows) = rows.
Proof.
  intros Hh Hw. unfold crop, pad.
  rewrite <- (repeat_length (repeat white (ox + w)) oy) at 1. rewrite skipn_exact.
  rewrite firstn_len by (now rewrite map_length).
  rewrite map_map. rewrite <- (map_id rows) at 2. apply map_ext_in. intros r Hr.
  rewrite Forall_forall in Hw.
  rewrite <- (repeat_length white ox) at 1. rewrite skipn_exact. apply firstn_len. auto.
Qed.

Lemma swap02_invol p : swap02 (swap02 p) = p.
Proof. destruct p as [[[a b] c] d]. reflexivity. Qed.

Lemma image_map_swap_invol im : image_map swap02 (image_map swap02 im) = im.
Proof.
  destruct im as [w h rows]. unfold image_map. cbn. f_equal.
  rewrite map_map. rewrite <- (map_id rows) at 2. apply map_ext. intros r.
  rewrite map_map. rewrite <- (map_id r) at 2. apply map_ext. apply swap02_invol.
Qed.

Lemma px_of_bytes_spec m : forall fuel bs, length bs = (4 * m)%nat -> (m <= fuel)%nat ->
  bytes_of_px (px_of_bytes fuel bs) = bs /\ length (px_of_bytes fuel bs) = m.
Proof.
  induction m as [|m IH]; intros fuel bs Hl Hf.
  - destruct bs; [|discriminate]. destruct fuel; cbn; auto.
  - destruct fuel as [|fuel]; [lia|].
    destruct bs as [|a [|b [|c [|d t]]]]; try (cbn in Hl; lia).
    cbn [px_of_bytes]. destruct (IH fuel t) as [E1 E2]; [cbn in Hl; lia|lia|].
    unfold bytes_of_px in *. cbn [flat_map app length]. rewrite E1, E2. auto.
Qed.

(* ------------------------------------------------------------------------------------------ *)
(* SoftOption facts *)

Definition soft_agrees {A} (s : soft A) (v : A) : Prop := match s with Explicit u => u = v | _ => True end.

Lemma set_soft_agrees {A} (s : soft A) v : soft_agrees s v -> into_option (set_soft s v) = Some v.
Proof. destruct s; cbn; intros; subst; auto. Qed.

Lemma check_dim_ok (s : soft nat) v : soft_agrees s v -> check_dim (set_soft s v) v = Ok tt.
Proof. destruct s; cbn; intros; subst; now rewrite Nat.eqb_refl. Qed.

Lemma opt_nat_default (s : soft nat) : opt_nat (into_option (set_soft_if_missing s O)) = opt_nat (into_option s).
Proof. destruct s; reflexivity. Qed.

Lemma fmt_num_inj f g : pt_fmt_num T f = pt_fmt_num T g -> f = g.
Proof. destruct f, g; vm_compute; congruence. Qed.

Lemma format_of_num_num f : format_of_num T (pt_fmt_num T f) = Some f.
Proof. destruct f; reflexivity. Qed.

(* ------------------------------------------------------------------------------------------ *)
(* extract, then compile with the extraction directory as image source *)

Definition valid_texture (f : cformat) (t : texture) : Prop :=
  t_fmt t = pt_fmt_num T f /\ bytes_ok (t_data t) /\ length (t_data t) = (bpp_nat T f * (t_w t * t_h t))%nat.

(* the script entry does not contradict the original entry: explicit dimensions (if any) are the texture's,
   the format is the texture's (explicitly, or by default for ARGB_8888), has_data is not false, the offsets
   are the original offsets *)
Definition spec_matches (f : cformat) (t : texture) (ox oy : nat) (sp : wspecs) : Prop :=
  soft_agrees (s_w sp) (t_w t) /\ soft_agrees (s_h sp) (t_h t) /\
  into_option (set_soft_if_missing (s_fmt sp) (pt_fmt_num T Argb8888)) = Some (pt_fmt_num T f) /\
  into_option (set_soft_if_missing (s_has sp) true) = Some true /\
  opt_nat (into_option (s_ox sp)) = ox /\ opt_nat (into_option (s_oy sp)) = oy.

(* within the pixel bound of fix d8a7ff5 extraction is produce_image *)
Lemma extract_image_within bound (T0 : pixtable) t ox oy im :
  over_bound bound ox oy t = false -> produce_image T0 ox oy t = Ok im -> extract_image bound T0 ox oy t = Ok im.
Proof.
  intros Hb Hp. unfold extract_image. rewrite Hb. unfold produce_image in *.
  destruct (format_of_num T0 (t_fmt t)) as [f|]; [|discriminate].
  destruct (negb (Nat.eqb (length (t_data t)) (bpp_nat T0 f * t_w t * t_h t))); [discriminate | exact Hp].
Qed.

Section Png.
  Variable pngfile : Type.
  Variable png_enc : image -> pngfile.
  Variable png_dec : pngfile -> option image.
  Hypothesis png_lossless : forall im, png_dec (png_enc im) = Some im.

  Lemma produce_image_ok f t ox oy : valid_texture f t ->
    exists argb rows,
      produce_image T ox oy t = Ok (image_map swap02 {| iw := t_w t + ox; ih := t_h t + oy; irows := pad ox oy (t_w t) rows |}) /\
      length rows = t_h t /\ Forall (fun r => length r = t_w t) rows /\
      bytes_of_px (concat rows) = argb /\
      to_argb T f (t_data t) = Ok argb /\ from_argb T f argb = Ok (t_data t).
  Proof.
    intros (Hf & Hb & Hl).
    destruct (transcode_lossless f (t_data t) (t_w t * t_h t) Hb Hl) as (argb & A1 & A2 & A3).
    destruct (px_of_bytes_spec (t_w t * t_h t) (length argb) argb A2) as [P1 P2]; [lia|].
    destruct (rows_of_spec (t_w t) (t_h t) (px_of_bytes (length argb) argb) P2) as (R1 & R2 & R3).
    exists argb, (rows_of (t_w t) (t_h t) (px_of_bytes (length argb) argb)).
    repeat split; auto.
    - unfold produce_image. rewrite Hf, format_of_num_num.
      replace (Nat.eqb (length (t_data t)) (bpp_nat T f * t_w t * t_h t)) with true by (symmetry; apply Nat.eqb_eq; lia).
      cbn [negb]. rewrite A1. cbn [obind].
      destruct (Nat.ltb_spec (length argb) (4 * t_w t * t_h t)); [lia|]. reflexivity.
    - now rewrite R1.
  Qed.

  Theorem extract_compile_roundtrip f t ox oy sp path :
    valid_texture f t -> spec_matches f t ox oy sp ->
    exists im, produce_image T ox oy t = Ok im /\
      compile_textures pngfile png_dec T [SDir [(path, png_enc im)]]
        [{| we_path := path; we_specs := sp; we_loaded := LNone |}] = Ok [Some t].
  Proof.
    intros Hv (Sw & Sh & Sf & Shas & Sox & Soy).
    destruct (produce_image_ok f t ox oy Hv) as (argb & rows & Hp & Lr & Wr & Hargb & Hto & Hfrom).
    destruct Hv as (Hf & Hb & Hl).
    eexists. split; [exact Hp|].
    unfold compile_textures, apply_sources, finalize. cbn [fold_left apply_source map].
    unfold update_from_dir. cbn [we_path lookup_file]. rewrite Nat.eqb_refl. cbn [omap we_specs we_path].
    unfold finalize_entry. cbn [we_specs we_loaded].
    unfold load_img. rewrite png_lossless.
    cbn [s_ox s_oy s_w s_h s_fmt s_has iw ih image_map irows].
    rewrite !opt_nat_default, Sox, Soy.
    destruct (Nat.ltb_spec (t_w t + ox) ox); [lia|]. destruct (Nat.ltb_spec (t_h t + oy) oy); [lia|]. cbn [orb].
    replace (t_w t + ox - ox)%nat with (t_w t) by lia. replace (t_h t + oy - oy)%nat with (t_h t) by lia.
    rewrite (set_soft_agrees _ _ Sw), (set_soft_agrees _ _ Sh). cbn [opt_nat].
    rewrite !Nat.eqb_refl. cbn [andb negb]. rewrite Shas.
    cbn [obind fst snd].
    (* the decoded image, converted back to BGRA, cropped *)
    fold (image_map swap02 {| iw := t_w t + ox; ih := t_h t + oy; irows := pad ox oy (t_w t) rows |}).
    rewrite map_map.
    assert (Hrows : map (fun x => map swap02 (map swap02 x)) (pad ox oy (t_w t) rows) = pad ox oy (t_w t) rows).
    { rewrite <- (map_id (pad ox oy (t_w t) rows)) at 2. apply map_ext. intros r.
      rewrite map_map. rewrite <- (map_id r) at 2. apply map_ext. apply swap02_invol. }
    rewrite Hrows, (texture_roundtrip ox oy (t_w t) (t_h t) rows Lr Wr), Hargb.
    unfold validate_and_transcode. cbn [s_w s_h s_fmt t_w t_h t_fmt t_data].
    rewrite (check_dim_ok _ _ Sw), (check_dim_ok _ _ Sh). cbn [obind]. rewrite Sf.
    destruct (Z.eqb_spec (pt_fmt_num T f) (pt_fmt_num T Argb8888)) as [E|E].
    - apply fmt_num_inj in E. subst f. cbn [obind fst snd s_has s_w s_h s_fmt]. rewrite Shas.
      rewrite (set_soft_agrees _ _ Sw), (set_soft_agrees _ _ Sh), Sf. cbn [opt_nat opt_z].
      unfold to_argb in Hto. cbn in Hto. inversion Hto; subst argb.
      destruct t; cbn in *. subst. reflexivity.
    - rewrite !format_of_num_num. unfold to_argb at 1. change (pt_transcoders T) with true. cbn [negb obind].
      rewrite Hfrom. cbn [obind fst snd s_has s_w s_h s_fmt]. rewrite Shas.
      rewrite (set_soft_agrees _ _ Sw), (set_soft_agrees _ _ Sh), Sf. cbn [opt_nat opt_z].
      destruct t; cbn in *. subst. reflexivity.
  Qed.
End Png.

(* ------------------------------------------------------------------------------------------ *)
(* the per-pixel statements in the form used by Props/C17.v *)

Lemma rgb565_lossless p : 0 <= p < 2 ^ 16 -> (do c <- dec565 T p; enc565 T c) = Ok p.
Proof. intros H. destruct (good_565 p H) as (c & q & A & B & _). cbn [dec_px enc_px] in A, B. now rewrite A. Qed.

Lemma argb4444_lossless p : 0 <= p < 2 ^ 16 -> (do c <- dec4444 T p; enc4444 T c) = Ok p.
Proof. intros H. destruct (good_4444 p H) as (c & q & A & B & _). cbn [dec_px enc_px] in A, B. now rewrite A. Qed.

Lemma gray8_lossless g : 0 <= g < 2 ^ 8 -> (do c <- decG T g; encG T c) = Ok g.
Proof. intros H. destruct (good_gray g H) as (c & q & A & B & _). cbn [dec_px enc_px] in A, B. now rewrite A. Qed.

Lemma argb8888_lossless_do p : 0 <= p < 2 ^ 32 -> (do c <- dec8888 T p; enc8888 T c) = Ok p.
Proof. intros H. destruct (argb8888_lossless p H) as (c & A & B & _). now rewrite A. Qed.

Lemma through_png_lossless f p : 0 <= p < 256 ^ pt_bpp T f ->
  (do c <- dec_px T f p; do q <- enc8888 T c; do c' <- dec8888 T q; enc_px T f c') = Ok p.
Proof.
  intros H. destruct f.
  - destruct (argb8888_lossless p H) as (c & A & B & _). cbn [dec_px enc_px]. rewrite A. cbn [obind]. rewrite B. cbn [obind]. now rewrite A.
  - destruct (good_565 p H) as (c & q & A & B & C & _ & D). rewrite A. cbn [obind]. rewrite C. cbn [obind]. now rewrite D.
  - destruct (good_4444 p H) as (c & q & A & B & C & _ & D). rewrite A. cbn [obind]. rewrite C. cbn [obind]. now rewrite D.
  - destruct (good_gray p H) as (c & q & A & B & C & _ & D). rewrite A. cbn [obind]. rewrite C. cbn [obind]. now rewrite D.
Qed.

Lemma transcode_lossless_do f bs : bytes_ok bs -> (Nat.modulo (length bs) (bpp_nat T f) = 0)%nat ->
  (do a <- to_argb T f bs; from_argb T f a) = Ok bs.
Proof.
  intros Hb Hm. pose proof (bpp_pos f) as Hn.
  destruct (transcode_lossless f bs (Nat.div (length bs) (bpp_nat T f)) Hb) as (a & A & _ & B).
  - pose proof (Nat.div_mod (length bs) (bpp_nat T f)). lia.
  - now rewrite A.
Qed.
