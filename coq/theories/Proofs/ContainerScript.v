(* Proofs/ContainerScript.v -- script level: llir::read_instrs inverts llir::write_instrs, for the three
   ways a script's end is found (a recognisable end marker; an all-zero end marker that is only
   believed at the expected end offset or at end of input; no marker, only an end offset). *)
From TV Require Import Base.I32 Model.Container Proofs.ContainerLE Proofs.Container.
Open Scope Z_scope.

Fixpoint size_seq (f : fmt) (l : list instr) : Z :=
  match l with [] => 0 | i :: t => instr_size f i + size_seq f t end.

Lemma instr_size_pos f i : fmt_ok f = true -> 0 < instr_size f i.
Proof. intro OK. apply fmt_ok_spec in OK. assert (H := ok_hdr _ OK). unfold instr_size, alen. lia. Qed.

Lemma size_seq_nonneg f l : fmt_ok f = true -> 0 <= size_seq f l.
Proof. intro OK. induction l as [|i t IH]; cbn [size_seq]; [lia|]. assert (H := instr_size_pos f i OK). lia. Qed.

Lemma write_seq_fits f l : fmt_ok f = true -> Forall (fun i => fitsb f i = true) l ->
  exists bs, write_seq f l = Ok bs /\ Z.of_nat (length bs) = size_seq f l /\ (length l <= length bs)%nat.
Proof.
  intros OK. induction 1 as [|i t Hi Ht IH]; cbn [write_seq size_seq].
  - exists []. repeat split; auto.
  - destruct IH as (b & Hb & Hl & Hn). destruct (instr_readback f i [] OK Hi) as (a & Ha & Hne & Hsz & _).
    exists (a ++ b). rewrite Ha, Hb. cbn [obind]. repeat split.
    + rewrite app_length, Nat2Z.inj_add. lia.
    + rewrite app_length. cbn [length]. destruct a; [congruence|cbn [length]; lia].
Qed.

(* ---- reading a longer input ------------------------------------------------------------------- *)
Lemma read_fields_mono rs : forall bs v l rest,
  read_fields rs bs = Ok (v, l) -> read_fields rs (bs ++ rest) = Ok (v, l ++ rest).
Proof.
  induction rs as [|r t IH]; intros bs v l rest H; cbn [read_fields] in *.
  - inversion H; subst. reflexivity.
  - apply obind_ok in H as ([[g x] bs1] & H1 & H). apply obind_ok in H as ([v2 l2] & H2 & H).
    cbn [fst snd] in *. inversion H; subst.
    unfold read_field in *. destruct (take (ity_bytes (r_disk r)) bs) as [[a r1]|] eqn:E; [|discriminate].
    inversion H1; subst. rewrite (take_mono _ _ _ _ rest E). cbn [obind snd fst].
    rewrite (IH _ _ _ rest H2). reflexivity.
Qed.

Lemma read_instr_mono f bs k l rest : bs <> [] ->
  read_instr f bs = Ok (k, l) -> read_instr f (bs ++ rest) = Ok (k, l ++ rest).
Proof.
  intros Hne H. unfold read_instr in *.
  destruct bs as [|b0 bs']; [congruence|]. cbn [app]. rewrite andb_false_r in *.
  set (bs := b0 :: bs') in *. change (b0 :: bs' ++ rest) with (bs ++ rest).
  destruct (read_fields (firstn (f_tafter f) (f_read f)) bs) as [[v1 l1]| | |] eqn:R1; try discriminate.
  rewrite (read_fields_mono _ _ _ _ rest R1). cbn [obind fst snd] in *.
  destruct (is_tterminal f && negb (f_tafter_args f) && cond_vals v1 (f_tcond f)).
  { inversion H; subst. reflexivity. }
  destruct (read_fields (skipn (f_tafter f) (f_read f)) l1) as [[v2 l2]| | |] eqn:R2; try discriminate.
  rewrite (read_fields_mono _ _ _ _ rest R2). cbn [obind fst snd] in *.
  destruct (args_len f (v1 ++ v2)) as [n| | |]; try discriminate. cbn [obind] in *.
  destruct (ISIZE_MAX <? n); [discriminate|].
  destruct (Z.ltb_spec (Z.of_nat (length l2)) n); [discriminate|].
  destruct (Z.ltb_spec (Z.of_nat (length (l2 ++ rest))) n).
  { rewrite app_length, Nat2Z.inj_add in *. lia. }
  destruct (take (Z.to_nat n) l2) as [[args r3]|] eqn:T; [|discriminate].
  rewrite (take_mono _ _ _ _ rest T).
  destruct (is_tterminal f && f_tafter_args f && cond_vals (v1 ++ v2) (f_tcond f)).
  { inversion H; subst. reflexivity. }
  destruct (is_tmaybe f && cond_vals (v1 ++ v2) (f_tcond f)); inversion H; subst; reflexivity.
Qed.

(* ---- the loop over a written sequence --------------------------------------------------------- *)
Definition step_state (f : fmt) (s : option instr * list instr) (i : instr) : option instr * list instr :=
  if is_tmaybe f && looks_terminal f i then (Some i, snd s ++ opt_list (fst s))
  else (None, snd s ++ opt_list (fst s) ++ [i]).

Lemma step_flat f s i : snd (step_state f s i) ++ opt_list (fst (step_state f s i)) = (snd s ++ opt_list (fst s)) ++ [i].
Proof.
  unfold step_state. destruct (is_tmaybe f && looks_terminal f i); cbn [fst snd opt_list].
  - reflexivity.
  - now rewrite app_nil_r, app_assoc.
Qed.

Lemma fold_flat f l : forall s,
  snd (fold_left (step_state f) l s) ++ opt_list (fst (fold_left (step_state f) l s)) = (snd s ++ opt_list (fst s)) ++ l.
Proof.
  induction l as [|i t IH]; intro s; cbn [fold_left].
  - now rewrite app_nil_r.
  - rewrite IH, step_flat, <- app_assoc. reflexivity.
Qed.

Lemma fold_not_maybe f l s : is_tmaybe f = false -> fst s = None ->
  fold_left (step_state f) l s = (None, snd s ++ l).
Proof.
  intros M. revert s. induction l as [|i t IH]; intros [p a] Hp; cbn [fst snd] in *; subst p; cbn [fold_left].
  - now rewrite app_nil_r.
  - unfold step_state at 2. rewrite M. cbn [andb fst snd opt_list app].
    rewrite IH by reflexivity. cbn [snd]. now rewrite <- app_assoc.
Qed.

Definition end_allows (endo : option Z) (lim : Z) : Prop :=
  match endo with None => True | Some e => lim <= e end.

Lemma read_loop_seq f : fmt_ok f = true -> forall l, Forall (fun i => fitsb f i = true) l ->
  forall bs tail cur endo poss acc k,
  write_seq f l = Ok bs -> end_allows endo (cur + size_seq f l) ->
  read_loop (length l + k) f (bs ++ tail) cur endo poss acc =
  read_loop k f tail (cur + size_seq f l) endo
            (fst (fold_left (step_state f) l (poss, acc))) (snd (fold_left (step_state f) l (poss, acc))).
Proof.
  intros OK. induction 1 as [|i t Hi Ht IH]; intros bs tail cur endo poss acc k Hw He.
  - cbn in Hw. inversion Hw; subst. cbn [size_seq length fold_left fst snd app Nat.add]. now rewrite Z.add_0_r.
  - cbn [write_seq] in Hw. apply obind_ok in Hw as (a & Ha & Hw). apply obind_ok in Hw as (b & Hb & Hw).
    inversion Hw; subst bs.
    destruct (instr_readback f i (b ++ tail) OK Hi) as (a' & Ha' & _ & Hsz & Hr).
    rewrite Ha in Ha'. inversion Ha'; subst a'.
    cbn [length Nat.add read_loop size_seq] in *.
    assert (Hp := instr_size_pos f i OK). assert (Hn := size_seq_nonneg f t OK).
    rewrite <- app_assoc, Hr. cbn [obind fst snd].
    assert (Hstep : forall X, match endo with
              | Some e => if cur <? e then X else if cur =? e then Ok acc else Err E_PASTEND
              | None => X end = X).
    { intro X. destruct endo as [e|]; [|reflexivity]. cbn in He. destruct (Z.ltb_spec cur e); [reflexivity|lia]. }
    rewrite Hstep. cbn [fold_left].
    assert (He' : end_allows endo (cur + instr_size f i + size_seq f t)).
    { destruct endo; cbn in *; lia. }
    unfold kind_of. unfold step_state at 2 4. cbn [fst snd].
    destruct (is_tmaybe f && looks_terminal f i).
    + rewrite (IH b tail _ endo _ _ k Hb He'). now rewrite Z.add_assoc.
    + rewrite (IH b tail _ endo _ _ k Hb He'). now rewrite Z.add_assoc.
Qed.

Lemma fuel_split (n m : nat) : (n <= m)%nat -> exists k, m = (n + k)%nat.
Proof. intro H. exists (m - n)%nat. lia. Qed.

(* ---- (a) formats with a recognisable end marker ------------------------------------------------ *)
Theorem script_readback_terminal f l rest start endo :
  fmt_ok f = true -> f_tkind f = TTerminal -> Forall (fun i => fitsb f i = true) l ->
  end_allows endo (start + size_seq f l) ->
  exists bs, write_instrs f l = Ok bs /\ read_instrs f (bs ++ rest) start endo = Ok l.
Proof.
  intros OK K Hl He. destruct (write_seq_fits f l OK Hl) as (b & Hb & Hsz & Hlen).
  assert (OKp := fmt_ok_spec _ OK). assert (Ht := ok_term _ OKp). unfold term_reads_ok in Ht. rewrite K in Ht.
  destruct (term_bytes f) as [|t0 tb] eqn:ET; [discriminate|].
  destruct (read_instr f (t0 :: tb)) as [[[ | | | ] l2]| | |] eqn:RT; try discriminate.
  unfold write_instrs, write_terminal. rewrite Hb, K. cbn [obind]. fold (term_bytes f). rewrite ET.
  exists (b ++ t0 :: tb). split; [reflexivity|].
  unfold read_instrs.
  destruct (fuel_split (length l) (length ((b ++ t0 :: tb) ++ rest))) as [k Hk].
  { rewrite !app_length. lia. }
  rewrite Hk. replace (S (length l + k)) with (length l + S k)%nat by lia.
  rewrite <- app_assoc, (read_loop_seq f OK l Hl b _ start endo None [] (S k) Hb He).
  assert (M : is_tmaybe f = false) by (unfold is_tmaybe; now rewrite K).
  rewrite (fold_not_maybe f l (None, []) M eq_refl). cbn [fst snd app read_loop].
  assert (RT' := read_instr_mono f (t0 :: tb) _ _ rest ltac:(discriminate) RT).
  cbn [app] in RT'.
  destruct endo as [e|].
  - cbn in He. destruct (Z.ltb_spec (start + size_seq f l) e).
    + rewrite RT'. reflexivity.
    + destruct (Z.eqb_spec (start + size_seq f l) e); [reflexivity|lia].
  - rewrite RT'. reflexivity.
Qed.

(* ---- (b) formats whose end marker looks like an instruction (all zero) ----------------------- *)
Theorem script_readback_maybe f l rest start endo :
  fmt_ok f = true -> f_tkind f = TMaybe -> Forall (fun i => fitsb f i = true) l ->
  (endo = Some (start + size_seq f l + Z.of_nat (length (term_bytes f))) \/ (endo = None /\ rest = [])) ->
  exists bs, write_instrs f l = Ok bs /\ read_instrs f (bs ++ rest) start endo = Ok l.
Proof.
  intros OK K Hl He. destruct (write_seq_fits f l OK Hl) as (b & Hb & Hsz & Hlen).
  assert (OKp := fmt_ok_spec _ OK). assert (Ht := ok_term _ OKp). unfold term_reads_ok in Ht. rewrite K in Ht.
  destruct (term_bytes f) as [|t0 tb] eqn:ET; [discriminate|].
  destruct (read_instr f (t0 :: tb)) as [[[ |t| | ] [|? ?]]| | |] eqn:RT; try discriminate.
  apply andb_true_iff in Ht as [Hts Heof]. apply Z.eqb_eq in Hts.
  unfold write_instrs, write_terminal. rewrite Hb, K. cbn [obind]. fold (term_bytes f). rewrite ET.
  exists (b ++ t0 :: tb). split; [reflexivity|].
  unfold read_instrs.
  destruct (fuel_split (length l) (length ((b ++ t0 :: tb) ++ rest))) as [k Hk].
  { rewrite !app_length. lia. }
  assert (Hk1 : (1 <= k)%nat). { rewrite !app_length in Hk. cbn [length] in Hk. lia. }
  rewrite Hk. replace (S (length l + k)) with (length l + S k)%nat by lia.
  assert (Hend : end_allows endo (start + size_seq f l)).
  { destruct He as [->|[-> _]]; cbn; lia. }
  rewrite <- app_assoc, (read_loop_seq f OK l Hl b _ start endo None [] (S k) Hb Hend).
  assert (Hflat := fold_flat f l (None, [])). cbn [fst snd opt_list app] in Hflat.
  set (st := fold_left (step_state f) l (None, [])) in *.
  assert (RT' := read_instr_mono f (t0 :: tb) _ _ rest ltac:(discriminate) RT). cbn [app] in RT'.
  destruct k as [|k']; [lia|].
  destruct He as [->|[-> ->]].
  - cbn [read_loop app].
    destruct (Z.ltb_spec (start + size_seq f l) (start + size_seq f l + Z.of_nat (length (t0 :: tb)))); [|cbn [length] in *; lia].
    rewrite RT'. cbn [obind fst snd]. rewrite Hts.
    destruct (Z.ltb_spec (start + size_seq f l + Z.of_nat (length (t0 :: tb))) (start + size_seq f l + Z.of_nat (length (t0 :: tb)))); [lia|].
    rewrite Z.eqb_refl. now rewrite Hflat.
  - cbn [read_loop app]. rewrite RT'. cbn [obind fst snd read_loop]. unfold read_instr. rewrite Heof.
    cbn [andb obind fst]. now rewrite Hflat.
Qed.

(* ---- (c) formats without end marker: the caller supplies the end offset --------------------- *)
Theorem script_readback_noterm f l rest start :
  fmt_ok f = true -> f_tkind f = TNone -> Forall (fun i => fitsb f i = true) l ->
  exists bs, write_instrs f l = Ok bs /\ read_instrs f (bs ++ rest) start (Some (start + size_seq f l)) = Ok l.
Proof.
  intros OK K Hl. destruct (write_seq_fits f l OK Hl) as (b & Hb & Hsz & Hlen).
  unfold write_instrs. rewrite Hb, K. cbn [obind]. exists b. split; [reflexivity|].
  unfold read_instrs.
  destruct (fuel_split (length l) (length (b ++ rest))) as [k Hk].
  { rewrite !app_length. lia. }
  rewrite Hk. replace (S (length l + k)) with (length l + S k)%nat by lia.
  rewrite (read_loop_seq f OK l Hl b rest start _ None [] (S k) Hb); [|cbn; lia].
  assert (M : is_tmaybe f = false) by (unfold is_tmaybe; now rewrite K).
  rewrite (fold_not_maybe f l (None, []) M eq_refl). cbn [fst snd app read_loop].
  destruct (Z.ltb_spec (start + size_seq f l) (start + size_seq f l)); [lia|].
  now rewrite Z.eqb_refl.
Qed.
