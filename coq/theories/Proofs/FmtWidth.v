(* Proofs/FmtWidth.v -- the line width only changes white space and optional trailing commas:
   whatever the Formatter state machine does (inline attempt, backtracking, block layout), the
   tokens it has written are exactly the tokens of the document. *)
From TV Require Import Base.I32 Model.Fmt.
Open Scope Z_scope.

(* induction principle for the nested type [doc] *)
Section DocInd.
Variable P : doc -> Prop.
Hypothesis HT : forall t, P (DT t).
Hypothesis HS : forall n, P (DS n).
Hypothesis HC : forall s, P (DC s).
Hypothesis HNl : P DNl.
Hypothesis HIn : P DIndent.
Hypothesis HDe : P DDedent.
Hypothesis HLabel : forall b, P b -> P (DLabel b).
Hypothesis HSupp : P DSuppBlank.
Hypothesis HPre : P DIntrPre.
Hypothesis HPost : P DIntrPost.
Hypothesis HSeq : forall l, Forall P l -> P (DSeq l).
Hypothesis HList : forall op cl items, Forall P items -> P (DList op cl items).
Hypothesis HPanic : forall t, P (DPanic t).

Fixpoint doc_ind2 (d : doc) : P d :=
  match d with
  | DT t => HT t | DS n => HS n | DC s => HC s | DNl => HNl | DIndent => HIn | DDedent => HDe
  | DLabel b => HLabel b (doc_ind2 b)
  | DSuppBlank => HSupp | DIntrPre => HPre | DIntrPost => HPost
  | DSeq l => HSeq l ((fix go (l : list doc) : Forall P l :=
                         match l with [] => Forall_nil P | x :: r => Forall_cons x (doc_ind2 x) (go r) end) l)
  | DList op cl items =>
      HList op cl items ((fix go (l : list doc) : Forall P l :=
                            match l with [] => Forall_nil P | x :: r => Forall_cons x (doc_ind2 x) (go r) end) items)
  | DPanic t => HPanic t
  end.
End DocInd.

Lemma otoks_nt_app a b : otoks_nt (a ++ b) = otoks_nt a ++ otoks_nt b.
Proof. induction a as [|x a IH]; [reflexivity|]. destruct x; cbn [app otoks_nt]; rewrite ?IH; reflexivity. Qed.

(* tokens of a most-recent-first item list, in writing order *)
Definition rtoks (l : list oitem) : list token := otoks_nt (rev l).

Lemma rtoks_cons x l : rtoks (x :: l) = rtoks l ++ otoks_nt [x].
Proof. unfold rtoks. cbn [rev]. apply otoks_nt_app. Qed.

Lemma rtoks_app a b : rtoks (a ++ b) = rtoks b ++ rtoks a.
Proof. unfold rtoks. rewrite rev_app_distr. apply otoks_nt_app. Qed.

Arguments rtoks : simpl never.

Definition ltoks (st : fstate) : list token := rtoks (f_out st) ++ rtoks (f_line st).

(* when nothing is pending the line buffer holds indentation only *)
Definition wf (st : fstate) : Prop := f_pending st = false -> rtoks (f_line st) = [].

Lemma rtoks_indent n : rtoks (indent_items n) = [].
Proof. destruct n; reflexivity. Qed.

Section Spec.
Variable target : nat.

Definition post (st : fstate) (toks : list token) (r : res) : Prop :=
  match r with
  | ROk st' => wf st' /\ f_depth st' = f_depth st /\ ltoks st' = ltoks st ++ toks
               /\ (0 < f_depth st -> f_out st' = f_out st)%nat
  | RBack st' => f_depth st' = f_depth st /\ (0 < f_depth st -> f_out st' = f_out st)%nat
  | _ => True
  end.

Definition spec (d : doc) : Prop := forall st, wf st -> post st (dtoks d) (run target d st).

Lemma post_app_item st o :
  post st (otoks_nt [o]) (ROk (app_item o st)).
Proof.
  unfold post, app_item, wf, ltoks; cbn. repeat split; try discriminate; auto.
  rewrite rtoks_cons, app_assoc. reflexivity.
Qed.

Lemma post_next_line st : wf st -> post st [] (next_line st).
Proof.
  intros Hwf. unfold next_line.
  destruct (Nat.ltb 0 (f_depth st)) eqn:Hd.
  - cbn. split; [reflexivity|intros; reflexivity].
  - apply Nat.ltb_ge in Hd.
    assert (Hno : (0 < f_depth st)%nat -> False) by (intros H; apply (Nat.lt_irrefl 0); eapply Nat.lt_le_trans; eauto).
    destruct (f_supp st && negb (f_pending st)).
    + unfold post, wf, ltoks in *; cbn [f_out f_line f_pending f_depth]. rewrite app_nil_r. repeat split; auto.
    + unfold post, wf, ltoks; cbn [f_out f_line f_pending f_depth]. rewrite app_nil_r. repeat split; auto.
      * intros _. apply rtoks_indent.
      * rewrite rtoks_indent, app_nil_r, rtoks_cons. cbn [otoks_nt]. rewrite app_nil_r, rtoks_app.
        destruct (f_pending st) eqn:Hp; [reflexivity|].
        unfold wf in Hwf. rewrite (Hwf Hp). reflexivity.
      * intros H. destruct (Hno H).
Qed.

Lemma post_add_indent st up : wf st -> post st [] (add_indent up st).
Proof.
  intros Hwf. unfold add_indent.
  destruct (f_pending st) eqn:Hp; cbn [orb]; [exact I|].
  destruct (f_islabel st); cbn [orb]; [exact I|].
  assert (Hl : rtoks (f_line st) = []) by (apply Hwf; exact Hp).
  destruct up.
  - cbn. unfold wf, ltoks; cbn. rewrite rtoks_indent, Hl, !app_nil_r. repeat split; auto.
  - destruct (Nat.ltb (f_indent st) 4); [exact I|].
    cbn. unfold wf, ltoks; cbn. rewrite rtoks_indent, Hl, !app_nil_r. repeat split; auto.
Qed.

Lemma post_check_long st : wf st -> post st [] (check_long target st).
Proof.
  intros Hwf. unfold check_long.
  destruct (Nat.ltb 0 (f_depth st) && Nat.ltb target (items_len (f_line st))); cbn; auto.
  rewrite app_nil_r. auto.
Qed.

(* sequencing *)
Lemma post_bind st t1 t2 r k :
  post st t1 r ->
  (forall st1, r = ROk st1 -> wf st1 -> post st1 t2 (k st1)) ->
  post st (t1 ++ t2) (rbind r k).
Proof.
  intros H1 H2. destruct r as [st1|st1|tag|]; cbn [rbind]; try exact I.
  - destruct H1 as (Hwf1 & Hd1 & Ht1 & Ho1).
    specialize (H2 st1 eq_refl Hwf1).
    destruct (k st1) as [st2|st2|tag|]; cbn in *; try exact I.
    + destruct H2 as (Hwf2 & Hd2 & Ht2 & Ho2). repeat split; auto.
      * congruence.
      * rewrite Ht2, Ht1, app_assoc. reflexivity.
      * intros H. rewrite Ho2, Ho1; auto. rewrite Hd1. exact H.
    + destruct H2 as (Hd2 & Ho2). split; [congruence|].
      intros H. rewrite Ho2, Ho1; auto. rewrite Hd1. exact H.
  - exact H1.
Qed.

Lemma spec_seq l : Forall spec l ->
  forall st, wf st ->
  post st (flat_map dtoks l)
    ((fix seq (l : list doc) (st : fstate) : res :=
        match l with [] => ROk st | x :: r => rbind (run target x st) (seq r) end) l st).
Proof.
  induction 1 as [|x r Hx Hr IH]; intros st Hwf.
  - cbn. rewrite app_nil_r. auto.
  - cbn [flat_map]. apply post_bind.
    + apply Hx; exact Hwf.
    + intros st1 _ Hwf1. apply IH; exact Hwf1.
Qed.

Lemma post_transfer st0 st toks r :
  f_depth st0 = f_depth st -> f_out st0 = f_out st -> ltoks st0 = ltoks st ->
  post st0 toks r -> post st toks r.
Proof.
  intros Hd Ho Hl. destruct r as [st'|st'|tag|]; cbn; auto.
  - rewrite Hd, Ho, Hl. auto.
  - rewrite Hd, Ho. auto.
Qed.

Lemma post_same st st' :
  f_out st' = f_out st -> f_line st' = f_line st -> f_pending st' = f_pending st -> f_depth st' = f_depth st ->
  wf st -> post st [] (ROk st').
Proof.
  intros Ho Hl Hp Hd Hwf. unfold post, wf, ltoks in *. rewrite Ho, Hl, Hp, Hd, app_nil_r. repeat split; auto.
Qed.

Lemma post_ok_bind st st1 t1 t2 k :
  post st t1 (ROk st1) -> (wf st1 -> post st1 t2 (k st1)) -> post st (t1 ++ t2) (k st1).
Proof.
  intros H1 H2. change (k st1) with (rbind (ROk st1) k). apply post_bind; [exact H1|].
  intros st2 E Hwf. injection E as <-. apply H2. exact Hwf.
Qed.

(* the tokens of a list in either layout *)
Fixpoint itoks (first : bool) (l : list doc) : list token :=
  match l with
  | [] => []
  | x :: r => (if first then [] else [TFix ","]) ++ dtoks x ++ itoks false r
  end.

Fixpoint btoks (l : list doc) : list token :=
  match l with
  | [] => []
  | x :: r => dtoks x ++ (match r with [] => [] | _ => [TFix ","] end) ++ btoks r
  end.

Lemma sep_by_cons {A} (sep : list A) x l :
  sep_by sep (x :: l) = x ++ flat_map (fun y => sep ++ y) l.
Proof.
  revert x. induction l as [|y l IH]; intros x.
  - cbn. rewrite app_nil_r. reflexivity.
  - change (sep_by sep (x :: y :: l)) with (x ++ sep ++ sep_by sep (y :: l)).
    rewrite IH. cbn [flat_map]. rewrite <- !app_assoc. reflexivity.
Qed.

Lemma itoks_false l : itoks false l = flat_map (fun y => [TFix ","] ++ y) (map dtoks l).
Proof. induction l as [|x l IH]; [reflexivity|]. cbn [itoks map flat_map]. rewrite IH, <- app_assoc. reflexivity. Qed.

Lemma itoks_sep l : itoks true l = sep_by [TFix ","] (map dtoks l).
Proof.
  destruct l as [|x l]; [reflexivity|].
  cbn [itoks map]. rewrite sep_by_cons, itoks_false. reflexivity.
Qed.

Lemma btoks_sep l : btoks l = sep_by [TFix ","] (map dtoks l).
Proof.
  destruct l as [|x l]; [reflexivity|].
  cbn [map]. rewrite sep_by_cons. revert x.
  induction l as [|y l IH]; intros x.
  - cbn. rewrite !app_nil_r. reflexivity.
  - change (btoks (x :: y :: l)) with (dtoks x ++ [TFix ","] ++ btoks (y :: l)).
    rewrite IH. cbn [map flat_map]. rewrite <- !app_assoc. reflexivity.
Qed.

Lemma spec_inline_items l : Forall spec l ->
  forall first st, wf st ->
  post st (itoks first l)
    ((fix go (first : bool) (l : list doc) (st : fstate) : res :=
        match l with
        | [] => ROk st
        | x :: r =>
            let st := if first then st else app_item (OS 1) (app_item (OT (TFix ",")) st) in
            rbind (run target x st) (fun st => rbind (check_long target st) (go false r))
        end) first l st).
Proof.
  induction 1 as [|x r Hx Hr IH]; intros first st Hwf.
  - cbn. rewrite app_nil_r. auto.
  - cbn [itoks].
    set (st0 := if first then st else app_item (OS 1) (app_item (OT (TFix ",")) st)).
    assert (H0 : post st (if first then [] else [TFix ","]) (ROk st0)).
    { subst st0. destruct first.
      - apply post_same; auto.
      - change [TFix ","] with ([TFix ","] ++ @nil token).
        apply (post_ok_bind st (app_item (OT (TFix ",")) st) [TFix ","] [] (fun s => ROk (app_item (OS 1) s))).
        + apply (post_app_item st (OT (TFix ","))).
        + intros _. apply (post_app_item _ (OS 1)). }
    apply (post_ok_bind st st0 _ _ (fun s => rbind (run target x s) (fun st => rbind (check_long target st) _))); [exact H0|].
    intros Hwf0. apply post_bind; [apply Hx; exact Hwf0|].
    intros st1 _ Hwf1.
    change (itoks false r) with ([] ++ itoks false r).
    apply post_bind; [apply post_check_long; exact Hwf1|].
    intros st2 _ Hwf2. apply IH. exact Hwf2.
Qed.

Lemma spec_block_items l : Forall spec l ->
  forall st, wf st ->
  post st (btoks l)
    ((fix go (l : list doc) (st : fstate) : res :=
        match l with
        | [] => ROk st
        | x :: r =>
            rbind (run target x st) (fun st =>
              rbind (next_line (app_item (match r with [] => OTrail | _ => OT (TFix ",") end) st)) (go r))
        end) l st).
Proof.
  induction 1 as [|x r Hx Hr IH]; intros st Hwf.
  - cbn. rewrite app_nil_r. auto.
  - cbn [btoks]. apply post_bind; [apply Hx; exact Hwf|].
    intros st1 _ Hwf1.
    set (o := match r with [] => OTrail | _ => OT (TFix ",") end).
    assert (Ho : otoks_nt [o] = match r with [] => [] | _ => [TFix ","] end) by (subst o; destruct r; reflexivity).
    rewrite <- Ho.
    apply (post_ok_bind st1 (app_item o st1) _ _ (fun s => rbind (next_line s) _)); [apply post_app_item|].
    intros Hwf2. change (btoks r) with ([] ++ btoks r).
    apply post_bind; [apply post_next_line; exact Hwf2|].
    intros st3 _ Hwf3. apply IH. exact Hwf3.
Qed.

Lemma wf_set_depth st d : wf st -> wf (set_depth st d).
Proof. unfold wf. cbn. auto. Qed.

Theorem run_spec : forall d, spec d.
Proof.
  induction d using doc_ind2; intros st Hwf.
  - apply (post_app_item st (OT t)).
  - apply (post_app_item st (OS n)).
  - apply (post_app_item st (OC s)).
  - apply post_next_line; exact Hwf.
  - apply post_add_indent; exact Hwf.
  - apply post_add_indent; exact Hwf.
  - (* DLabel *)
    cbn [run dtoks].
    destruct (f_islabel st) eqn:Hl; [exact I|].
    destruct (Nat.ltb 0 (f_depth st)); [exact I|].
    destruct (f_pending st) eqn:Hp.
    + rewrite <- (app_nil_r (dtoks d)). apply post_bind; [apply IHd; exact Hwf|].
      intros st1 _ Hwf1. apply (post_app_item st1 (OS 1)).
    + rewrite <- (app_nil_r (dtoks d)).
      set (st0 := mkF (f_out st) [] false (f_indent st) true (f_depth st) (f_supp st) (f_previntr st)).
      apply (post_transfer st0 st); try reflexivity.
      { unfold ltoks, st0. cbn [f_out f_line]. rewrite (Hwf Hp). reflexivity. }
      apply post_bind.
      * apply IHd. unfold wf, st0. cbn. reflexivity.
      * intros st1 _ Hwf1. destruct (f_islabel st1); [apply post_next_line; exact Hwf1|exact I].
  - apply post_same; auto.
  - cbn [run dtoks]. destruct (f_previntr st); [apply post_same; auto|apply post_next_line; exact Hwf].
  - apply post_same; auto.
  - apply spec_seq; assumption.
  - (* DList *)
    cbn [run dtoks].
    set (d0 := f_depth st).
    set (sta := app_item (OT op) (set_depth st (S d0))).
    match goal with |- post st _ (match ?a with _ => _ end) => set (attempt := a) end.
    assert (Ha : post (set_depth st (S d0)) ([op] ++ itoks true items ++ [cl] ++ []) attempt).
    { subst attempt.
      apply (post_ok_bind (set_depth st (S d0)) sta [op] _ (fun s => rbind _ _)); [apply (post_app_item _ (OT op))|].
      intros Hwfa. apply post_bind; [apply spec_inline_items; assumption|].
      intros st1 _ Hwf1.
      apply (post_ok_bind st1 (app_item (OT cl) st1) [cl] [] (check_long target)); [apply (post_app_item _ (OT cl))|].
      intros Hwf2. apply post_check_long; exact Hwf2. }
    rewrite app_nil_r in Ha.
    assert (Htoks : op :: sep_by [TFix ","] (map dtoks items) ++ [cl] = [op] ++ itoks true items ++ [cl])
      by (rewrite itoks_sep; reflexivity).
    rewrite Htoks.
    destruct attempt as [st'|st'|tag|]; try exact I.
    + cbn in Ha. destruct Ha as (Hwf' & Hd' & Ht' & Ho').
      unfold post. cbn [set_depth f_depth f_out f_line f_pending]. repeat split.
      * apply wf_set_depth; exact Hwf'.
      * exact Ht'.
      * intros _. apply Ho'. apply Nat.lt_0_succ.
    + cbn in Ha. destruct Ha as (Hd' & Ho'). specialize (Ho' (Nat.lt_0_succ _)).
      destruct d0 as [|d1] eqn:Ed0.
      * (* backtrack to the block layout *)
        set (st1 := app_item (OT op) (set_line (set_depth st' O) (f_line st))).
        assert (H1 : post st [op] (ROk st1)).
        { unfold post, st1, wf, ltoks. cbn [app_item set_line set_depth f_out f_line f_pending f_depth].
          rewrite Ho', rtoks_cons. cbn [otoks_nt]. rewrite app_assoc. repeat split; auto. discriminate. }
        replace (itoks true items) with (btoks items) by (rewrite btoks_sep, itoks_sep; reflexivity).
        apply (post_ok_bind st st1 [op] _ (fun s => rbind (next_line s) _)); [exact H1|].
        intros Hw1. change (btoks items ++ [cl]) with ([] ++ btoks items ++ [cl]).
        apply post_bind; [apply post_next_line; exact Hw1|].
        intros st2 _ Hw2. change (btoks items ++ [cl]) with ([] ++ btoks items ++ [cl]).
        apply post_bind; [apply post_add_indent; exact Hw2|].
        intros st3 _ Hw3. apply post_bind; [apply spec_block_items; assumption|].
        intros st4 _ Hw4. change [cl] with ([] ++ [cl]).
        apply post_bind; [apply post_add_indent; exact Hw4|].
        intros st5 _ Hw5. apply (post_app_item st5 (OT cl)).
      * unfold post. cbn [set_depth f_depth f_out]. split; [symmetry; exact Ed0|]. intros _. exact Ho'.
  - exact I.
Qed.

End Spec.

(* the statement about complete renderings *)
Theorem render_tokens : forall w d its,
  render_items w d = Ok its -> otoks_nt its = dtoks d.
Proof.
  intros w d its. unfold render_items.
  destruct w as [|target]; [discriminate|].
  pose proof (run_spec target d init_state) as H.
  assert (Hwf : wf init_state) by (unfold wf; reflexivity).
  specialize (H Hwf).
  destruct (run target d init_state) as [st|st|tag|]; try discriminate.
  intros E. injection E as <-.
  destruct H as (Hwf' & _ & Ht & _).
  unfold ltoks in Ht. cbn in Ht.
  rewrite rev_app_distr, otoks_nt_app.
  change (otoks_nt (rev (f_out st))) with (rtoks (f_out st)).
  destruct (f_pending st) eqn:Hp.
  - exact Ht.
  - rewrite (Hwf' Hp), app_nil_r in Ht. cbn. rewrite app_nil_r. exact Ht.
Qed.

Corollary width_irrelevant_tokens : forall w w' d its its',
  render_items w d = Ok its -> render_items w' d = Ok its' -> otoks_nt its = otoks_nt its'.
Proof. intros. erewrite !render_tokens by eassumption. reflexivity. Qed.
