(* Proofs/FmtTables.v -- tie 1 for C08: the tables gen/fmttables.py reads out of the current sources
   (Gen/FmtTables.v) are the tables the hand-written models use.  Every statement is closed and decided
   by computation; an edit of the lexer's token list or regexes, of an operator spelling, of the
   precedence tiers, of the escape tables ... makes this file fail to compile. *)
From TV Require Import Base.I32 Gen.FmtTables Model.Fmt Model.FmtLex Model.FmtParse Spec.Fmt.
Open Scope Z_scope.

Fixpoint slist_eqb (a b : list string) : bool :=
  match a, b with
  | [], [] => true
  | x :: a', y :: b' => String.eqb x y && slist_eqb a' b'
  | _, _ => false
  end.
Fixpoint sslist_eqb (a b : list (list string)) : bool :=
  match a, b with
  | [], [] => true
  | x :: a', y :: b' => slist_eqb x y && sslist_eqb a' b'
  | _, _ => false
  end.
Fixpoint pairs_eqb (a b : list (string * string)) : bool :=
  match a, b with
  | [], [] => true
  | (x1, x2) :: a', (y1, y2) :: b' => String.eqb x1 y1 && String.eqb x2 y2 && pairs_eqb a' b'
  | _, _ => false
  end.

(* the regular expressions the lexer specification was written against *)
Definition expected_regexes : list (string * string) :=
  [("LitString", """([^\\""]|\\.)*""");
   ("LitFloat", "[0-9]+(\.([0-9]*f|[0-9]+)|f)");
   ("LitRad", "rad\([-+]?[0-9]+(\.([0-9]*f|[0-9]+)|f)?\)");
   ("LitInt", "[0-9]+|0[xX][0-9a-fA-F]+|0[bB][0-1]+");
   ("DifficultyStr", "![-*ENHLWXYZO4567]+");
   ("Instr", "ins_[a-zA-Z0-9_]*");
   ("Ident", "[a-zA-Z_][a-zA-Z0-9_]*")]%string.
Definition expected_skips : list string :=
  ["\s+"; "//[^\n\r]*[\n\r]*"; "/\*([^*]|\**[^*/])*\*+/"; "/\*([^*]|\*+[^*/])*\*?"]%string.

Fixpoint nassoc (n : nat) (l : list (nat * string)) : option string :=
  match l with [] => None | (k, v) :: t => if Nat.eqb n k then Some v else nassoc n t end.
Fixpoint nnassoc (n : nat) (l : list (nat * nat)) : option nat :=
  match l with [] => None | (k, v) :: t => if Nat.eqb n k then Some v else nnassoc n t end.

(* escape_char agrees with the printer's table on all 256 bytes *)
Definition escapes_ok : bool :=
  forallb (fun n => String.eqb (escape_char (ascii_of_nat n))
                      (match nassoc n gen_escapes with Some s => s | None => str1 (ascii_of_nat n) end))
          (seq 0 256).

(* unescape agrees with parse_string_literal's table on all 256 bytes after a backslash *)
Definition unescapes_ok : bool :=
  forallb (fun n => match unescape (String "\" (String (ascii_of_nat n) EmptyString)), nnassoc n gen_unescapes with
                    | Ok s, Some m => String.eqb s (str1 (ascii_of_nat m))
                    | Err _, None => true
                    | _, _ => false
                    end)
          (seq 0 256).

Definition tables_ok : bool :=
  slist_eqb gen_fixed_tokens (puncts ++ keywords)
  && pairs_eqb gen_regexes expected_regexes
  && slist_eqb (map fst gen_skip_regexes) expected_skips
  && slist_eqb gen_BinOpKind binops
  && slist_eqb gen_print_prefix_unops prefix_unops
  && slist_eqb gen_print_fn_unops fn_unops
  && forallb (fun s => mem_str s (prefix_unops ++ fn_unops)) gen_UnOpKind
  && forallb (fun s => mem_str s puncts) gen_AssignOpKind
  && slist_eqb gen_XcrementOpKind ["++"; "--"]%string
  && sslist_eqb gen_tiers tiers
  && slist_eqb gen_left_unops left_unops
  && pairs_eqb gen_func_unops func_unops
  && slist_eqb gen_label_props label_props
  && slist_eqb gen_LabelPropertyKeyword label_props
  && slist_eqb gen_contextual contextual
  && slist_eqb gen_pseudo_kinds pseudo_kinds
  && forallb (fun s => mem_str s pseudo_kinds) gen_PseudoArgKind
  && escapes_ok && unescapes_ok
  && pairs_eqb (map (fun p => (fst p, if Nat.eqb (snd p) 16 then "16" else if Nat.eqb (snd p) 2 then "2" else if Nat.eqb (snd p) 10 then "10" else "?")%string) gen_int_prefixes)
               [("0x", "16"); ("0X", "16"); ("0b", "2"); ("0B", "2"); ("", "10")]%string
  && Nat.eqb gen_indent 4.

Theorem tables_match : tables_ok = true.
Proof. vm_compute. reflexivity. Qed.
