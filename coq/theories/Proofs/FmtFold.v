(* Proofs/FmtFold.v -- what the parser gives back for a printed expression ([unfold]) denotes the
   same script as the expression that was printed: equal after folding literal signs and reading the
   builtin constants as their values.  NaNs other than the canonical one are excluded (finding #11). *)
From TV Require Import Base.I32 Gen.FmtTables Model.Fmt Model.FmtLex Model.FmtParse Spec.Fmt
  Proofs.FmtLits Proofs.FmtLexP Proofs.FmtLitRT Proofs.FmtExprLex.
Open Scope Z_scope.

(* literal values are in range *)
Fixpoint lits_ok (e : fexpr) : bool :=
  match e with
  | FTern c l r => lits_ok c && lits_ok l && lits_ok r
  | FBin a _ b => lits_ok a && lits_ok b
  | FUn _ x => lits_ok x
  | FCall _ ps args => forallb (fun p => lits_ok (snd p)) ps && forallb lits_ok args
  | FDiff cs => forallb (fun c => match c with Some x => lits_ok x | None => true end) cs
  | FLitI v _ => in_i32b v
  | FLitF b => (0 <=? b) && (b <? two32)
  | _ => true
  end.

Lemma fold_unfold_int v f : in_i32 v -> fold (unfold_int v f) = FLitI v dec_fmt.
Proof.
  intros Hv.
  assert (Hneg : v < 0 -> fold (FUn "-" (FLitI (wrap32 (u32 (- v))) dec_fmt)) = FLitI v dec_fmt).
  { intros H. cbn. rewrite wrap_neg by assumption. reflexivity. }
  destruct f as [[] []]; cbn [unfold_int];
    repeat match goal with
    | |- context [if ?c =? ?d then _ else _] => let E := fresh "E" in destruct (c =? d) eqn:E; [apply Z.eqb_eq in E; subst; reflexivity|]
    | |- context [if ?c <? ?d then _ else _] => let E := fresh "E" in destruct (c <? d) eqn:E; [apply Z.ltb_lt in E; apply Hneg; exact E|]
    end; reflexivity.
Qed.

Lemma fold_unfold_float b : 0 <= b < two32 -> (f_is_nan b = false \/ b = NAN_BITS) -> fold (unfold_float b) = FLitF b.
Proof.
  intros Hb Hn. unfold unfold_float.
  destruct (f_is_nan b) eqn:Hnan.
  - destruct Hn as [Hn| ->]; [discriminate|reflexivity].
  - unfold f_is_nan in Hnan. apply Z.ltb_ge in Hnan.
    assert (Habs : 0 <= f_abs b < 2147483648) by (unfold f_abs; apply Z.mod_pos_bound; lia).
    assert (Hsplit : b = f_abs b + (if f_sign b then 2147483648 else 0)).
    { unfold f_abs, f_sign, two32 in *. destruct (2147483648 <=? b) eqn:E; [apply Z.leb_le in E|apply Z.leb_gt in E]; lia. }
    assert (Hnn : f_is_nan (f_abs b) = false) by (unfold f_is_nan, f_abs; rewrite Z.mod_mod by lia; apply Z.ltb_ge; exact Hnan).
    assert (Hsa : f_sign (f_abs b) = false) by (unfold f_sign; apply Z.leb_gt; lia).
    destruct (f_is_inf b) eqn:Einf.
    + unfold f_is_inf in Einf. apply Z.eqb_eq in Einf.
      destruct (f_sign b); cbn; f_equal; unfold INF_BITS; lia.
    + destruct (f_sign b).
      * cbn [fold]. cbn [String.eqb Ascii.eqb Bool.eqb]. cbn iota. cbn [fold]. unfold fold_neg. rewrite Hnn, Hsa. f_equal. lia.
      * cbn [fold]. f_equal. lia.
Qed.

Lemma map_ext_Forall {A B} (f g : A -> B) l : Forall (fun x => f x = g x) l -> map f l = map g l.
Proof. induction 1 as [|x l Hx _ IH]; [reflexivity|]. cbn. rewrite Hx, IH. reflexivity. Qed.

Theorem fold_unfold : forall e, lits_ok e = true -> no_odd_nan e = true -> fold (unfold e) = fold e.
Proof.
  induction e using fexpr_ind2; intros Hl Hn; cbn [lits_ok no_odd_nan] in *.
  - apply andb_true_iff in Hl as [Hl Hl3]. apply andb_true_iff in Hl as [Hl1 Hl2].
    apply andb_true_iff in Hn as [Hn Hn3]. apply andb_true_iff in Hn as [Hn1 Hn2].
    cbn [unfold fold]. rewrite IHe1, IHe2, IHe3 by assumption. reflexivity.
  - apply andb_true_iff in Hl as [Hl1 Hl2]. apply andb_true_iff in Hn as [Hn1 Hn2].
    cbn [unfold fold]. rewrite IHe1, IHe2 by assumption. reflexivity.
  - cbn [unfold fold]. rewrite IHe by assumption. reflexivity.
  - reflexivity.
  - reflexivity.
  - apply andb_true_iff in Hl as [Hl1 Hl2]. apply andb_true_iff in Hn as [Hn1 Hn2].
    cbn [unfold fold]. rewrite !map_map. f_equal.
    + apply map_ext_Forall. rewrite forallb_forall in Hl1, Hn1. rewrite Forall_forall in H |- *.
      intros p Hp. cbn. rewrite (H p Hp) by auto. reflexivity.
    + apply map_ext_Forall. rewrite forallb_forall in Hl2, Hn2. rewrite Forall_forall in H0 |- *.
      intros a Ha. apply H0; auto.
  - cbn [unfold fold]. rewrite map_map. f_equal.
    apply map_ext_Forall. rewrite forallb_forall in Hl, Hn. rewrite Forall_forall in H |- *.
    intros c Hc. destruct c as [x|]; [|reflexivity]. rewrite (H (Some x) Hc) by (apply (Hl (Some x) Hc) || apply (Hn (Some x) Hc)). reflexivity.
  - cbn [unfold]. rewrite fold_unfold_int by (apply in_i32b_spec; exact Hl). reflexivity.
  - cbn [unfold]. apply andb_true_iff in Hl as [H1 H2]. apply Z.leb_le in H1. apply Z.ltb_lt in H2.
    rewrite fold_unfold_float; [reflexivity|lia|].
    apply orb_true_iff in Hn as [Hn|Hn]; [left; apply negb_true_iff; exact Hn|right; apply Z.eqb_eq; exact Hn].
  - reflexivity.
  - reflexivity.
  - reflexivity.
Qed.
